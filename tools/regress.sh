#!/bin/sh
# tools/regress.sh <outfile> : for every "fixed:" line of KNOWN_FINDINGS.txt revert that fix in a
# scratch worktree and run the property's quick check against it (expected: exit 1).
out="$1"; : > "$out"
grep '^fixed:' /verif/KNOWN_FINDINGS.txt | while read -r _ prop hash rest; do
	p=${prop#property=}
	timeout 1200 /verif/tools/try_patch.sh "revert:$hash" "$p" quick 2>&1 | grep RESULT >> "$out" || echo "RESULT patch=revert:$hash check=$p TIMEOUT-OR-ERROR" >> "$out"
done
echo DONE >> "$out"
