#!/usr/bin/env python3
"""Regenerates /verif/MANIFEST.json from tools/manifest_meta.json and the list of
checks linked into the driver (./check list). Properties without a linked check go
to not_applicable with the reason given in manifest_meta.json."""
import json, subprocess, os, sys
root = os.path.dirname(os.path.dirname(os.path.abspath(__file__)))
os.chdir(root)
meta = json.load(open('tools/manifest_meta.json'))
ids = [json.loads(l)['id'] for l in open('properties.jsonl')]
listed = {}
for line in subprocess.check_output(['./check', 'list'], text=True).splitlines():
    parts = line.split()
    if parts and parts[0].startswith('C'):
        listed[parts[0]] = dict(p.split('=') for p in parts[1:])
hooks = subprocess.check_output(['git', '-C', '/repo', 'log', '--format=%h', '--grep=^verif hooks'], text=True).split()
m = {
    "version": 1,
    "setup_cmd": "./check setup",
    "hooks": {
        "guard": "verif",
        "enable": "go build -tags verif (module verif in /verif, replace github.com/graphql-go/graphql => /repo); hook package github.com/graphql-go/graphql/verifhook plus verif_export.go",
        "baseline_off_cmd": "cd /repo && go test -vet=off -count=1 -timeout 25m ./...",
        "source_commits": list(reversed(hooks)),
        "add_only": True,
    },
    "engines": [{"name": "vcheck", "path": "cmd/vcheck", "serves_properties": sorted(listed), "kind_free_text": "runtime-monitoring driver: parent spawns child processes per batch; children run the real library under instrumented callbacks, verif hooks and (for C07, C15, C16, C20) the Go race detector; oracles are independent reference models, trace checkers and comparators"}],
    "checks": [],
    "not_applicable": [],
    "notes": "All checks: ./check <ID> quick|thorough ; replay: ./check replay <file>. Known findings: KNOWN_FINDINGS.txt. Design: DESIGN.md.",
}
for i in ids:
    if i in listed:
        mm = meta['checks'][i]
        m['checks'].append({
            "property_id": i,
            "quick_cmd": "./check %s quick" % i,
            "thorough_cmd": "./check %s thorough" % i,
            "evidence_file": "/verif/evidence/%s.json" % i,
            "replay_cmd_template": "./check replay {path}",
            "engine": "vcheck",
            "level_claimed": {"category": listed[i]['level'], "text": mm['text'], "design_ref": "DESIGN.md section 4, " + i},
            "level_note": mm['note'],
            "technique": mm['technique'],
        })
    else:
        m['not_applicable'].append({"property_id": i, "reason": meta['pending'].get(i, "check not built yet")})
json.dump(m, open('MANIFEST.json', 'w'), indent=1)
print("checks:", len(m['checks']), "not_applicable:", len(m['not_applicable']))
