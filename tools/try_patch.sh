#!/bin/sh
# tools/try_patch.sh <patch-file> <PROP> [tier] [reverse]
# Applies a patch to a throw-away worktree of /repo (never to /repo itself), runs the
# library's own test suite there, then runs ./check PROP against that worktree and
# prints the verdicts. Removes the worktree afterwards.
set -u
patch="$1"; prop="$2"; tier="${3:-quick}"; rev="${4:-}"
export GOFLAGS=-mod=mod GOPROXY=off GOSUMDB=off GOTOOLCHAIN=local
wt="/tmp/scratch/try-$$"
mkdir -p /tmp/scratch
git -C /repo worktree add -q --detach "$wt" HEAD || exit 4
tag=$(printf %s "$wt" | cksum | cut -d' ' -f1)
cleanup() { git -C /repo worktree remove --force "$wt" >/dev/null 2>&1; rm -f /verif/.build/*-alt-$tag* /verif/.build/alt-$tag.*; }
trap cleanup EXIT
case "$patch" in revert:*)
	h=${patch#revert:}
	git -C "$wt" -c user.email=x@x -c user.name=x revert --no-commit "$h" >/dev/null 2>&1 || { echo "RESULT patch=$patch REVERT-CONFLICT"; exit 4; }
	;;
*)
if [ "$rev" = reverse ]; then
	git -C "$wt" apply -R --3way "$patch" >/dev/null 2>&1 || git -C "$wt" apply -R "$patch" || { echo "RESULT patch=$patch APPLY-FAILED"; exit 4; }
else
	git -C "$wt" apply "$patch" 2>/dev/null || git -C "$wt" apply --3way "$patch" >/dev/null 2>&1 || { echo "RESULT patch=$patch APPLY-FAILED"; exit 4; }
fi
;;
esac
(cd "$wt" && go build ./... ) || { echo "RESULT patch=$patch BUILD-FAILED"; exit 4; }
suite=pass
(cd "$wt" && go test -vet=off -count=1 ./... >/tmp/scratch/suite-$$.log 2>&1) || suite=FAIL
if [ $suite = FAIL ]; then
	# TestContextDeadline is a wall-clock test that flakes under load: retry once
	(cd "$wt" && go test -vet=off -count=1 ./... >/tmp/scratch/suite-$$.log 2>&1) && suite=pass
fi
[ $suite = FAIL ] && grep -E "^(--- FAIL|FAIL)" /tmp/scratch/suite-$$.log | head -5
rm -f /tmp/scratch/suite-$$.log
for p in $prop; do
	out=$(cd /verif && VERIF_REPO="$wt" ./check "$p" "$tier" 2>&1); code=$?
	sigs=$(printf '%s\n' "$out" | sed -n 's/^  sig=//p' | sort -u | head -6 | tr '\n' ' ')
	echo "RESULT patch=$patch suite=$suite check=$p tier=$tier exit=$code sigs=[$sigs]"
done
