#!/bin/sh
# tools/confirm_seeded.sh <mutant-dir> : confirm, in a throw-away worktree of /repo, that the
# demonstration of a seeded change passes WITHOUT the patch and fails WITH it, and that the
# library's own suite still passes with it. Prints one CONFIRM line.
set -u
dir="$1"
export GOFLAGS=-mod=mod GOPROXY=off GOSUMDB=off GOTOOLCHAIN=local
demo="$dir/demo_test.go"
[ -f "$demo" ] || demo="$dir/demo_test.go.txt"
[ -f "$demo" ] || { echo "CONFIRM dir=$dir NO-DEMO"; exit 4; }
pkgline=$(grep -m1 '^package ' "$demo" | awk '{print $2}')
case "$pkgline" in
graphql_test|graphql) sub=. ;;
parser_test|parser) sub=language/parser ;;
printer_test|printer) sub=language/printer ;;
visitor_test|visitor) sub=language/visitor ;;
lexer_test|lexer) sub=language/lexer ;;
*) sub=. ;;
esac
tests=$(grep -o '^func Test[A-Za-z0-9_]*' "$demo" | sed 's/func //' | paste -sd'|')
race=""
grep -qi -- '-race' "$dir/RUN.md" 2>/dev/null && race="-race"
wt="/tmp/scratch/confirm-$$"
mkdir -p /tmp/scratch
git -C /repo worktree add -q --detach "$wt" HEAD || exit 4
trap 'git -C /repo worktree remove --force "$wt" >/dev/null 2>&1' EXIT
cp "$demo" "$wt/$sub/zz_seeded_demo_test.go"
run() { (cd "$wt" && timeout 900 go test $race -vet=off -count=1 -run "^($tests)\$" "./$sub" >/tmp/scratch/confirm-$$.log 2>&1); }
without=FAIL; run && without=pass
git -C "$wt" apply "$dir/patch.diff" 2>/dev/null || git -C "$wt" apply --3way "$dir/patch.diff" >/dev/null 2>&1 || { echo "CONFIRM dir=$dir APPLY-FAILED"; exit 4; }
with=pass; run || with=FAIL
rm -f "$wt/$sub/zz_seeded_demo_test.go"
suite=pass
(cd "$wt" && go test -vet=off -count=1 ./... >/tmp/scratch/confirm-$$.log 2>&1) || { (cd "$wt" && go test -vet=off -count=1 ./... >/tmp/scratch/confirm-$$.log 2>&1) || suite=FAIL; }
rm -f /tmp/scratch/confirm-$$.log
echo "CONFIRM dir=$dir pkg=$sub race=${race:-no} demo_without_patch=$without demo_with_patch=$with suite_with_patch=$suite"
