#!/bin/sh
# tools/wave_stage.sh <out-dir of a sub-agent, e.g. /tmp/wt/w6-C01-out> <PROP> [extra checks...]
# Stages each delivered change under /tmp/stage/<PROP>-<k>/, confirms it (tools/confirm_seeded.sh)
# and runs the property's quick check against it (tools/try_patch.sh). Prints CONFIRM and RESULT lines.
out="$1"; prop="$2"; shift 2; extra="$*"
mkdir -p /tmp/stage
for m in "$out"/m*; do
	[ -d "$m" ] || continue
	k=$(basename "$m")
	st="/tmp/stage/$prop-w6$k"
	rm -rf "$st"; mkdir -p "$st"
	cp "$m/patch.diff" "$st/patch.diff"
	for f in "$m"/*_test.go; do [ -f "$f" ] && cp "$f" "$st/demo_test.go.txt"; done
	[ -f "$m/RUN.md" ] && cp "$m/RUN.md" "$st/RUN.md"
	[ -f "$m/notes.md" ] && cp "$m/notes.md" "$st/notes.md"
	/verif/tools/confirm_seeded.sh "$st" 2>&1 | grep CONFIRM
	/verif/tools/try_patch.sh "$st/patch.diff" "$prop $extra" quick 2>&1 | grep RESULT
done
