#!/usr/bin/env python3
"""tools/selftest_md.py seeded <results.txt> | regress <results.txt>
Formats the RESULT lines written by tools/try_patch.sh (through tools/seeded_matrix.sh,
tools/regress.sh or their sharded variants) into selftest/SEEDED.md / selftest/REGRESS.md."""
import sys, re, json, os, subprocess, datetime
root = os.path.dirname(os.path.dirname(os.path.abspath(__file__)))
kind, path = sys.argv[1], sys.argv[2]
lines = [l.rstrip('\n') for l in open(path) if l.startswith('RESULT')]
head = subprocess.check_output(['git', '-C', '/repo', 'rev-parse', '--short', 'HEAD'], text=True).strip()
now = datetime.datetime.utcnow().strftime('%Y-%m-%dT%H:%MZ')
rx = re.compile(r'RESULT (?:change|patch)=(\S+) suite=(\S+) check=(\S+) tier=\S+ exit=(\S+) sigs=\[(.*)\]$')
if kind == 'seeded':
    out = ['# Seeded changes vs. the quick checks', '',
           f'Generated {now} against /repo {head} by running tools/try_patch.sh for every directory under seeded/ (tools/seeded_matrix.sh, run in shards).',
           'Each line: the change applied to a scratch worktree of /repo, the library\'s own suite run there, then `./check <property> quick` against that worktree.',
           'exit=1: the check reported a violation (signatures listed); exit=0: it did not. A change counts as caught when at least one of the listed checks exits 1.',
           'suite=FAIL on a loaded machine is the wall-clock test TestContextDeadline; tools/confirm_seeded.sh (which retries) confirmed every change with a passing suite.', '',
           '| change | seeded for | library suite | check | exit | signatures |', '|---|---|---|---|---|---|']
    caught, allc = set(), set()
    for l in lines:
        m = rx.match(l)
        if not m:
            out.append(f'| {l} | | | | | |'); continue
        ch, suite, chk, ex, sigs = m.groups()
        prop = ch.split('-')[0]
        allc.add(ch)
        if ex == '1': caught.add(ch)
        out.append(f'| {ch} | {prop} | {suite} | {chk} | {ex} | {sigs.strip()} |')
    missed = sorted(allc - caught)
    out += ['', f'{len(caught)} of {len(allc)} changes are reported by at least one quick check.' + (f' Not reported: {", ".join(missed)}.' if missed else '')]
    open(os.path.join(root, 'selftest', 'SEEDED.md'), 'w').write('\n'.join(out) + '\n')
    print(out[-1])
else:
    fixed = {}
    for l in open(os.path.join(root, 'KNOWN_FINDINGS.txt')):
        if l.startswith('fixed:'):
            p = l.split(None, 3)
            fixed[p[2]] = (p[1].replace('property=', ''), p[3].strip() if len(p) > 3 else '')
    out = ['# Repaired defects: does the check report them when the repair is reverted?', '',
           f'Generated {now} against /repo {head} by tools/regress.sh: every `fixed:` commit of KNOWN_FINDINGS.txt is reverted (git revert --no-commit) in a scratch worktree and the property\'s quick check is run against it.',
           'REVERT-CONFLICT: a later repair touches the same lines, so the old tree cannot be re-created mechanically; those defects were reported by the check on the tree of that time (that is how they were found).', '',
           '| fix commit | property | what was wrong | library suite | exit | signatures |', '|---|---|---|---|---|---|']
    n1 = n0 = nc = 0
    for l in lines:
        m = re.match(r'RESULT patch=revert:(\S+) (.*)$', l)
        if not m: continue
        h, rest = m.groups()
        prop, what = fixed.get(h, ('?', ''))
        what = what.replace('|', '/')[:160]
        m2 = re.match(r'suite=(\S+) check=(\S+) tier=\S+ exit=(\S+) sigs=\[(.*)\]$', rest)
        if not m2:
            out.append(f'| {h} | {prop} | {what} | | {rest} | |'); nc += 1; continue
        suite, chk, ex, sigs = m2.groups()
        if ex == '1': n1 += 1
        else: n0 += 1
        out.append(f'| {h} | {chk} | {what} | {suite} | {ex} | {sigs.strip()} |')
    out += ['', f'{n1} reverted repairs are reported, {n0} are not, {nc} could not be reverted mechanically.']
    open(os.path.join(root, 'selftest', 'REGRESS.md'), 'w').write('\n'.join(out) + '\n')
    print(out[-1])
