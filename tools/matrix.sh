#!/bin/sh
# tools/matrix.sh <outfile> <dir:"PROPS"> ...   run try_patch for each seeded mutant
out="$1"; shift
: > "$out"
for m in "$@"; do
	d=${m%%:*}; p=${m##*:}
	timeout 2400 /verif/tools/try_patch.sh "$d/patch.diff" "$p" quick 2>&1 | grep RESULT >> "$out" || echo "RESULT patch=$d TIMEOUT-OR-ERROR" >> "$out"
done
echo DONE >> "$out"
