package main

import (
	"verif/internal/core"
	_ "verif/internal/props/c20"
)

func main() { core.Main() }
