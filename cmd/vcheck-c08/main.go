// vcheck-c08 is the driver linked with the C08 check only (development and
// stand-alone runs): VCHECK_CMD=./cmd/vcheck-c08 ./check C08 quick
package main

import (
	"verif/internal/core"
	_ "verif/internal/props/c08"
)

func main() { core.Main() }
