package main

import (
	"verif/internal/core"
	_ "verif/internal/props/c01"
)

func main() { core.Main() }
