package main

import (
	"verif/internal/core"
	_ "verif/internal/props/c18"
)

func main() { core.Main() }
