package main

import (
	"verif/internal/core"
	_ "verif/internal/props/c10"
)

func main() { core.Main() }
