package main

import (
	"verif/internal/core"
	_ "verif/internal/props/c09"
)

func main() { core.Main() }
