package main

import (
	"verif/internal/core"
	_ "verif/internal/props/c05"
)

func main() { core.Main() }
