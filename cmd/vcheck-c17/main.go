// vcheck-c17 links only the C17 check into the driver (development and
// stand-alone runs: VCHECK_CMD=./cmd/vcheck-c17 ./check C17 quick).
package main

import (
	"verif/internal/core"
	_ "verif/internal/props/c17"
)

func main() { core.Main() }
