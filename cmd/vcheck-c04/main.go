package main

import (
	"verif/internal/core"
	_ "verif/internal/props/c04"
)

func main() { core.Main() }
