// vcheck-c14 links only the C14 check into the driver (development / stand-alone runs):
//
//	VCHECK_CMD=./cmd/vcheck-c14 ./check C14 quick
//
// Development aid: `vcheck-c14 profile <cpu.prof> <tier> <seed> <batch> <nbatches> <outdir>`
// runs one child under the CPU profiler.
package main

import (
	"os"
	"runtime/pprof"
	"strconv"

	"verif/internal/core"
	_ "verif/internal/props/c14"
)

func main() {
	if len(os.Args) == 8 && os.Args[1] == "profile" {
		f, err := os.Create(os.Args[2])
		if err != nil {
			panic(err)
		}
		seed, _ := strconv.ParseUint(os.Args[4], 10, 64)
		batch, _ := strconv.Atoi(os.Args[5])
		nb, _ := strconv.Atoi(os.Args[6])
		pprof.StartCPUProfile(f)
		code := core.RunChild("C14", os.Args[3], seed, batch, nb, "", os.Args[7])
		pprof.StopCPUProfile()
		f.Close()
		os.Exit(code)
	}
	core.Main()
}
