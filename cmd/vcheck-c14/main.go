// vcheck-c14 links only the C14 check into the driver (development / stand-alone runs):
//
//	VCHECK_CMD=./cmd/vcheck-c14 ./check C14 quick
package main

import (
	"verif/internal/core"
	_ "verif/internal/props/c14"
)

func main() { core.Main() }
