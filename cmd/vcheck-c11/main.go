// vcheck-c11 links only the C11 check into the driver (development and
// calibration): VCHECK_CMD=./cmd/vcheck-c11 ./check C11 quick
package main

import (
	"verif/internal/core"
	_ "verif/internal/props/c11"
)

func main() { core.Main() }
