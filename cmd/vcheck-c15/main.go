// vcheck-c15 links only the C15 check into the driver (development / stand-alone use).
package main

import (
	"verif/internal/core"
	_ "verif/internal/props/c15"
)

func main() { core.Main() }
