package main

import (
	"verif/internal/core"
	_ "verif/internal/props/c07"
)

func main() { core.Main() }
