package main

import (
	"fmt"
	"time"

	"github.com/graphql-go/graphql/language/parser"
	"github.com/graphql-go/graphql/language/source"
	"verif/internal/gen/bytegen"
	"verif/internal/ref/syntax"
)

func main() {
	n := uint64(200000)
	base := uint64(700000)
	t0 := time.Now()
	for i := uint64(0); i < n; i++ {
		s := bytegen.TokenSeq(base+i, 4)
		syntax.Parse([]byte(s))
	}
	fmt.Println("ref per parse", time.Since(t0)/time.Duration(n))
	t0 = time.Now()
	for i := uint64(0); i < n; i++ {
		s := bytegen.TokenSeq(base+i, 4)
		parser.Parse(parser.ParseParams{Source: &source.Source{Body: []byte(s), Name: "x"}})
	}
	fmt.Println("lib per parse", time.Since(t0)/time.Duration(n))
	t0 = time.Now()
	for i := uint64(0); i < n; i++ {
		s := bytegen.TokenSeq(base+i, 4)
		syntax.Undefined([]byte(s))
	}
	fmt.Println("undefined per call", time.Since(t0)/time.Duration(n))
}
