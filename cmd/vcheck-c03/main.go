// vcheck-c03 is the driver with only check C03 linked in (development).
package main

import (
	"verif/internal/core"
	_ "verif/internal/props/c03"
)

func main() { core.Main() }
