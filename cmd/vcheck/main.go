// vcheck is the driver of the runtime-monitoring checks (DESIGN.md section 3).
//
//	vcheck run -prop C03 -tier quick     parent: spawns child processes, aggregates, writes evidence
//	vcheck child ...                     one batch (internal)
//	vcheck replay <file>                 re-run the case of a replay file
package main

import (
	"verif/internal/core"
	_ "verif/internal/props"
)

func main() { core.Main() }
