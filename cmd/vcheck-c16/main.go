// vcheck-c16 links only the C16 check into the driver (development / stand-alone use).
package main

import (
	"verif/internal/core"
	_ "verif/internal/props/c16"
)

func main() { core.Main() }
