package main

import (
	"verif/internal/core"
	_ "verif/internal/props/c02"
)

func main() { core.Main() }
