package main

import (
	"verif/internal/core"
	_ "verif/internal/props/c06"
)

func main() { core.Main() }
