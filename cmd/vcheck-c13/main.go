package main

import (
	"verif/internal/core"
	_ "verif/internal/props/c13"
)

func main() { core.Main() }
