package main

import (
	"verif/internal/core"
	_ "verif/internal/props/c12"
)

func main() { core.Main() }
