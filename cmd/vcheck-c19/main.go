package main

import (
	"verif/internal/core"
	_ "verif/internal/props/c19"
)

func main() { core.Main() }
