package core

import (
	"flag"
	"fmt"
	"os"
	"strconv"
)

// Main is the command line of the driver; every cmd/vcheck* main calls it
// after linking the property packages it wants.
func Main() {
	if len(os.Args) < 2 {
		fmt.Println("usage: vcheck run|child|replay|list ...")
		os.Exit(4)
	}
	exe, _ := os.Executable()
	exeRace := os.Getenv("VCHECK_RACE_BIN")
	if exeRace == "" {
		exeRace = exe
	}
	plain := os.Getenv("VCHECK_BIN")
	if plain == "" {
		plain = exe
	}
	switch os.Args[1] {
	case "list":
		for _, id := range AllIDs() {
			c := Lookup(id)
			fmt.Printf("%s race=%v level=%s\n", id, c.Race, c.Level)
		}
	case "needs-race":
		c := Lookup(os.Args[2])
		if c != nil && c.Race {
			fmt.Println("yes")
		} else {
			fmt.Println("no")
		}
	case "run":
		fs := flag.NewFlagSet("run", flag.ExitOnError)
		prop := fs.String("prop", "", "property id")
		tier := fs.String("tier", "quick", "quick|thorough")
		seed := fs.Uint64("seed", envSeed(), "seed")
		fs.Parse(os.Args[2:])
		os.Exit(RunParent(*prop, *tier, *seed, "", 0, plain, exeRace))
	case "child":
		fs := flag.NewFlagSet("child", flag.ExitOnError)
		prop := fs.String("prop", "", "")
		tier := fs.String("tier", "quick", "")
		seed := fs.Uint64("seed", 1, "")
		batch := fs.Int("batch", 0, "")
		nb := fs.Int("nbatches", 1, "")
		only := fs.String("only", "", "")
		out := fs.String("out", ".", "")
		fs.Parse(os.Args[2:])
		os.Exit(RunChild(*prop, *tier, *seed, *batch, *nb, *only, *out))
	case "replay":
		if len(os.Args) < 3 {
			fmt.Println("usage: vcheck replay <file>")
			os.Exit(4)
		}
		os.Exit(RunReplay(os.Args[2], plain, exeRace))
	default:
		fmt.Println("unknown command", os.Args[1])
		os.Exit(4)
	}
}

func envSeed() uint64 {
	if s := os.Getenv("VERIF_SEED"); s != "" {
		if v, err := strconv.ParseUint(s, 10, 64); err == nil {
			return v
		}
		if v, err := strconv.ParseInt(s, 10, 64); err == nil {
			return uint64(v)
		}
	}
	return 1
}
