package core

import (
	"bufio"
	"bytes"
	"crypto/sha256"
	"encoding/binary"
	"encoding/hex"
	"encoding/json"
	"fmt"
	"os"
	"os/exec"
	"path/filepath"
	"sort"
	"strconv"
	"strings"
	"sync"
	"syscall"
	"time"
)

// Aggregate is what the parent collected from all children.
type Aggregate struct {
	Check      *Check
	Tier       string
	Seed       uint64
	Evals      int64
	Hashes     map[uint64]struct{}
	Features   map[string]int64
	DontCare   map[string]int64
	Extra      map[string]float64
	MaxExtra   map[string]float64
	Samples    []interface{}
	Violations []Violation
	Inconcl    []string
	Digests    map[string]map[string][]int // key -> digest -> batches
	Crashed    int
	TimedOut   int
}

// Root is /verif (directory holding MANIFEST.json), found from the executable
// or the VERIF_ROOT variable.
func Root() string {
	if r := os.Getenv("VERIF_ROOT"); r != "" {
		return r
	}
	return "/verif"
}

type finding struct {
	prop, sig, text string
}

func loadFindings() []finding {
	var out []finding
	b, err := os.ReadFile(filepath.Join(Root(), "KNOWN_FINDINGS.txt"))
	if err != nil {
		return nil
	}
	for _, line := range strings.Split(string(b), "\n") {
		line = strings.TrimSpace(line)
		if !strings.HasPrefix(line, "finding:") {
			continue
		}
		rest := strings.TrimSpace(strings.TrimPrefix(line, "finding:"))
		text := ""
		if i := strings.Index(rest, "::"); i >= 0 {
			text = strings.TrimSpace(rest[i+2:])
			rest = rest[:i]
		}
		f := finding{text: text}
		for _, kv := range strings.Fields(rest) {
			if strings.HasPrefix(kv, "property=") {
				f.prop = strings.TrimPrefix(kv, "property=")
			}
			if strings.HasPrefix(kv, "sig=") {
				f.sig = strings.TrimPrefix(kv, "sig=")
			}
		}
		if f.prop != "" && f.sig != "" {
			out = append(out, f)
		}
	}
	return out
}

// RunParent is the entry point of `vcheck run`. It returns the exit code.
func RunParent(prop, tier string, seed uint64, only string, onlyBatch int, exe, exeRace string) int {
	chk := Lookup(prop)
	if chk == nil {
		fmt.Println("unknown property", prop)
		return 4
	}
	start := time.Now()
	nb := chk.Batches(tier)
	if nb < 1 {
		nb = 1
	}
	outDir := filepath.Join(Root(), ".build", "runs", fmt.Sprintf("%s-%s-%d-%d", prop, tier, seed, os.Getpid()))
	os.RemoveAll(outDir)
	if err := os.MkdirAll(outDir, 0o755); err != nil {
		fmt.Println("cannot create run dir:", err)
		return 4
	}
	bin := exe
	if chk.Race {
		bin = exeRace
	}
	timeout := 20 * time.Minute
	if chk.ChildTimeout != nil {
		timeout = chk.ChildTimeout(tier)
	}
	// The watchdog is no verdict (a firing is inconclusive unless confirmed), so
	// it only has to be generous: on a machine shared with other jobs a thorough
	// child was seen to need more than its 25 minutes. Runaway executions are
	// ended much earlier by the step envelopes and the resource guards.
	if floor := 45 * time.Minute; tier != "thorough" && timeout < floor {
		timeout = floor
	}
	if floor := 4 * time.Hour; tier == "thorough" && timeout < floor {
		timeout = floor
	}
	par := 16
	if chk.MaxParallel > 0 {
		par = chk.MaxParallel
	}
	if v, err := strconv.Atoi(os.Getenv("VERIF_PAR")); err == nil && v > 0 {
		par = v
	}
	agg := &Aggregate{Check: chk, Tier: tier, Seed: seed, Hashes: map[uint64]struct{}{}, Features: map[string]int64{},
		DontCare: map[string]int64{}, Extra: map[string]float64{}, MaxExtra: map[string]float64{}, Digests: map[string]map[string][]int{}}

	batches := []int{}
	for i := 0; i < nb; i++ {
		if only != "" && i != onlyBatch {
			continue
		}
		batches = append(batches, i)
	}
	type childRes struct {
		batch    int
		timedOut bool
		exitErr  error
	}
	results := make([]childRes, len(batches))
	sem := make(chan struct{}, par)
	var wg sync.WaitGroup
	for idx, b := range batches {
		wg.Add(1)
		sem <- struct{}{}
		go func(idx, b int) {
			defer wg.Done()
			defer func() { <-sem }()
			to, err := runChildProc(bin, prop, tier, seed, b, nb, only, outDir, timeout)
			results[idx] = childRes{batch: b, timedOut: to, exitErr: err}
		}(idx, b)
	}
	wg.Wait()

	for _, r := range results {
		done, last := agg.readChild(outDir, r.batch)
		if done {
			// A -race child that finished still exits 66 when the detector
			// reported races; those reports are in its stderr file.
			if r.exitErr != nil || chk.Race {
				for _, v := range raceReports(filepath.Join(outDir, fmt.Sprintf("child_%d.err", r.batch)), r.batch, last) {
					agg.Violations = append(agg.Violations, v)
				}
			}
			continue
		}
		errText := readTail(filepath.Join(outDir, fmt.Sprintf("child_%d.err", r.batch)), 6000)
		if r.timedOut {
			agg.TimedOut++
			// confirm by an isolated re-run of the last journalled case
			if last != "" && only == "" {
				to2, _ := runChildProc(bin, prop, tier, seed, r.batch, nb, last, outDir, timeout)
				done2, _ := agg.readChild(outDir, r.batch)
				if to2 && !done2 {
					agg.Violations = append(agg.Violations, Violation{Sig: "hang", Msg: "child exceeded the watchdog twice (also when the last journalled case was re-run alone)", Case: last, Batch: r.batch, Detail: map[string]interface{}{"stderr_tail": errText}})
					continue
				}
			}
			agg.Inconcl = append(agg.Inconcl, fmt.Sprintf("batch %d: watchdog fired (last case %q), not confirmed by isolated re-run", r.batch, last))
			continue
		}
		agg.Crashed++
		site := crashSite(errText)
		agg.Violations = append(agg.Violations, Violation{Sig: "crash:" + site, Msg: "child process died: " + firstLine(errText), Case: last, Batch: r.batch, Detail: map[string]interface{}{"stderr_tail": errText, "exit": fmt.Sprint(r.exitErr)}})
	}
	if chk.Post != nil && only == "" {
		agg.Violations = append(agg.Violations, chk.Post(agg)...)
	}
	code := agg.finish(start, outDir, only != "")
	if code == 0 && os.Getenv("VERIF_KEEP") == "" {
		os.RemoveAll(outDir)
	}
	return code
}

func firstLine(s string) string {
	for _, l := range strings.Split(s, "\n") {
		if strings.HasPrefix(l, "panic:") || strings.HasPrefix(l, "fatal error:") || strings.Contains(l, "DATA RACE") {
			return l
		}
	}
	if i := strings.Index(s, "\n"); i >= 0 {
		return s[:i]
	}
	return s
}

func crashSite(stderr string) string {
	kind := "exit"
	if strings.Contains(stderr, "fatal error:") {
		kind = "fatal"
		if i := strings.Index(stderr, "fatal error:"); i >= 0 {
			l := stderr[i:]
			if j := strings.Index(l, "\n"); j > 0 {
				l = l[:j]
			}
			kind = strings.ReplaceAll(strings.TrimSpace(strings.TrimPrefix(l, "fatal error:")), " ", "_")
		}
	} else if strings.Contains(stderr, "panic:") {
		kind = "panic"
	}
	for _, l := range strings.Split(stderr, "\n") {
		if strings.HasPrefix(l, "github.com/graphql-go/graphql") {
			fn := l
			if i := strings.LastIndex(fn, "("); i > 0 {
				fn = fn[:i]
			}
			return kind + ":" + strings.TrimPrefix(fn, "github.com/graphql-go/graphql")
		}
	}
	return kind
}

func readTail(path string, n int) string {
	b, err := os.ReadFile(path)
	if err != nil {
		return ""
	}
	// keep the head (panic message + first stack) rather than the tail
	if len(b) > n {
		b = b[:n]
	}
	return string(b)
}

func runChildProc(bin, prop, tier string, seed uint64, batch, nb int, only, outDir string, timeout time.Duration) (timedOut bool, err error) {
	args := []string{"child", "-prop", prop, "-tier", tier, "-seed", strconv.FormatUint(seed, 10), "-batch", strconv.Itoa(batch), "-nbatches", strconv.Itoa(nb), "-out", outDir}
	if only != "" {
		args = append(args, "-only", only)
	}
	cmd := exec.Command(bin, args...)
	ef, _ := os.Create(filepath.Join(outDir, fmt.Sprintf("child_%d.err", batch)))
	defer ef.Close()
	cmd.Stderr = ef
	cmd.Stdout = ef
	cmd.Env = append(os.Environ(), "GOTRACEBACK=all")
	if err := cmd.Start(); err != nil {
		return false, err
	}
	doneCh := make(chan error, 1)
	go func() { doneCh <- cmd.Wait() }()
	select {
	case err = <-doneCh:
		return false, err
	case <-time.After(timeout):
		cmd.Process.Signal(syscall.SIGQUIT) // goroutine dump into the .err file
		select {
		case err = <-doneCh:
		case <-time.After(10 * time.Second):
			cmd.Process.Kill()
			err = <-doneCh
		}
		return true, err
	}
}

// readChild merges one child's records; returns whether the child finished
// and the last journalled case id.
func (a *Aggregate) readChild(outDir string, batch int) (done bool, last string) {
	f, err := os.Open(filepath.Join(outDir, fmt.Sprintf("child_%d.jsonl", batch)))
	if err != nil {
		return false, ""
	}
	defer f.Close()
	var viols []Violation
	var stat *childStat
	var inc []string
	type dg struct{ k, d string }
	var dgs []dg
	sc := bufio.NewScanner(f)
	sc.Buffer(make([]byte, 1<<20), 1<<28)
	for sc.Scan() {
		line := sc.Bytes()
		if bytes.HasPrefix(line, []byte(`{"t":"b"`)) {
			var r record
			if json.Unmarshal(line, &r) == nil {
				last = r.ID
			}
			continue
		}
		var r record
		if err := json.Unmarshal(line, &r); err != nil {
			continue
		}
		switch r.T {
		case "v":
			if r.V != nil {
				viols = append(viols, *r.V)
			}
		case "s":
			stat = r.Stat
		case "d":
			done = true
		case "i":
			inc = append(inc, fmt.Sprintf("batch %d case %s: %s", batch, r.ID, r.Msg))
		case "g":
			dgs = append(dgs, dg{r.Key, r.Digest})
		}
	}
	a.Violations = append(a.Violations, viols...)
	a.Inconcl = append(a.Inconcl, inc...)
	for _, d := range dgs {
		m := a.Digests[d.k]
		if m == nil {
			m = map[string][]int{}
			a.Digests[d.k] = m
		}
		m[d.d] = append(m[d.d], batch)
	}
	if stat != nil {
		a.Evals += stat.Evals
		for k, v := range stat.Features {
			a.Features[k] += v
		}
		for k, v := range stat.DontCare {
			a.DontCare[k] += v
		}
		for k, v := range stat.Extra {
			a.Extra[k] += v
		}
		for k, v := range stat.MaxExtra {
			if old, ok := a.MaxExtra[k]; !ok || v > old {
				a.MaxExtra[k] = v
			}
		}
		if len(a.Samples) < 10 {
			a.Samples = append(a.Samples, stat.Samples...)
			if len(a.Samples) > 10 {
				a.Samples = a.Samples[:10]
			}
		}
	}
	if hb, err := os.ReadFile(filepath.Join(outDir, fmt.Sprintf("child_%d.hashes", batch))); err == nil {
		for i := 0; i+8 <= len(hb); i += 8 {
			a.Hashes[binary.LittleEndian.Uint64(hb[i:])] = struct{}{}
		}
	}
	return done, last
}

func (a *Aggregate) finish(start time.Time, outDir string, replay bool) int {
	chk := a.Check
	findings := loadFindings()
	known := map[string]finding{}
	for _, f := range findings {
		if f.prop == chk.ID {
			known[f.sig] = f
		}
	}
	var unlisted []Violation
	hit := map[string]int{}
	for _, v := range a.Violations {
		if _, ok := known[v.Sig]; ok {
			hit[v.Sig]++
			continue
		}
		unlisted = append(unlisted, v)
	}
	sigs := make([]string, 0, len(hit))
	for s := range hit {
		sigs = append(sigs, s)
	}
	sort.Strings(sigs)
	for _, s := range sigs {
		fmt.Printf("KNOWN-FINDING: property=%s %s (sig=%s, hit %d times in this run)\n", chk.ID, known[s].text, s, hit[s])
	}
	// replay files for unlisted violations (one per signature, up to 5)
	written := map[string]bool{}
	nrep := 0
	for _, v := range unlisted {
		if written[v.Sig] || nrep >= 5 {
			continue
		}
		written[v.Sig] = true
		nrep++
		rep := map[string]interface{}{"property": chk.ID, "tier": a.Tier, "seed": a.Seed, "batch": v.Batch, "nbatches": chk.Batches(a.Tier), "case": v.Case, "sig": v.Sig, "msg": v.Msg, "detail": v.Detail}
		b, _ := json.MarshalIndent(rep, "", " ")
		h := sha256.Sum256([]byte(v.Sig + "\x00" + v.Case + "\x00" + strconv.FormatUint(a.Seed, 10)))
		dir := filepath.Join(Root(), "replay", chk.ID)
		os.MkdirAll(dir, 0o755)
		path := filepath.Join(dir, hex.EncodeToString(h[:6])+".json")
		os.WriteFile(path, b, 0o644)
		fmt.Printf("VIOLATION property=%s replay=%s\n", chk.ID, path)
		fmt.Printf("  sig=%s\n  %s\n", v.Sig, v.Msg)
	}
	if len(unlisted) > nrep {
		fmt.Printf("  (%d violation records in total, %d distinct signatures)\n", len(unlisted), countSigs(unlisted))
	}
	for _, s := range a.Inconcl {
		fmt.Println("INCONCLUSIVE:", s)
	}
	wall := time.Since(start).Seconds()
	if !replay && os.Getenv("VERIF_NO_EVIDENCE") == "" {
		a.writeEvidence(wall, len(unlisted), hit)
	}
	minEv := 1
	if chk.MinEvals != nil {
		minEv = chk.MinEvals(a.Tier)
	}
	fmt.Printf("%s %s seed=%d: evaluations=%d distinct_nontrivial=%d violations=%d known=%d inconclusive=%d crashed=%d wall=%.1fs\n",
		chk.ID, a.Tier, a.Seed, a.Evals, len(a.Hashes), len(unlisted), len(hit), len(a.Inconcl), a.Crashed, wall)
	if len(unlisted) > 0 {
		return 1
	}
	if replay {
		fmt.Println("replay: no violation on this tree")
		return 0
	}
	if len(a.Inconcl) > 0 {
		return 2
	}
	if len(a.Samples) == 0 {
		fmt.Println("BROKEN: the check recorded no sample of the cases it explored")
		return 3
	}
	if a.Evals < int64(minEv) || len(a.Hashes) < 2 {
		fmt.Printf("BROKEN: the monitors observed too little (evaluations=%d, need >=%d; distinct non-trivial=%d)\n", a.Evals, minEv, len(a.Hashes))
		return 3
	}
	return 0
}

func countSigs(vs []Violation) int {
	m := map[string]bool{}
	for _, v := range vs {
		m[v.Sig] = true
	}
	return len(m)
}

func (a *Aggregate) writeEvidence(wall float64, nviol int, hit map[string]int) {
	chk := a.Check
	samples := a.Samples
	if samples == nil {
		samples = []interface{}{}
	}
	cov := map[string]interface{}{
		"evaluations":         a.Evals,
		"distinct_nontrivial": len(a.Hashes),
		"rule":                chk.Rule,
		"samples":             samples,
		"features":            a.Features,
		"dont_care":           a.DontCare,
		"telemetry_sum":       a.Extra,
		"telemetry_max":       a.MaxExtra,
		"children":            chk.Batches(a.Tier),
		"children_crashed":    a.Crashed,
		"children_timed_out":  a.TimedOut,
		"inconclusive":        len(a.Inconcl),
		"known_findings_hit":  hit,
	}
	ev := map[string]interface{}{
		"property_id": chk.ID,
		"tier":        a.Tier,
		"seed":        a.Seed,
		"level":       chk.Level,
		"coverage":    cov,
		"assumptions": chk.Assumptions,
		"wall_s":      wall,
		"violations":  nviol,
		"technique":   chk.Technique,
		"repo_head":   gitHead(),
	}
	b, _ := json.MarshalIndent(ev, "", " ")
	dir := filepath.Join(Root(), "evidence")
	os.MkdirAll(dir, 0o755)
	os.WriteFile(filepath.Join(dir, chk.ID+".json"), b, 0o644)
}

func gitHead() string {
	out, err := exec.Command("git", "-C", "/repo", "rev-parse", "--short", "HEAD").Output()
	if err != nil {
		return ""
	}
	s := strings.TrimSpace(string(out))
	if st, err := exec.Command("git", "-C", "/repo", "status", "--porcelain").Output(); err == nil && len(bytes.TrimSpace(st)) > 0 {
		s += "+dirty"
	}
	return s
}

// RunReplay re-executes the case recorded in a replay file.
func RunReplay(path, exe, exeRace string) int {
	b, err := os.ReadFile(path)
	if err != nil {
		fmt.Println(err)
		return 4
	}
	var rep struct {
		Property string `json:"property"`
		Tier     string `json:"tier"`
		Seed     uint64 `json:"seed"`
		Batch    int    `json:"batch"`
		Case     string `json:"case"`
	}
	if err := json.Unmarshal(b, &rep); err != nil {
		fmt.Println(err)
		return 4
	}
	if rep.Case == "" {
		fmt.Println("replay file names no case; re-running the whole batch")
		rep.Case = "\x00none"
	}
	return RunParent(rep.Property, rep.Tier, rep.Seed, rep.Case, rep.Batch, exe, exeRace)
}

// raceReports turns the "WARNING: DATA RACE" blocks of a child's stderr into
// violations, de-duplicated by the pair of first library frames of the two
// accesses. A report without any library frame is a harness bug and gets the
// signature race:harness.
func raceReports(path string, batch int, lastCase string) []Violation {
	b, err := os.ReadFile(path)
	if err != nil || !bytes.Contains(b, []byte("WARNING: DATA RACE")) {
		return nil
	}
	blocks := strings.Split(string(b), "WARNING: DATA RACE")[1:]
	seen := map[string]bool{}
	var out []Violation
	for _, blk := range blocks {
		if i := strings.Index(blk, "=================="); i >= 0 {
			blk = blk[:i]
		}
		// first library frame of each access stack
		var frames []string
		for _, sec := range strings.Split(blk, "\n\n") {
			if !(strings.Contains(sec, "Write at") || strings.Contains(sec, "Read at") || strings.Contains(sec, "Previous write at") || strings.Contains(sec, "Previous read at")) {
				continue
			}
			f := ""
			for _, l := range strings.Split(sec, "\n") {
				l = strings.TrimSpace(l)
				if strings.HasPrefix(l, "github.com/graphql-go/graphql") {
					f = l
					if k := strings.LastIndex(f, "("); k > 0 {
						f = f[:k]
					}
					f = strings.TrimPrefix(f, "github.com/graphql-go/graphql")
					break
				}
			}
			frames = append(frames, f)
		}
		lib := false
		for _, f := range frames {
			if f != "" {
				lib = true
			}
		}
		sort.Strings(frames)
		sig := "race:" + strings.Join(frames, "|")
		if !lib {
			sig = "race:harness"
		}
		if seen[sig] {
			continue
		}
		seen[sig] = true
		if len(blk) > 5000 {
			blk = blk[:5000]
		}
		out = append(out, Violation{Sig: sig, Msg: "the race detector reported a data race", Case: lastCase, Batch: batch, Detail: map[string]interface{}{"report": blk}})
	}
	return out
}
