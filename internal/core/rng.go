package core

import "math"

// RNG is a splitmix64 stream. Every workload in /verif is a function of
// (seed, property, tier, batch) through streams derived with Derive.
type RNG struct{ s uint64 }

func NewRNG(seed uint64) *RNG { return &RNG{s: seed} }

func mix(z uint64) uint64 {
	z = (z ^ (z >> 30)) * 0xbf58476d1ce4e5b9
	z = (z ^ (z >> 27)) * 0x94d049bb133111eb
	return z ^ (z >> 31)
}

func (r *RNG) U64() uint64 {
	r.s += 0x9e3779b97f4a7c15
	return mix(r.s)
}

// Derive returns an independent stream labelled by the given values.
func (r *RNG) Derive(labels ...uint64) *RNG {
	s := r.s
	for _, l := range labels {
		s = mix(s ^ mix(l+0x632be59bd9b4e019))
	}
	return &RNG{s: s}
}

// HashString is FNV-1a 64.
func HashString(s string) uint64 {
	h := uint64(14695981039346656037)
	for i := 0; i < len(s); i++ {
		h ^= uint64(s[i])
		h *= 1099511628211
	}
	return h
}

func (r *RNG) Intn(n int) int {
	if n <= 0 {
		return 0
	}
	return int(r.U64() % uint64(n))
}

// Range returns an int in [lo,hi].
func (r *RNG) Range(lo, hi int) int {
	if hi <= lo {
		return lo
	}
	return lo + r.Intn(hi-lo+1)
}

func (r *RNG) Bool() bool { return r.U64()&1 == 1 }

// Chance is true with probability pct/100.
func (r *RNG) Chance(pct int) bool { return r.Intn(100) < pct }

func (r *RNG) Float() float64 { return float64(r.U64()>>11) / float64(1<<53) }

func (r *RNG) Pick(n int) int { return r.Intn(n) }

// Perm returns a permutation of 0..n-1.
func (r *RNG) Perm(n int) []int {
	p := make([]int, n)
	for i := range p {
		p[i] = i
	}
	for i := n - 1; i > 0; i-- {
		j := r.Intn(i + 1)
		p[i], p[j] = p[j], p[i]
	}
	return p
}

func PickStr(r *RNG, xs []string) string { return xs[r.Intn(len(xs))] }

var _ = math.Pi
