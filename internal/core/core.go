// Package core is the driver shared by all property checks: process model
// (parent + child per batch), journalling, verdict records, known findings,
// evidence and replay files. See DESIGN.md section 3.
package core

import (
	"bufio"
	"encoding/binary"
	"encoding/json"
	"fmt"
	"os"
	"path/filepath"
	"runtime"
	"runtime/debug"
	"sort"
	"strings"
	"sync"
	"time"
)

// Check describes one property's machinery.
type Check struct {
	ID          string
	Level       string // "exploration" | "fault_enumeration"
	Technique   string
	Race        bool // children are run from the -race binary
	Rule        string
	Assumptions []string
	// Batches is the number of child processes for a tier.
	Batches func(tier string) int
	// Run executes one batch inside a child process.
	Run func(c *Child)
	// ChildTimeout is the watchdog per child (generous; firing is never a
	// verdict by itself).
	ChildTimeout func(tier string) time.Duration
	// MinEvals: fewer evaluations than this in total means the check is
	// broken (observed nothing), not passed.
	MinEvals func(tier string) int
	// Post lets the parent decide cross-process clauses (C12) from the
	// digests the children reported. It returns extra violations.
	Post func(a *Aggregate) []Violation
	// MaxParallel caps concurrently running children (0 = default 16).
	MaxParallel int
}

var registry = map[string]*Check{}

func Register(c *Check) { registry[c.ID] = c }
func Lookup(id string) *Check {
	return registry[id]
}
func AllIDs() []string {
	var ids []string
	for k := range registry {
		ids = append(ids, k)
	}
	sort.Strings(ids)
	return ids
}

// Violation is one refutation of the property.
type Violation struct {
	Sig    string      `json:"sig"`  // signature matched against KNOWN_FINDINGS.txt
	Msg    string      `json:"msg"`  // one line, human readable
	Case   string      `json:"case"` // case id (journal id) for replay
	Batch  int         `json:"batch"`
	Detail interface{} `json:"detail,omitempty"`
}

type record struct {
	T      string                 `json:"t"` // b(egin) v(iolation) s(tat) d(one) i(nconclusive) g(digest)
	ID     string                 `json:"id,omitempty"`
	V      *Violation             `json:"v,omitempty"`
	Stat   *childStat             `json:"stat,omitempty"`
	Msg    string                 `json:"msg,omitempty"`
	Key    string                 `json:"key,omitempty"`
	Digest string                 `json:"dg,omitempty"`
	Extra  map[string]interface{} `json:"x,omitempty"`
}

type childStat struct {
	Evals    int64              `json:"evals"`
	Features map[string]int64   `json:"features"`
	DontCare map[string]int64   `json:"dontcare"`
	Samples  []interface{}      `json:"samples"`
	Extra    map[string]float64 `json:"extra"`
	MaxExtra map[string]float64 `json:"maxextra"`
}

// Child is the context handed to Check.Run in a child process.
type Child struct {
	Prop     string
	Tier     string
	Seed     uint64
	Batch    int
	NBatches int
	Only     string // when set, only the case with this id is executed
	OutDir   string

	mu       sync.Mutex
	out      *os.File
	hashes   map[uint64]struct{}
	stat     childStat
	cur      string
	nviol    int
	maxViol  int            // records written per distinct signature
	violBy   map[string]int // signature -> records seen
	nwritten int
	sampleBy map[string]int
}

func (c *Child) Quick() bool { return c.Tier != "thorough" }

// Scale picks a count by tier.
func (c *Child) Scale(quick, thorough int) int {
	if c.Quick() {
		return quick
	}
	return thorough
}

// RNG returns the stream for (seed, property, batch, labels...). It does
// not depend on which cases were executed before.
func (c *Child) RNG(labels ...uint64) *RNG {
	r := NewRNG(c.Seed).Derive(HashString(c.Prop), uint64(c.Batch))
	return r.Derive(labels...)
}

func (c *Child) write(r *record) {
	b, err := json.Marshal(r)
	if err != nil {
		b, _ = json.Marshal(&record{T: "v", V: &Violation{Sig: "harness:marshal", Msg: "cannot marshal record: " + err.Error(), Case: c.cur, Batch: c.Batch}})
	}
	b = append(b, '\n')
	c.out.Write(b)
}

// Begin journals the case before it is executed. It returns false when the
// case must be skipped (replay of another case).
func (c *Child) Begin(id string) bool {
	if c.Only != "" && c.Only != id {
		return false
	}
	c.mu.Lock()
	c.cur = id
	c.out.Write([]byte(`{"t":"b","id":` + jsonStr(id) + "}\n"))
	c.mu.Unlock()
	return true
}

func jsonStr(s string) string { b, _ := json.Marshal(s); return string(b) }

func (c *Child) Eval(n int) {
	c.mu.Lock()
	c.stat.Evals += int64(n)
	c.mu.Unlock()
}

// Nontrivial counts a distinct non-trivial case by its structural hash.
func (c *Child) Nontrivial(h uint64) {
	c.mu.Lock()
	c.hashes[h] = struct{}{}
	c.mu.Unlock()
}

func (c *Child) Feature(name string) { c.FeatureN(name, 1) }
func (c *Child) FeatureN(name string, n int64) {
	c.mu.Lock()
	c.stat.Features[name] += n
	c.mu.Unlock()
}
func (c *Child) DontCare(class string) {
	c.mu.Lock()
	c.stat.DontCare[class]++
	c.mu.Unlock()
}

// AddExtra accumulates a numeric telemetry value (summed across children).
func (c *Child) AddExtra(name string, v float64) {
	c.mu.Lock()
	c.stat.Extra[name] += v
	c.mu.Unlock()
}

// MaxExtra keeps the maximum of a telemetry value across children.
func (c *Child) MaxExtra(name string, v float64) {
	c.mu.Lock()
	if old, ok := c.stat.MaxExtra[name]; !ok || v > old {
		c.stat.MaxExtra[name] = v
	}
	c.mu.Unlock()
}

// Sample keeps up to 3 samples per class (class may be "").
func (c *Child) Sample(class string, v interface{}) {
	c.mu.Lock()
	if c.sampleBy[class] < 2 && len(c.stat.Samples) < 12 {
		c.sampleBy[class]++
		c.stat.Samples = append(c.stat.Samples, map[string]interface{}{"class": class, "case": v})
	}
	c.mu.Unlock()
}

// Violation reports a refutation for the current case.
func (c *Child) Violation(sig, msg string, detail interface{}) {
	c.mu.Lock()
	defer c.mu.Unlock()
	c.nviol++
	// The cap is per signature: a frequently hit signature (a known finding's
	// relaxation, say) must never crowd out the record of another one.
	if c.violBy == nil {
		c.violBy = map[string]int{}
	}
	c.violBy[sig]++
	if c.violBy[sig] > c.maxViol || c.nwritten >= 2000 {
		return
	}
	c.nwritten++
	c.write(&record{T: "v", V: &Violation{Sig: sig, Msg: msg, Case: c.cur, Batch: c.Batch, Detail: detail}})
}

// Violations returns how many violations this child reported so far.
func (c *Child) Violations() int { c.mu.Lock(); defer c.mu.Unlock(); return c.nviol }

func (c *Child) Inconclusive(msg string) {
	c.mu.Lock()
	c.write(&record{T: "i", ID: c.cur, Msg: msg})
	c.mu.Unlock()
}

// Digest reports (key, digest) to the parent for cross-process comparison.
func (c *Child) Digest(key, digest string) {
	c.mu.Lock()
	c.write(&record{T: "g", Key: key, Digest: digest})
	c.mu.Unlock()
}

// Guard runs f and converts an escaped panic into a violation with the
// given signature prefix. It returns true when f panicked.
func (c *Child) Guard(sigPrefix string, detail interface{}, f func()) (panicked bool) {
	defer func() {
		if r := recover(); r != nil {
			panicked = true
			st := string(debug.Stack())
			c.Violation(sigPrefix+":"+PanicSite(st), fmt.Sprintf("panic escaped: %v", r), map[string]interface{}{"case": detail, "panic": fmt.Sprint(r), "stack": trimStack(st)})
		}
	}()
	f()
	return false
}

func trimStack(st string) string {
	if len(st) > 4000 {
		return st[:4000]
	}
	return st
}

// PanicSite extracts the first library frame (function name) from a stack.
func PanicSite(stack string) string {
	lines := strings.Split(stack, "\n")
	seenPanic := false
	for _, l := range lines {
		if strings.HasPrefix(l, "panic(") {
			seenPanic = true
			continue
		}
		if !seenPanic {
			continue
		}
		if strings.HasPrefix(l, "github.com/graphql-go/graphql") {
			fn := l
			if i := strings.LastIndex(fn, "("); i > 0 {
				fn = fn[:i]
			}
			return strings.TrimPrefix(fn, "github.com/graphql-go/graphql")
		}
	}
	// no panic( marker (e.g. runtime error formatting differs): first lib frame
	for _, l := range lines {
		if strings.HasPrefix(l, "github.com/graphql-go/graphql") {
			fn := l
			if i := strings.LastIndex(fn, "("); i > 0 {
				fn = fn[:i]
			}
			return strings.TrimPrefix(fn, "github.com/graphql-go/graphql")
		}
	}
	return "unknown"
}

// RunChild is the entry point of `vcheck child`.
func RunChild(prop, tier string, seed uint64, batch, nb int, only, outDir string) int {
	chk := Lookup(prop)
	if chk == nil {
		fmt.Fprintln(os.Stderr, "unknown property", prop)
		return 4
	}
	f, err := os.OpenFile(filepath.Join(outDir, fmt.Sprintf("child_%d.jsonl", batch)), os.O_CREATE|os.O_WRONLY|os.O_TRUNC, 0o644)
	if err != nil {
		fmt.Fprintln(os.Stderr, err)
		return 4
	}
	c := &Child{Prop: prop, Tier: tier, Seed: seed, Batch: batch, NBatches: nb, Only: only, OutDir: outDir,
		out: f, hashes: map[uint64]struct{}{}, maxViol: 12, sampleBy: map[string]int{}}
	c.stat.Features = map[string]int64{}
	c.stat.DontCare = map[string]int64{}
	c.stat.Extra = map[string]float64{}
	c.stat.MaxExtra = map[string]float64{}
	// resource guard: a library defect must not take the machine down
	go func() {
		var ms runtime.MemStats
		for {
			time.Sleep(500 * time.Millisecond)
			runtime.ReadMemStats(&ms)
			if ms.HeapAlloc > 6<<30 {
				c.Violation("resource:memory", fmt.Sprintf("child heap grew beyond 6 GiB (%d MiB) while executing the current case", ms.HeapAlloc>>20), nil)
				os.Exit(0)
			}
		}
	}()
	func() {
		defer func() {
			if r := recover(); r != nil {
				st := string(debug.Stack())
				c.Violation("panic:"+PanicSite(st), fmt.Sprintf("panic escaped into the harness: %v", r), map[string]interface{}{"panic": fmt.Sprint(r), "stack": trimStack(st)})
			}
		}()
		chk.Run(c)
	}()
	// hashes
	hf, err := os.Create(filepath.Join(outDir, fmt.Sprintf("child_%d.hashes", batch)))
	if err == nil {
		w := bufio.NewWriter(hf)
		var b [8]byte
		for h := range c.hashes {
			binary.LittleEndian.PutUint64(b[:], h)
			w.Write(b[:])
		}
		w.Flush()
		hf.Close()
	}
	c.mu.Lock()
	c.write(&record{T: "s", Stat: &c.stat})
	c.write(&record{T: "d"})
	c.mu.Unlock()
	f.Close()
	return 0
}
