// Package exec is the reference executor: a direct, naive transcription of
// the execution section of the GraphQL specification (October 2016 edition,
// see DESIGN.md Appendix A.3) over neutral syntax trees and the schema MODEL.
// It shares no structure with the library's planner: no planning, no
// memoisation, no panics for control flow. Resolver behaviour comes from the
// pure functions of package values.
package exec

import (
	"sort"
	"strconv"
	"strings"

	"verif/internal/model"
	"verif/internal/nast"
	"verif/internal/ref/coerce"
	"verif/internal/values"
)

// Invocation is one expected resolver call.
type Invocation struct {
	Path       string
	Field      string
	ParentType string // runtime object type
	ReturnType string
	Args       map[string]interface{}
	SourceID   string // ID of the parent Obj ("<root>" at top level)
	Outcome    values.Kind
	Order      int           // depth-first document order index
	InNulled   bool          // lies in a region nulled by a failure (filled by finalize)
	Required   bool          // must have happened exactly once (else: at most once)
	Fields     []*nast.Field // included occurrences
}

// FieldError is one expected field error.
type FieldError struct {
	Path     string
	Order    int
	Nuller   bool   // the null sits above the failed position (non-null propagation)
	Required bool   // must be reported (exactly once, with exactly this path)
	Region   string // path of the position that becomes null because of it ("" = data itself, "-" = none)
	Thunk    bool   // raised while forcing a deferred value
	Kind     string // "resolver" | "nonnull" | "leaf" | "abstract" | "list"
}

// Expect is the predicted response.
type Expect struct {
	RequestError bool // no data, >= 1 error (operation selection / variable coercion)
	VarStatus    coerce.Status
	Reason       string
	Data         interface{} // map[string]interface{} | nil
	Errors       []*FieldError
	Invocations  []*Invocation
	Vars         map[string]interface{}
	Op           *nast.Operation
	HasThunk     bool // some executed outcome was a thunk (execution order then differs from DFS)
	// ThunkNonNullFailure: a failure left a deferred value sitting in a
	// non-null position (the library's known defect D3 class).
	ThunkNonNullFailure bool
	Wild                []string // positions whose value the reference does not predict
	TypeResolutions     []*TypeResolution
}

// TypeResolution is an expected abstract-type resolution.
type TypeResolution struct {
	Path     string
	Abstract string
	Runtime  string
}

type run struct {
	s     *model.Schema
	doc   *nast.Document
	frags map[string]*nast.Fragment
	vars  map[string]interface{}
	o     *values.Outcomes
	seed  uint64
	e     *Expect
	order int
}

// SelectOperation implements GetOperation.
func SelectOperation(doc *nast.Document, name string) (*nast.Operation, string) {
	var ops []*nast.Operation
	for _, d := range doc.Defs {
		if op, ok := d.(*nast.Operation); ok {
			ops = append(ops, op)
		}
	}
	if name == "" {
		if len(ops) == 1 {
			return ops[0], ""
		}
		if len(ops) == 0 {
			return nil, "no operation"
		}
		return nil, "operation name required"
	}
	for _, op := range ops {
		if op.Name != nil && op.Name.Value == name {
			return op, ""
		}
	}
	return nil, "unknown operation"
}

// Execute predicts the response of executing doc against the model.
func Execute(s *model.Schema, doc *nast.Document, opName string, rawVars map[string]interface{}, o *values.Outcomes, seed uint64) *Expect {
	e := &Expect{}
	op, why := SelectOperation(doc, opName)
	if op == nil {
		e.RequestError = true
		e.Reason = why
		return e
	}
	e.Op = op
	vr := coerce.Variables(s, op.Vars, rawVars)
	e.VarStatus = vr.Status
	if vr.Status == coerce.Invalid {
		e.RequestError = true
		e.Reason = "variable $" + vr.Bad + " cannot be coerced"
		return e
	}
	e.Vars = vr.Values
	r := &run{s: s, doc: doc, frags: map[string]*nast.Fragment{}, vars: vr.Values, o: o, seed: seed, e: e}
	for _, d := range doc.Defs {
		if f, ok := d.(*nast.Fragment); ok {
			r.frags[f.Name.Value] = f
		}
	}
	root := s.Root(op.Op)
	if root == "" {
		e.RequestError = true
		e.Reason = "schema has no " + op.Op + " root"
		return e
	}
	data, ok := r.selectionSet(root, []*nast.SelectionSet{op.Sel}, "<root>", "", false)
	if !ok {
		e.Data = nil
	} else {
		e.Data = data
	}
	r.finalize()
	return e
}

type group struct {
	key    string
	fields []*nast.Field
}

// include evaluates @skip / @include at one occurrence.
func (r *run) include(ds []*nast.Directive) bool {
	for _, d := range ds {
		if d.Name.Value != "skip" && d.Name.Value != "include" {
			continue
		}
		var val interface{}
		for _, a := range d.Args {
			if a.Name.Value == "if" {
				val = coerce.Literal(r.s, model.NonNull(model.Named("Boolean")), a.Value, r.vars)
			}
		}
		b, _ := val.(bool)
		if d.Name.Value == "skip" && b {
			return false
		}
		if d.Name.Value == "include" && !b {
			return false
		}
	}
	return true
}

func (r *run) typeApplies(objType string, cond *nast.Named) bool {
	if cond == nil {
		return true
	}
	c := cond.Name.Value
	if c == objType {
		return true
	}
	return r.s.IsPossible(c, objType)
}

// collect implements CollectFields.
func (r *run) collect(objType string, ss *nast.SelectionSet, visited map[string]bool, groups *[]*group) {
	if ss == nil {
		return
	}
	for _, it := range ss.Items {
		switch v := it.(type) {
		case *nast.Field:
			if !r.include(v.Directives) {
				continue
			}
			key := v.Name.Value
			if v.Alias != nil {
				key = v.Alias.Value
			}
			var g *group
			for _, x := range *groups {
				if x.key == key {
					g = x
				}
			}
			if g == nil {
				g = &group{key: key}
				*groups = append(*groups, g)
			}
			g.fields = append(g.fields, v)
		case *nast.FragmentSpread:
			if !r.include(v.Directives) {
				continue
			}
			name := v.Name.Value
			if visited[name] {
				continue
			}
			visited[name] = true
			f := r.frags[name]
			if f == nil {
				continue
			}
			if !r.typeApplies(objType, f.TypeCond) {
				continue
			}
			r.collect(objType, f.Sel, visited, groups)
		case *nast.InlineFragment:
			if !r.include(v.Directives) {
				continue
			}
			if !r.typeApplies(objType, v.TypeCond) {
				continue
			}
			r.collect(objType, v.Sel, visited, groups)
		}
	}
}

// selectionSet executes the merged selection sets on an object value. ok is
// false when a non-null field of the object is null: the object position
// itself must then become null (the error has been recorded already).
func (r *run) selectionSet(objType string, sets []*nast.SelectionSet, sourceID, path string, underThunk bool) (map[string]interface{}, bool) {
	var groups []*group
	visited := map[string]bool{}
	for _, ss := range sets {
		r.collect(objType, ss, visited, &groups)
	}
	td := r.s.Type(objType)
	out := map[string]interface{}{}
	ok := true
	for _, g := range groups {
		name := g.fields[0].Name.Value
		fpath := g.key
		if path != "" {
			fpath = path + "/" + g.key
		}
		if name == "__typename" {
			out[g.key] = objType
			continue
		}
		fd := td.Field(name)
		if fd == nil {
			continue // unknown field in an unvalidated document: skipped
		}
		v, fok := r.field(objType, fd, g.fields, sourceID, fpath, underThunk)
		if !fok {
			// The spec allows the remaining siblings to be executed or not;
			// the reference keeps executing so that their invocations and
			// errors are known (they are classified optional by finalize).
			ok = false
		}
		out[g.key] = v
	}
	return out, ok
}

func (r *run) addErr(path string, thunk bool, kind string) *FieldError {
	fe := &FieldError{Path: path, Order: r.order, Region: "-", Thunk: thunk, Kind: kind}
	r.order++
	r.e.Errors = append(r.e.Errors, fe)
	return fe
}

// field implements ExecuteField (resolve + complete) for one response key.
// It returns the value of the position and ok=false when the position is
// non-null and evaluated to null (the null must move to the parent).
func (r *run) field(objType string, fd *model.FieldDef, fields []*nast.Field, sourceID, path string, underThunk bool) (interface{}, bool) {
	args := coerce.Arguments(r.s, fd.Args, fields[0].Args, r.vars)
	kind := r.o.At(path)
	inv := &Invocation{Path: path, Field: fd.Name, ParentType: objType, ReturnType: fd.Type.String(), Args: args, SourceID: sourceID, Outcome: kind, Order: r.order, Fields: fields}
	r.order++
	r.e.Invocations = append(r.e.Invocations, inv)
	return r.position(fd.Type, fields, path, kind, underThunk)
}

// position evaluates one response position (a field or a list element) of
// declared type t whose producer has outcome kind.
func (r *run) position(t *model.TypeRef, fields []*nast.Field, path string, kind values.Kind, underThunk bool) (interface{}, bool) {
	nonNull := t.Kind == "nonnull"
	thunked := kind.IsThunk()
	if thunked {
		r.e.HasThunk = true
	}
	done := func(v interface{}, ok bool) (interface{}, bool) {
		if !ok && thunked && nonNull {
			// a failure leaves a deferred value in a non-null position
			r.e.ThunkNonNullFailure = true
		}
		return v, ok
	}
	switch kind {
	case values.Error, values.ValueError, values.PanicError, values.PanicString, values.PanicStruct, values.ThunkError, values.ThunkPanic:
		r.addErr(path, thunked, "resolver")
		return done(nil, !nonNull)
	case values.Nil, values.ThunkNil, values.TypedNil, values.NaN:
		if nonNull {
			r.addErr(path, thunked, "nonnull")
			return done(nil, false)
		}
		return nil, true
	case values.WrongKind, values.OutOfRange, values.UnknownEnum, values.BadRuntimeType, values.NilRuntimeType, values.IsTypeOfFalse, values.ThunkThunk, values.Inf, values.NumericString, values.SerializeToNil:
		// adversarial value: what exactly happens is edition-specific
		// (lenient coercions); the position is "wild": any legal value, or a failure.
		r.e.Wild = append(r.e.Wild, path)
		return Wild{}, true
	}
	inner := t
	if nonNull {
		inner = t.Of
	}
	v, ok := r.complete(inner, fields, path, underThunk || thunked)
	if !ok {
		// a nested non-null position is null; absorbed here if nullable
		return done(nil, !nonNull)
	}
	if v == nil && nonNull {
		r.addErr(path, thunked, "nonnull")
		return done(nil, false)
	}
	return v, true
}

// Wild marks a position whose value the reference does not predict.
type Wild struct{}

// complete implements CompleteValue for the natural value of NULLABLE type t
// at path. ok=false: a nested failure must null this whole value.
func (r *run) complete(t *model.TypeRef, fields []*nast.Field, path string, underThunk bool) (interface{}, bool) {
	if t.Kind == "list" {
		n := values.ListLen(r.seed, path)
		out := make([]interface{}, 0, n)
		ok := true
		for i := 0; i < n; i++ {
			ep := path + "/" + strconv.Itoa(i)
			ek := values.ElementKind(r.o, ep)
			if k := r.o.At(ep); k == values.BadRuntimeType || k == values.NilRuntimeType || k == values.IsTypeOfFalse {
				ek = k // type-resolution faults are looked up at the element's own path
			}
			v, eok := r.position(t.Of, fields, ep, ek, underThunk)
			if !eok {
				ok = false
			}
			out = append(out, v)
		}
		if !ok {
			return nil, false
		}
		return out, true
	}
	td := r.s.Type(t.Name)
	switch td.Kind {
	case model.Scalar, model.Enum:
		return values.LeafSerialized(r.s, r.seed, t.Name, path), true
	case model.Object:
		return r.object(t.Name, fields, path, underThunk)
	case model.Interface, model.Union:
		rt := values.RuntimeType(r.s, r.seed, t.Name, path)
		r.e.TypeResolutions = append(r.e.TypeResolutions, &TypeResolution{Path: path, Abstract: t.Name, Runtime: rt})
		return r.object(rt, fields, path, underThunk)
	}
	return nil, true
}

func (r *run) object(objType string, fields []*nast.Field, path string, underThunk bool) (interface{}, bool) {
	var sets []*nast.SelectionSet
	for _, f := range fields {
		if f.Sel != nil {
			sets = append(sets, f.Sel)
		}
	}
	m, ok := r.selectionSet(objType, sets, path, path, underThunk)
	if !ok {
		return nil, false
	}
	return m, true
}

// finalize computes, from the data tree, the region every error nulls and
// classifies errors and invocations as required or optional.
func (r *run) finalize() {
	e := r.e
	for _, fe := range e.Errors {
		fe.Region = regionOf(e.Data, fe.Path)
		fe.Nuller = fe.Region != fe.Path
	}
	covers := func(region, path string) bool {
		if region == "-" {
			return false
		}
		return region == "" || path == region || strings.HasPrefix(path, region+"/")
	}
	strictlyBelow := func(region, path string) bool {
		if region == "-" {
			return false
		}
		if region == "" {
			return true
		}
		return strings.HasPrefix(path, region+"/")
	}
	for _, fe := range e.Errors {
		fe.Required = true
		for _, other := range e.Errors {
			if other == fe || !covers(other.Region, fe.Path) {
				continue
			}
			// fe lies in the region nulled by `other`
			if e.HasThunk || other.Order < fe.Order {
				fe.Required = false
			}
		}
	}
	for _, inv := range e.Invocations {
		inv.Required = true
		for _, fe := range e.Errors {
			in := strictlyBelow(fe.Region, inv.Path) || (fe.Region == inv.Path && fe.Path != inv.Path)
			if !in {
				continue
			}
			inv.InNulled = true
			if e.HasThunk || fe.Order < inv.Order {
				inv.Required = false
			}
		}
	}
	sort.SliceStable(e.Errors, func(i, j int) bool { return e.Errors[i].Order < e.Errors[j].Order })
}

// regionOf returns the path of the position that is null "because of" an error
// at path: the shortest prefix of path at which data is null. "-" when data
// at path is reachable and not null (cannot happen for real errors).
func regionOf(data interface{}, path string) string {
	if data == nil {
		return ""
	}
	parts := strings.Split(path, "/")
	cur := data
	for i, p := range parts {
		switch x := cur.(type) {
		case map[string]interface{}:
			cur = x[p]
		case []interface{}:
			idx, err := strconv.Atoi(p)
			if err != nil || idx < 0 || idx >= len(x) {
				return "-"
			}
			cur = x[idx]
		default:
			return "-"
		}
		if cur == nil {
			return strings.Join(parts[:i+1], "/")
		}
	}
	return "-"
}
