// Package schemacheck is an independent consistency predicate for a
// graphql.Schema that NewSchema / AppendType returned without an error.
//
// It is written from the text of property C11 and the type-system rules of the
// October 2016 GraphQL specification ("Object type validation", "Input and
// output types", "Names"), not from schema.go. It uses only the public read
// API of the schema and of the type objects it hands out: TypeMap, Type,
// QueryType/MutationType/SubscriptionType, Directives, PossibleTypes,
// IsPossibleType, Object.Fields/Interfaces, Interface.Fields, Union.Types,
// Enum.Values, InputObject.Fields, FieldDefinition.Type/Args, Argument.Type,
// Error, Name.
//
// Every call into the library is made through safe(): a panic there is
// reported as a Problem of class "panic" carrying the stack, never propagated.
package schemacheck

import (
	"fmt"
	"reflect"
	"runtime/debug"
	"sort"
	"strings"

	"github.com/graphql-go/graphql"
)

// Problem is one inconsistency found in an accepted schema.
type Problem struct {
	// Class is the stable defect class, e.g. "invalid-name:inputobject",
	// "output-type-as-arg-type", "iface-field-missing", "panic".
	Class string `json:"class"`
	// Where locates the problem inside the schema, e.g. "Query.f(x:)".
	Where string `json:"where"`
	Msg   string `json:"msg"`
	// DontCare marks classes the property text leaves open; they are
	// reported so that they can be counted, never as violations.
	DontCare bool `json:"dontcare,omitempty"`
	// Stack is set for Class "panic".
	Stack string `json:"stack,omitempty"`
}

func (p Problem) String() string { return p.Class + " at " + p.Where + ": " + p.Msg }

// LegalName implements the name grammar of the edition:
// [_A-Za-z][_0-9A-Za-z]*  (a leading "__" is not judged here).
func LegalName(s string) bool {
	if s == "" {
		return false
	}
	for i := 0; i < len(s); i++ {
		c := s[i]
		switch {
		case c == '_' || (c >= 'a' && c <= 'z') || (c >= 'A' && c <= 'Z'):
		case c >= '0' && c <= '9':
			if i == 0 {
				return false
			}
		default:
			return false
		}
	}
	return true
}

// Kind names the concrete kind of a type value ("nil" for an untyped or
// typed nil, "other" for anything that is not one of the eight type kinds).
func Kind(t graphql.Type) string {
	if IsNil(t) {
		return "nil"
	}
	switch t.(type) {
	case *graphql.Scalar:
		return "scalar"
	case *graphql.Object:
		return "object"
	case *graphql.Interface:
		return "interface"
	case *graphql.Union:
		return "union"
	case *graphql.Enum:
		return "enum"
	case *graphql.InputObject:
		return "inputobject"
	case *graphql.List:
		return "list"
	case *graphql.NonNull:
		return "nonnull"
	}
	return "other"
}

// IsNil is true for a nil interface and for a nil pointer inside one.
func IsNil(t graphql.Type) bool {
	if t == nil {
		return true
	}
	v := reflect.ValueOf(t)
	switch v.Kind() {
	case reflect.Ptr, reflect.Map, reflect.Slice, reflect.Func, reflect.Interface, reflect.Chan:
		return v.IsNil()
	}
	return false
}

var builtinObjects = []string{"__Schema", "__Type", "__Field", "__InputValue", "__EnumValue", "__Directive"}
var builtinEnums = []string{"__TypeKind", "__DirectiveLocation"}
var builtinScalars = []string{"String", "Boolean"}

type checker struct {
	s        *graphql.Schema
	tm       graphql.TypeMap
	keys     []string
	problems []Problem
	seen     map[string]bool // class+where de-duplication
	visited  map[graphql.Type]bool
	// wrappers already reported as wrapper-of-nil / nonnull-of-nonnull
	badWrapper map[graphql.Type]bool
	objects    []*graphql.Object
	abstracts  []graphql.Type
	// parked: type objects whose parked error has been reported (once each)
	parked map[graphql.Type]bool
	// outside > 0 while walking the references of a type that is itself not
	// in the type map: the missing entry has been reported (or is don't-care)
	// at the reference to that type; what it refers to is not owed to the map
	outside int
	// behindDirective > 0 while walking a type that is outside the map and
	// was reached through a directive argument
	behindDirective int
}

func (c *checker) add(class, where, format string, a ...interface{}) {
	c.addP(Problem{Class: class, Where: where, Msg: fmt.Sprintf(format, a...)})
}

func (c *checker) addP(p Problem) {
	if c.behindDirective > 0 && !p.DontCare && p.Class != "panic" {
		// One mechanism: the types of directive arguments are neither
		// validated nor walked when the schema is built, so whatever is wrong
		// inside a type that only a directive argument reaches was never
		// looked at. The original class is kept in the message.
		p.Msg = p.Class + ": " + p.Msg
		p.Class = "inconsistent-type-behind-directive-arg"
	}
	k := p.Class + "\x00" + p.Where
	if c.seen[k] {
		return
	}
	c.seen[k] = true
	c.problems = append(c.problems, p)
}

// safe runs one read-API call; a panic becomes a Problem.
func (c *checker) safe(where string, f func()) (ok bool) {
	defer func() {
		if r := recover(); r != nil {
			ok = false
			c.addP(Problem{Class: "panic", Where: where, Msg: fmt.Sprint(r), Stack: string(debug.Stack())})
		}
	}()
	f()
	return true
}

// Check returns every inconsistency of an accepted schema. extra lists type
// objects that were handed to the schema explicitly (SchemaConfig.Types,
// AppendType): the type map must contain them too.
func Check(schema graphql.Schema, extra ...graphql.Type) []Problem {
	c := &checker{s: &schema, seen: map[string]bool{}, visited: map[graphql.Type]bool{}, badWrapper: map[graphql.Type]bool{}, parked: map[graphql.Type]bool{}}
	if !c.safe("TypeMap()", func() { c.tm = c.s.TypeMap() }) {
		return c.problems
	}
	for k := range c.tm {
		c.keys = append(c.keys, k)
	}
	sort.Strings(c.keys)

	// 1. the map itself: key = name, entries are named types
	var wrapperEntries []string
	for _, k := range c.keys {
		t := c.tm[k]
		where := "typeMap[" + quote(k) + "]"
		switch kind := Kind(t); kind {
		case "nil":
			c.add("typemap-entry-nil", where, "the type map holds a nil entry")
			continue
		case "list", "nonnull":
			wrapperEntries = append(wrapperEntries, k)
			continue
		case "other":
			c.add("typemap-entry-not-a-type", where, "entry of Go type %T is not one of the type kinds", t)
			continue
		}
		var name string
		var got graphql.Type
		c.safe(where+".Name()", func() { name = t.Name() })
		if name != k {
			c.add("typemap-key-mismatch", where, "key %q holds a type whose Name() is %q", k, name)
		}
		c.safe("Type("+quote(k)+")", func() { got = c.s.Type(k) })
		if got != t {
			c.add("type-lookup-mismatch", where, "Type(%q) does not return the entry of the type map", k)
		}
		switch tt := t.(type) {
		case *graphql.Object:
			c.objects = append(c.objects, tt)
		case *graphql.Interface, *graphql.Union:
			c.abstracts = append(c.abstracts, t)
		}
	}

	// 2. built-in introspection types and the scalars they use
	c.builtins()

	// 3. closure under reference, names, positions, wrappers, parked errors
	var q, m, sub *graphql.Object
	c.safe("QueryType()", func() { q = c.s.QueryType() })
	c.safe("MutationType()", func() { m = c.s.MutationType() })
	c.safe("SubscriptionType()", func() { sub = c.s.SubscriptionType() })
	if q == nil {
		c.add("no-query-root", "schema", "QueryType() is nil in an accepted schema")
	} else {
		c.ref("root", "query root", q, anyPos)
	}
	if m != nil {
		c.ref("root", "mutation root", m, anyPos)
	}
	if sub != nil {
		c.ref("root", "subscription root", sub, anyPos)
	}
	// Entries not reachable from the roots (extra types, implementers):
	// composite kinds first, so that a leaf type is met at the position
	// that references it rather than at its own map entry.
	for _, wantLeaf := range []bool{false, true} {
		for _, k := range c.keys {
			t := c.tm[k]
			kind := Kind(t)
			switch kind {
			case "nil", "list", "nonnull", "other":
				continue
			}
			if (kind == "scalar" || kind == "enum") != wantLeaf {
				continue
			}
			c.ref("typemap", "typeMap["+quote(k)+"]", t, anyPos)
		}
	}
	for i, t := range extra {
		if IsNil(t) {
			continue // a nil extra type is a property of the configuration, not of the schema
		}
		c.ref("extra-type", fmt.Sprintf("extra type #%d", i), t, anyPos)
	}
	c.directives()

	// wrapper objects sitting in the type map as if they were named types
	for _, k := range wrapperEntries {
		t := c.tm[k]
		if c.badWrapper[t] {
			continue // same mechanism, already reported at the referencing position
		}
		c.add("typemap-entry-not-named", "typeMap["+quote(k)+"]", "the type map holds a %s wrapper under key %q", Kind(t), k)
	}

	// 4. interface implementation
	for _, o := range c.objects {
		c.implements(o)
	}

	// 5. possible types
	c.possibleTypes()

	return c.problems
}

func quote(s string) string { return fmt.Sprintf("%q", s) }

func (c *checker) builtins() {
	want := map[string]graphql.Type{
		"__Schema": graphql.SchemaType, "__Type": graphql.TypeType, "__Field": graphql.FieldType,
		"__InputValue": graphql.InputValueType, "__EnumValue": graphql.EnumValueType, "__Directive": graphql.DirectiveType,
		"__TypeKind": graphql.TypeKindEnumType, "__DirectiveLocation": graphql.DirectiveLocationEnumType,
		"String": graphql.String, "Boolean": graphql.Boolean,
	}
	kinds := map[string]string{}
	for _, n := range builtinObjects {
		kinds[n] = "object"
	}
	for _, n := range builtinEnums {
		kinds[n] = "enum"
	}
	for _, n := range builtinScalars {
		kinds[n] = "scalar"
	}
	names := append(append(append([]string{}, builtinObjects...), builtinEnums...), builtinScalars...)
	for _, n := range names {
		t, ok := c.tm[n]
		if !ok || IsNil(t) {
			c.add("builtin-missing", "typeMap["+quote(n)+"]", "built-in type %s is not in the type map", n)
			continue
		}
		if Kind(t) != kinds[n] {
			c.add("builtin-shadowed", "typeMap["+quote(n)+"]", "built-in name %s is held by a %s", n, Kind(t))
			continue
		}
		if w := want[n]; !IsNil(w) && t != w {
			c.add("builtin-shadowed", "typeMap["+quote(n)+"]", "name %s is held by a type object other than the built-in one", n)
		}
	}
}

type position int

const (
	anyPos position = iota
	outputPos
	inputPos
)

// ref checks one reference to a type expression found at a position.
// pos is one of: root, typemap, extra-type, field-type, arg-type,
// input-field-type, directive-arg-type, interface, union-member, possible-type.
func (c *checker) ref(pos, where string, t graphql.Type, want position) {
	if IsNil(t) {
		c.add("nil-type:"+pos, where, "nil type at %s", pos)
		return
	}
	cur := t
	for depth := 0; ; depth++ {
		if depth > 64 {
			c.add("wrapper-too-deep:"+pos, where, "more than 64 nested wrappers")
			return
		}
		var inner graphql.Type
		switch w := cur.(type) {
		case *graphql.List:
			inner = w.OfType
		case *graphql.NonNull:
			inner = w.OfType
			if _, nn := inner.(*graphql.NonNull); nn && !IsNil(inner) {
				c.badWrapper[cur] = true
				c.add("nonnull-of-nonnull:"+pos, where, "NonNull directly wraps a NonNull (%s)", TypeString(t))
			}
		default:
			c.named(pos, where, cur, want)
			return
		}
		var err error
		c.safe(where+" wrapper.Error()", func() { err = cur.Error() })
		if err != nil && !c.parked[cur] {
			// the constructor refused this wrapper (NewList(nil),
			// NewNonNull(nil), NewNonNull(NonNull)) and parked the error on
			// it; that it wraps nil follows from the refusal
			c.parked[cur] = true
			c.badWrapper[cur] = true
			c.add("parked-error:"+pos, where, "%s wrapper in %s carries Error() = %v", Kind(cur), TypeString(t), err)
		}
		if IsNil(inner) {
			if err == nil {
				c.badWrapper[cur] = true
				c.add("wrapper-of-nil:"+pos, where, "%s wrapper around nil (%s) without any parked error", Kind(cur), TypeString(t))
			}
			return
		}
		cur = inner
	}
}

func (c *checker) named(pos, where string, n graphql.Type, want position) {
	kind := Kind(n)
	if kind == "other" {
		c.add("not-a-type:"+pos, where, "value of Go type %T used as a type", n)
		return
	}
	switch {
	case want == outputPos && kind == "inputobject":
		c.add("input-type-as-"+pos, where, "input object %s used in an output position", safeName(n))
	case want == inputPos && (kind == "object" || kind == "interface" || kind == "union"):
		c.add("output-type-as-"+pos, where, "%s %s used in an input position", kind, safeName(n))
	}
	name := safeName(n)
	in, ok := c.tm[name]
	inMap := ok && in == n
	first := !c.visited[n]
	if first {
		c.visited[n] = true
		if !inMap {
			c.outside++
			if pos == "directive-arg-type" || c.behindDirective > 0 {
				c.behindDirective++
			}
		}
		c.walk(n, kind)
		if !inMap {
			c.outside--
			if c.behindDirective > 0 {
				c.behindDirective--
			}
		}
	}
	var err error
	c.safe(where+".Error()", func() { err = n.Error() })
	if err != nil {
		// the constructor (or a lazy initialiser) refused this type and the
		// error was never surfaced; an empty name and a missing map entry
		// follow from that. Reported once, at the reference through which
		// the type was first reached.
		if first {
			c.add("parked-error:"+pos, where, "%s %q carries Error() = %v", kind, name, err)
		}
		if name == "" {
			return
		}
	}
	if first && !LegalName(name) {
		c.add("invalid-name:"+kind, where, "%s named %q", kind, name)
	}
	if c.outside > 0 {
		return
	}
	switch {
	case !ok:
		p := Problem{Class: "not-closed:" + pos, Where: where, Msg: fmt.Sprintf("%s %q is referenced but is not in the type map", kind, name)}
		if pos == "directive-arg-type" {
			// the property's closure list names field, argument, input-field,
			// interface, union-member and root types; whether a directive's
			// argument counts is left open by the edition (graphql-js 0.8
			// did not walk directives)
			p.DontCare = true
		}
		c.addP(p)
	case in != n && pos == "directive-arg-type":
		// follows from the same open question: a type that is only
		// reachable through a directive argument is not owed to the map, so
		// it cannot collide with the map's entry of that name either
		c.addP(Problem{Class: "dup-type-name:directive-arg-type", Where: where, DontCare: true,
			Msg: fmt.Sprintf("a %s named %q other than the type map's entry is reachable only through a directive argument", kind, name)})
	case in != n:
		c.add("dup-type-name", where, "two different type objects are named %q (one in the type map, a different %s reachable here)", name, kind)
	}
}

func safeName(n graphql.Type) (s string) {
	defer func() {
		if recover() != nil {
			s = "<panic>"
		}
	}()
	return n.Name()
}

// broken: the type carries an error after its lazy parts were evaluated.
// What Fields() / Interfaces() / Types() return for such a type is partial
// and depends on map iteration inside the library, so nothing is read from
// it; the parked error itself is reported by the caller.
func (c *checker) broken(n graphql.Type) (b bool) {
	c.safe(safeName(n)+".Error()", func() { b = n.Error() != nil })
	return b
}

// walk visits everything a named type refers to.
func (c *checker) walk(n graphql.Type, kind string) {
	name := safeName(n)
	switch t := n.(type) {
	case *graphql.Object:
		var ifaces []*graphql.Interface
		var fm graphql.FieldDefinitionMap
		c.safe(name+".Interfaces()", func() { ifaces = t.Interfaces() })
		c.safe(name+".Fields()", func() { fm = t.Fields() })
		if c.broken(t) {
			return
		}
		for i, it := range ifaces {
			if it == nil {
				c.add("nil-interface", fmt.Sprintf("%s.Interfaces()[%d]", name, i), "nil interface in the interface list")
				continue
			}
			c.ref("interface", fmt.Sprintf("%s implements #%d", name, i), it, anyPos)
		}
		c.fields(name, fm)
	case *graphql.Interface:
		var fm graphql.FieldDefinitionMap
		c.safe(name+".Fields()", func() { fm = t.Fields() })
		if c.broken(t) {
			return
		}
		c.fields(name, fm)
		var ps []*graphql.Object
		c.safe("PossibleTypes("+name+")", func() { ps = c.s.PossibleTypes(t) })
		ps = sortedObjects(ps)
		for _, p := range ps {
			if p == nil {
				c.add("nil-possible-type", "PossibleTypes("+name+")", "nil object among the possible types")
				continue
			}
			c.ref("possible-type", "PossibleTypes("+name+") "+safeName(p), p, anyPos)
		}
	case *graphql.Union:
		var ms []*graphql.Object
		c.safe(name+".Types()", func() { ms = t.Types() })
		if c.broken(t) {
			return
		}
		if len(ms) == 0 {
			c.empty("members:union", name)
		}
		for i, m := range ms {
			if m == nil {
				c.add("nil-union-member", fmt.Sprintf("%s.Types()[%d]", name, i), "nil object among the union members")
				continue
			}
			c.ref("union-member", fmt.Sprintf("%s member #%d", name, i), m, anyPos)
		}
	case *graphql.Enum:
		var vs []*graphql.EnumValueDefinition
		c.safe(name+".Values()", func() { vs = t.Values() })
		if c.broken(t) {
			return
		}
		if len(vs) == 0 {
			c.empty("values:enum", name)
		}
		seen := map[string]bool{}
		names := []string{}
		for i, v := range vs {
			if v == nil {
				c.add("nil-enum-value", fmt.Sprintf("%s.Values()[%d]", name, i), "nil enum value definition")
				continue
			}
			names = append(names, v.Name)
		}
		sort.Strings(names)
		for _, vn := range names {
			if !LegalName(vn) {
				c.add("invalid-name:enumvalue", name+"."+vn, "enum value named %q", vn)
			}
			if seen[vn] {
				c.add("dup-enum-value", name+"."+vn, "enum value %q defined twice", vn)
			}
			seen[vn] = true
		}
	case *graphql.InputObject:
		var fm graphql.InputObjectFieldMap
		c.safe(name+".Fields()", func() { fm = t.Fields() })
		if c.broken(t) {
			return
		}
		if len(fm) == 0 {
			c.empty("fields:inputobject", name)
		}
		keys := make([]string, 0, len(fm))
		for k := range fm {
			keys = append(keys, k)
		}
		sort.Strings(keys)
		for _, k := range keys {
			f := fm[k]
			where := name + "." + k
			if !LegalName(k) {
				c.add("invalid-name:inputfield", where, "input field named %q", k)
			}
			if f == nil {
				c.add("nil-input-field", where, "nil input field definition")
				continue
			}
			if f.PrivateName != k {
				c.add("field-key-mismatch:inputfield", where, "input field map key %q holds a field named %q", k, f.PrivateName)
			}
			c.ref("input-field-type", where, f.Type, inputPos)
		}
	}
}

// empty: a type with no fields / members / values at all. The property's
// post-condition has no clause about it (only its quantifier mentions empty
// sets as inputs), so it is counted, not judged.
func (c *checker) empty(what, owner string) {
	c.addP(Problem{Class: "empty-" + what, Where: owner, Msg: "accepted with an empty set", DontCare: true})
}

func (c *checker) fields(owner string, fm graphql.FieldDefinitionMap) {
	if len(fm) == 0 {
		c.empty("fields:object-or-interface", owner)
	}
	keys := make([]string, 0, len(fm))
	for k := range fm {
		keys = append(keys, k)
	}
	sort.Strings(keys)
	for _, k := range keys {
		f := fm[k]
		where := owner + "." + k
		if !LegalName(k) {
			c.add("invalid-name:field", where, "field named %q", k)
		}
		if f == nil {
			c.add("nil-field", where, "nil field definition")
			continue
		}
		if f.Name != k {
			c.add("field-key-mismatch:field", where, "field map key %q holds a field named %q", k, f.Name)
		}
		c.ref("field-type", where, f.Type, outputPos)
		c.args("arg", where, f.Args)
	}
}

// args checks an argument list; what is "arg" for fields and "directive-arg"
// for directives.
func (c *checker) args(what, where string, args []*graphql.Argument) {
	as := sortedArgs(args)
	seen := map[string]bool{}
	for _, a := range as {
		if a == nil {
			c.add("nil-"+what, where, "nil argument definition")
			continue
		}
		aw := where + "(" + a.PrivateName + ":)"
		if !LegalName(a.PrivateName) {
			c.add("invalid-name:"+what, aw, "argument named %q", a.PrivateName)
		}
		if seen[a.PrivateName] {
			c.add("dup-"+what+"-name", aw, "argument %q defined twice", a.PrivateName)
		}
		seen[a.PrivateName] = true
		c.ref(what+"-type", aw, a.Type, inputPos)
	}
}

func sortedArgs(args []*graphql.Argument) []*graphql.Argument {
	out := append([]*graphql.Argument{}, args...)
	sort.SliceStable(out, func(i, j int) bool {
		if out[i] == nil || out[j] == nil {
			return out[i] == nil && out[j] != nil
		}
		return out[i].PrivateName < out[j].PrivateName
	})
	return out
}

func sortedObjects(os []*graphql.Object) []*graphql.Object {
	out := append([]*graphql.Object{}, os...)
	sort.SliceStable(out, func(i, j int) bool {
		if out[i] == nil || out[j] == nil {
			return out[i] == nil && out[j] != nil
		}
		return out[i].PrivateName < out[j].PrivateName
	})
	return out
}

func (c *checker) directives() {
	var ds []*graphql.Directive
	c.safe("Directives()", func() { ds = c.s.Directives() })
	type nd struct {
		name string
		d    *graphql.Directive
	}
	var list []nd
	for i, d := range ds {
		if d == nil {
			c.add("nil-directive", fmt.Sprintf("Directives()[%d]", i), "nil directive in an accepted schema")
			continue
		}
		list = append(list, nd{d.Name, d})
	}
	sort.SliceStable(list, func(i, j int) bool { return list[i].name < list[j].name })
	for _, e := range list {
		where := "@" + e.name
		if !LegalName(e.name) {
			c.add("invalid-name:directive", where, "directive named %q", e.name)
		}
		c.args("directive-arg", where, e.d.Args)
	}
}

// ---- interface implementation (October 2016, "Object type validation") ----

func (c *checker) implements(o *graphql.Object) {
	oname := safeName(o)
	var ifaces []*graphql.Interface
	var ofm graphql.FieldDefinitionMap
	if !c.safe(oname+".Interfaces()", func() { ifaces = o.Interfaces() }) {
		return
	}
	if !c.safe(oname+".Fields()", func() { ofm = o.Fields() }) {
		return
	}
	if c.broken(o) {
		return
	}
	for _, it := range ifaces {
		if it == nil {
			continue
		}
		iname := safeName(it)
		var ifm graphql.FieldDefinitionMap
		if !c.safe(iname+".Fields()", func() { ifm = it.Fields() }) {
			continue
		}
		if c.broken(it) {
			continue
		}
		keys := make([]string, 0, len(ifm))
		for k := range ifm {
			keys = append(keys, k)
		}
		sort.Strings(keys)
		for _, k := range keys {
			ifd := ifm[k]
			if ifd == nil {
				continue
			}
			where := oname + "." + k + " for " + iname
			ofd := ofm[k]
			if ofd == nil {
				c.add("iface-field-missing", where, "%s declares %s but has no field %q", oname, iname, k)
				continue
			}
			if !c.subtype(ofd.Type, ifd.Type) {
				c.add("iface-field-type-not-covariant", where, "%s.%s: %s is not a subtype of %s.%s: %s", oname, k, TypeString(ofd.Type), iname, k, TypeString(ifd.Type))
			}
			oargs := map[string]*graphql.Argument{}
			for _, a := range ofd.Args {
				if a != nil {
					oargs[a.PrivateName] = a
				}
			}
			iargs := map[string]*graphql.Argument{}
			for _, a := range sortedArgs(ifd.Args) {
				if a == nil {
					continue
				}
				iargs[a.PrivateName] = a
				oa := oargs[a.PrivateName]
				aw := where + "(" + a.PrivateName + ":)"
				if oa == nil {
					c.add("iface-arg-missing", aw, "interface field argument %q is missing on the implementer", a.PrivateName)
					continue
				}
				if !c.sameType(oa.Type, a.Type) {
					c.add("iface-arg-type-differs", aw, "implementer has %s, interface has %s", TypeString(oa.Type), TypeString(a.Type))
				}
			}
			for _, oa := range sortedArgs(ofd.Args) {
				if oa == nil {
					continue
				}
				if _, ok := iargs[oa.PrivateName]; ok {
					continue
				}
				if _, req := oa.Type.(*graphql.NonNull); req {
					c.add("iface-extra-required-arg", where+"("+oa.PrivateName+":)", "additional argument of required type %s", TypeString(oa.Type))
				}
			}
		}
	}
}

// sameType: identical wrapper structure around the same named type object.
func (c *checker) sameType(a, b graphql.Type) bool {
	if IsNil(a) || IsNil(b) {
		return IsNil(a) && IsNil(b)
	}
	switch x := a.(type) {
	case *graphql.List:
		y, ok := b.(*graphql.List)
		return ok && c.sameType(x.OfType, y.OfType)
	case *graphql.NonNull:
		y, ok := b.(*graphql.NonNull)
		return ok && c.sameType(x.OfType, y.OfType)
	}
	switch b.(type) {
	case *graphql.List, *graphql.NonNull:
		return false
	}
	return a == b
}

// subtype: is sub usable where super is declared (covariance of the edition).
func (c *checker) subtype(sub, super graphql.Type) bool {
	if IsNil(sub) || IsNil(super) {
		return false
	}
	if c.sameType(sub, super) {
		return true
	}
	// non-null: the implementer may add it, never drop it
	if sn, ok := sub.(*graphql.NonNull); ok {
		if pn, ok := super.(*graphql.NonNull); ok {
			return c.subtype(sn.OfType, pn.OfType)
		}
		return c.subtype(sn.OfType, super)
	}
	if _, ok := super.(*graphql.NonNull); ok {
		return false
	}
	// lists must match position by position
	if sl, ok := sub.(*graphql.List); ok {
		if pl, ok := super.(*graphql.List); ok {
			return c.subtype(sl.OfType, pl.OfType)
		}
		return false
	}
	if _, ok := super.(*graphql.List); ok {
		return false
	}
	// object narrowing an abstract type it belongs to
	o, ok := sub.(*graphql.Object)
	if !ok {
		return false
	}
	switch a := super.(type) {
	case *graphql.Interface:
		return c.declaredCount(a, o) > 0
	case *graphql.Union:
		return c.declaredCount(a, o) > 0
	}
	return false
}

// declaredCount: how often o declares interface a / is listed by union a,
// read from the declarations themselves (never from PossibleTypes).
func (c *checker) declaredCount(a graphql.Type, o *graphql.Object) int {
	n := 0
	switch at := a.(type) {
	case *graphql.Interface:
		var ifaces []*graphql.Interface
		c.safe(safeName(o)+".Interfaces()", func() { ifaces = o.Interfaces() })
		for _, it := range ifaces {
			if it == at {
				n++
			}
		}
	case *graphql.Union:
		var ms []*graphql.Object
		c.safe(safeName(at)+".Types()", func() { ms = at.Types() })
		for _, m := range ms {
			if m == o {
				n++
			}
		}
	}
	return n
}

// ---- possible types ----

func (c *checker) possibleTypes() {
	for _, a := range c.abstracts {
		aname := safeName(a)
		kind := Kind(a)
		abs, _ := a.(graphql.Abstract)
		var ps []*graphql.Object
		if !c.safe("PossibleTypes("+aname+")", func() { ps = c.s.PossibleTypes(abs) }) {
			continue
		}
		listed := map[*graphql.Object]int{}
		for _, p := range ps {
			if p != nil {
				listed[p]++
			}
		}
		// every listed object must be an object of this schema
		for _, p := range sortedObjects(ps) {
			if p == nil {
				continue
			}
			if in, ok := c.tm[safeName(p)]; !ok || in != graphql.Type(p) {
				c.add("possible-type-not-in-map:"+kind, "PossibleTypes("+aname+")", "possible type %s is not the type map's object of that name", safeName(p))
			}
		}
		for _, o := range c.objects {
			oname := safeName(o)
			where := aname + " / " + oname
			decl := c.declaredCount(a, o)
			var isP bool
			if !c.safe("IsPossibleType("+aname+","+oname+")", func() { isP = c.s.IsPossibleType(abs, o) }) {
				continue
			}
			if (decl > 0) != (listed[o] > 0) {
				c.add("possible-types-mismatch:"+kind, where, "declared %d time(s) but listed %d time(s) by PossibleTypes", decl, listed[o])
			}
			if isP != (decl > 0) {
				c.add("is-possible-type-mismatch:"+kind, where, "IsPossibleType = %v but declared %d time(s)", isP, decl)
			}
			if listed[o] > 1 {
				if listed[o] == decl {
					// the configuration itself lists the member / interface more than once
					c.addP(Problem{Class: "dup-declared:" + kind, Where: where, Msg: fmt.Sprintf("declared and listed %d times", decl), DontCare: true})
				} else {
					c.add("dup-possible-type:"+kind, where, "listed %d times by PossibleTypes but declared %d time(s)", listed[o], decl)
				}
			}
		}
	}
}

// ---- printing and the normalised description (history clause) ----

// TypeString prints a type expression without relying on String().
func TypeString(t graphql.Type) string {
	return typeString(t, 0)
}

func typeString(t graphql.Type, d int) string {
	if IsNil(t) {
		return "<nil>"
	}
	if d > 64 {
		return "<deep>"
	}
	switch w := t.(type) {
	case *graphql.List:
		return "[" + typeString(w.OfType, d+1) + "]"
	case *graphql.NonNull:
		return typeString(w.OfType, d+1) + "!"
	}
	return safeName(t)
}

// Describe extracts a normalised description of the schema through the
// public read API: sorted type names; per type its kind, fields (argument
// names and types, result type), interfaces (sorted), possible types (sorted,
// with multiplicity), IsPossibleType row, enum values, input fields; roots;
// directives. Two schemas that are "the same" have equal descriptions
// regardless of map iteration order or of the order in which types were added.
func Describe(schema graphql.Schema) (desc string, panicked *Problem) {
	defer func() {
		if r := recover(); r != nil {
			panicked = &Problem{Class: "panic", Where: "Describe", Msg: fmt.Sprint(r), Stack: string(debug.Stack())}
		}
	}()
	s := &schema
	var b strings.Builder
	root := func(label string, o *graphql.Object) {
		if o == nil {
			fmt.Fprintf(&b, "%s: -\n", label)
		} else {
			fmt.Fprintf(&b, "%s: %s\n", label, o.Name())
		}
	}
	root("query", s.QueryType())
	root("mutation", s.MutationType())
	root("subscription", s.SubscriptionType())
	tm := s.TypeMap()
	keys := make([]string, 0, len(tm))
	for k := range tm {
		keys = append(keys, k)
	}
	sort.Strings(keys)
	var objects []*graphql.Object
	for _, k := range keys {
		if o, ok := tm[k].(*graphql.Object); ok && o != nil {
			objects = append(objects, o)
		}
	}
	fieldLines := func(fm graphql.FieldDefinitionMap) {
		fk := make([]string, 0, len(fm))
		for k := range fm {
			fk = append(fk, k)
		}
		sort.Strings(fk)
		for _, k := range fk {
			f := fm[k]
			if f == nil {
				fmt.Fprintf(&b, "  field %s <nil>\n", k)
				continue
			}
			var as []string
			for _, a := range sortedArgs(f.Args) {
				if a == nil {
					as = append(as, "<nil>")
					continue
				}
				as = append(as, a.PrivateName+":"+TypeString(a.Type))
			}
			fmt.Fprintf(&b, "  field %s(%s): %s\n", k, strings.Join(as, ","), TypeString(f.Type))
		}
	}
	possible := func(a graphql.Abstract) {
		var ns []string
		for _, p := range s.PossibleTypes(a) {
			if p == nil {
				ns = append(ns, "<nil>")
			} else {
				ns = append(ns, p.Name())
			}
		}
		sort.Strings(ns)
		fmt.Fprintf(&b, "  possible %s\n", strings.Join(ns, ","))
		var is []string
		for _, o := range objects {
			if s.IsPossibleType(a, o) {
				is = append(is, o.Name())
			}
		}
		fmt.Fprintf(&b, "  ispossible %s\n", strings.Join(is, ","))
	}
	for _, k := range keys {
		t := tm[k]
		fmt.Fprintf(&b, "type %s %s\n", k, Kind(t))
		if s.Type(k) != t {
			fmt.Fprintf(&b, "  lookup-differs\n")
		}
		if IsNil(t) {
			continue
		}
		// evaluate the lazy parts first; a type that then carries an error
		// is described as broken and nothing else (what its accessors return
		// is partial and depends on map iteration inside the library)
		switch tt := t.(type) {
		case *graphql.Object:
			tt.Interfaces()
			tt.Fields()
		case *graphql.Interface:
			tt.Fields()
		case *graphql.Union:
			tt.Types()
		case *graphql.InputObject:
			tt.Fields()
		}
		if t.Error() != nil {
			fmt.Fprintf(&b, "  error parked\n")
			continue
		}
		switch tt := t.(type) {
		case *graphql.Object:
			if tt == nil {
				continue
			}
			var ns []string
			for _, it := range tt.Interfaces() {
				if it == nil {
					ns = append(ns, "<nil>")
				} else {
					ns = append(ns, it.Name())
				}
			}
			sort.Strings(ns)
			fmt.Fprintf(&b, "  implements %s\n", strings.Join(ns, ","))
			fieldLines(tt.Fields())
		case *graphql.Interface:
			if tt == nil {
				continue
			}
			fieldLines(tt.Fields())
			possible(tt)
		case *graphql.Union:
			if tt == nil {
				continue
			}
			var ns []string
			for _, m := range tt.Types() {
				if m == nil {
					ns = append(ns, "<nil>")
				} else {
					ns = append(ns, m.Name())
				}
			}
			sort.Strings(ns)
			fmt.Fprintf(&b, "  members %s\n", strings.Join(ns, ","))
			possible(tt)
		case *graphql.Enum:
			if tt == nil {
				continue
			}
			var ns []string
			for _, v := range tt.Values() {
				if v == nil {
					ns = append(ns, "<nil>")
				} else {
					ns = append(ns, v.Name)
				}
			}
			sort.Strings(ns)
			fmt.Fprintf(&b, "  values %s\n", strings.Join(ns, ","))
		case *graphql.InputObject:
			if tt == nil {
				continue
			}
			fm := tt.Fields()
			fk := make([]string, 0, len(fm))
			for k := range fm {
				fk = append(fk, k)
			}
			sort.Strings(fk)
			for _, k := range fk {
				if fm[k] == nil {
					fmt.Fprintf(&b, "  input %s <nil>\n", k)
					continue
				}
				fmt.Fprintf(&b, "  input %s: %s\n", k, TypeString(fm[k].Type))
			}
		}
	}
	var ds []string
	for _, d := range s.Directives() {
		if d == nil {
			ds = append(ds, "directive <nil>")
			continue
		}
		var as []string
		for _, a := range sortedArgs(d.Args) {
			if a == nil {
				as = append(as, "<nil>")
				continue
			}
			as = append(as, a.PrivateName+":"+TypeString(a.Type))
		}
		locs := append([]string{}, d.Locations...)
		sort.Strings(locs)
		ds = append(ds, fmt.Sprintf("directive @%s(%s) on %s", d.Name, strings.Join(as, ","), strings.Join(locs, "|")))
	}
	sort.Strings(ds)
	for _, d := range ds {
		b.WriteString(d + "\n")
	}
	return b.String(), nil
}

// DiffClass names what differs first between two descriptions, as a stable
// class for a history:<class> signature, plus the differing lines.
func DiffClass(a, b string) (class, lineA, lineB string) {
	la := strings.Split(a, "\n")
	lb := strings.Split(b, "\n")
	for i := 0; i < len(la) || i < len(lb); i++ {
		var x, y string
		if i < len(la) {
			x = la[i]
		}
		if i < len(lb) {
			y = lb[i]
		}
		if x == y {
			continue
		}
		pick := x
		if pick == "" {
			pick = y
		}
		f := strings.Fields(pick)
		cls := "other"
		if len(f) > 0 {
			switch f[0] {
			case "type":
				cls = "type-set"
			case "field":
				cls = "fields"
			case "possible":
				cls = "possible-types"
			case "ispossible":
				cls = "is-possible-type"
			case "implements":
				cls = "interfaces"
			case "members":
				cls = "union-members"
			case "values":
				cls = "enum-values"
			case "input":
				cls = "input-fields"
			case "directive":
				cls = "directives"
			case "query:", "mutation:", "subscription:":
				cls = "roots"
			case "error":
				cls = "parked-error"
			case "lookup-differs":
				cls = "type-lookup"
			}
		}
		return cls, x, y
	}
	return "", "", ""
}
