package syntax

import (
	"strings"
	"testing"

	"verif/internal/nast"
)

// docCases: text, accepted?, and for rejected texts the byte offset of the
// offending token / character (-1 = not checked). Written from the grammar of
// DESIGN.md Appendix A.1.
var docCases = []struct {
	src string
	ok  bool
	pos int
}{
	// --- documents / operations
	{``, false, 0},
	{` `, false, 1},
	{"# only a comment", false, 16},
	{"\ufeff", false, 3},
	{`{a}`, true, -1},
	{`{ a }`, true, -1},
	{`{ a b c }`, true, -1},
	{`{ a, b, c }`, true, -1},
	{`{,,, a ,,, }`, true, -1},
	{`{ }`, false, 2},
	{`{`, false, 1},
	{`}`, false, 0},
	{`{ a`, false, 3},
	{`{ a } }`, false, 6},
	{`{ a } { b }`, true, -1},
	{`query { a }`, true, -1},
	{`mutation { a }`, true, -1},
	{`subscription { a }`, true, -1},
	{`query Q { a }`, true, -1},
	{`query query { a }`, true, -1},
	{`query on { a }`, true, -1},
	{`query true { a }`, true, -1},
	{`query`, false, 5},
	{`query Q`, false, 7},
	{`query Q Q { a }`, false, 8},
	{`Query { a }`, false, 0},
	{`a`, false, 0},
	{`on`, false, 0},
	{`true`, false, 0},
	{`implements`, false, 0},
	{`1`, false, 0},
	{`$a`, false, 0},
	{`query ($a: Int) { a }`, true, -1},
	{`query Q($a: Int, $b: [Int!]!) { a }`, true, -1},
	{`query Q($a: Int $b: Int) { a }`, true, -1},
	{`query () { a }`, false, 7},
	{`query ($a) { a }`, false, 9},
	{`query ($a:) { a }`, false, 10},
	{`query ($a: ) {f}`, false, 11},
	{`query ($a: ]) {f}`, false, 11},
	{`query ($a: [Int}) {f}`, false, 15},
	{`query ($a: [Int) {f}`, false, 15},
	{`query ($a: [Int]]) {f}`, false, 16},
	{`query ($a: [[Int]]) {f}`, true, -1},
	{`query ($a: Int!!) {f}`, false, 15},
	{`query ($a: !Int) {f}`, false, 11},
	{`query ($a: [Int!]!) {f}`, true, -1},
	{`query (a: Int) {f}`, false, 7},
	{`query ($a: Int = 1) {f}`, true, -1},
	{`query ($a: Int = $b) {f}`, false, 17},
	{`query ($a: [Int] = [1, $b]) {f}`, false, 23},
	{`query ($a: I = {k: $b}) {f}`, false, 19},
	{`query ($a: Int = ) {f}`, false, 17},
	{`query ($a: Int @d) {f}`, false, 15},
	{`query ($a: Int = 1 = 2) {f}`, false, 19},
	{`query Q @d { a }`, true, -1},
	{`query Q @d(a: 1) @e { a }`, true, -1},
	{`query Q($a: Int) @d { a }`, true, -1},
	{`query @d ($a: Int) { a }`, false, 10}, // the parenthesis opens the arguments of @d
	{`query Q { a } query R { b }`, true, -1},
	// --- fields
	{`{ a: b }`, true, -1},
	{`{ a: b: c }`, false, 6},
	{`{ a: }`, false, 5},
	{`{ : a }`, false, 2},
	{`{ a(x: 1) }`, true, -1},
	{`{ a(x: 1, y: 2) }`, true, -1},
	{`{ a(x: 1 y: 2) }`, true, -1},
	{`{ a() }`, false, 4},
	{`{ a( }`, false, 5},
	{`{ a(x) }`, false, 5},
	{`{ a(x:) }`, false, 6},
	{`{ a(x: 1 }`, false, 9},
	{`{ a(1: 1) }`, false, 4},
	{`{ a(x: 1)(y: 2) }`, false, 9},
	{`{ a @d }`, true, -1},
	{`{ a @d @e(x: $v) }`, true, -1},
	{`{ a @ }`, false, 6},
	{`{ a @1 }`, false, 5},
	{`{ a @d() }`, false, 7},
	{`{ a { b } }`, true, -1},
	{`{ a { } }`, false, 6},
	{`{ a { b }`, false, 9},
	{`{ a @d(x: 1) { b } c }`, true, -1},
	{`{ a { b } @d }`, false, 10},
	{`{ query mutation fragment on true false null type }`, true, -1},
	{`{ on }`, true, -1},
	{`{ a(on: on) }`, true, -1},
	// --- fragments
	{`{ ...F }`, true, -1},
	{`{ ...F @d }`, true, -1},
	{`{ ... F }`, true, -1},
	{`{ ...on T { a } }`, true, -1},
	{`{ ... on T @d { a } }`, true, -1},
	{`{ ... @d { a } }`, true, -1},
	{`{ ... { a } }`, true, -1},
	{`{ ... }`, false, 6},
	{`{ ... on }`, false, 9},
	{`{ ... on T }`, false, 11},
	{`{ ... on on { a } }`, true, -1},
	{`{ ...F { a } }`, false, 7},
	{`{ ... 1 }`, false, 6},
	{`{ ... "on" T { a } }`, false, 6},
	{`{ .. }`, false, 2},
	{`{ . }`, false, 2},
	{`{ .... }`, false, 5},
	{`{ ...... }`, false, 5},
	{`fragment F on T { a }`, true, -1},
	{`fragment F on T @d { a }`, true, -1},
	{`fragment on on T { a }`, false, 9},
	{`fragment F T { a }`, false, 11},
	{`fragment F on { a }`, false, 14},
	{`fragment F on T`, false, 15},
	{`fragment F on [T] { a }`, false, 14},
	{`fragment F on T! { a }`, false, 15},
	{`fragment fragment on on { a }`, true, -1},
	{`fragment F($a: Int) on T { a }`, false, 10},
	{`fragment`, false, 8},
	// --- values
	{`{ a(x: 1, y: -1, z: 0, w: -0) }`, true, -1},
	{`{ a(x: 1.5, y: -1.5e10, z: 1E5, w: 0.0e-0, v: 1e+5) }`, true, -1},
	{`{ a(x: "s", y: "", z: """b""", w: """""") }`, true, -1},
	{`{ a(x: true, y: false, z: E, w: nul, v: TRUE) }`, true, -1},
	{`{ a(x: null) }`, false, 7},
	{`{ a(x: [null]) }`, false, 8},
	{`{ a(x: {k: null}) }`, false, 11},
	{`{ a(x: $v) }`, true, -1},
	{`{ a(x: $) }`, false, 8},
	{`{ a(x: $1) }`, false, 8},
	{`{ a(x: $ v) }`, true, -1},
	{`{ a(x: []) }`, true, -1},
	{`{ a(x: [1 2 3]) }`, true, -1},
	{`{ a(x: [1, [2, [3]]]) }`, true, -1},
	{`{ a(x: [1, $v, {k: $w}]) }`, true, -1},
	{`{ a(x: [) }`, false, 8},
	{`{ a(x: [1) }`, false, 9},
	{`{ a(x: ]) }`, false, 7},
	{`{ a(x: {}) }`, true, -1},
	{`{ a(x: {k: 1}) }`, true, -1},
	{`{ a(x: {k: 1, l: {m: [2]}}) }`, true, -1},
	{`{ a(x: {k}) }`, false, 9},
	{`{ a(x: {k:}) }`, false, 10},
	{`{ a(x: {1: 1}) }`, false, 8},
	{`{ a(x: {"k": 1}) }`, false, 8},
	{`{ a(x: {k: 1) }`, false, 12},
	{`{ a(x: }) }`, false, 7},
	{`{ a(x: :) }`, false, 7},
	{`{ a(x: @d) }`, false, 7},
	{`{ a(x: ...) }`, false, 7},
	{`{ a(x: !) }`, false, 7},
	{`{ a(x: =) }`, false, 7},
	{`{ a(x: |) }`, false, 7},
	{`{ a(x: &) }`, false, 7},
	// --- numbers (lexical)
	{`{ a(x: -) }`, false, 8},
	{`{ a(x: - 1) }`, false, 8},
	{`{ a(x: -a) }`, false, 8},
	{`{ a(x: 00) }`, false, 8},
	{`{ a(x: 01) }`, false, 8},
	{`{ a(x: -01) }`, false, 9},
	{`{ a(x: 1.) }`, false, 9},
	{`{ a(x: .5) }`, false, 7},
	{`{ a(x: 1e) }`, false, 9},
	{`{ a(x: 1e+) }`, false, 10},
	{`{ a(x: 1e-) }`, false, 10},
	{`{ a(x: 1.e5) }`, false, 9},
	{`{ a(x: 1.5.5) }`, false, 10},
	{`{ a(x: 1..2) }`, false, 9},
	{`{ a(x: +1) }`, false, 7},
	{`{ a(x: 1-2) }`, false, 8},
	{`{ a(x: [1-2]) }`, true, -1},
	{`{ a(x: 1"s") }`, false, 8},
	{`{ a(x: [1"s"2]) }`, true, -1},
	// --- strings (lexical)
	{`{ a(x: "a\"b\\c\/d\b\f\n\r\t") }`, true, -1},
	{`{ a(x: "` + U + `0041` + U + `00e9` + U + `abcd` + U + `ABCD") }`, true, -1},
	{`{ a(x: "\u") }`, false, 10},
	{`{ a(x: "\u1") }`, false, 11},
	{`{ a(x: "\u12") }`, false, 12},
	{`{ a(x: "\u123") }`, false, 13},
	{`{ a(x: "\u123G") }`, false, 13},
	{`{ a(x: "\uG123") }`, false, 10},
	{`{ a(x: "\x41") }`, false, 9},
	{`{ a(x: "\a") }`, false, 9},
	{`{ a(x: "\ ") }`, false, 9},
	{`{ a(x: "\U0041") }`, false, 9},
	{`{ a(x: "abc`, false, 11},
	{`{ a(x: "abc\`, false, 12},
	{`{ a(x: "abc\"`, false, 13},
	{"{ a(x: \"ab\ncd\") }", false, 10},
	{"{ a(x: \"ab\rcd\") }", false, 10},
	{"{ a(x: \"ab\tcd\") }", true, -1},
	{"{ a(x: \"ab\x00cd\") }", false, 10},
	{"{ a(x: \"ab\x1fcd\") }", false, 10},
	{"{ a(x: \"ab\x7fcd\") }", true, -1},
	{"{ a(x: \"é€😀\") }", true, -1},
	{`{ a(x: 'a') }`, false, 7},
	{`{ a(x: "a" "b") }`, false, 11},
	// --- block strings (lexical)
	{`{ a(x: """a"b""c""") }`, true, -1},
	{`{ a(x: """a\"""b""") }`, true, -1},
	{`{ a(x: """a\nb\q\u12""") }`, true, -1},
	{"{ a(x: \"\"\"a\nb\r\nc\rd\"\"\") }", true, -1},
	{`{ a(x: """abc) }`, false, 16},
	{`{ a(x: """abc"") }`, false, 18},
	{`{ a(x: """abc\""") }`, false, 20},
	{`{ a(x: """") }`, false, 14},
	{`{ a(x: """"""") }`, false, 17},
	{`{ a(x: """""""") }`, false, 13},
	{"{ a(x: \"\"\"a\x00b\"\"\") }", false, 11},
	{"{ a(x: \"\"\"a\x0bb\"\"\") }", false, 11},
	// --- ignored tokens, comments, source characters
	{"{ a # c\n b }", true, -1},
	{"{ a # c\r b }", true, -1},
	{"{ a # c\r\n b }", true, -1},
	{"{ a # c", false, 7},
	{"{ a #é€😀\n b }", true, -1},
	{"{ a # x\x00y\n b }", false, 7},
	{"{ a # x\ty\n b }", true, -1},
	{"\ufeff{ a }", true, -1},
	{"{ a \ufeff b }", true, -1},
	{"{ a\ufeffb }", true, -1},
	{"{ a }\ufeff", true, -1},
	{"{ a   }", false, 4},
	{"{ a   }", false, 4},
	{"{ a \x00 }", false, 4},
	{"{ a \x0c }", false, 4},
	{"{ a \x7f }", false, 4},
	{"{ é }", false, 2},
	{"{ aé }", false, 3},
	{`{ a ? }`, false, 4},
	{`{ a % }`, false, 4},
	{`{ a ; }`, false, 4},
	{`{ a \ }`, false, 4},
	{`{ a < }`, false, 4},
	{`{ a * }`, false, 4},
	{`{ a_1 _ _a A1 a1b2 __typename }`, true, -1},
	{`{ 1a }`, false, 2},
	{`{ $$ }`, false, 2},
	{`{ a !! }`, false, 4},
	{`{ a @@ }`, false, 5},
	// --- schema
	{`schema { query: Q }`, true, -1},
	{`schema { query: Q mutation: M subscription: S }`, true, -1},
	{`schema @d { query: Q }`, true, -1},
	{`schema { }`, false, 9},
	{`schema { query Q }`, false, 15},
	{`schema { query: [Q] }`, false, 16},
	{`schema { query: Q! }`, false, 17},
	{`schema { foo: Q }`, false, 9},
	{`schema Q { query: Q }`, false, 7},
	{`"d" schema { query: Q }`, false, 4},
	{`schema`, false, 6},
	// --- scalar
	{`scalar S`, true, -1},
	{`scalar S @d`, true, -1},
	{`scalar S @d(x: [1]) @e`, true, -1},
	{`"d" scalar S`, true, -1},
	{`"""d""" scalar S`, true, -1},
	{`"d" "e" scalar S`, false, 4},
	{`scalar`, false, 6},
	{`scalar S T`, false, 9},
	{`scalar S scalar T`, true, -1},
	{`scalar S { a: Int }`, true, -1}, // scalar S, then the shorthand query { a: Int }
	{`scalar S { a: [Int] }`, false, 14},
	{`scalar "d" S`, false, 7},
	// --- object types
	{`type T { a: Int }`, true, -1},
	{`type T { }`, true, -1},
	{`type T {}`, true, -1},
	{`type T`, false, 6},
	{`type { a: Int }`, false, 5},
	{`type T { a }`, false, 11},
	{`type T { a: }`, false, 12},
	{`type T { a: Int b: [Int!]! }`, true, -1},
	{`type T { a: Int, b: Int }`, true, -1},
	{`type T { a(x: Int): Int }`, true, -1},
	{`type T { a(x: Int = 1, y: [Int] = [1] @d): Int @e }`, true, -1},
	{`type T { a(): Int }`, false, 11},
	{`type T { a(x: Int = $v): Int }`, false, 20},
	{`type T { a(x): Int }`, false, 12},
	{`type T { "d" a: Int }`, true, -1},
	{`type T { """d""" a("e" x: Int): Int }`, true, -1},
	{`type T { "d" }`, false, 13},
	{`type T { "d" "e" a: Int }`, false, 13},
	{`type T { a: Int "d" }`, false, 20},
	{`type T implements I { a: Int }`, true, -1},
	{`type T implements I & J { a: Int }`, true, -1},
	{`type T implements & I & J { a: Int }`, true, -1},
	{`type T implements I J { a: Int }`, false, 20},
	{`type T implements I, J { a: Int }`, false, 21},
	{`type T implements { a: Int }`, false, 18},
	{`type T implements I & { a: Int }`, false, 22},
	{`type T implements & & I { a: Int }`, false, 20},
	{`type T implements [I] { }`, false, 18},
	{`type T "implements" I { }`, false, 7},
	{`type implements implements implements { }`, true, -1},
	{`type T @d { a: Int }`, true, -1},
	{`type T implements I @d @e { a: Int }`, true, -1},
	{`type T @d implements I { a: Int }`, false, 10},
	{`type T { a: Int @d(x: $v) }`, true, -1},
	{`type T { a: Int = 1 }`, false, 16},
	{`type T { a: Int } type U { b: T }`, true, -1},
	{`"d" type T { }`, true, -1},
	{`type T { type: type query: query on: on }`, true, -1},
	// --- interface
	{`interface I { a: Int }`, true, -1},
	{`interface I { }`, true, -1},
	{`interface I @d { a(x: Int): Int }`, true, -1},
	{`interface I implements J { }`, false, 12},
	{`interface I`, false, 11},
	{`"d" interface I { "e" a: Int }`, true, -1},
	// --- union
	{`union U = A`, true, -1},
	{`union U = A | B | C`, true, -1},
	{`union U @d = A | B`, true, -1},
	{`union U = | A | B`, false, 10},
	{`union U = A |`, false, 13},
	{`union U = A | | B`, false, 14},
	{`union U =`, false, 9},
	{`union U`, false, 7},
	{`union U A`, false, 8},
	{`union U = A & B`, false, 12},
	{`union U = [A]`, false, 10},
	{`union U = A B`, false, 12},
	{`union U = A type T { }`, true, -1},
	{`"d" union U = A`, true, -1},
	// --- enum
	{`enum E { A }`, true, -1},
	{`enum E { A B C }`, true, -1},
	{`enum E { A, B }`, true, -1},
	{`enum E { }`, true, -1},
	{`enum E`, false, 6},
	{`enum E @d { A @e "d" B }`, true, -1},
	{`enum E { true false null }`, true, -1},
	{`enum E { A: 1 }`, false, 10},
	{`enum E { 1 }`, false, 9},
	{`enum E { "d" }`, false, 13},
	{`enum E { $a }`, false, 9},
	// --- input
	{`input I { a: Int }`, true, -1},
	{`input I { }`, true, -1},
	{`input I { a: Int = 1 @d, b: [I!] = [{a: 2}] }`, true, -1},
	{`input I { a(x: Int): Int }`, false, 11},
	{`input I { a: Int = $v }`, false, 19},
	{`input I { "d" a: Int }`, true, -1},
	{`input I @d { a: Int }`, true, -1},
	{`input I`, false, 7},
	{`input I implements J { }`, false, 8},
	// --- extend
	{`extend type T { a: Int }`, true, -1},
	{`extend type T implements I @d { }`, true, -1},
	{`extend "d" type T { }`, true, -1},
	{`"d" extend type T { }`, false, 4},
	{`extend interface I { }`, false, 7},
	{`extend scalar S`, false, 7},
	{`extend schema { query: Q }`, false, 7},
	{`extend`, false, 6},
	{`extend T { }`, false, 7},
	// --- directive definitions
	{`directive @d on FIELD`, true, -1},
	{`directive @d on FIELD | QUERY | anything`, true, -1},
	{`directive @d(x: Int = 1, "e" y: [S]) on FIELD`, true, -1},
	{`"d" directive @d on FIELD`, true, -1},
	{`directive @d on | FIELD`, false, 16},
	{`directive @d on FIELD |`, false, 23},
	{`directive @d on`, false, 15},
	{`directive @d FIELD`, false, 13},
	{`directive d on FIELD`, false, 10},
	{`directive @d() on FIELD`, false, 13},
	{`directive @d on FIELD FIELD`, false, 22},
	{`directive @d repeatable on FIELD`, false, 13},
	{`directive @d on 1`, false, 16},
	{`directive @on on on`, true, -1},
	{`directive @d on FIELD scalar S`, true, -1},
	// --- descriptions in wrong places
	{`"d"`, false, 3},
	{`"d" { a }`, false, 4},
	{`"d" query { a }`, false, 4},
	{`"d" fragment F on T { a }`, false, 4},
	{`"d" foo`, false, 4},
	{`"d" 1`, false, 4},
	{`"d" ?`, false, 4},
	{`{ "d" a }`, false, 2},
	// --- mixed documents
	{`query Q { a } type T { a: Int } fragment F on T { a } scalar S { b }`, true, -1},
	{`type T { a: Int } { a }`, true, -1},
	{`scalar S @d { a }`, true, -1}, // scalar S @d, then the shorthand query { a }
}

// U is a backslash followed by u (kept apart from the hexadecimal digits).
const U = `\` + "u"

func TestDocuments(t *testing.T) {
	if len(docCases) < 150 {
		t.Fatalf("only %d cases", len(docCases))
	}
	for _, c := range docCases {
		doc, err := Parse([]byte(c.src))
		if c.ok {
			if err != nil {
				t.Errorf("%q: rejected at %d (%s), want accepted", c.src, err.Pos, err.Msg)
				continue
			}
			checkSpans(t, c.src, doc)
			continue
		}
		if err == nil {
			t.Errorf("%q: accepted, want rejected", c.src)
			continue
		}
		if c.pos >= 0 && err.Pos != c.pos {
			t.Errorf("%q: rejected at %d (%s), want position %d", c.src, err.Pos, err.Msg, c.pos)
		}
		if err.Pos < err.TokStart || (err.Pos >= err.TokEnd && err.Pos != len(c.src)) {
			t.Errorf("%q: Pos %d outside lexeme [%d,%d)", c.src, err.Pos, err.TokStart, err.TokEnd)
		}
	}
}

// checkSpans: every child span lies inside its parent, siblings are ordered,
// and every node's text starts and ends with a non-ignored character.
func checkSpans(t *testing.T, src string, n nast.Node) {
	sp := n.Pos()
	if sp.Start < 0 || sp.End > len(src) || sp.Start >= sp.End {
		t.Errorf("%q: %s has span [%d,%d)", src, n.Kind(), sp.Start, sp.End)
		return
	}
	txt := src[sp.Start:sp.End]
	if strings.ContainsAny(txt[:1], " \t\n\r,#") || strings.ContainsAny(txt[len(txt)-1:], " \t\n\r,") {
		t.Errorf("%q: %s span text %q starts/ends with an ignored character", src, n.Kind(), txt)
	}
	prev := sp.Start
	for _, c := range nast.Children(n) {
		cs := c.Pos()
		if cs.Start < prev || cs.End > sp.End {
			t.Errorf("%q: child %s [%d,%d) not inside/ordered in %s [%d,%d) (prev %d)", src, c.Kind(), cs.Start, cs.End, n.Kind(), sp.Start, sp.End, prev)
		}
		// an alias and its field, a Named and its Name share a start
		prev = cs.Start
		checkSpans(t, src, c)
	}
}

func TestValues(t *testing.T) {
	cases := []struct {
		src  string
		ok   bool
		kind string
		val  string
	}{
		{`1`, true, "IntValue", "1"},
		{`-0`, true, "IntValue", "-0"},
		{` 123 `, true, "IntValue", "123"},
		{`1.5`, true, "FloatValue", "1.5"},
		{`-1.5e+10`, true, "FloatValue", "-1.5e+10"},
		{`1E5`, true, "FloatValue", "1E5"},
		{`0.0e-0`, true, "FloatValue", "0.0e-0"},
		{`"abc"`, true, "StringValue", "abc"},
		{`""`, true, "StringValue", ""},
		{`"a\"b\\c\/d\b\f\n\r\t"`, true, "StringValue", "a\"b\\c/d\b\f\n\r\t"},
		{`"Aé€"`, true, "StringValue", "Aé€"},
		{`"\u0000"`, true, "StringValue", "\x00"},
		{`"` + U + `0041` + U + `00e9` + U + `abcd` + U + `ABCD"`, true, "StringValue", "Aéꯍꯍ"},
		{`"` + U + `D83D` + U + `DE00"`, true, "StringValue", "😀"},
		{`"` + U + `d83d` + U + `de00` + U + `D83D"`, true, "StringValue", "😀�"},
		{`"\uD83Dx"`, true, "StringValue", "�x"},
		{`"\uDE00"`, true, "StringValue", "�"},
		{`"é€😀"`, true, "StringValue", "é€😀"},
		{`"# not a comment, ..."`, true, "StringValue", "# not a comment, ..."},
		{`""""""`, true, "StringValue", ""},
		{`"""abc"""`, true, "StringValue", "abc"},
		{`"""a"b""c"""`, true, "StringValue", `a"b""c`},
		{`"""a\"""b"""`, true, "StringValue", `a"""b`},
		{`"""\""""""`, true, "StringValue", `"""`},
		{`"""a\nb"""`, true, "StringValue", `a\nb`},
		{`"""a\\"""`, false, "", ""}, // the second backslash escapes the triple quote
		{`"""a\\ """`, true, "StringValue", `a\\ `},
		{"\"\"\"\n  a\n    b\n  c\n\"\"\"", true, "StringValue", "a\n  b\nc"},
		{"\"\"\"  a\n  b\"\"\"", true, "StringValue", "  a\nb"},
		{"\"\"\"abcdef\n    x\"\"\"", true, "StringValue", "abcdef\nx"},
		{"\"\"\"\n  a\n \n  b\"\"\"", true, "StringValue", "a\n\nb"},
		{"\"\"\"\n\n  a\n\n  b\n\n   \n\"\"\"", true, "StringValue", "a\n\nb"},
		{"\"\"\"\ta\n\t\tb\n\t c\"\"\"", true, "StringValue", "\ta\nb\nc"},
		{"\"\"\"a\r\n  b\r  c\n  d\"\"\"", true, "StringValue", "a\nb\nc\nd"},
		{"\"\"\"a\n\r  b\"\"\"", true, "StringValue", "a\n\nb"},
		{"\"\"\"   \n \t \n\"\"\"", true, "StringValue", ""},
		{"\"\"\"\n  é\n   €\"\"\"", true, "StringValue", "é\n €"},
		{"\"\"\"\n  a\n  \ufeffb\"\"\"", true, "StringValue", "a\n\ufeffb"},
		{`true`, true, "BooleanValue", "true"},
		{`false`, true, "BooleanValue", "false"},
		{`RED`, true, "EnumValue", "RED"},
		{`on`, true, "EnumValue", "on"},
		{`query`, true, "EnumValue", "query"},
		{`null`, false, "", ""},
		{`$v`, true, "Variable", "v"},
		{`$ v`, true, "Variable", "v"},
		{`[]`, true, "ListValue", ""},
		{`[1, "a", [true]]`, true, "ListValue", ""},
		{`{}`, true, "ObjectValue", ""},
		{`{a: 1, b: {c: $d}}`, true, "ObjectValue", ""},
		{``, false, "", ""},
		{`1 2`, false, "", ""},
		{`1 }`, false, "", ""},
		{`[1`, false, "", ""},
		{`{a: }`, false, "", ""},
		{`{a 1}`, false, "", ""},
		{`@`, false, "", ""},
		{`"a`, false, "", ""},
		{`1 ?`, false, "", ""},
	}
	for _, c := range cases {
		v, err := ParseValue([]byte(c.src))
		if !c.ok {
			if err == nil {
				t.Errorf("value %q: accepted, want rejected", c.src)
			}
			continue
		}
		if err != nil {
			t.Errorf("value %q: rejected (%s)", c.src, err.Msg)
			continue
		}
		if v.Kind() != c.kind {
			t.Errorf("value %q: kind %s want %s", c.src, v.Kind(), c.kind)
			continue
		}
		got := ""
		switch x := v.(type) {
		case *nast.IntValue:
			got = x.Raw
		case *nast.FloatValue:
			got = x.Raw
		case *nast.StringValue:
			got = x.Value
		case *nast.BooleanValue:
			got = "false"
			if x.Value {
				got = "true"
			}
		case *nast.EnumValue:
			got = x.Value
		case *nast.Variable:
			got = x.Name.Value
		}
		if got != c.val {
			t.Errorf("value %q: got %q want %q", c.src, got, c.val)
		}
	}
}

func TestTree(t *testing.T) {
	src := `query Q($v: [Int!] = [1]) @d { x: a(k: {l: "s"}) @e { ...F ... on T { b } } }`
	doc, err := Parse([]byte(src))
	if err != nil {
		t.Fatal(err.Msg)
	}
	op := doc.Defs[0].(*nast.Operation)
	if op.Op != "query" || op.Shorthand || op.Name.Value != "Q" || len(op.Vars) != 1 || len(op.Directives) != 1 {
		t.Fatalf("operation: %+v", op)
	}
	vd := op.Vars[0]
	if src[vd.Start:vd.End] != `$v: [Int!] = [1]` {
		t.Errorf("vardef span %q", src[vd.Start:vd.End])
	}
	l := vd.Type.(*nast.List)
	nn := l.Of.(*nast.NonNull)
	if src[l.Start:l.End] != "[Int!]" || src[nn.Start:nn.End] != "Int!" || nn.Of.(*nast.Named).Name.Value != "Int" {
		t.Errorf("type spans")
	}
	f := op.Sel.Items[0].(*nast.Field)
	if f.Alias.Value != "x" || f.Name.Value != "a" || src[f.Start:f.End] != `x: a(k: {l: "s"}) @e { ...F ... on T { b } }` {
		t.Errorf("field %q", src[f.Start:f.End])
	}
	if a := f.Args[0]; src[a.Start:a.End] != `k: {l: "s"}` {
		t.Errorf("arg span %q", src[a.Start:a.End])
	}
	if _, ok := f.Sel.Items[0].(*nast.FragmentSpread); !ok {
		t.Errorf("spread")
	}
	inf := f.Sel.Items[1].(*nast.InlineFragment)
	if inf.TypeCond.Name.Value != "T" || src[inf.Start:inf.End] != `... on T { b }` {
		t.Errorf("inline %q", src[inf.Start:inf.End])
	}
	src2 := "\"d\" type T implements I & J @x { \"fd\" f(\"ad\" a: Int = 1 @y): [T] @z }\nextend type T { g: Int }"
	doc, err = Parse([]byte(src2))
	if err != nil {
		t.Fatal(err.Msg)
	}
	od := doc.Defs[0].(*nast.ObjectDef)
	if od.Desc.Value != "d" || od.Start != 0 || len(od.Interfaces) != 2 || od.Fields[0].Desc.Value != "fd" || od.Fields[0].Args[0].Desc.Value != "ad" {
		t.Errorf("object def %+v", od)
	}
	if iv := od.Fields[0].Args[0]; src2[iv.Start:iv.End] != `"ad" a: Int = 1 @y` {
		t.Errorf("input value span %q", src2[iv.Start:iv.End])
	}
	te := doc.Defs[1].(*nast.TypeExtension)
	if src2[te.Start:te.End] != "extend type T { g: Int }" || src2[te.Def.Start:te.Def.End] != "type T { g: Int }" {
		t.Errorf("extension spans")
	}
	if doc.Start != 0 || doc.End != len(src2) {
		t.Errorf("document span")
	}
}

func TestTokens(t *testing.T) {
	toks, err := Tokens([]byte("\ufeff{ a1 ...$x:1 -1.5e3 \"s\\n\" \"\"\"\n b\"\"\" !()=@[]|&} # c"))
	if err != nil {
		t.Fatal(err.Msg)
	}
	var ks []string
	for _, tk := range toks {
		ks = append(ks, tk.Kind)
	}
	want := "{ Name ... $ Name : Int Float String BlockString ! ( ) = @ [ ] | & } EOF"
	if strings.Join(ks, " ") != want {
		t.Errorf("kinds %v", ks)
	}
	if toks[0].Start != 3 || toks[1].Value != "a1" || toks[8].Value != "s\n" || toks[9].Value != "b" {
		t.Errorf("token details %+v", toks)
	}
	_, err = Tokens([]byte(`{ a "x`))
	if err == nil || !err.Lexical || err.TokStart != 4 || err.Pos != 6 || err.TokIndex != 2 {
		t.Errorf("unterminated string error %+v", err)
	}
	_, err = Tokens([]byte("{ \"x\ny\" }"))
	if err == nil || err.TokStart != 2 || err.Pos != 4 || err.TokEnd != 5 {
		t.Errorf("newline in string %+v", err)
	}
	_, perr := Parse([]byte(`{ a( }`))
	if perr == nil || perr.Lexical || perr.Pos != 5 || perr.TokIndex != 3 || perr.TokEnd != 6 {
		t.Errorf("{ a( } : %+v", perr)
	}
	// a parse error before a lexical error wins; a lexical error at the lookahead wins
	_, perr = Parse([]byte(`{ a( } ?`))
	if perr == nil || perr.Lexical || perr.Pos != 5 {
		t.Errorf("parse error first: %+v", perr)
	}
	_, perr = Parse([]byte(`{ a( ? }`))
	if perr == nil || !perr.Lexical || perr.Pos != 5 {
		t.Errorf("lexical error first: %+v", perr)
	}
}

func TestLineCol(t *testing.T) {
	src := []byte("ab\ncd\r\nef\rgh\n\né€x")
	cases := []struct{ off, line, cb, cr int }{
		{0, 1, 1, 1}, {2, 1, 3, 3}, {3, 2, 1, 1}, {5, 2, 3, 3}, {6, 2, 4, 4}, {7, 3, 1, 1},
		{9, 3, 3, 3}, {10, 4, 1, 1}, {13, 5, 1, 1}, {14, 6, 1, 1}, {16, 6, 3, 2}, {19, 6, 6, 3}, {20, 6, 7, 4},
	}
	for _, c := range cases {
		l, cb, cr := LineCol(src, c.off)
		if l != c.line || cb != c.cb || cr != c.cr {
			t.Errorf("LineCol(%d) = %d,%d,%d want %d,%d,%d", c.off, l, cb, cr, c.line, c.cb, c.cr)
		}
	}
}

func TestUndefined(t *testing.T) {
	for _, s := range []string{`{ a(x: 1a) }`, `{ a(x: 0x1) }`, `{ a(x: 1.5e3x) }`, `{ a(x: 1_0) }`, `{ a(x: -1e5e5) }`, "{ a \xff }", "{ a #\xc3\n }"} {
		if u, _ := Undefined([]byte(s)); !u {
			t.Errorf("%q should be undefined", s)
		}
	}
	for _, s := range []string{`{ a(x: 1) }`, `{ a(x: 1 a: 2) }`, `{ a(x: "1a") }`, `{ a(x: 1) # 1a` + "\n}", `{ a1 }`, `{ a(x: 1.a) }`} {
		if u, _ := Undefined([]byte(s)); u {
			t.Errorf("%q should be defined", s)
		}
	}
	if !HasSurrogateEscape([]byte(`"a\uD800"`)) || !HasSurrogateEscape([]byte(`"\udfff"`)) || HasSurrogateEscape([]byte(`"\\uD800"`)) || HasSurrogateEscape([]byte(`"`+U+`D7FF`+U+`E000"`)) {
		t.Errorf("HasSurrogateEscape")
	}
}
