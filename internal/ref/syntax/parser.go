package syntax

import (
	"verif/internal/nast"
)

// The recogniser is a plain LL(1) recursive descent over the productions of
// DESIGN.md Appendix A.1. A token is consumed only when it matches a terminal
// the grammar allows at that point, so the token at which an error is raised
// is the first token that cannot extend a viable prefix.
//
// Dialect decisions (each mirrors the grammar the library documents in its
// own production comments, not its code paths):
//   - Document is Definition+ : an input without any definition is rejected.
//   - `null` is not a value. Enum VALUE DEFINITIONS and every other Name
//     position accept any Name (also keywords, true/false/null).
//   - Directive locations are arbitrary Names.
//   - `extend` is followed by a full ObjectTypeDefinition, which may start
//     with a description (`extend "d" type A {}`); a description BEFORE
//     `extend`, `schema`, operations or fragments is rejected.
//   - Arguments of directives may contain variables everywhere.
//   - ImplementsInterfaces: `implements &? A (& B)*` (no space separated list).
//   - Union members / directive locations: no leading `|`.
//   - Field, enum-value and input-field blocks must be present but may be
//     empty; `( )` lists, selection sets and schema blocks must be non-empty;
//     `[]` and `{}` values may be empty.

type parser struct {
	src    []byte
	toks   []Token
	lexErr *Error // raised when the parser needs the token after toks
	i      int
	err    *Error
}

// Parse recognises a Document.
func Parse(src []byte) (*nast.Document, *Error) {
	p := newParser(src)
	doc := p.document()
	if p.err != nil {
		return nil, p.err
	}
	return doc, nil
}

// ParseValue recognises a lone Value (variables allowed) followed by the end
// of the input.
func ParseValue(src []byte) (nast.Node, *Error) {
	v, _, err := ParseValuePrefix(src)
	if err != nil {
		return nil, err
	}
	return v, nil
}

// ParseValuePrefix is ParseValue that also reports, when the text starts
// with a complete value but continues with further tokens, that value and the
// byte offset just after it (end > 0). It is used to describe inputs of the
// form "value + trailing tokens".
func ParseValuePrefix(src []byte) (v nast.Node, end int, err *Error) {
	p := newParser(src)
	v = p.value(false)
	if p.err != nil {
		return nil, 0, p.err
	}
	end = v.Pos().End
	if !p.at(KEOF) {
		p.fail("expected end of input after the value")
		return v, end, p.err
	}
	return v, end, nil
}

func newParser(src []byte) *parser {
	toks, lerr, _ := lexAll(src)
	return &parser{src: src, toks: toks, lexErr: lerr}
}

// ---- token access

var eofTok = Token{Kind: KEOF}

// peek returns the lookahead token. When the lookahead is the malformed
// lexeme it raises the lexical error and returns a token of kind "".
func (p *parser) peek() Token {
	if p.err != nil {
		return Token{}
	}
	if p.i < len(p.toks) {
		return p.toks[p.i]
	}
	if p.lexErr != nil {
		p.err = p.lexErr
		return Token{}
	}
	return eofTok // not reached: the stream ends with EOF, which is never consumed
}

func (p *parser) at(kind string) bool { return p.peek().Kind == kind }

func (p *parser) atName(v string) bool {
	t := p.peek()
	return t.Kind == KName && t.Value == v
}

func (p *parser) advance() Token {
	t := p.peek()
	if p.err == nil && t.Kind != KEOF {
		p.i++
	}
	return t
}

// prevEnd is the end offset of the last consumed token.
func (p *parser) prevEnd() int {
	if p.i == 0 {
		return 0
	}
	return p.toks[p.i-1].End
}

func (p *parser) fail(msg string) {
	if p.err != nil {
		return
	}
	t := p.peek()
	if p.err != nil { // lexical error at the lookahead
		return
	}
	p.err = &Error{Pos: t.Start, TokStart: t.Start, TokEnd: t.End, TokIndex: p.i, Msg: msg + ", found " + describe(t)}
}

func describe(t Token) string {
	switch t.Kind {
	case KEOF:
		return "<EOF>"
	case KName, KInt, KFloat:
		return t.Kind + " " + t.Value
	case KString, KBlockString:
		return t.Kind
	}
	return "'" + t.Kind + "'"
}

func (p *parser) expect(kind string) Token {
	if p.at(kind) {
		return p.advance()
	}
	p.fail("expected " + kind)
	return Token{}
}

func (p *parser) expectKeyword(v string) Token {
	if p.atName(v) {
		return p.advance()
	}
	p.fail("expected keyword " + v)
	return Token{}
}

func (p *parser) span(start int) nast.Span { return nast.Span{Start: start, End: p.prevEnd()} }

// ---- document

func (p *parser) document() *nast.Document {
	doc := &nast.Document{}
	first := p.peek()
	if p.err != nil {
		return nil
	}
	for {
		d := p.definition()
		if p.err != nil {
			return nil
		}
		doc.Defs = append(doc.Defs, d)
		if p.at(KEOF) {
			break
		}
		if p.err != nil {
			return nil
		}
	}
	doc.Span = p.span(first.Start)
	return doc
}

func isTypeDefKeyword(v string) bool {
	switch v {
	case "scalar", "type", "interface", "union", "enum", "input", "directive":
		return true
	}
	return false
}

func (p *parser) definition() nast.Node {
	t := p.peek()
	switch t.Kind {
	case "{":
		return p.operation()
	case KString, KBlockString:
		desc := p.stringValue()
		k := p.peek()
		if k.Kind == KName && isTypeDefKeyword(k.Value) {
			return p.typeDefinition(desc, desc.Start)
		}
		p.fail("expected a type-system definition keyword after the description")
		return nil
	case KName:
		switch t.Value {
		case "query", "mutation", "subscription":
			return p.operation()
		case "fragment":
			return p.fragmentDefinition()
		case "schema":
			return p.schemaDefinition()
		case "extend":
			return p.typeExtension()
		}
		if isTypeDefKeyword(t.Value) {
			return p.typeDefinition(nil, t.Start)
		}
	}
	p.fail("expected a definition")
	return nil
}

// ---- executable definitions

func (p *parser) operation() nast.Node {
	start := p.peek().Start
	op := &nast.Operation{}
	if p.at("{") {
		op.Op = "query"
		op.Shorthand = true
		op.Sel = p.selectionSet()
		op.Span = p.span(start)
		return op
	}
	op.Op = p.advance().Value
	if p.at(KName) {
		op.Name = p.name()
	}
	if p.at("(") {
		p.advance()
		for {
			op.Vars = append(op.Vars, p.varDef())
			if p.err != nil {
				return nil
			}
			if p.at(")") {
				p.advance()
				break
			}
			if p.err != nil {
				return nil
			}
		}
	}
	op.Directives = p.directives()
	op.Sel = p.selectionSet()
	op.Span = p.span(start)
	return op
}

func (p *parser) name() *nast.Name {
	t := p.expect(KName)
	if p.err != nil {
		return nil
	}
	return &nast.Name{Span: nast.Span{Start: t.Start, End: t.End}, Value: t.Value}
}

func (p *parser) variable() *nast.Variable {
	start := p.peek().Start
	p.expect("$")
	n := p.name()
	if p.err != nil {
		return nil
	}
	return &nast.Variable{Span: p.span(start), Name: n}
}

func (p *parser) varDef() *nast.VarDef {
	start := p.peek().Start
	vd := &nast.VarDef{}
	vd.Var = p.variable()
	p.expect(":")
	vd.Type = p.typeRef()
	if p.at("=") {
		p.advance()
		vd.Default = p.value(true)
	}
	if p.err != nil {
		return nil
	}
	vd.Span = p.span(start)
	return vd
}

func (p *parser) typeRef() nast.Node {
	start := p.peek().Start
	var t nast.Node
	switch {
	case p.at("["):
		p.advance()
		inner := p.typeRef()
		p.expect("]")
		if p.err != nil {
			return nil
		}
		t = &nast.List{Span: p.span(start), Of: inner}
	case p.at(KName):
		t = p.namedType()
	default:
		p.fail("expected a type")
		return nil
	}
	if p.err != nil {
		return nil
	}
	if p.at("!") {
		p.advance()
		t = &nast.NonNull{Span: p.span(start), Of: t}
	}
	if p.err != nil {
		return nil
	}
	return t
}

func (p *parser) namedType() *nast.Named {
	n := p.name()
	if p.err != nil {
		return nil
	}
	return &nast.Named{Span: n.Span, Name: n}
}

func (p *parser) selectionSet() *nast.SelectionSet {
	start := p.peek().Start
	p.expect("{")
	if p.err != nil {
		return nil
	}
	ss := &nast.SelectionSet{}
	for {
		ss.Items = append(ss.Items, p.selection())
		if p.err != nil {
			return nil
		}
		if p.at("}") {
			p.advance()
			break
		}
		if p.err != nil {
			return nil
		}
	}
	ss.Span = p.span(start)
	return ss
}

func (p *parser) selection() nast.Node {
	if p.at("...") {
		return p.fragmentSelection()
	}
	if p.err != nil {
		return nil
	}
	return p.field()
}

func (p *parser) field() nast.Node {
	start := p.peek().Start
	f := &nast.Field{}
	f.Name = p.name()
	if p.at(":") {
		p.advance()
		f.Alias = f.Name
		f.Name = p.name()
	}
	f.Args = p.arguments()
	f.Directives = p.directives()
	if p.at("{") {
		f.Sel = p.selectionSet()
	}
	if p.err != nil {
		return nil
	}
	f.Span = p.span(start)
	return f
}

func (p *parser) arguments() []*nast.Argument {
	if !p.at("(") {
		return nil
	}
	p.advance()
	var args []*nast.Argument
	for {
		start := p.peek().Start
		a := &nast.Argument{}
		a.Name = p.name()
		p.expect(":")
		a.Value = p.value(false)
		if p.err != nil {
			return nil
		}
		a.Span = p.span(start)
		args = append(args, a)
		if p.at(")") {
			p.advance()
			return args
		}
		if p.err != nil {
			return nil
		}
	}
}

func (p *parser) directives() []*nast.Directive {
	var ds []*nast.Directive
	for p.at("@") {
		start := p.peek().Start
		p.advance()
		d := &nast.Directive{}
		d.Name = p.name()
		d.Args = p.arguments()
		if p.err != nil {
			return nil
		}
		d.Span = p.span(start)
		ds = append(ds, d)
	}
	return ds
}

func (p *parser) fragmentSelection() nast.Node {
	start := p.peek().Start
	p.expect("...")
	t := p.peek()
	if p.err != nil {
		return nil
	}
	if t.Kind == KName && t.Value != "on" {
		fs := &nast.FragmentSpread{}
		fs.Name = p.name()
		fs.Directives = p.directives()
		if p.err != nil {
			return nil
		}
		fs.Span = p.span(start)
		return fs
	}
	inf := &nast.InlineFragment{}
	switch {
	case t.Kind == KName: // on
		p.advance()
		inf.TypeCond = p.namedType()
	case t.Kind == "@" || t.Kind == "{":
	default:
		p.fail("expected a fragment name, 'on', a directive or a selection set after '...'")
		return nil
	}
	inf.Directives = p.directives()
	inf.Sel = p.selectionSet()
	if p.err != nil {
		return nil
	}
	inf.Span = p.span(start)
	return inf
}

func (p *parser) fragmentDefinition() nast.Node {
	start := p.peek().Start
	p.expectKeyword("fragment")
	fd := &nast.Fragment{}
	if p.atName("on") {
		p.fail("a fragment cannot be named 'on'")
		return nil
	}
	fd.Name = p.name()
	p.expectKeyword("on")
	fd.TypeCond = p.namedType()
	fd.Directives = p.directives()
	fd.Sel = p.selectionSet()
	if p.err != nil {
		return nil
	}
	fd.Span = p.span(start)
	return fd
}

// ---- values

func (p *parser) stringValue() *nast.StringValue {
	t := p.advance()
	return &nast.StringValue{Span: nast.Span{Start: t.Start, End: t.End}, Value: t.Value, Block: t.Kind == KBlockString}
}

func (p *parser) value(isConst bool) nast.Node {
	t := p.peek()
	if p.err != nil {
		return nil
	}
	sp := nast.Span{Start: t.Start, End: t.End}
	switch t.Kind {
	case "[":
		p.advance()
		lv := &nast.ListValue{}
		for !p.at("]") {
			if p.err != nil {
				return nil
			}
			lv.Items = append(lv.Items, p.value(isConst))
			if p.err != nil {
				return nil
			}
		}
		p.advance()
		lv.Span = p.span(t.Start)
		return lv
	case "{":
		p.advance()
		ov := &nast.ObjectValue{}
		for !p.at("}") {
			if p.err != nil {
				return nil
			}
			fstart := p.peek().Start
			f := &nast.ObjectField{}
			f.Name = p.name()
			p.expect(":")
			f.Value = p.value(isConst)
			if p.err != nil {
				return nil
			}
			f.Span = p.span(fstart)
			ov.Fields = append(ov.Fields, f)
		}
		p.advance()
		ov.Span = p.span(t.Start)
		return ov
	case KInt:
		p.advance()
		return &nast.IntValue{Span: sp, Raw: t.Value}
	case KFloat:
		p.advance()
		return &nast.FloatValue{Span: sp, Raw: t.Value}
	case KString, KBlockString:
		return p.stringValue()
	case KName:
		switch t.Value {
		case "true", "false":
			p.advance()
			return &nast.BooleanValue{Span: sp, Value: t.Value == "true"}
		case "null":
			p.fail("null is not a value in this edition")
			return nil
		}
		p.advance()
		return &nast.EnumValue{Span: sp, Value: t.Value}
	case "$":
		if !isConst {
			return p.variable()
		}
	}
	p.fail("expected a value")
	return nil
}

// ---- type system

func (p *parser) schemaDefinition() nast.Node {
	start := p.peek().Start
	p.expectKeyword("schema")
	sd := &nast.SchemaDef{}
	sd.Directives = p.directives()
	p.expect("{")
	if p.err != nil {
		return nil
	}
	for {
		ostart := p.peek().Start
		t := p.peek()
		if !(t.Kind == KName && (t.Value == "query" || t.Value == "mutation" || t.Value == "subscription")) {
			p.fail("expected an operation type")
			return nil
		}
		p.advance()
		ot := &nast.OpTypeDef{Op: t.Value}
		p.expect(":")
		ot.Type = p.namedType()
		if p.err != nil {
			return nil
		}
		ot.Span = p.span(ostart)
		sd.OpTypes = append(sd.OpTypes, ot)
		if p.at("}") {
			p.advance()
			break
		}
		if p.err != nil {
			return nil
		}
	}
	sd.Span = p.span(start)
	return sd
}

func (p *parser) typeExtension() nast.Node {
	start := p.peek().Start
	p.expectKeyword("extend")
	var desc *nast.StringValue
	dstart := p.peek().Start
	if p.at(KString) || p.at(KBlockString) {
		desc = p.stringValue()
	}
	if p.err != nil {
		return nil
	}
	if !p.atName("type") {
		p.fail("expected keyword type after extend")
		return nil
	}
	od := p.objectDefinition(desc, dstart)
	if p.err != nil {
		return nil
	}
	return &nast.TypeExtension{Span: p.span(start), Def: od}
}

// typeDefinition parses one of the definitions that may carry a description;
// the lookahead is the keyword.
func (p *parser) typeDefinition(desc *nast.StringValue, start int) nast.Node {
	switch p.peek().Value {
	case "scalar":
		p.advance()
		d := &nast.ScalarDef{Desc: desc}
		d.Name = p.name()
		d.Directives = p.directives()
		if p.err != nil {
			return nil
		}
		d.Span = p.span(start)
		return d
	case "type":
		od := p.objectDefinition(desc, start)
		if p.err != nil {
			return nil
		}
		return od
	case "interface":
		p.advance()
		d := &nast.InterfaceDef{Desc: desc}
		d.Name = p.name()
		d.Directives = p.directives()
		d.Fields = p.fieldDefs()
		if p.err != nil {
			return nil
		}
		d.Span = p.span(start)
		return d
	case "union":
		p.advance()
		d := &nast.UnionDef{Desc: desc}
		d.Name = p.name()
		d.Directives = p.directives()
		p.expect("=")
		for {
			d.Types = append(d.Types, p.namedType())
			if p.err != nil {
				return nil
			}
			if !p.at("|") {
				break
			}
			p.advance()
		}
		if p.err != nil {
			return nil
		}
		d.Span = p.span(start)
		return d
	case "enum":
		p.advance()
		d := &nast.EnumDef{Desc: desc}
		d.Name = p.name()
		d.Directives = p.directives()
		p.expect("{")
		for !p.at("}") {
			if p.err != nil {
				return nil
			}
			vstart := p.peek().Start
			ev := &nast.EnumValueDef{}
			if p.at(KString) || p.at(KBlockString) {
				ev.Desc = p.stringValue()
			}
			ev.Name = p.name()
			ev.Directives = p.directives()
			if p.err != nil {
				return nil
			}
			ev.Span = p.span(vstart)
			d.Values = append(d.Values, ev)
		}
		p.advance()
		if p.err != nil {
			return nil
		}
		d.Span = p.span(start)
		return d
	case "input":
		p.advance()
		d := &nast.InputObjectDef{Desc: desc}
		d.Name = p.name()
		d.Directives = p.directives()
		p.expect("{")
		for !p.at("}") {
			if p.err != nil {
				return nil
			}
			d.Fields = append(d.Fields, p.inputValueDef())
			if p.err != nil {
				return nil
			}
		}
		p.advance()
		if p.err != nil {
			return nil
		}
		d.Span = p.span(start)
		return d
	case "directive":
		p.advance()
		d := &nast.DirectiveDef{Desc: desc}
		p.expect("@")
		d.Name = p.name()
		d.Args = p.argumentDefs()
		p.expectKeyword("on")
		for {
			d.Locations = append(d.Locations, p.name())
			if p.err != nil {
				return nil
			}
			if !p.at("|") {
				break
			}
			p.advance()
		}
		if p.err != nil {
			return nil
		}
		d.Span = p.span(start)
		return d
	}
	p.fail("expected a type-system definition")
	return nil
}

func (p *parser) objectDefinition(desc *nast.StringValue, start int) *nast.ObjectDef {
	p.expectKeyword("type")
	d := &nast.ObjectDef{Desc: desc}
	d.Name = p.name()
	if p.atName("implements") {
		p.advance()
		if p.at("&") {
			p.advance()
		}
		for {
			d.Interfaces = append(d.Interfaces, p.namedType())
			if p.err != nil {
				return nil
			}
			if !p.at("&") {
				break
			}
			p.advance()
		}
	}
	d.Directives = p.directives()
	d.Fields = p.fieldDefs()
	if p.err != nil {
		return nil
	}
	d.Span = p.span(start)
	return d
}

func (p *parser) fieldDefs() []*nast.FieldDef {
	p.expect("{")
	var out []*nast.FieldDef
	for !p.at("}") {
		if p.err != nil {
			return nil
		}
		start := p.peek().Start
		fd := &nast.FieldDef{}
		if p.at(KString) || p.at(KBlockString) {
			fd.Desc = p.stringValue()
		}
		fd.Name = p.name()
		fd.Args = p.argumentDefs()
		p.expect(":")
		fd.Type = p.typeRef()
		fd.Directives = p.directives()
		if p.err != nil {
			return nil
		}
		fd.Span = p.span(start)
		out = append(out, fd)
	}
	p.advance()
	return out
}

func (p *parser) argumentDefs() []*nast.InputValueDef {
	if !p.at("(") {
		return nil
	}
	p.advance()
	var out []*nast.InputValueDef
	for {
		out = append(out, p.inputValueDef())
		if p.err != nil {
			return nil
		}
		if p.at(")") {
			p.advance()
			return out
		}
		if p.err != nil {
			return nil
		}
	}
}

func (p *parser) inputValueDef() *nast.InputValueDef {
	start := p.peek().Start
	iv := &nast.InputValueDef{}
	if p.at(KString) || p.at(KBlockString) {
		iv.Desc = p.stringValue()
	}
	iv.Name = p.name()
	p.expect(":")
	iv.Type = p.typeRef()
	if p.at("=") {
		p.advance()
		iv.Default = p.value(true)
	}
	iv.Directives = p.directives()
	if p.err != nil {
		return nil
	}
	iv.Span = p.span(start)
	return iv
}
