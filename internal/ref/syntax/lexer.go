// Package syntax is the independent reference lexer and recogniser/parser for
// the GraphQL dialect of DESIGN.md Appendix A.1. It is written from the
// grammar, works on bytes, and produces the neutral tree (package nast) with
// byte spans. It imports nothing from github.com/graphql-go/graphql.
//
//	Parse(src)        (*nast.Document, *Error)   a Document (Definition+)
//	ParseValue(src)   (nast.Node, *Error)        a lone Value (variables allowed) up to the end of input
//	Tokens(src)       ([]Token, *Error)          the token stream, EOF token last
//	LineCol(src, off) line, byte column, code-point column (1-based; LF, CR, CRLF)
//	Undefined(src)    the lexical forms the edition leaves undefined (don't-care for accept/reject)
//	BlockStringValue  the specification's algorithm of the same name
//
// Spans: every node spans from the start of its first token to the end of its
// last token (a definition with a description starts at the description; a
// NonNull type spans the inner type and the `!`; the Document spans first
// token .. last token).
//
// Errors (for C18): the recogniser is LL(1) and consumes a token only when the
// grammar allows it there, so Error.Pos / TokStart / TokEnd / TokIndex name the
// FIRST token that cannot extend a viable prefix (e.g. `}` in `{ a( }`; the
// second string in `"d" "e" type T {}`; `schema` in `"d" schema {...}`; the
// EOF position len(src) when the input ends early, with TokStart == TokEnd).
// Lexing is lazy with respect to errors: a malformed lexeme is reported only
// when the parser needs it as lookahead, so an earlier offending token wins.
// For lexical errors Pos is the offending character (len(src) at end of
// input) and [TokStart,TokEnd) is the malformed lexeme from its first
// character through the offending character: an unterminated string runs from
// the opening quote to the line terminator / EOF; a bad escape to the
// character after the backslash (for \u: the first non-hexadecimal
// character); a bad number to the first character that cannot continue it
// (`01` -> the 1, `1.` / `1e` / `-` -> the character after); a lone `.` or
// `..` is its own lexeme; a control character inside a comment is reported
// with the lexeme starting at the `#`.
package syntax

import (
	"strings"
	"unicode/utf8"
)

// Token kinds. Punctuators are their own spelling.
const (
	KEOF         = "EOF"
	KName        = "Name"
	KInt         = "Int"
	KFloat       = "Float"
	KString      = "String"
	KBlockString = "BlockString"
)

// Token is one lexical token. Start/End are byte offsets (half open).
// Value is the lexeme for names and numbers, the DECODED value for strings
// and block strings, and empty for punctuators and EOF.
type Token struct {
	Kind       string
	Start, End int
	Value      string
}

// Error describes why a text is not a document (or value) of the dialect.
//
// Pos is the byte offset of the first token at which the text stops being a
// prefix of any valid document; for lexical errors it is the offset of the
// offending character (len(src) when the input ends inside a lexeme).
// TokStart/TokEnd delimit that token, or for lexical errors the malformed
// lexeme from its first character up to and including the offending
// character. TokIndex is the 0-based index of that token in the token stream
// (for lexical errors: the index the malformed lexeme would have had).
type Error struct {
	Pos              int
	TokStart, TokEnd int
	TokIndex         int
	Lexical          bool
	Msg              string
}

func (e *Error) Error() string { return e.Msg }

const bom0, bom1, bom2 = 0xEF, 0xBB, 0xBF

func isNameStart(b byte) bool {
	return b == '_' || (b >= 'A' && b <= 'Z') || (b >= 'a' && b <= 'z')
}
func isDigit(b byte) bool    { return b >= '0' && b <= '9' }
func isNameCont(b byte) bool { return isNameStart(b) || isDigit(b) }

func isHex(b byte) bool {
	return isDigit(b) || (b >= 'a' && b <= 'f') || (b >= 'A' && b <= 'F')
}

func hexVal(b byte) rune {
	switch {
	case isDigit(b):
		return rune(b - '0')
	case b >= 'a' && b <= 'f':
		return rune(b-'a') + 10
	default:
		return rune(b-'A') + 10
	}
}

type lexer struct {
	src []byte
	pos int
	// set when a number token was immediately followed by a name start
	numberThenName bool
}

func lexErr(pos, start, end int, msg string) *Error {
	return &Error{Pos: pos, TokStart: start, TokEnd: end, Lexical: true, Msg: msg}
}

// charAt decodes the source character at i. ok is false for invalid UTF-8.
func (l *lexer) charAt(i int) (r rune, w int, ok bool) {
	b := l.src[i]
	if b < utf8.RuneSelf {
		return rune(b), 1, true
	}
	r, w = utf8.DecodeRune(l.src[i:])
	if r == utf8.RuneError && w <= 1 {
		return r, 1, false
	}
	return r, w, true
}

// skipIgnored advances over BOM, white space, line terminators, commas and
// comments. A character that is not a SourceCharacter inside a comment is a
// lexical error.
func (l *lexer) skipIgnored() *Error {
	src := l.src
	for l.pos < len(src) {
		b := src[l.pos]
		switch {
		case b == '\t' || b == ' ' || b == '\n' || b == '\r' || b == ',':
			l.pos++
		case b == bom0 && l.pos+2 < len(src) && src[l.pos+1] == bom1 && src[l.pos+2] == bom2:
			l.pos += 3
		case b == '#':
			start := l.pos
			l.pos++
			for l.pos < len(src) {
				c := src[l.pos]
				if c == '\n' || c == '\r' {
					break
				}
				if c < 0x20 && c != '\t' {
					return lexErr(l.pos, start, l.pos+1, "invalid character in comment")
				}
				if c >= utf8.RuneSelf {
					_, w, ok := l.charAt(l.pos)
					if !ok {
						return lexErr(l.pos, start, l.pos+1, "invalid UTF-8 in comment")
					}
					l.pos += w
					continue
				}
				l.pos++
			}
		default:
			return nil
		}
	}
	return nil
}

// next lexes one token (EOF at the end of the input).
func (l *lexer) next() (Token, *Error) {
	if e := l.skipIgnored(); e != nil {
		return Token{}, e
	}
	src := l.src
	if l.pos >= len(src) {
		return Token{Kind: KEOF, Start: len(src), End: len(src)}, nil
	}
	start := l.pos
	b := src[start]
	switch b {
	case '!', '$', '(', ')', ':', '=', '@', '[', ']', '{', '}', '|', '&':
		l.pos++
		return Token{Kind: string(rune(b)), Start: start, End: start + 1}, nil
	case '.':
		n := 1
		for start+n < len(src) && src[start+n] == '.' && n < 3 {
			n++
		}
		if n == 3 {
			l.pos += 3
			return Token{Kind: "...", Start: start, End: start + 3}, nil
		}
		return Token{}, lexErr(start, start, start+n, "unexpected '.' (only '...' is a punctuator)")
	case '"':
		if start+2 < len(src) && src[start+1] == '"' && src[start+2] == '"' {
			return l.blockString(start)
		}
		return l.str(start)
	}
	if isNameStart(b) {
		i := start + 1
		for i < len(src) && isNameCont(src[i]) {
			i++
		}
		l.pos = i
		return Token{Kind: KName, Start: start, End: i, Value: string(src[start:i])}, nil
	}
	if b == '-' || isDigit(b) {
		return l.number(start)
	}
	_, w, ok := l.charAt(start)
	if !ok {
		return Token{}, lexErr(start, start, start+1, "invalid UTF-8")
	}
	return Token{}, lexErr(start, start, start+w, "unexpected character")
}

// number lexes IntValue / FloatValue:
//
//	Int   -?(0|[1-9][0-9]*)
//	Float Int Frac | Int Exp | Int Frac Exp ; Frac .[0-9]+ ; Exp [eE][+-]?[0-9]+
func (l *lexer) number(start int) (Token, *Error) {
	src := l.src
	i := start
	// the offending character is src[i] (or the end of input)
	bad := func(msg string) (Token, *Error) {
		end := i
		if i < len(src) {
			_, w, _ := l.charAt(i)
			end = i + w
		}
		return Token{}, lexErr(i, start, end, msg)
	}
	if src[i] == '-' {
		i++
	}
	if i >= len(src) || !isDigit(src[i]) {
		return bad("invalid number: expected digit after '-'")
	}
	if src[i] == '0' {
		i++
		if i < len(src) && isDigit(src[i]) {
			return bad("invalid number: unexpected digit after 0")
		}
	} else {
		for i < len(src) && isDigit(src[i]) {
			i++
		}
	}
	kind := KInt
	if i < len(src) && src[i] == '.' {
		kind = KFloat
		i++
		if i >= len(src) || !isDigit(src[i]) {
			return bad("invalid number: expected digit after '.'")
		}
		for i < len(src) && isDigit(src[i]) {
			i++
		}
	}
	if i < len(src) && (src[i] == 'e' || src[i] == 'E') {
		kind = KFloat
		i++
		if i < len(src) && (src[i] == '+' || src[i] == '-') {
			i++
		}
		if i >= len(src) || !isDigit(src[i]) {
			return bad("invalid number: expected digit in exponent")
		}
		for i < len(src) && isDigit(src[i]) {
			i++
		}
	}
	if i < len(src) && isNameStart(src[i]) {
		// The edition leaves this undefined (1a, 0x1, 1.5e3x): lexed as a
		// number followed by a name, and flagged.
		l.numberThenName = true
	}
	l.pos = i
	return Token{Kind: kind, Start: start, End: i, Value: string(src[start:i])}, nil
}

// str lexes a quoted string starting at the opening quote.
func (l *lexer) str(start int) (Token, *Error) {
	src := l.src
	var sb strings.Builder
	i := start + 1
	for {
		if i >= len(src) {
			return Token{}, lexErr(len(src), start, len(src), "unterminated string")
		}
		b := src[i]
		switch {
		case b == '"':
			l.pos = i + 1
			return Token{Kind: KString, Start: start, End: i + 1, Value: sb.String()}, nil
		case b == '\n' || b == '\r':
			return Token{}, lexErr(i, start, i+1, "unterminated string (line terminator)")
		case b < 0x20 && b != '\t':
			return Token{}, lexErr(i, start, i+1, "invalid control character in string")
		case b == '\\':
			i++
			if i >= len(src) {
				return Token{}, lexErr(len(src), start, len(src), "unterminated string after '\\'")
			}
			e := src[i]
			switch e {
			case '"':
				sb.WriteByte('"')
			case '\\':
				sb.WriteByte('\\')
			case '/':
				sb.WriteByte('/')
			case 'b':
				sb.WriteByte('\b')
			case 'f':
				sb.WriteByte('\f')
			case 'n':
				sb.WriteByte('\n')
			case 'r':
				sb.WriteByte('\r')
			case 't':
				sb.WriteByte('\t')
			case 'u':
				cu, ok, at := l.hex4(i + 1)
				if !ok {
					end := at
					if at < len(src) {
						_, w, _ := l.charAt(at)
						end = at + w
					}
					return Token{}, lexErr(at, start, end, "invalid \\u escape: expected 4 hexadecimal digits")
				}
				i += 4
				r := cu
				if cu >= 0xD800 && cu <= 0xDBFF {
					// high surrogate: combine with an immediately following
					// \uDC00-\uDFFF escape (the edition leaves surrogate
					// escapes open; see HasSurrogateEscape)
					if i+2 < len(src) && src[i+1] == '\\' && src[i+2] == 'u' {
						if lo, ok2, _ := l.hex4(i + 3); ok2 && lo >= 0xDC00 && lo <= 0xDFFF {
							r = 0x10000 + (cu-0xD800)<<10 + (lo - 0xDC00)
							i += 6
						}
					}
				}
				if r >= 0xD800 && r <= 0xDFFF {
					r = utf8.RuneError
				}
				sb.WriteRune(r)
			default:
				_, w, _ := l.charAt(i)
				return Token{}, lexErr(i, start, i+w, "invalid escape sequence")
			}
			i++
		case b >= utf8.RuneSelf:
			_, w, ok := l.charAt(i)
			if !ok {
				return Token{}, lexErr(i, start, i+1, "invalid UTF-8 in string")
			}
			sb.Write(src[i : i+w])
			i += w
		default:
			sb.WriteByte(b)
			i++
		}
	}
}

// hex4 reads exactly four hexadecimal digits at i. When it fails, at is the
// offset of the first character that is not a hexadecimal digit (possibly
// len(src)).
func (l *lexer) hex4(i int) (v rune, ok bool, at int) {
	for k := 0; k < 4; k++ {
		if i+k >= len(l.src) || !isHex(l.src[i+k]) {
			return 0, false, i + k
		}
		v = v<<4 | hexVal(l.src[i+k])
	}
	return v, true, i + 4
}

// blockString lexes """...""" starting at the first quote.
func (l *lexer) blockString(start int) (Token, *Error) {
	src := l.src
	var raw []byte
	i := start + 3
	for {
		if i >= len(src) {
			return Token{}, lexErr(len(src), start, len(src), "unterminated block string")
		}
		b := src[i]
		switch {
		case b == '"' && i+2 < len(src) && src[i+1] == '"' && src[i+2] == '"':
			l.pos = i + 3
			return Token{Kind: KBlockString, Start: start, End: i + 3, Value: BlockStringValue(string(raw))}, nil
		case b == '\\' && i+3 < len(src) && src[i+1] == '"' && src[i+2] == '"' && src[i+3] == '"':
			raw = append(raw, '"', '"', '"')
			i += 4
		case b < 0x20 && b != '\t' && b != '\n' && b != '\r':
			return Token{}, lexErr(i, start, i+1, "invalid control character in block string")
		case b >= utf8.RuneSelf:
			_, w, ok := l.charAt(i)
			if !ok {
				return Token{}, lexErr(i, start, i+1, "invalid UTF-8 in block string")
			}
			raw = append(raw, src[i:i+w]...)
			i += w
		default:
			raw = append(raw, b)
			i++
		}
	}
}

// SplitLines splits on the line terminators LF, CR and CRLF (CRLF once).
func SplitLines(s string) []string {
	var lines []string
	st := 0
	for i := 0; i < len(s); i++ {
		switch s[i] {
		case '\n':
			lines = append(lines, s[st:i])
			st = i + 1
		case '\r':
			lines = append(lines, s[st:i])
			if i+1 < len(s) && s[i+1] == '\n' {
				i++
			}
			st = i + 1
		}
	}
	return append(lines, s[st:])
}

func leadingWS(s string) int {
	n := 0
	for n < len(s) && (s[n] == ' ' || s[n] == '\t') {
		n++
	}
	return n
}

// BlockStringValue is the specification's BlockStringValue(rawValue): common
// indentation of all lines but the first is removed from all lines but the
// first, leading and trailing blank lines are dropped, lines are joined by LF.
func BlockStringValue(raw string) string {
	lines := SplitLines(raw)
	common := -1
	for _, ln := range lines[1:] {
		ind := leadingWS(ln)
		if ind < len(ln) && (common < 0 || ind < common) {
			common = ind
		}
	}
	if common > 0 {
		for k := 1; k < len(lines); k++ {
			if len(lines[k]) <= common {
				lines[k] = ""
			} else {
				lines[k] = lines[k][common:]
			}
		}
	}
	for len(lines) > 0 && leadingWS(lines[0]) == len(lines[0]) {
		lines = lines[1:]
	}
	for len(lines) > 0 && leadingWS(lines[len(lines)-1]) == len(lines[len(lines)-1]) {
		lines = lines[:len(lines)-1]
	}
	return strings.Join(lines, "\n")
}

// Tokens lexes the whole source. Without error the last token is EOF. With
// a lexical error the tokens lexed before it are returned with the error.
func Tokens(src []byte) ([]Token, *Error) {
	toks, err, _ := lexAll(src)
	return toks, err
}

func lexAll(src []byte) ([]Token, *Error, bool) {
	l := &lexer{src: src}
	toks := make([]Token, 0, 16)
	for {
		t, err := l.next()
		if err != nil {
			err.TokIndex = len(toks)
			return toks, err, l.numberThenName
		}
		toks = append(toks, t)
		if t.Kind == KEOF {
			return toks, nil, l.numberThenName
		}
	}
}

// Undefined reports whether src contains a lexical form the edition leaves
// undefined (DESIGN.md Appendix A.1): the text is not valid UTF-8, or lexing
// it (up to the first lexical error) meets a number token immediately
// followed by a name start (`1a`, `0x1`, `1.5e3x`, `1_0`). Such inputs are
// don't-care for accept/reject. The class is returned as a short name.
func Undefined(src []byte) (bool, string) {
	if !utf8.Valid(src) {
		return true, "invalid-utf8"
	}
	// a number token ends in a digit: without a digit directly followed by a
	// name start there is nothing to find
	cand := false
	for i := 0; i+1 < len(src); i++ {
		if isDigit(src[i]) && isNameStart(src[i+1]) {
			cand = true
			break
		}
	}
	if !cand {
		return false, ""
	}
	_, _, numName := lexAll(src)
	if numName {
		return true, "number-then-name"
	}
	return false, ""
}

// HasSurrogateEscape reports whether the text contains a \uD800..\uDFFF
// escape. The edition does not say what such an escape denotes (a UTF-16
// code unit in the JavaScript original): the decoded VALUE of a string that
// contains one is don't-care.
func HasSurrogateEscape(text []byte) bool {
	for i := 0; i < len(text); i++ {
		if text[i] != '\\' {
			continue
		}
		// text[i] starts an escape: look at the escaped character, then
		// step over it so that `\\uD800` is not taken for an escape
		if i+5 < len(text) && text[i+1] == 'u' && (text[i+2] == 'd' || text[i+2] == 'D') &&
			(text[i+3] >= '8' && text[i+3] <= '9' || text[i+3] >= 'a' && text[i+3] <= 'f' || text[i+3] >= 'A' && text[i+3] <= 'F') &&
			isHex(text[i+4]) && isHex(text[i+5]) {
			return true
		}
		i++
	}
	return false
}

// LineCol converts a byte offset into a 1-based line and column. Line
// terminators are LF, CR and CRLF (CRLF counts once). colByte counts bytes
// and colRune counts code points from the start of the line; an offset that
// points between the CR and the LF of a CRLF is reported at the end of the
// line that the pair terminates.
func LineCol(src []byte, off int) (line, colByte, colRune int) {
	if off < 0 {
		off = 0
	}
	if off > len(src) {
		off = len(src)
	}
	line = 1
	ls := 0
	for i := 0; i < off; i++ {
		switch src[i] {
		case '\n':
			line++
			ls = i + 1
		case '\r':
			if i+1 < len(src) && src[i+1] == '\n' {
				if i+1 >= off {
					// off points at the LF of a CRLF
					continue
				}
				i++
			}
			line++
			ls = i + 1
		}
	}
	colByte = off - ls + 1
	colRune = utf8.RuneCount(src[ls:off]) + 1
	return
}
