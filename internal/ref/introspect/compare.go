package introspect

import (
	"encoding/json"
	"fmt"
	"sort"
	"strings"
)

// Mismatch is one disagreement between the expected description and the
// reported one. Sig is the base signature (see props/c10/README.md).
type Mismatch struct {
	Sig  string `json:"sig"`
	Path string `json:"path"`
	Msg  string `json:"msg"`
}

// Report is the outcome of one comparison.
type Report struct {
	// Mismatches: disagreements no confirmed defect class explains.
	Mismatches []Mismatch
	// Defects: defaultValue leaves that fail the default-value clause in
	// exactly the form of a confirmed conversion defect (signature
	// defect:default-value:<class>). The comparison runs UNDER THIS
	// RELAXATION (DESIGN.md 3.9): such a leaf does not prevent its list
	// element from being matched, so everything else about the element is
	// still compared, and anything else that differs is an unexplained mismatch.
	Defects  []Mismatch
	DontCare map[string]int // class -> leaves not compared
	Defaults int            // defaultValue leaves judged by the default-value clause
	Leaves   int            // leaves compared
}

// Normalize brings a response's data into plain JSON shape
// (map[string]interface{}, []interface{}, string, bool, float64, nil).
func Normalize(data interface{}) (interface{}, error) {
	b, err := json.Marshal(data)
	if err != nil {
		return nil, err
	}
	var out interface{}
	if err := json.Unmarshal(b, &out); err != nil {
		return nil, err
	}
	return out, nil
}

type ctx struct {
	path  string
	area  string // "" | "directive" | "type"
	what  string // first field below the type / directive element ("args" when below fields.args)
	intro bool   // inside the description of an introspection type
	leaf  string // field that produced the value at hand
	root  bool   // the type element is the value of queryType / mutationType / subscriptionType
}

func (c ctx) sig() string {
	if c.leaf == "__typename" {
		return "typename"
	}
	if c.root && (c.what == "" || c.what == "name" || c.what == "kind") {
		return "roots" // which type is the root; anything deeper describes that type
	}
	switch c.area {
	case "directive":
		if c.what == "" {
			return "directive:list"
		}
		return "directive:" + c.what
	case "type":
		if c.what == "" {
			return "types:element"
		}
		if c.intro {
			return "builtin:" + c.what
		}
		if c.leaf == "isDeprecated" || c.leaf == "deprecationReason" {
			return "deprecation"
		}
		return "type:" + c.what
	}
	return "response:shape"
}

type comparer struct {
	u     *Universe
	rep   *Report
	probe bool // stop at the first mismatch, count nothing
	limit int
}

// Compare checks normalized response data against the expectation.
func Compare(u *Universe, exp *Obj, got interface{}) *Report {
	cm := &comparer{u: u, rep: &Report{DontCare: map[string]int{}}, limit: 200}
	cm.value(ctx{}, exp, got, true)
	return cm.rep
}

func (cm *comparer) stop() bool {
	if cm.probe {
		return len(cm.rep.Mismatches) > 0
	}
	return len(cm.rep.Mismatches) >= cm.limit
}

func (cm *comparer) add(sig string, c ctx, format string, a ...interface{}) {
	if cm.stop() {
		return
	}
	cm.rep.Mismatches = append(cm.rep.Mismatches, Mismatch{Sig: sig, Path: c.path, Msg: fmt.Sprintf(format, a...)})
}

func (cm *comparer) dontcare(class string) {
	if !cm.probe {
		cm.rep.DontCare[class]++
	}
}

func short(v interface{}) string {
	b, err := json.Marshal(v)
	if err != nil {
		return fmt.Sprintf("%v", v)
	}
	if len(b) > 160 {
		return string(b[:160]) + "..."
	}
	return string(b)
}

func (cm *comparer) value(c ctx, exp Value, got interface{}, root bool) {
	if cm.stop() {
		return
	}
	elem := c.area == "type" && c.what == "" && !c.root // the value is a type element itself
	switch e := exp.(type) {
	case nil:
		if got != nil {
			if elem {
				cm.add("types:extra", c, "a type that is not in the schema is described: %s", short(got))
			} else {
				cm.add(c.sig(), c, "expected null, got %s", short(got))
			}
		}
		cm.leaf()
	case string:
		if g, ok := got.(string); !ok || g != e {
			cm.add(c.sig(), c, "expected %q, got %s", e, short(got))
		}
		cm.leaf()
	case bool:
		if g, ok := got.(bool); !ok || g != e {
			cm.add(c.sig(), c, "expected %v, got %s", e, short(got))
		}
		cm.leaf()
	case Any:
		if _, ok := got.(string); !ok && got != nil {
			cm.add(c.sig(), c, "expected a string or null, got %s", short(got))
		}
		cm.dontcare("builtin-description-text")
	case AnyString:
		if _, ok := got.(string); !ok {
			cm.add(c.sig(), c, "expected a string, got %s", short(got))
		}
		cm.dontcare("builtin-deprecation-reason-text")
	case EmptyDesc:
		if g, ok := got.(string); got != nil && (!ok || g != "") {
			cm.add(c.sig(), c, "entity built without description, got %s", short(got))
		}
		cm.dontcare("no-description-reported-as-empty-or-null")
	case *Default:
		v := CheckDefault(cm.u.Model, e.Def, got)
		if !cm.probe {
			cm.rep.Defaults++
		}
		if v.DontCare != "" {
			cm.dontcare(v.DontCare)
		}
		if !v.OK {
			who := map[bool]string{true: "built-in input value", false: "input value"}[e.Builtin]
			if v.DefectForm {
				if !cm.probe && len(cm.rep.Defects) < cm.limit {
					cm.rep.Defects = append(cm.rep.Defects, Mismatch{Sig: "defect:default-value:" + v.Class, Path: c.path, Msg: fmt.Sprintf("%s %s: %s", who, e.Def.Name, v.Msg)})
				}
			} else {
				cm.add("default-value:"+v.Class, c, "%s %s: %s", who, e.Def.Name, v.Msg)
			}
		}
		cm.leaf()
	case *Obj:
		gm, ok := got.(map[string]interface{})
		if !ok {
			if got == nil && elem {
				cm.add("types:missing", c, "type %s is not described (null)", e.Ident)
			} else {
				cm.add(c.sig(), c, "expected an object describing %s %q, got %s", e.Type, e.Ident, short(got))
			}
			return
		}
		cm.object(c, e, gm, root)
	case *List:
		gl, ok := got.([]interface{})
		if !ok {
			cm.add(c.sig(), c, "expected a list of %d, got %s", len(e.Items), short(got))
			return
		}
		cm.list(c, e, gl)
	default:
		cm.add("harness:expectation", c, "unknown expected value %T", exp)
	}
}

func (cm *comparer) leaf() {
	if !cm.probe {
		cm.rep.Leaves++
	}
}

func (cm *comparer) object(c ctx, e *Obj, gm map[string]interface{}, root bool) {
	if c.area == "type" && c.what == "" {
		c.intro = e.Intro
	}
	want := map[string]bool{}
	for _, en := range e.Entries {
		want[en.Key] = true
	}
	var extra []string
	for k := range gm {
		if !want[k] {
			extra = append(extra, k)
		}
	}
	sort.Strings(extra)
	for _, k := range extra {
		cm.add("response:extra-key", c, "unrequested response key %q", k)
	}
	for _, en := range e.Entries {
		n := c
		n.path = c.path + "/" + en.Key
		n.leaf = en.Field
		switch {
		case root:
			if en.Field == "__type" {
				n.area = "type"
			}
		case c.area == "" && e.Type == "__Schema":
			switch en.Field {
			case "types":
				n.area = "type"
			case "directives":
				n.area = "directive"
			case "queryType", "mutationType", "subscriptionType":
				n.area = "type"
				n.root = true
			}
		case c.area == "type" || c.area == "directive":
			if c.what == "" {
				n.what = en.Field
			} else if c.what == "fields" && en.Field == "args" {
				n.what = "args"
			}
		}
		g, ok := gm[en.Key]
		if !ok {
			cm.add("response:missing-key", n, "response key %q (field %s) is absent", en.Key, en.Field)
			continue
		}
		cm.value(n, en.Value, g, false)
	}
}

// nameOf returns the expected element's name when `name` is selected.
func nameOf(v Value) (key, name string, ok bool) {
	o, isObj := v.(*Obj)
	if !isObj {
		return "", "", false
	}
	en := o.Get("name")
	if en == nil {
		return "", "", false
	}
	s, isStr := en.Value.(string)
	return en.Key, s, isStr
}

func (cm *comparer) listSig(c ctx, deprecated bool) string {
	if c.area == "type" && c.what == "" {
		return "" // decided by the caller (types:missing / types:extra)
	}
	if deprecated && c.area == "type" && !c.intro {
		return "deprecation"
	}
	return c.sig()
}

func (cm *comparer) list(c ctx, e *List, got []interface{}) {
	// element context: the list's own path with an element tag
	elemCtx := func(tag string) ctx {
		n := c
		n.path = c.path + "[" + tag + "]"
		return n
	}
	typesList := c.area == "type" && c.what == "" && !c.root
	missing := func(v Value) {
		o, _ := v.(*Obj)
		switch {
		case typesList && o != nil:
			cm.add("types:missing", c, "type %s belongs to the schema but is not listed", o.Ident)
		case o != nil:
			cm.add(cm.listSig(c, o.Deprecated), c, "%s %q is not listed", o.Type, o.Ident)
		default:
			cm.add(c.sig(), c, "%s is not listed", short(v))
		}
	}
	extra := func(g interface{}, name string, dup bool) {
		excluded := false
		for _, x := range e.Excluded {
			if x == name && name != "" {
				excluded = true
			}
		}
		switch {
		case typesList:
			cm.add("types:extra", c, "listed although not expected%s: %s", map[bool]string{true: " (listed more than once)", false: ""}[dup], short(g))
		case dup:
			cm.add(c.sig(), c, "%q is listed more than once", name)
		default:
			cm.add(cm.listSig(c, excluded), c, "listed although not expected: %s", short(g))
		}
	}
	// scalar elements (locations)
	allScalar := true
	for _, it := range e.Items {
		if _, ok := it.(string); !ok {
			allScalar = false
		}
	}
	if allScalar {
		var a, b []string
		for _, it := range e.Items {
			a = append(a, it.(string))
		}
		for _, g := range got {
			s, ok := g.(string)
			if !ok {
				cm.add(c.sig(), c, "expected a string element, got %s", short(g))
				return
			}
			b = append(b, s)
		}
		sort.Strings(a)
		sort.Strings(b)
		if strings.Join(a, ",") != strings.Join(b, ",") {
			cm.add(c.sig(), c, "expected the multiset {%s}, got {%s}", strings.Join(a, ","), strings.Join(b, ","))
		}
		cm.leaf()
		return
	}
	// match by name when every expected element shows a distinct name
	byName := true
	var key string
	names := map[string]int{}
	for i, it := range e.Items {
		k, n, ok := nameOf(it)
		if !ok || (i > 0 && k != key) {
			byName = false
			break
		}
		key = k
		names[n]++
		if names[n] > 1 {
			byName = false
			break
		}
	}
	gotName := func(g interface{}) (string, bool) {
		m, ok := g.(map[string]interface{})
		if !ok {
			return "", false
		}
		s, ok := m[key].(string)
		return s, ok
	}
	if byName && len(e.Items) > 0 {
		for _, g := range got {
			if _, ok := gotName(g); !ok {
				byName = false
			}
		}
	}
	if byName && len(e.Items) > 0 {
		used := make([]bool, len(got))
		for _, it := range e.Items {
			_, n, _ := nameOf(it)
			found := -1
			for j, g := range got {
				if gn, _ := gotName(g); !used[j] && gn == n {
					found = j
					break
				}
			}
			if found < 0 {
				missing(it)
				continue
			}
			used[found] = true
			cm.value(elemCtx(n), it, got[found], false)
		}
		for j, g := range got {
			if !used[j] {
				gn, _ := gotName(g)
				extra(g, gn, names[gn] > 0)
			}
		}
		return
	}
	// general case: perfect matching under the comparison relation
	ne, ng := len(e.Items), len(got)
	compat := make([][]bool, ne)
	for i := range compat {
		compat[i] = make([]bool, ng)
		for j := range got {
			p := &comparer{u: cm.u, rep: &Report{DontCare: map[string]int{}}, probe: true}
			p.value(elemCtx("?"), e.Items[i], got[j], false)
			compat[i][j] = len(p.rep.Mismatches) == 0
		}
	}
	matchOfGot := kuhn(compat, ne, ng)
	free := func() (fe, fg []int) {
		matched := make([]bool, ne)
		for j := range matchOfGot {
			if matchOfGot[j] >= 0 {
				matched[matchOfGot[j]] = true
			} else {
				fg = append(fg, j)
			}
		}
		for i := range matched {
			if !matched[i] {
				fe = append(fe, i)
			}
		}
		return
	}
	freeExp, freeGot := free()
	if len(freeExp) > 0 && len(freeGot) > 0 {
		// what is left is paired by least difference, to describe the disagreement precisely
		costs := make([][]int, len(freeExp))
		for a, i := range freeExp {
			costs[a] = make([]int, len(freeGot))
			for b, j := range freeGot {
				p := &comparer{u: cm.u, rep: &Report{DontCare: map[string]int{}}, limit: 16}
				p.value(elemCtx("?"), e.Items[i], got[j], false)
				costs[a][b] = len(p.rep.Mismatches)
			}
		}
		usedA := make([]bool, len(freeExp))
		usedB := make([]bool, len(freeGot))
		for {
			ba, bb, best := -1, -1, 0
			for a := range freeExp {
				for b := range freeGot {
					if usedA[a] || usedB[b] {
						continue
					}
					if n := costs[a][b]; ba < 0 || n < best {
						ba, bb, best = a, b, n
					}
				}
			}
			if ba < 0 {
				break
			}
			matchOfGot[freeGot[bb]] = freeExp[ba]
			usedA[ba], usedB[bb] = true, true
		}
		freeExp, freeGot = free()
	}
	// compare the pairs for real (counts leaves and don't-cares once, reports what differs)
	for j, i := range matchOfGot {
		if i >= 0 {
			cm.value(elemCtx(fmt.Sprint(j)), e.Items[i], got[j], false)
		}
	}
	for _, i := range freeExp {
		missing(e.Items[i])
	}
	for _, j := range freeGot {
		extra(got[j], "", false)
	}
}

// kuhn computes a maximum bipartite matching; result[j] is the row matched to column j, or -1.
func kuhn(compat [][]bool, ne, ng int) []int {
	matchOfGot := make([]int, ng)
	for j := range matchOfGot {
		matchOfGot[j] = -1
	}
	var try func(i int, seen []bool) bool
	try = func(i int, seen []bool) bool {
		for j := 0; j < ng; j++ {
			if compat[i][j] && !seen[j] {
				seen[j] = true
				if matchOfGot[j] < 0 || try(matchOfGot[j], seen) {
					matchOfGot[j] = i
					return true
				}
			}
		}
		return false
	}
	for i := 0; i < ne; i++ {
		try(i, make([]bool, ng))
	}
	return matchOfGot
}
