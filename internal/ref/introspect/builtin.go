// Package introspect is the reference model of schema introspection: from
// the schema MODEL alone (never from a built schema; nothing here imports the
// library) it computes the type set a schema must describe, evaluates an
// introspection document against it and compares the library's JSON answer
// with that expectation.
//
// Edition: the introspection section of the October 2016 specification, with
// the two additions the library's edition carries (DESIGN.md Appendix A: a
// port of graphql-js 0.8-0.10): the type-system members of
// __DirectiveLocation and the three deprecated boolean fields of __Directive.
// See README.md of props/c10 for the triage of each difference.
package introspect

import "verif/internal/model"

var (
	tString  = model.Named("String")
	tBoolean = model.Named("Boolean")
	tType    = model.Named("__Type")
	nn       = model.NonNull
	listOf   = model.ListOf
	nnList   = func(n string) *model.TypeRef { return nn(listOf(nn(model.Named(n)))) } // [X!]!
	optList  = func(n string) *model.TypeRef { return listOf(nn(model.Named(n))) }     // [X!]
	useLocs  = "Use `locations`."
	falseDef = func() *model.InputDef {
		return &model.InputDef{Name: "includeDeprecated", Type: tBoolean, HasDefault: true, Default: false}
	}
	typeKinds = []string{"SCALAR", "OBJECT", "INTERFACE", "UNION", "ENUM", "INPUT_OBJECT", "LIST", "NON_NULL"}
	// October 2016: the seven executable locations.
	execLocations = []string{"QUERY", "MUTATION", "SUBSCRIPTION", "FIELD", "FRAGMENT_DEFINITION", "FRAGMENT_SPREAD", "INLINE_FRAGMENT"}
	// Edition addition (graphql-js >= 0.8 schema language support, June 2018 text).
	typeSystemLocations = []string{"SCHEMA", "SCALAR", "OBJECT", "FIELD_DEFINITION", "ARGUMENT_DEFINITION", "INTERFACE", "UNION", "ENUM", "ENUM_VALUE", "INPUT_OBJECT", "INPUT_FIELD_DEFINITION"}
)

func enumOf(name string, vals []string) *model.TypeDef {
	td := &model.TypeDef{Kind: model.Enum, Name: name}
	for _, v := range vals {
		td.Values = append(td.Values, &model.EnumVal{Name: v, Internal: v})
	}
	return td
}

func fld(name string, t *model.TypeRef, args ...*model.InputDef) *model.FieldDef {
	return &model.FieldDef{Name: name, Type: t, Args: args}
}

func deprecated(f *model.FieldDef, why string) *model.FieldDef {
	f.Deprecation = &why
	return f
}

// IntrospectionTypes is the table of built-in introspection types, written
// from the specification text (structure only: names, kinds, fields,
// arguments, type references; descriptions are never compared).
func IntrospectionTypes() []*model.TypeDef {
	return []*model.TypeDef{
		{Kind: model.Object, Name: "__Schema", Fields: []*model.FieldDef{
			fld("types", nnList("__Type")),
			fld("queryType", nn(tType)),
			fld("mutationType", tType),
			fld("subscriptionType", tType),
			fld("directives", nnList("__Directive")),
		}},
		{Kind: model.Object, Name: "__Type", Fields: []*model.FieldDef{
			fld("kind", nn(model.Named("__TypeKind"))),
			fld("name", tString),
			fld("description", tString),
			fld("fields", optList("__Field"), falseDef()),
			fld("interfaces", optList("__Type")),
			fld("possibleTypes", optList("__Type")),
			fld("enumValues", optList("__EnumValue"), falseDef()),
			fld("inputFields", optList("__InputValue")),
			fld("ofType", tType),
		}},
		{Kind: model.Object, Name: "__Field", Fields: []*model.FieldDef{
			fld("name", nn(tString)),
			fld("description", tString),
			fld("args", nnList("__InputValue")),
			fld("type", nn(tType)),
			fld("isDeprecated", nn(tBoolean)),
			fld("deprecationReason", tString),
		}},
		{Kind: model.Object, Name: "__InputValue", Fields: []*model.FieldDef{
			fld("name", nn(tString)),
			fld("description", tString),
			fld("type", nn(tType)),
			fld("defaultValue", tString),
		}},
		{Kind: model.Object, Name: "__EnumValue", Fields: []*model.FieldDef{
			fld("name", nn(tString)),
			fld("description", tString),
			fld("isDeprecated", nn(tBoolean)),
			fld("deprecationReason", tString),
		}},
		enumOf("__TypeKind", typeKinds),
		{Kind: model.Object, Name: "__Directive", Fields: []*model.FieldDef{
			fld("name", nn(tString)),
			fld("description", tString),
			fld("locations", nnList("__DirectiveLocation")),
			fld("args", nnList("__InputValue")),
			// Edition addition: kept (deprecated) by graphql-js 0.8-0.10, absent from the
			// October 2016 text. Deprecated, hence invisible unless includeDeprecated.
			deprecated(fld("onOperation", nn(tBoolean)), useLocs),
			deprecated(fld("onFragment", nn(tBoolean)), useLocs),
			deprecated(fld("onField", nn(tBoolean)), useLocs),
		}},
		enumOf("__DirectiveLocation", append(append([]string{}, execLocations...), typeSystemLocations...)),
	}
}

// SpecifiedDirectives are the directives every schema has unless configured
// otherwise: @include, @skip (October 2016) and @deprecated (edition addition,
// graphql-js 0.6+). Their descriptions are never compared.
func SpecifiedDirectives() []*model.DirectiveDef {
	loc := []string{"FIELD", "FRAGMENT_SPREAD", "INLINE_FRAGMENT"}
	return []*model.DirectiveDef{
		{Name: "include", Locations: loc, Args: []*model.InputDef{{Name: "if", Type: nn(tBoolean)}}},
		{Name: "skip", Locations: loc, Args: []*model.InputDef{{Name: "if", Type: nn(tBoolean)}}},
		{Name: "deprecated", Locations: []string{"FIELD_DEFINITION", "ENUM_VALUE"},
			Args: []*model.InputDef{{Name: "reason", Type: tString, HasDefault: true, Default: "No longer supported"}}},
	}
}
