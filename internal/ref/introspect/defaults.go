package introspect

import (
	"fmt"
	"sort"
	"strconv"
	"strings"

	"verif/internal/model"
	"verif/internal/nast"
	"verif/internal/ref/coerce"
	"verif/internal/ref/syntax"
)

// Canon renders an internal (coerced) value canonically, keeping the Go
// kinds apart: int(1) != float(1) != "1".
func Canon(v interface{}) string {
	var b strings.Builder
	canon(&b, v)
	return b.String()
}

func canon(b *strings.Builder, v interface{}) {
	switch x := v.(type) {
	case nil:
		b.WriteString("null")
	case map[string]interface{}:
		keys := make([]string, 0, len(x))
		for k := range x {
			keys = append(keys, k)
		}
		sort.Strings(keys)
		b.WriteString("{")
		for i, k := range keys {
			if i > 0 {
				b.WriteString(",")
			}
			b.WriteString(k + ":")
			canon(b, x[k])
		}
		b.WriteString("}")
	case []interface{}:
		b.WriteString("[")
		for i, it := range x {
			if i > 0 {
				b.WriteString(",")
			}
			canon(b, it)
		}
		b.WriteString("]")
	case string:
		b.WriteString(strconv.Quote(x))
	case int:
		fmt.Fprintf(b, "int(%d)", x)
	case float64:
		b.WriteString("float(" + strconv.FormatFloat(x, 'g', -1, 64) + ")")
	case bool:
		fmt.Fprintf(b, "%v", x)
	default:
		fmt.Fprintf(b, "%T(%v)", v, v)
	}
}

// DefaultVerdict is the outcome of the default-value clause for one
// reported defaultValue.
type DefaultVerdict struct {
	OK bool
	// Class names the innermost input kind at which the reported literal
	// fails: enum, list, input-object, int, float, string, boolean, id,
	// custom-scalar, or "missing" / "spurious" / "not-a-string".
	Class string
	// DefectForm: the reported text is exactly what the library's known
	// conversion defect produces for this (type kind, value shape): the Go
	// formatting of the internal value, as a string / number literal.
	DefectForm bool
	Msg        string
	// DontCare is set when the literal could only be judged up to a custom
	// scalar (whose parse function need not have an inverse).
	DontCare string
}

// CheckDefault decides the default-value clause: the reported string must
// be a const GraphQL literal that, parsed (ref/syntax) and coerced
// (ref/coerce) against the argument's / input field's type, gives back the
// configured default; no default must be reported as null.
func CheckDefault(m *model.Schema, def *model.InputDef, got interface{}) DefaultVerdict {
	if !def.HasDefault || coerce.Nullish(def.Default) {
		if got == nil {
			return DefaultVerdict{OK: true}
		}
		return DefaultVerdict{Class: "spurious", Msg: fmt.Sprintf("no default configured but reported %v", got)}
	}
	if got == nil {
		return DefaultVerdict{Class: "missing", Msg: fmt.Sprintf("configured default %s reported as null", Canon(def.Default))}
	}
	text, ok := got.(string)
	if !ok {
		return DefaultVerdict{Class: "not-a-string", Msg: fmt.Sprintf("defaultValue is %T, not a string", got)}
	}
	class := ClassOf(m, def.Type, def.Default)
	node, perr := syntax.ParseValue([]byte(text))
	if perr != nil {
		return DefaultVerdict{Class: class, Msg: fmt.Sprintf("%q is not a GraphQL value literal: %s", text, perr.Msg)}
	}
	if hasVariable(node) {
		return DefaultVerdict{Class: class, Msg: fmt.Sprintf("%q is not a constant literal", text)}
	}
	// the clause proper
	back := coerce.Literal(m, def.Type, node, nil)
	if Canon(back) == Canon(def.Default) || Canon(back) == Canon(normalizeDefault(m, def.Type, def.Default)) {
		return DefaultVerdict{OK: true}
	}
	// classify the failure (and tolerate custom scalars) structurally
	w := &matcher{m: m}
	r := w.match(def.Type, def.Default, node)
	if r.ok {
		if w.custom > 0 {
			return DefaultVerdict{OK: true, DontCare: "default-of-custom-scalar"}
		}
		// cannot happen: the structural walk is the same relation
		return DefaultVerdict{Class: "oracle", Msg: fmt.Sprintf("reference disagreement on %q for %s: coerced %s, configured %s", text, def.Type, Canon(back), Canon(def.Default))}
	}
	return DefaultVerdict{Class: r.class, DefectForm: r.defect,
		Msg: fmt.Sprintf("reported %q coerces against %s to %s, configured default is %s", text, def.Type, Canon(back), Canon(def.Default))}
}

// normalizeDefault brings a configured default that was written in a shorter
// Go form into the form input coercion gives it: a single value configured
// for a list type is the list of that value, a Go int configured for a Float
// is that float. (Enum defaults stay internal values, as coerce.Literal
// returns them.)
func normalizeDefault(m *model.Schema, t *model.TypeRef, v interface{}) interface{} {
	if v == nil {
		return nil
	}
	switch t.Kind {
	case "nonnull":
		return normalizeDefault(m, t.Of, v)
	case "list":
		xs, ok := v.([]interface{})
		if !ok {
			return []interface{}{normalizeDefault(m, t.Of, v)}
		}
		out := make([]interface{}, len(xs))
		for i, x := range xs {
			out[i] = normalizeDefault(m, t.Of, x)
		}
		return out
	}
	if t.Name == "Float" {
		if i, ok := v.(int); ok {
			return float64(i)
		}
		return v
	}
	if td := m.Type(t.Name); td != nil && td.Kind == model.InputObject {
		mv, ok := v.(map[string]interface{})
		if !ok {
			return v
		}
		out := map[string]interface{}{}
		for k, x := range mv {
			if f := td.InputField(k); f != nil {
				out[k] = normalizeDefault(m, f.Type, x)
			} else {
				out[k] = x
			}
		}
		return out
	}
	return v
}

// ClassOf is the predicate on (type kind, default value shape) naming the
// input kind of a default.
func ClassOf(m *model.Schema, t *model.TypeRef, v interface{}) string {
	for t.Kind == "nonnull" {
		t = t.Of
	}
	if t.Kind == "list" {
		if _, ok := v.([]interface{}); ok {
			return "list"
		}
		return ClassOf(m, t.Of, v)
	}
	td := m.Type(t.Name)
	if td == nil {
		return "unknown"
	}
	switch td.Kind {
	case model.Enum:
		return "enum"
	case model.InputObject:
		return "input-object"
	case model.Scalar:
		if model.IsBuiltinScalar(t.Name) {
			return strings.ToLower(t.Name)
		}
		return "custom-scalar"
	}
	return "unknown"
}

func hasVariable(n nast.Node) bool {
	switch v := n.(type) {
	case *nast.Variable:
		return true
	case *nast.ListValue:
		for _, it := range v.Items {
			if hasVariable(it) {
				return true
			}
		}
	case *nast.ObjectValue:
		for _, f := range v.Fields {
			if hasVariable(f.Value) {
				return true
			}
		}
	}
	return false
}

type matchResult struct {
	ok     bool
	class  string
	defect bool
}

type matcher struct {
	m      *model.Schema
	custom int // custom-scalar leaves accepted without comparison
}

// goFormatted: the literal is a string literal holding fmt's %v rendering
// of the internal value (what the library's fallback produces).
func goFormatted(n nast.Node, v interface{}) bool {
	sv, ok := n.(*nast.StringValue)
	return ok && sv.Value == fmt.Sprintf("%v", v)
}

// internalPrinted: the literal is the enum's INTERNAL value printed by its
// Go kind (int -> Int literal, float -> Float literal, string -> String literal).
func internalPrinted(n nast.Node, v interface{}) bool {
	switch x := v.(type) {
	case int:
		iv, ok := n.(*nast.IntValue)
		return ok && iv.Raw == strconv.Itoa(x)
	case float64:
		want := fmt.Sprintf("%v", x)
		switch nv := n.(type) {
		case *nast.FloatValue:
			return nv.Raw == want
		case *nast.IntValue:
			return nv.Raw == want
		}
		return false
	case string:
		sv, ok := n.(*nast.StringValue)
		return ok && sv.Value == x
	case bool:
		bv, ok := n.(*nast.BooleanValue)
		return ok && bv.Value == x
	}
	return goFormatted(n, v)
}

func (w *matcher) match(t *model.TypeRef, v interface{}, n nast.Node) matchResult {
	for t.Kind == "nonnull" {
		t = t.Of
	}
	if t.Kind == "list" {
		xs, isSlice := v.([]interface{})
		if !isSlice {
			// a single configured value stands for a list of one
			return w.match(t.Of, v, n)
		}
		lv, ok := n.(*nast.ListValue)
		if !ok {
			if len(xs) == 1 && !goFormatted(n, v) {
				return w.match(t.Of, xs[0], n) // `1` for [Int] coerces to [1]
			}
			return matchResult{class: "list", defect: goFormatted(n, v)}
		}
		if len(lv.Items) != len(xs) {
			return matchResult{class: "list"}
		}
		for i := range xs {
			if r := w.match(t.Of, xs[i], lv.Items[i]); !r.ok {
				return r
			}
		}
		return matchResult{ok: true}
	}
	td := w.m.Type(t.Name)
	if td == nil {
		return matchResult{class: "unknown"}
	}
	switch td.Kind {
	case model.InputObject:
		mv, isMap := v.(map[string]interface{})
		ov, ok := n.(*nast.ObjectValue)
		if !isMap || !ok {
			return matchResult{class: "input-object", defect: isMap && goFormatted(n, v)}
		}
		for _, of := range ov.Fields {
			if td.InputField(of.Name.Value) == nil {
				return matchResult{class: "input-object"}
			}
		}
		for _, f := range td.InputFields {
			var fn nast.Node
			for _, of := range ov.Fields {
				if of.Name.Value == f.Name {
					fn = of.Value
				}
			}
			want, present := mv[f.Name]
			if fn == nil {
				// absent in the literal: coercion supplies the field's own default
				switch {
				case !present && !f.HasDefault:
				case present && f.HasDefault && Canon(normalizeDefault(w.m, f.Type, want)) == Canon(normalizeDefault(w.m, f.Type, f.Default)):
				default:
					return matchResult{class: "input-object"}
				}
				continue
			}
			if !present {
				return matchResult{class: "input-object"}
			}
			if r := w.match(f.Type, want, fn); !r.ok {
				return r
			}
		}
		return matchResult{ok: true}
	case model.Enum:
		if ev, ok := n.(*nast.EnumValue); ok {
			if d := td.EnumValue(ev.Value); d != nil && Canon(d.Internal) == Canon(v) {
				return matchResult{ok: true}
			}
			return matchResult{class: "enum"}
		}
		return matchResult{class: "enum", defect: internalPrinted(n, v)}
	case model.Scalar:
		if !model.IsBuiltinScalar(t.Name) {
			w.custom++
			return matchResult{ok: true}
		}
		if lit := Canon(coerce.Literal(w.m, t, n, nil)); lit == Canon(v) || lit == Canon(normalizeDefault(w.m, t, v)) {
			return matchResult{ok: true}
		}
		return matchResult{class: strings.ToLower(t.Name)}
	}
	return matchResult{class: "unknown"}
}

// PrintDefault renders an internal value as a GraphQL literal of type t (the
// inverse of coercion): enum internal values by NAME, lists and input
// objects structurally. It is used to self-test the clause (Render) and
// documents what a conformant implementation reports.
func PrintDefault(m *model.Schema, t *model.TypeRef, v interface{}) string {
	for t.Kind == "nonnull" {
		t = t.Of
	}
	if t.Kind == "list" {
		xs, ok := v.([]interface{})
		if !ok {
			return PrintDefault(m, t.Of, v)
		}
		parts := make([]string, len(xs))
		for i, x := range xs {
			parts[i] = PrintDefault(m, t.Of, x)
		}
		return "[" + strings.Join(parts, ", ") + "]"
	}
	td := m.Type(t.Name)
	if td != nil {
		switch td.Kind {
		case model.Enum:
			for _, ev := range td.Values {
				if Canon(ev.Internal) == Canon(v) {
					return ev.Name
				}
			}
		case model.InputObject:
			mv, _ := v.(map[string]interface{})
			var parts []string
			for _, f := range td.InputFields {
				if fv, ok := mv[f.Name]; ok {
					parts = append(parts, f.Name+": "+PrintDefault(m, f.Type, fv))
				}
			}
			return "{" + strings.Join(parts, ", ") + "}"
		case model.Scalar:
			if t.Name == "Tag" {
				if s, ok := v.(string); ok && strings.HasPrefix(s, coerce.TagPrefix) {
					return nast.QuoteString(strings.TrimPrefix(s, coerce.TagPrefix))
				}
			}
		}
	}
	switch x := v.(type) {
	case string:
		return nast.QuoteString(x)
	case int:
		return strconv.Itoa(x)
	case float64:
		s := strconv.FormatFloat(x, 'g', -1, 64)
		if !strings.ContainsAny(s, ".e") {
			s += ".0"
		}
		return s
	case bool:
		return strconv.FormatBool(x)
	}
	return nast.QuoteString(fmt.Sprintf("%v", v))
}
