package introspect

// Render turns an expectation into conformant normalized response data (the
// answer a correct implementation could give). Used to self-test the
// comparator and as the baseline seeded faults are applied to.
func Render(u *Universe, v Value) interface{} {
	switch e := v.(type) {
	case nil:
		return nil
	case string, bool:
		return e
	case Any:
		return "text"
	case AnyString:
		return "text"
	case EmptyDesc:
		return nil
	case *Default:
		if !e.Def.HasDefault {
			return nil
		}
		return PrintDefault(u.Model, e.Def.Type, e.Def.Default)
	case *Obj:
		m := map[string]interface{}{}
		for _, en := range e.Entries {
			m[en.Key] = Render(u, en.Value)
		}
		return m
	case *List:
		out := make([]interface{}, 0, len(e.Items))
		for i := len(e.Items) - 1; i >= 0; i-- { // reversed: order must not matter
			out = append(out, Render(u, e.Items[i]))
		}
		return out
	}
	return nil
}
