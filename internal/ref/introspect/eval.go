package introspect

import (
	"fmt"

	"verif/internal/model"
	"verif/internal/nast"
	"verif/internal/ref/coerce"
)

// Value is an expected response value:
//
//	nil, string, bool         exact JSON null / string / boolean
//	*Obj                      object with exactly these response keys
//	*List                     list compared as a MULTISET (the edition defines no order)
//	Any                       a string or null that is not compared (built-in description text)
//	AnyString                 a string (not null) that is not compared
//	EmptyDesc                 "" or null (an entity built without description)
//	*Default                  a defaultValue: compared by the default-value clause
type Value interface{}

type Any struct{}
type AnyString struct{}
type EmptyDesc struct{}

// Default is an expected `defaultValue` leaf.
type Default struct {
	Def     *model.InputDef
	Builtin bool // argument of a built-in field / directive
}

// Obj is an expected response object.
type Obj struct {
	Type       string // introspection object type (the query root name at top level)
	Ident      string // name of the described entity ("" for wrapping types)
	Builtin    bool   // describes a built-in entity (its description is not compared)
	Intro      bool   // describes one of the introspection types
	Deprecated bool   // describes a deprecated field / enum value
	Entries    []*Entry
}

// Entry is one response key of an expected object.
type Entry struct {
	Key   string // response key (alias or field name)
	Field string // field name
	Value Value
}

// Get returns the first entry produced by the named field.
func (o *Obj) Get(field string) *Entry {
	for _, e := range o.Entries {
		if e.Field == field {
			return e
		}
	}
	return nil
}

// List is an expected list.
type List struct {
	Field    string // the field that produced it
	Items    []Value
	Excluded []string // names left out by includeDeprecated:false
}

// ---- sources

type schemaSrc struct{}
type typeSrc struct {
	ref *model.TypeRef
	ti  *TypeInfo // named types only
}
type fieldSrc struct {
	f       *model.FieldDef
	builtin bool
}
type inputSrc struct {
	d       *model.InputDef
	builtin bool
}
type enumValSrc struct {
	v       *model.EnumVal
	builtin bool
}
type dirSrc struct{ d *DirInfo }

type listVal struct {
	items    []interface{}
	excluded []string
}

type evaluator struct {
	u     *Universe
	frags map[string]*nast.Fragment
	vars  map[string]interface{}
	err   error
}

func (e *evaluator) fail(format string, a ...interface{}) {
	if e.err == nil {
		e.err = fmt.Errorf(format, a...)
	}
}

var (
	metaSchema = &model.FieldDef{Name: "__schema", Type: model.NonNull(model.Named("__Schema"))}
	metaType   = &model.FieldDef{Name: "__type", Type: model.Named("__Type"), Args: []*model.InputDef{{Name: "name", Type: model.NonNull(model.Named("String"))}}}
)

// Eval computes the expected `data` of executing an introspection document
// (only __schema, __type and __typename at the top level) against the
// universe. An error means the document is outside what this reference
// covers (or invalid), never a verdict.
func Eval(u *Universe, doc *nast.Document, opName string, rawVars map[string]interface{}) (*Obj, error) {
	var op *nast.Operation
	nops := 0
	for _, d := range doc.Defs {
		if o, ok := d.(*nast.Operation); ok {
			nops++
			if opName == "" && op == nil {
				op = o
			}
			if opName != "" && o.Name != nil && o.Name.Value == opName {
				op = o
			}
		}
	}
	if op == nil || (opName == "" && nops != 1) {
		return nil, fmt.Errorf("cannot select operation %q", opName)
	}
	if op.Op != "query" {
		return nil, fmt.Errorf("only query operations are covered")
	}
	vr := coerce.Variables(u.Model, op.Vars, rawVars)
	if vr.Status != coerce.OK {
		return nil, fmt.Errorf("variable $%s not conformant", vr.Bad)
	}
	e := &evaluator{u: u, frags: map[string]*nast.Fragment{}, vars: vr.Values}
	for _, d := range doc.Defs {
		if f, ok := d.(*nast.Fragment); ok {
			e.frags[f.Name.Value] = f
		}
	}
	root := e.selection(u.Model.Query, nil, []*nast.SelectionSet{op.Sel})
	root.Type = u.Model.Query
	if e.err != nil {
		return nil, e.err
	}
	return root, nil
}

type group struct {
	key    string
	fields []*nast.Field
}

func (e *evaluator) include(ds []*nast.Directive) bool {
	for _, d := range ds {
		if d.Name.Value != "skip" && d.Name.Value != "include" {
			continue
		}
		var node nast.Node
		for _, a := range d.Args {
			if a.Name.Value == "if" {
				node = a.Value
			}
		}
		b, ok := coerce.Literal(e.u.Model, model.NonNull(model.Named("Boolean")), node, e.vars).(bool)
		if !ok {
			e.fail("directive @%s without a boolean `if`", d.Name.Value)
			return false
		}
		if d.Name.Value == "skip" && b {
			return false
		}
		if d.Name.Value == "include" && !b {
			return false
		}
	}
	return true
}

func (e *evaluator) applies(objType string, cond *nast.Named) bool {
	if cond == nil || cond.Name == nil {
		return true
	}
	c := cond.Name.Value
	if c == objType {
		return true
	}
	if objType == e.u.Model.Query {
		return e.u.Model.IsPossible(c, objType) // an interface / union the query root belongs to
	}
	return false
}

func (e *evaluator) collect(objType string, ss *nast.SelectionSet, visited map[string]bool, groups *[]*group) {
	if ss == nil {
		return
	}
	for _, it := range ss.Items {
		switch s := it.(type) {
		case *nast.Field:
			if !e.include(s.Directives) {
				continue
			}
			key := s.Name.Value
			if s.Alias != nil {
				key = s.Alias.Value
			}
			found := false
			for _, g := range *groups {
				if g.key == key {
					g.fields = append(g.fields, s)
					found = true
				}
			}
			if !found {
				*groups = append(*groups, &group{key: key, fields: []*nast.Field{s}})
			}
		case *nast.FragmentSpread:
			if !e.include(s.Directives) {
				continue
			}
			if visited[s.Name.Value] {
				continue
			}
			visited[s.Name.Value] = true
			f := e.frags[s.Name.Value]
			if f == nil {
				e.fail("unknown fragment %s", s.Name.Value)
				continue
			}
			if !e.applies(objType, f.TypeCond) {
				continue
			}
			e.collect(objType, f.Sel, visited, groups)
		case *nast.InlineFragment:
			if !e.include(s.Directives) {
				continue
			}
			if !e.applies(objType, s.TypeCond) {
				continue
			}
			e.collect(objType, s.Sel, visited, groups)
		}
	}
}

// selection evaluates the merged selection sets on one source object.
func (e *evaluator) selection(objType string, src interface{}, sets []*nast.SelectionSet) *Obj {
	out := &Obj{Type: objType}
	e.describe(out, src)
	var groups []*group
	visited := map[string]bool{}
	for _, ss := range sets {
		e.collect(objType, ss, visited, &groups)
	}
	for _, g := range groups {
		f0 := g.fields[0]
		name := f0.Name.Value
		if name == "__typename" {
			out.Entries = append(out.Entries, &Entry{Key: g.key, Field: name, Value: objType})
			continue
		}
		var def *model.FieldDef
		if src == nil { // query root
			switch name {
			case "__schema":
				def = metaSchema
			case "__type":
				def = metaType
			}
		} else if td := e.u.intro[objType]; td != nil {
			def = td.Field(name)
		}
		if def == nil {
			e.fail("field %s.%s is not an introspection field", objType, name)
			continue
		}
		args := coerce.Arguments(e.u.Model, def.Args, f0.Args, e.vars)
		var val interface{}
		if src == nil {
			if name == "__schema" {
				val = schemaSrc{}
			} else {
				n, ok := args["name"].(string)
				if !ok {
					e.fail("__type without a string name")
					continue
				}
				if ti := e.u.Type(n); ti != nil {
					val = typeSrc{ref: model.Named(n), ti: ti}
				}
			}
		} else {
			val = e.resolve(objType, src, name, args)
		}
		var sels []*nast.SelectionSet
		for _, f := range g.fields {
			if f.Sel != nil {
				sels = append(sels, f.Sel)
			}
		}
		out.Entries = append(out.Entries, &Entry{Key: g.key, Field: name, Value: e.complete(def.Type, val, sels, name)})
	}
	return out
}

func (e *evaluator) describe(o *Obj, src interface{}) {
	switch s := src.(type) {
	case typeSrc:
		if s.ti != nil {
			o.Ident, o.Builtin, o.Intro = s.ti.Def.Name, s.ti.Builtin, s.ti.Intro
		}
	case fieldSrc:
		o.Ident, o.Builtin = s.f.Name, s.builtin
		o.Deprecated = s.f.Deprecation != nil
	case inputSrc:
		o.Ident, o.Builtin = s.d.Name, s.builtin
	case enumValSrc:
		o.Ident, o.Builtin = s.v.Name, s.builtin
		o.Deprecated, _ = EnumDeprecation(s.v)
	case dirSrc:
		o.Ident, o.Builtin = s.d.Def.Name, s.d.Builtin
	}
}

func (e *evaluator) complete(t *model.TypeRef, val interface{}, sels []*nast.SelectionSet, field string) Value {
	if t.Kind == "nonnull" {
		if val == nil {
			e.fail("reference bug: null in non-null position %s", field)
			return nil
		}
		return e.complete(t.Of, val, sels, field)
	}
	if val == nil {
		return nil
	}
	if t.Kind == "list" {
		lv, ok := val.(listVal)
		if !ok {
			e.fail("reference bug: %s is not a list", field)
			return nil
		}
		out := &List{Field: field, Excluded: lv.excluded, Items: make([]Value, 0, len(lv.items))}
		for _, it := range lv.items {
			out.Items = append(out.Items, e.complete(t.Of, it, sels, field))
		}
		return out
	}
	if td := e.u.intro[t.Name]; td != nil && td.Kind == model.Object {
		if len(sels) == 0 {
			e.fail("object field %s without selection", field)
			return nil
		}
		return e.selection(t.Name, val, sels)
	}
	if len(sels) != 0 {
		e.fail("leaf field %s with selection", field)
	}
	return val // string, bool, Any, AnyString, EmptyDesc, *Default
}

func desc(text string, builtin bool) interface{} {
	if builtin {
		return Any{}
	}
	if text == "" {
		return EmptyDesc{}
	}
	return text
}

func (e *evaluator) namedType(name string) interface{} {
	ti := e.u.Type(name)
	if ti == nil {
		e.fail("reference bug: type %s outside the type set", name)
		return nil
	}
	return typeSrc{ref: model.Named(name), ti: ti}
}

func (e *evaluator) refType(t *model.TypeRef) interface{} {
	if t.Kind == "named" {
		return e.namedType(t.Name)
	}
	return typeSrc{ref: t}
}

func inputs(defs []*model.InputDef, builtin bool) listVal {
	lv := listVal{items: []interface{}{}}
	for _, d := range defs {
		lv.items = append(lv.items, inputSrc{d: d, builtin: builtin})
	}
	return lv
}

func (e *evaluator) resolve(objType string, src interface{}, name string, args map[string]interface{}) interface{} {
	incl, _ := args["includeDeprecated"].(bool)
	switch s := src.(type) {
	case schemaSrc:
		m := e.u.Model
		switch name {
		case "types":
			lv := listVal{items: []interface{}{}}
			for _, n := range e.u.Names {
				lv.items = append(lv.items, e.namedType(n))
			}
			return lv
		case "queryType":
			return e.namedType(m.Query)
		case "mutationType":
			if m.Mutation != "" {
				return e.namedType(m.Mutation)
			}
			return nil
		case "subscriptionType":
			if m.Subscription != "" {
				return e.namedType(m.Subscription)
			}
			return nil
		case "directives":
			lv := listVal{items: []interface{}{}}
			for _, d := range e.u.Directives {
				lv.items = append(lv.items, dirSrc{d})
			}
			return lv
		}
	case typeSrc:
		if s.ti == nil { // wrapping type
			switch name {
			case "kind":
				if s.ref.Kind == "list" {
					return "LIST"
				}
				return "NON_NULL"
			case "ofType":
				return e.refType(s.ref.Of)
			}
			return nil
		}
		td := s.ti.Def
		switch name {
		case "kind":
			return td.Kind
		case "name":
			return td.Name
		case "description":
			return desc(td.Desc, s.ti.Builtin)
		case "fields":
			if td.Kind != model.Object && td.Kind != model.Interface {
				return nil
			}
			lv := listVal{items: []interface{}{}}
			for _, f := range td.Fields {
				if f.Deprecation != nil && !incl {
					lv.excluded = append(lv.excluded, f.Name)
					continue
				}
				lv.items = append(lv.items, fieldSrc{f: f, builtin: s.ti.Intro})
			}
			return lv
		case "interfaces":
			if td.Kind != model.Object {
				return nil
			}
			lv := listVal{items: []interface{}{}}
			for _, i := range td.Interfaces {
				lv.items = append(lv.items, e.namedType(i))
			}
			return lv
		case "possibleTypes":
			if td.Kind != model.Interface && td.Kind != model.Union {
				return nil
			}
			lv := listVal{items: []interface{}{}}
			for _, p := range e.u.PossibleTypes(td.Name) {
				lv.items = append(lv.items, e.namedType(p))
			}
			return lv
		case "enumValues":
			if td.Kind != model.Enum {
				return nil
			}
			lv := listVal{items: []interface{}{}}
			for _, v := range td.Values {
				if dep, _ := EnumDeprecation(v); dep && !incl {
					lv.excluded = append(lv.excluded, v.Name)
					continue
				}
				lv.items = append(lv.items, enumValSrc{v: v, builtin: s.ti.Intro})
			}
			return lv
		case "inputFields":
			if td.Kind != model.InputObject {
				return nil
			}
			return inputs(td.InputFields, false)
		case "ofType":
			return nil
		}
	case fieldSrc:
		switch name {
		case "name":
			return s.f.Name
		case "description":
			return desc(s.f.Desc, s.builtin)
		case "args":
			return inputs(s.f.Args, s.builtin)
		case "type":
			return e.refType(s.f.Type)
		case "isDeprecated":
			dep, _ := FieldDeprecation(s.f)
			return dep
		case "deprecationReason":
			dep, why := FieldDeprecation(s.f)
			if !dep {
				return nil
			}
			if s.builtin {
				return AnyString{}
			}
			return why
		}
	case inputSrc:
		switch name {
		case "name":
			return s.d.Name
		case "description":
			return desc(s.d.Desc, s.builtin)
		case "type":
			return e.refType(s.d.Type)
		case "defaultValue":
			return &Default{Def: s.d, Builtin: s.builtin}
		}
	case enumValSrc:
		switch name {
		case "name":
			return s.v.Name
		case "description":
			return desc(s.v.Desc, s.builtin)
		case "isDeprecated":
			dep, _ := EnumDeprecation(s.v)
			return dep
		case "deprecationReason":
			dep, why := EnumDeprecation(s.v)
			if !dep {
				return nil
			}
			if s.builtin {
				return AnyString{}
			}
			return why
		}
	case dirSrc:
		d := s.d.Def
		has := func(locs ...string) bool {
			for _, l := range d.Locations {
				for _, x := range locs {
					if l == x {
						return true
					}
				}
			}
			return false
		}
		switch name {
		case "name":
			return d.Name
		case "description":
			return desc(d.Desc, s.d.Builtin)
		case "locations":
			lv := listVal{items: []interface{}{}}
			for _, l := range d.Locations {
				lv.items = append(lv.items, l)
			}
			return lv
		case "args":
			return inputs(d.Args, s.d.Builtin)
		case "onOperation":
			return has("QUERY", "MUTATION", "SUBSCRIPTION")
		case "onFragment":
			return has("FRAGMENT_SPREAD", "INLINE_FRAGMENT", "FRAGMENT_DEFINITION")
		case "onField":
			return has("FIELD")
		}
	}
	e.fail("reference bug: no resolver for %s.%s", objType, name)
	return nil
}
