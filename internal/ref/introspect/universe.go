package introspect

import (
	"sort"

	"verif/internal/model"
)

// EmptyReasonText is the reason a field deprecated with an EMPTY reason is
// built with: the library's configuration API has no deprecation flag (an
// empty DeprecationReason means "not deprecated"), so internal/build passes
// this text instead. "The reasons the schema was built with" therefore is
// this text for such a field.
const EmptyReasonText = "No longer supported"

// TypeInfo is one member of the expected type set.
type TypeInfo struct {
	Def *model.TypeDef
	// Builtin: an introspection type or a built-in scalar: the description
	// text comes with the library and is not compared.
	Builtin bool
	// Intro: one of the eight introspection types (mismatches are signed builtin:*).
	Intro bool
}

// DirInfo is one directive of the expected schema.
type DirInfo struct {
	Def     *model.DirectiveDef
	Builtin bool
}

// Universe is everything a schema built from Model must describe.
type Universe struct {
	Model      *model.Schema
	Names      []string // the expected type set, sorted
	Directives []*DirInfo
	types      map[string]*TypeInfo
	intro      map[string]*model.TypeDef
}

// New computes the expected type set of the schema built from m:
// the types reachable from the roots through fields, arguments, input
// fields, declared interfaces and union members; the explicitly supplied
// types (m.Extra) and what they reach; the argument types of the directives;
// the introspection types and what those reference. Implementers of an
// interface belong to the set only when reachable or supplied.
func New(m *model.Schema) *Universe {
	u := &Universe{Model: m, types: map[string]*TypeInfo{}, intro: map[string]*model.TypeDef{}}
	for _, td := range IntrospectionTypes() {
		u.intro[td.Name] = td
	}
	for _, d := range SpecifiedDirectives() {
		u.Directives = append(u.Directives, &DirInfo{Def: d, Builtin: true})
	}
	for _, d := range m.Directives {
		u.Directives = append(u.Directives, &DirInfo{Def: d})
	}
	var visit func(name string)
	visitRef := func(t *model.TypeRef) {
		if t != nil {
			visit(t.Base())
		}
	}
	visit = func(name string) {
		if name == "" {
			return
		}
		if _, ok := u.types[name]; ok {
			return
		}
		var ti *TypeInfo
		if td, ok := u.intro[name]; ok {
			ti = &TypeInfo{Def: td, Builtin: true, Intro: true}
		} else if td := m.Type(name); td != nil {
			ti = &TypeInfo{Def: td, Builtin: model.IsBuiltinScalar(name)}
		} else {
			return // dangling reference: the generators never produce one
		}
		u.types[name] = ti
		td := ti.Def
		switch td.Kind {
		case model.Object:
			for _, i := range td.Interfaces {
				visit(i)
			}
		case model.Union:
			for _, mem := range td.Members {
				visit(mem)
			}
		}
		for _, f := range td.Fields {
			for _, a := range f.Args {
				visitRef(a.Type)
			}
			visitRef(f.Type)
		}
		for _, f := range td.InputFields {
			visitRef(f.Type)
		}
	}
	visit(m.Query)
	visit(m.Mutation)
	visit(m.Subscription)
	visit("__Schema")
	for _, n := range m.Extra {
		visit(n)
	}
	for _, d := range u.Directives {
		for _, a := range d.Def.Args {
			visitRef(a.Type)
		}
	}
	for n := range u.types {
		u.Names = append(u.Names, n)
	}
	sort.Strings(u.Names)
	return u
}

// Type returns the member of the type set with that name, or nil.
func (u *Universe) Type(name string) *TypeInfo { return u.types[name] }

// Has reports membership in the expected type set.
func (u *Universe) Has(name string) bool { return u.types[name] != nil }

// PossibleTypes is the set (each once, sorted) of object types of the TYPE
// SET an abstract type can be at runtime; nil for other kinds.
func (u *Universe) PossibleTypes(name string) []string {
	ti := u.types[name]
	if ti == nil {
		return nil
	}
	seen := map[string]bool{}
	var out []string
	add := func(n string) {
		if !seen[n] && u.types[n] != nil {
			seen[n] = true
			out = append(out, n)
		}
	}
	switch ti.Def.Kind {
	case model.Union:
		for _, mem := range ti.Def.Members {
			add(mem)
		}
	case model.Interface:
		for _, n := range u.Names {
			o := u.types[n].Def
			if o.Kind != model.Object {
				continue
			}
			for _, i := range o.Interfaces {
				if i == name {
					add(n)
				}
			}
		}
	default:
		return nil
	}
	sort.Strings(out)
	return out
}

// Deprecation returns the flag and reason a field is built with.
func FieldDeprecation(f *model.FieldDef) (bool, string) {
	if f.Deprecation == nil {
		return false, ""
	}
	if *f.Deprecation == "" {
		return true, EmptyReasonText
	}
	return true, *f.Deprecation
}

// EnumDeprecation returns the flag and reason an enum value is built with
// (an empty reason cannot be expressed through the configuration API: it
// means "not deprecated").
func EnumDeprecation(v *model.EnumVal) (bool, string) {
	if v.Deprecation == nil || *v.Deprecation == "" {
		return false, ""
	}
	return true, *v.Deprecation
}
