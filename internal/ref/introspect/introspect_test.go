package introspect

import (
	"strings"
	"testing"

	"verif/internal/core"
	"verif/internal/gen/schemagen"
	"verif/internal/model"
	"verif/internal/ref/syntax"
)

const fullQ = `{ __schema { queryType { name } mutationType { name } subscriptionType { name }
 types { kind name description
  fields(includeDeprecated: true) { name description isDeprecated deprecationReason args { name description defaultValue type { ...R } } type { ...R } }
  inputFields { name defaultValue type { ...R } } interfaces { name } possibleTypes { name }
  enumValues(includeDeprecated: true) { name isDeprecated deprecationReason } }
 directives { name description locations args { name defaultValue type { ...R } } } } }
fragment R on __Type { kind name ofType { kind name ofType { kind name ofType { kind name ofType { kind name ofType { kind name } } } } } }`

func gen(seed uint64) *model.Schema {
	r := core.NewRNG(seed)
	o := schemagen.DefaultOptions(r)
	o.Descs = true
	o.WrapDepth = 3
	return schemagen.Gen(r, o)
}

func expect(t *testing.T, u *Universe, q string) *Obj {
	doc, perr := syntax.Parse([]byte(q))
	if perr != nil {
		t.Fatal(perr.Msg)
	}
	exp, err := Eval(u, doc, "", nil)
	if err != nil {
		t.Fatal(err)
	}
	return exp
}

// The conformant rendering of an expectation must compare clean (lists are
// rendered in reverse order: order must not matter).
func TestRenderComparesClean(t *testing.T) {
	for seed := uint64(1); seed <= 30; seed++ {
		u := New(gen(seed))
		for _, q := range []string{fullQ, `{ __schema { types { kind } } a: __type(name: "Q") { fields { type { kind } } } b: __type(name: "Nope") { name } __typename }`} {
			exp := expect(t, u, q)
			rep := Compare(u, exp, Render(u, exp))
			if len(rep.Mismatches) > 0 {
				t.Fatalf("seed %d: %+v", seed, rep.Mismatches[0])
			}
		}
	}
}

func sigs(rep *Report) string {
	seen := map[string]bool{}
	var out []string
	for _, m := range append(append([]Mismatch{}, rep.Defects...), rep.Mismatches...) {
		if !seen[m.Sig] {
			seen[m.Sig] = true
			out = append(out, m.Sig)
		}
	}
	return strings.Join(out, " ")
}

// walk applies f to every object of the rendered data that has all keys.
func walk(v interface{}, f func(m map[string]interface{})) {
	switch x := v.(type) {
	case map[string]interface{}:
		f(x)
		for _, k := range sortedKeys(x) {
			walk(x[k], f)
		}
	case []interface{}:
		for _, it := range x {
			walk(it, f)
		}
	}
}

func sortedKeys(m map[string]interface{}) []string {
	var ks []string
	for k := range m {
		ks = append(ks, k)
	}
	for i := range ks {
		for j := i + 1; j < len(ks); j++ {
			if ks[j] < ks[i] {
				ks[i], ks[j] = ks[j], ks[i]
			}
		}
	}
	return ks
}

// Seeded faults in a conformant answer must be reported with the intended signature.
func TestSeededFaults(t *testing.T) {
	m := gen(7)
	u := New(m)
	exp := expect(t, u, fullQ)
	fresh := func() map[string]interface{} { return Render(u, exp).(map[string]interface{}) }
	types := func(d map[string]interface{}) []interface{} {
		return d["__schema"].(map[string]interface{})["types"].([]interface{})
	}
	find := func(d map[string]interface{}, pred func(map[string]interface{}) bool) map[string]interface{} {
		for _, t := range types(d) {
			if tm := t.(map[string]interface{}); pred(tm) {
				return tm
			}
		}
		return nil
	}
	cases := []struct {
		name   string
		mutate func(d map[string]interface{}) bool
		want   string
	}{
		{"drop a type", func(d map[string]interface{}) bool {
			s := d["__schema"].(map[string]interface{})
			s["types"] = types(d)[1:]
			return true
		}, "types:missing"},
		{"extra type", func(d map[string]interface{}) bool {
			s := d["__schema"].(map[string]interface{})
			cp := map[string]interface{}{}
			for k, v := range types(d)[0].(map[string]interface{}) {
				cp[k] = v
			}
			cp["name"] = "Ghost"
			s["types"] = append(types(d), cp)
			return true
		}, "types:extra"},
		{"duplicate possible type", func(d map[string]interface{}) bool {
			tm := find(d, func(tm map[string]interface{}) bool {
				l, ok := tm["possibleTypes"].([]interface{})
				return ok && len(l) > 0
			})
			if tm == nil {
				return false
			}
			l := tm["possibleTypes"].([]interface{})
			tm["possibleTypes"] = append(l, l[0])
			return true
		}, "type:possibleTypes"},
		{"wrong kind", func(d map[string]interface{}) bool {
			tm := find(d, func(tm map[string]interface{}) bool { return tm["name"] == "Q" })
			tm["kind"] = "INTERFACE"
			return true
		}, "type:kind"},
		{"deprecation flag", func(d map[string]interface{}) bool {
			done := false
			walk(d, func(x map[string]interface{}) {
				if b, ok := x["isDeprecated"].(bool); ok && b && !done && x["deprecationReason"] != "text" {
					x["isDeprecated"] = false
					done = true
				}
			})
			return done
		}, "deprecation"},
		{"default printed as internal value", func(d map[string]interface{}) bool {
			done := false
			walk(d, func(x map[string]interface{}) {
				if s, ok := x["defaultValue"].(string); ok && !done && strings.HasPrefix(s, "E") {
					x["defaultValue"] = "1"
					done = true
				}
			})
			return done
		}, "default-value:enum"},
		{"default dropped", func(d map[string]interface{}) bool {
			done := false
			walk(d, func(x map[string]interface{}) {
				if _, ok := x["defaultValue"].(string); ok && !done {
					x["defaultValue"] = nil
					done = true
				}
			})
			return done
		}, "default-value:missing"},
		{"builtin field missing", func(d map[string]interface{}) bool {
			tm := find(d, func(tm map[string]interface{}) bool { return tm["name"] == "__Type" })
			tm["fields"] = tm["fields"].([]interface{})[1:]
			return true
		}, "builtin:fields"},
		{"root", func(d map[string]interface{}) bool {
			d["__schema"].(map[string]interface{})["queryType"] = map[string]interface{}{"name": "M"}
			return true
		}, "roots"},
		{"directive location", func(d map[string]interface{}) bool {
			ds := d["__schema"].(map[string]interface{})["directives"].([]interface{})
			dm := ds[0].(map[string]interface{})
			dm["locations"] = append(dm["locations"].([]interface{}), "QUERY")
			return true
		}, "directive:locations"},
		{"wrapper lost", func(d map[string]interface{}) bool {
			done := false
			walk(d, func(x map[string]interface{}) {
				if tm, ok := x["type"].(map[string]interface{}); ok && !done && tm["kind"] == "NON_NULL" {
					x["type"] = tm["ofType"]
					done = true
				}
			})
			return done
		}, ""},
	}
	for _, c := range cases {
		d := fresh()
		if !c.mutate(d) {
			t.Logf("%s: not applicable to this model", c.name)
			continue
		}
		rep := Compare(u, exp, d)
		got := sigs(rep)
		if got == "" {
			t.Errorf("%s: not detected", c.name)
			continue
		}
		if c.want != "" && !strings.Contains(got, c.want) {
			t.Errorf("%s: signatures %q, want %q", c.name, got, c.want)
		}
	}
}

// The general (nameless) multiset matching must cope with wildcards.
func TestNamelessMatching(t *testing.T) {
	u := New(gen(3))
	exp := expect(t, u, `{ __schema { types { kind description fields { args { defaultValue } } } } }`)
	d := Render(u, exp)
	if rep := Compare(u, exp, d); len(rep.Mismatches) > 0 {
		t.Fatalf("%+v", rep.Mismatches[0])
	}
	ts := d.(map[string]interface{})["__schema"].(map[string]interface{})["types"].([]interface{})
	ts[0], ts[len(ts)-1] = ts[len(ts)-1], ts[0]
	d.(map[string]interface{})["__schema"].(map[string]interface{})["types"] = ts[1:]
	if rep := Compare(u, exp, d); len(rep.Mismatches) == 0 {
		t.Fatal("dropped element not detected")
	}
}

func TestDefaultClause(t *testing.T) {
	m := &model.Schema{Query: "Q", Types: []*model.TypeDef{
		{Kind: model.Enum, Name: "E", Values: []*model.EnumVal{{Name: "A", Internal: 1}, {Name: "B", Internal: "int-7"}, {Name: "C", Internal: 2.5}}},
		{Kind: model.InputObject, Name: "In", InputFields: []*model.InputDef{{Name: "a", Type: model.Named("Int"), HasDefault: true, Default: 1}, {Name: "e", Type: model.Named("E")}}},
		{Kind: model.Scalar, Name: "Tag"},
	}}
	m.Reindex()
	in := func(t *model.TypeRef, d interface{}) *model.InputDef {
		return &model.InputDef{Name: "x", Type: t, HasDefault: true, Default: d}
	}
	E, In, Int, Float, Str := model.Named("E"), model.Named("In"), model.Named("Int"), model.Named("Float"), model.Named("String")
	cases := []struct {
		def    *model.InputDef
		got    interface{}
		ok     bool
		class  string
		defect bool
	}{
		{in(E, 1), "A", true, "", false},
		{in(E, 1), "1", false, "enum", true},
		{in(E, 1), "B", false, "enum", false},
		{in(E, "int-7"), `"int-7"`, false, "enum", true},
		{in(E, 2.5), "2.5", false, "enum", true},
		{in(E, 2.5), "C", true, "", false},
		{in(model.ListOf(Int), []interface{}{1, 2}), "[1, 2]", true, "", false},
		{in(model.ListOf(Int), []interface{}{1, 2}), `"[1 2]"`, false, "list", true},
		{in(model.ListOf(Int), []interface{}{1, 2}), "[1]", false, "list", false},
		{in(model.ListOf(Int), []interface{}{1}), "1", true, "", false},
		{in(model.ListOf(E), []interface{}{1}), "[1]", false, "enum", true},
		{in(In, map[string]interface{}{"a": 1}), "{}", true, "", false},
		{in(In, map[string]interface{}{"a": 1}), "{a: 1}", true, "", false},
		{in(In, map[string]interface{}{"a": 2}), "{}", false, "input-object", false},
		{in(In, map[string]interface{}{"a": 1}), `"map[a:1]"`, false, "input-object", true},
		{in(In, map[string]interface{}{"a": 1, "e": 1}), `{a: 1, e: 1}`, false, "enum", true},
		{in(Float, 3.0), "3", true, "", false},
		{in(Float, 3.0), "3.0", true, "", false},
		{in(Float, 1e10), "1e+10", true, "", false},
		{in(Int, 3), "3.0", false, "int", false},
		{in(Str, "a\"b"), `"a\"b"`, true, "", false},
		{in(Str, "a"), `a`, false, "string", false},
		{in(Str, "a"), `"a`, false, "string", false},
		{in(Str, "a"), nil, false, "missing", false},
		{in(Str, "a"), `$v`, false, "string", false},
		{&model.InputDef{Name: "x", Type: Str}, nil, true, "", false},
		{&model.InputDef{Name: "x", Type: Str}, `"a"`, false, "spurious", false},
		{in(model.Named("Tag"), "tag:x"), `"tag:x"`, true, "", false},
		{in(model.Named("Tag"), "tag:x"), `"x"`, true, "", false},
	}
	for i, c := range cases {
		v := CheckDefault(m, c.def, c.got)
		if v.OK != c.ok || (!c.ok && (v.Class != c.class || v.DefectForm != c.defect)) {
			t.Errorf("case %d (%s %v -> %v): got %+v", i, c.def.Type, c.def.Default, c.got, v)
		}
	}
	// the conformant printer round-trips
	for seed := uint64(1); seed <= 40; seed++ {
		ms := gen(seed)
		for _, td := range ms.Types {
			for _, f := range td.InputFields {
				if f.HasDefault {
					if v := CheckDefault(ms, f, PrintDefault(ms, f.Type, f.Default)); !v.OK {
						t.Errorf("seed %d %s.%s: %+v", seed, td.Name, f.Name, v)
					}
				}
			}
		}
	}
}
