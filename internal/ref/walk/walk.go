// Package walk is the reference for property C14: a plain recursive
// depth-first walk over the LIBRARY's AST (ast.Node values produced by the
// library parser) that emits the event sequence a visitor is expected to
// observe under a given policy.
//
// Independence: the child table below is written by hand from the struct
// definitions in /repo/language/ast in grammar order (a Go type switch, no
// reflection, no use of visitor.QueryDocumentKeys). Reconcile compares it
// with a key map handed in by the caller; differences are reported, not
// copied (see props/c14/README.md "Child table reconciliation").
//
// Conventions encoded (each verified against the real visitor on
// all-continue traversals, see README.md):
//
//   - container chain: [nil, root, ...]; entering a node appends the node,
//     entering a non-empty slice-valued child field appends a nil entry
//     (the library cannot represent a slice as ast.Node);
//   - Parent    = last entry of the chain (nil for the root and for every
//     element of a slice);
//   - Ancestors = the chain without its last entry (empty for the root);
//   - Key       = nil for the root, the field name (string) for a direct
//     child, the index (int) for a slice element;
//   - Path      = field names and indices from the root (enter only: the
//     property does not speak about the path on leave);
//   - nil pointers, nil interfaces and empty slices are not visited and
//     contribute nothing.
package walk

import (
	"fmt"
	"sort"

	"github.com/graphql-go/graphql/language/ast"
)

type Phase int

const (
	Enter Phase = iota
	Leave
)

func (p Phase) String() string {
	if p == Enter {
		return "enter"
	}
	return "leave"
}

type Action int

const (
	Continue Action = iota
	Skip
	Break
)

func (a Action) String() string { return [...]string{"continue", "skip", "break"}[a] }

// Policy decides what the visitor with the given index returns for an event.
type Policy func(node ast.Node, phase Phase, visitorIndex int) Action

// Event is one expected (or observed) visitor call.
type Event struct {
	Phase     Phase
	Node      ast.Node
	Kind      string
	Key       interface{}   // nil | string | int
	Parent    ast.Node      // library convention, see package comment
	Path      []interface{} // enter only (nil on leave)
	Ancestors []ast.Node    // library convention, see package comment
	Enclosing []ast.Node    // the real enclosing nodes, outermost first (convention-free)
}

// Child is one child field of a node: either a single node or a list.
type Child struct {
	Field  string
	IsList bool
	Node   ast.Node   // !IsList; nil when absent
	List   []ast.Node // IsList
}

// Options select variants of the table.
type Options struct {
	// Descriptions makes the Description field of type-system definitions a
	// child (first, as in the grammar). The library's default key table does
	// not list it; see README "Child table reconciliation".
	Descriptions bool
	// Visible, when set, tells whether the visitor has a function for
	// (kind, phase). Invisible events are not emitted and the policy is not
	// consulted for them (the traversal continues).
	Visible func(kind string, phase Phase) bool
}

func one(f string, n ast.Node, isNil bool) Child {
	if isNil {
		n = nil
	}
	return Child{Field: f, Node: n}
}

func nm(f string, n *ast.Name) Child { return one(f, n, n == nil) }

func desc(o *Options, n *ast.StringValue) []Child {
	if o != nil && o.Descriptions {
		return []Child{one("Description", n, n == nil)}
	}
	return nil
}

func dirs(l []*ast.Directive) Child {
	c := Child{Field: "Directives", IsList: true}
	for _, x := range l {
		c.List = append(c.List, x)
	}
	return c
}

func args(l []*ast.Argument) Child {
	c := Child{Field: "Arguments", IsList: true}
	for _, x := range l {
		c.List = append(c.List, x)
	}
	return c
}

func ivds(f string, l []*ast.InputValueDefinition) Child {
	c := Child{Field: f, IsList: true}
	for _, x := range l {
		c.List = append(c.List, x)
	}
	return c
}

func fdefs(l []*ast.FieldDefinition) Child {
	c := Child{Field: "Fields", IsList: true}
	for _, x := range l {
		c.List = append(c.List, x)
	}
	return c
}

func nameds(f string, l []*ast.Named) Child {
	c := Child{Field: f, IsList: true}
	for _, x := range l {
		c.List = append(c.List, x)
	}
	return c
}

func vdefs(l []*ast.VariableDefinition) Child {
	c := Child{Field: "VariableDefinitions", IsList: true}
	for _, x := range l {
		c.List = append(c.List, x)
	}
	return c
}

func sel(s *ast.SelectionSet) Child  { return one("SelectionSet", s, s == nil) }
func typ(f string, t ast.Type) Child { return one(f, t, t == nil) }
func val(f string, v ast.Value) Child {
	if v == nil {
		return Child{Field: f}
	}
	return Child{Field: f, Node: v.(ast.Node)}
}

// Children returns the child fields of n in grammar order.
func Children(n ast.Node, o *Options) []Child {
	switch n := n.(type) {
	case *ast.Document:
		return []Child{{Field: "Definitions", IsList: true, List: n.Definitions}}
	case *ast.OperationDefinition:
		return []Child{nm("Name", n.Name), vdefs(n.VariableDefinitions), dirs(n.Directives), sel(n.SelectionSet)}
	case *ast.VariableDefinition:
		return []Child{one("Variable", n.Variable, n.Variable == nil), typ("Type", n.Type), val("DefaultValue", n.DefaultValue)}
	case *ast.Variable:
		return []Child{nm("Name", n.Name)}
	case *ast.SelectionSet:
		c := Child{Field: "Selections", IsList: true}
		for _, s := range n.Selections {
			c.List = append(c.List, s.(ast.Node))
		}
		return []Child{c}
	case *ast.Field:
		return []Child{nm("Alias", n.Alias), nm("Name", n.Name), args(n.Arguments), dirs(n.Directives), sel(n.SelectionSet)}
	case *ast.Argument:
		return []Child{nm("Name", n.Name), val("Value", n.Value)}
	case *ast.FragmentSpread:
		return []Child{nm("Name", n.Name), dirs(n.Directives)}
	case *ast.InlineFragment:
		return []Child{one("TypeCondition", n.TypeCondition, n.TypeCondition == nil), dirs(n.Directives), sel(n.SelectionSet)}
	case *ast.FragmentDefinition:
		// the struct also has VariableDefinitions (never set by the parser of this edition)
		return []Child{nm("Name", n.Name), vdefs(n.VariableDefinitions), one("TypeCondition", n.TypeCondition, n.TypeCondition == nil), dirs(n.Directives), sel(n.SelectionSet)}
	case *ast.Name, *ast.IntValue, *ast.FloatValue, *ast.StringValue, *ast.BooleanValue, *ast.EnumValue:
		return nil
	case *ast.ListValue:
		c := Child{Field: "Values", IsList: true}
		for _, v := range n.Values {
			c.List = append(c.List, v.(ast.Node))
		}
		return []Child{c}
	case *ast.ObjectValue:
		c := Child{Field: "Fields", IsList: true}
		for _, f := range n.Fields {
			c.List = append(c.List, f)
		}
		return []Child{c}
	case *ast.ObjectField:
		return []Child{nm("Name", n.Name), val("Value", n.Value)}
	case *ast.Directive:
		return []Child{nm("Name", n.Name), args(n.Arguments)}
	case *ast.Named:
		return []Child{nm("Name", n.Name)}
	case *ast.List:
		return []Child{typ("Type", n.Type)}
	case *ast.NonNull:
		return []Child{typ("Type", n.Type)}
	case *ast.SchemaDefinition:
		c := Child{Field: "OperationTypes", IsList: true}
		for _, x := range n.OperationTypes {
			c.List = append(c.List, x)
		}
		return []Child{dirs(n.Directives), c}
	case *ast.OperationTypeDefinition:
		return []Child{one("Type", n.Type, n.Type == nil)}
	case *ast.ScalarDefinition:
		return append(desc(o, n.Description), nm("Name", n.Name), dirs(n.Directives))
	case *ast.ObjectDefinition:
		return append(desc(o, n.Description), nm("Name", n.Name), nameds("Interfaces", n.Interfaces), dirs(n.Directives), fdefs(n.Fields))
	case *ast.FieldDefinition:
		return append(desc(o, n.Description), nm("Name", n.Name), ivds("Arguments", n.Arguments), typ("Type", n.Type), dirs(n.Directives))
	case *ast.InputValueDefinition:
		return append(desc(o, n.Description), nm("Name", n.Name), typ("Type", n.Type), val("DefaultValue", n.DefaultValue), dirs(n.Directives))
	case *ast.InterfaceDefinition:
		return append(desc(o, n.Description), nm("Name", n.Name), dirs(n.Directives), fdefs(n.Fields))
	case *ast.UnionDefinition:
		return append(desc(o, n.Description), nm("Name", n.Name), dirs(n.Directives), nameds("Types", n.Types))
	case *ast.EnumDefinition:
		c := Child{Field: "Values", IsList: true}
		for _, x := range n.Values {
			c.List = append(c.List, x)
		}
		return append(desc(o, n.Description), nm("Name", n.Name), dirs(n.Directives), c)
	case *ast.EnumValueDefinition:
		return append(desc(o, n.Description), nm("Name", n.Name), dirs(n.Directives))
	case *ast.InputObjectDefinition:
		return append(desc(o, n.Description), nm("Name", n.Name), dirs(n.Directives), ivds("Fields", n.Fields))
	case *ast.TypeExtensionDefinition:
		return []Child{one("Definition", n.Definition, n.Definition == nil)}
	case *ast.DirectiveDefinition:
		c := Child{Field: "Locations", IsList: true}
		for _, x := range n.Locations {
			c.List = append(c.List, x)
		}
		return append(desc(o, n.Description), nm("Name", n.Name), ivds("Arguments", n.Arguments), c)
	}
	panic(fmt.Sprintf("walk: unknown node type %T", n))
}

type walker struct {
	o      *Options
	policy Policy
	idx    int
	out    []Event
}

// Walk returns the event sequence visitor number idx is expected to observe.
func Walk(root ast.Node, policy Policy, idx int, o *Options) []Event {
	w := &walker{o: o, policy: policy, idx: idx}
	w.visit(root, nil, []ast.Node{nil}, nil, nil)
	return w.out
}

func (w *walker) emit(ph Phase, n ast.Node, key interface{}, chain []ast.Node, path []interface{}, encl []ast.Node) Action {
	if w.o != nil && w.o.Visible != nil && !w.o.Visible(n.GetKind(), ph) {
		return Continue
	}
	// chain, path and encl are never modified after they were built (every
	// level allocates its own), so events may share them
	e := Event{Phase: ph, Node: n, Kind: n.GetKind(), Key: key, Parent: chain[len(chain)-1],
		Ancestors: chain[: len(chain)-1 : len(chain)-1], Enclosing: encl[:len(encl):len(encl)]}
	if ph == Enter {
		e.Path = path[:len(path):len(path)]
	}
	w.out = append(w.out, e)
	if w.policy == nil {
		return Continue
	}
	return w.policy(n, ph, w.idx)
}

// visit returns true when the traversal must stop (break).
func (w *walker) visit(n ast.Node, key interface{}, chain []ast.Node, path []interface{}, encl []ast.Node) bool {
	switch w.emit(Enter, n, key, chain, path, encl) {
	case Break:
		return true
	case Skip:
		return false
	}
	inner := append(append([]ast.Node{}, chain...), n)
	enclIn := append(append([]ast.Node{}, encl...), n)
	for _, c := range Children(n, w.o) {
		if (!c.IsList && c.Node == nil) || (c.IsList && len(c.List) == 0) {
			continue
		}
		p := append(append([]interface{}{}, path...), c.Field)
		if !c.IsList {
			if w.visit(c.Node, c.Field, inner, p, enclIn) {
				return true
			}
			continue
		}
		inSlice := append(append([]ast.Node{}, inner...), nil)
		for i, e := range c.List {
			if w.visit(e, i, inSlice, append(append([]interface{}{}, p...), i), enclIn) {
				return true
			}
		}
	}
	// skip on leave has no subtree left to suppress: treated as continue
	return w.emit(Leave, n, key, chain, path, encl) == Break
}

// Resolve follows path from root through the child table; nil when the path
// does not lead to a node.
func Resolve(root ast.Node, path []interface{}, o *Options) ast.Node {
	cur := root
	for i := 0; i < len(path); i++ {
		f, ok := path[i].(string)
		if !ok || cur == nil {
			return nil
		}
		var hit *Child
		for _, c := range Children(cur, o) {
			if c.Field == f {
				c := c
				hit = &c
				break
			}
		}
		if hit == nil {
			return nil
		}
		if !hit.IsList {
			cur = hit.Node
			continue
		}
		i++
		if i >= len(path) {
			return nil
		}
		ix, ok := path[i].(int)
		if !ok || ix < 0 || ix >= len(hit.List) {
			return nil
		}
		cur = hit.List[ix]
	}
	return cur
}

// Kinds lists every node kind of the library's AST with the Go field names of
// its children per the table above (for a zero node of that kind).
func Kinds(o *Options) map[string][]string {
	zero := []ast.Node{&ast.Name{}, &ast.Document{}, &ast.OperationDefinition{}, &ast.VariableDefinition{}, &ast.Variable{},
		&ast.SelectionSet{}, &ast.Field{}, &ast.Argument{}, &ast.FragmentSpread{}, &ast.InlineFragment{}, &ast.FragmentDefinition{},
		&ast.IntValue{}, &ast.FloatValue{}, &ast.StringValue{}, &ast.BooleanValue{}, &ast.EnumValue{}, &ast.ListValue{},
		&ast.ObjectValue{}, &ast.ObjectField{}, &ast.Directive{}, &ast.Named{}, &ast.List{}, &ast.NonNull{},
		&ast.SchemaDefinition{}, &ast.OperationTypeDefinition{}, &ast.ScalarDefinition{}, &ast.ObjectDefinition{},
		&ast.FieldDefinition{}, &ast.InputValueDefinition{}, &ast.InterfaceDefinition{}, &ast.UnionDefinition{},
		&ast.EnumDefinition{}, &ast.EnumValueDefinition{}, &ast.InputObjectDefinition{}, &ast.TypeExtensionDefinition{},
		&ast.DirectiveDefinition{}}
	names := []string{"Name", "Document", "OperationDefinition", "VariableDefinition", "Variable", "SelectionSet", "Field",
		"Argument", "FragmentSpread", "InlineFragment", "FragmentDefinition", "IntValue", "FloatValue", "StringValue",
		"BooleanValue", "EnumValue", "ListValue", "ObjectValue", "ObjectField", "Directive", "Named", "List", "NonNull",
		"SchemaDefinition", "OperationTypeDefinition", "ScalarDefinition", "ObjectDefinition", "FieldDefinition",
		"InputValueDefinition", "InterfaceDefinition", "UnionDefinition", "EnumDefinition", "EnumValueDefinition",
		"InputObjectDefinition", "TypeExtensionDefinition", "DirectiveDefinition"}
	m := map[string][]string{}
	for i, z := range zero {
		fs := []string{}
		for _, c := range Children(z, o) {
			fs = append(fs, c.Field)
		}
		m[names[i]] = fs
	}
	return m
}

// KindNames returns the sorted kind names.
func KindNames() []string {
	var ks []string
	for k := range Kinds(nil) {
		ks = append(ks, k)
	}
	sort.Strings(ks)
	return ks
}

// Reconcile compares the reference table (with descriptions) with a key map
// such as visitor.QueryDocumentKeys and returns one line per difference,
// sorted.
func Reconcile(libKeys map[string][]string) []string {
	mine := Kinds(&Options{Descriptions: true})
	var out []string
	seen := map[string]bool{}
	for k := range mine {
		seen[k] = true
	}
	for k := range libKeys {
		seen[k] = true
	}
	var ks []string
	for k := range seen {
		ks = append(ks, k)
	}
	sort.Strings(ks)
	for _, k := range ks {
		a, okA := mine[k]
		b, okB := libKeys[k]
		switch {
		case !okB:
			out = append(out, fmt.Sprintf("%s: kind missing from the library table", k))
			continue
		case !okA:
			out = append(out, fmt.Sprintf("%s: kind unknown to the reference table", k))
			continue
		}
		inB := map[string]bool{}
		for _, f := range b {
			inB[f] = true
		}
		inA := map[string]bool{}
		var common []string
		for _, f := range a {
			inA[f] = true
			if !inB[f] {
				out = append(out, fmt.Sprintf("%s.%s: child in the reference table only", k, f))
			} else {
				common = append(common, f)
			}
		}
		j := 0
		for _, f := range b {
			if !inA[f] {
				out = append(out, fmt.Sprintf("%s.%s: child in the library table only", k, f))
				continue
			}
			if j < len(common) && common[j] != f {
				out = append(out, fmt.Sprintf("%s: order differs (reference %v, library %v)", k, a, b))
				break
			}
			j++
		}
	}
	return out
}
