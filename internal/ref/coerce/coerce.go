// Package coerce is the reference model of GraphQL input coercion
// (variables, literals, defaults) for the edition described in DESIGN.md
// Appendix A.4. It reads the schema MODEL and neutral syntax trees only and
// imports nothing from the library.
package coerce

import (
	"math"
	"sort"
	"strconv"

	"verif/internal/model"
	"verif/internal/nast"
)

// Status of a variable coercion.
type Status int

const (
	OK       Status = iota // conformant: must be accepted, value is exact
	Invalid                // in a class the property names: must be rejected
	DontCare               // edition coerces leniently / property silent: accept or reject both fine
)

func (s Status) String() string { return [...]string{"ok", "invalid", "dontcare"}[s] }

// TagPrefix is what the custom scalar "Tag" prepends when parsing input.
const TagPrefix = "tag:"

// Nullish mirrors "null or absent" (and NaN, which never occurs in inputs we build).
func Nullish(v interface{}) bool {
	if v == nil {
		return true
	}
	if f, ok := v.(float64); ok && math.IsNaN(f) {
		return true
	}
	return false
}

func worse(a, b Status) Status {
	if a == Invalid || b == Invalid {
		return Invalid
	}
	if a == DontCare || b == DontCare {
		return DontCare
	}
	return OK
}

// Variable coerces a JSON-like runtime value against a type.
// Values are: nil, bool, int, float64, string, []interface{}, map[string]interface{}.
func Variable(s *model.Schema, t *model.TypeRef, v interface{}) (interface{}, Status) {
	if Nullish(v) {
		if t.Kind == "nonnull" {
			return nil, Invalid
		}
		return nil, OK
	}
	switch t.Kind {
	case "nonnull":
		return Variable(s, t.Of, v)
	case "list":
		if xs, ok := v.([]interface{}); ok {
			out := make([]interface{}, 0, len(xs))
			st := OK
			for _, x := range xs {
				c, s1 := Variable(s, t.Of, x)
				st = worse(st, s1)
				out = append(out, c)
			}
			return out, st
		}
		c, st := Variable(s, t.Of, v)
		return []interface{}{c}, st
	}
	td := s.Type(t.Name)
	if td == nil {
		return nil, DontCare
	}
	switch td.Kind {
	case model.InputObject:
		m, ok := v.(map[string]interface{})
		if !ok {
			return nil, Invalid
		}
		st := OK
		keys := make([]string, 0, len(m))
		for k := range m {
			keys = append(keys, k)
		}
		sort.Strings(keys)
		for _, k := range keys {
			if td.InputField(k) == nil {
				st = Invalid // unknown field
			}
		}
		out := map[string]interface{}{}
		for _, f := range td.InputFields {
			c, s1 := Variable(s, f.Type, m[f.Name])
			st = worse(st, s1)
			if Nullish(c) && f.HasDefault {
				c = f.Default
			}
			if !Nullish(c) {
				out[f.Name] = c
			}
		}
		return out, st
	case model.Enum:
		str, ok := v.(string)
		if !ok {
			return nil, Invalid
		}
		if ev := td.EnumValue(str); ev != nil {
			return ev.Internal, OK
		}
		return nil, Invalid
	case model.Scalar:
		return scalarVariable(t.Name, v)
	}
	return nil, DontCare
}

func scalarVariable(name string, v interface{}) (interface{}, Status) {
	switch name {
	case "Int":
		switch x := v.(type) {
		case int:
			if x < math.MinInt32 || x > math.MaxInt32 {
				return nil, Invalid
			}
			return x, OK
		case float64:
			if x != math.Trunc(x) {
				return nil, DontCare // fractional: edition truncates
			}
			if x < math.MinInt32 || x > math.MaxInt32 {
				return nil, Invalid
			}
			return int(x), OK
		case bool:
			return nil, DontCare
		case string:
			if _, err := strconv.ParseFloat(x, 64); err == nil {
				return nil, DontCare // numeric string: edition parses
			}
			return nil, Invalid
		}
		return nil, Invalid // lists, maps: non-numeric
	case "Float":
		switch x := v.(type) {
		case int:
			return float64(x), OK
		case float64:
			return x, OK
		case bool:
			return nil, DontCare
		case string:
			if _, err := strconv.ParseFloat(x, 64); err == nil {
				return nil, DontCare
			}
			return nil, Invalid
		}
		return nil, Invalid
	case "String":
		if x, ok := v.(string); ok {
			return x, OK
		}
		return nil, DontCare
	case "ID":
		switch x := v.(type) {
		case string:
			return x, OK
		case int:
			return strconv.Itoa(x), OK
		case float64:
			if x == math.Trunc(x) && math.Abs(x) < 1e15 {
				return strconv.FormatFloat(x, 'f', -1, 64), DontCare
			}
			return nil, DontCare
		}
		return nil, DontCare
	case "Boolean":
		if x, ok := v.(bool); ok {
			return x, OK
		}
		return nil, DontCare
	case "Tag":
		if x, ok := v.(string); ok {
			return TagPrefix + x, OK
		}
		return nil, Invalid
	}
	return nil, DontCare
}

// Literal evaluates a value literal of a VALIDATED document against a type,
// with the (already coerced) variable values. Returns nil for "no value".
func Literal(s *model.Schema, t *model.TypeRef, n nast.Node, vars map[string]interface{}) interface{} {
	if isNilNode(n) {
		return nil
	}
	if v, ok := n.(*nast.Variable); ok {
		if vars == nil {
			return nil
		}
		return vars[v.Name.Value]
	}
	switch t.Kind {
	case "nonnull":
		return Literal(s, t.Of, n, vars)
	case "list":
		if lv, ok := n.(*nast.ListValue); ok {
			out := make([]interface{}, 0, len(lv.Items))
			for _, it := range lv.Items {
				out = append(out, Literal(s, t.Of, it, vars))
			}
			return out
		}
		return []interface{}{Literal(s, t.Of, n, vars)}
	}
	td := s.Type(t.Name)
	if td == nil {
		return nil
	}
	switch td.Kind {
	case model.InputObject:
		ov, ok := n.(*nast.ObjectValue)
		if !ok {
			return nil
		}
		out := map[string]interface{}{}
		for _, f := range td.InputFields {
			var val interface{}
			for _, of := range ov.Fields {
				if of.Name.Value == f.Name {
					val = Literal(s, f.Type, of.Value, vars)
				}
			}
			if Nullish(val) && f.HasDefault {
				val = f.Default
			}
			if !Nullish(val) {
				out[f.Name] = val
			}
		}
		return out
	case model.Enum:
		if ev, ok := n.(*nast.EnumValue); ok {
			if d := td.EnumValue(ev.Value); d != nil {
				return d.Internal
			}
		}
		return nil
	case model.Scalar:
		return scalarLiteral(t.Name, n)
	}
	return nil
}

func scalarLiteral(name string, n nast.Node) interface{} {
	switch name {
	case "Int":
		if iv, ok := n.(*nast.IntValue); ok {
			x, err := strconv.ParseInt(iv.Raw, 10, 64)
			if err == nil && x >= math.MinInt32 && x <= math.MaxInt32 {
				return int(x)
			}
		}
	case "Float":
		switch v := n.(type) {
		case *nast.IntValue:
			if f, err := strconv.ParseFloat(v.Raw, 64); err == nil {
				return f
			}
		case *nast.FloatValue:
			if f, err := strconv.ParseFloat(v.Raw, 64); err == nil {
				return f
			}
		}
	case "String":
		if sv, ok := n.(*nast.StringValue); ok {
			return sv.Value
		}
	case "ID":
		switch v := n.(type) {
		case *nast.StringValue:
			return v.Value
		case *nast.IntValue:
			return v.Raw
		}
	case "Boolean":
		if bv, ok := n.(*nast.BooleanValue); ok {
			return bv.Value
		}
	case "Tag":
		if sv, ok := n.(*nast.StringValue); ok {
			return TagPrefix + sv.Value
		}
	}
	return nil
}

// ValidLiteral is the validation-time predicate "this literal is acceptable
// for this type" (variables are accepted here; their positions are checked by
// another rule). A missing value is acceptable unless the type is non-null.
func ValidLiteral(s *model.Schema, t *model.TypeRef, n nast.Node) bool {
	if t.Kind == "nonnull" {
		if isNilNode(n) {
			return false
		}
		return ValidLiteral(s, t.Of, n)
	}
	if isNilNode(n) {
		return true
	}
	if _, ok := n.(*nast.Variable); ok {
		return true
	}
	if t.Kind == "list" {
		if lv, ok := n.(*nast.ListValue); ok {
			for _, it := range lv.Items {
				if !ValidLiteral(s, t.Of, it) {
					return false
				}
			}
			return true
		}
		return ValidLiteral(s, t.Of, n)
	}
	td := s.Type(t.Name)
	if td == nil {
		return true
	}
	switch td.Kind {
	case model.InputObject:
		ov, ok := n.(*nast.ObjectValue)
		if !ok {
			return false
		}
		for _, of := range ov.Fields {
			if td.InputField(of.Name.Value) == nil {
				return false
			}
		}
		for _, f := range td.InputFields {
			var val nast.Node
			for _, of := range ov.Fields {
				if of.Name.Value == f.Name {
					val = of.Value
				}
			}
			if !ValidLiteral(s, f.Type, val) {
				return false
			}
		}
		return true
	case model.Enum:
		ev, ok := n.(*nast.EnumValue)
		return ok && td.EnumValue(ev.Value) != nil
	case model.Scalar:
		return scalarLiteral(t.Name, n) != nil
	}
	return true
}

func isNilNode(n nast.Node) bool {
	if n == nil {
		return true
	}
	switch v := n.(type) {
	case *nast.Variable:
		return v == nil
	case *nast.IntValue:
		return v == nil
	case *nast.FloatValue:
		return v == nil
	case *nast.StringValue:
		return v == nil
	case *nast.BooleanValue:
		return v == nil
	case *nast.EnumValue:
		return v == nil
	case *nast.ListValue:
		return v == nil
	case *nast.ObjectValue:
		return v == nil
	}
	return false
}

// Arguments computes the argument map a resolver must receive.
func Arguments(s *model.Schema, defs []*model.InputDef, args []*nast.Argument, vars map[string]interface{}) map[string]interface{} {
	out := map[string]interface{}{}
	for _, d := range defs {
		var node nast.Node
		for _, a := range args {
			if a.Name.Value == d.Name {
				node = a.Value
			}
		}
		v := Literal(s, d.Type, node, vars)
		if Nullish(v) && d.HasDefault {
			v = d.Default
		}
		if !Nullish(v) {
			out[d.Name] = v
		}
	}
	return out
}

// VarResult is the outcome of coercing all variables of an operation.
type VarResult struct {
	Values map[string]interface{}
	Status Status // Invalid ⇒ request must be refused; DontCare ⇒ either
	Bad    string // name of the first offending variable
}

// TypeFromNode converts a type node to a model type ref.
func TypeFromNode(n nast.Node) *model.TypeRef {
	switch v := n.(type) {
	case *nast.Named:
		return model.Named(v.Name.Value)
	case *nast.List:
		return model.ListOf(TypeFromNode(v.Of))
	case *nast.NonNull:
		return model.NonNull(TypeFromNode(v.Of))
	}
	return nil
}

// Variables coerces the request's variable map against the operation's definitions.
func Variables(s *model.Schema, defs []*nast.VarDef, input map[string]interface{}) VarResult {
	res := VarResult{Values: map[string]interface{}{}, Status: OK}
	for _, d := range defs {
		name := d.Var.Name.Value
		t := TypeFromNode(d.Type)
		in := input[name]
		if Nullish(in) && !isNilNode(d.Default) && t.Kind != "nonnull" {
			res.Values[name] = Literal(s, t, d.Default, nil)
			continue
		}
		v, st := Variable(s, t, in)
		if st != OK && res.Status == OK {
			res.Bad = name
		}
		if st == Invalid {
			res.Status = Invalid
			res.Bad = name
			return res
		}
		res.Status = worse(res.Status, st)
		res.Values[name] = v
	}
	return res
}
