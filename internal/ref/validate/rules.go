package validate

import (
	"fmt"
	"math"
	"strconv"

	"verif/internal/model"
	"verif/internal/nast"
)

func off(msg string, nodes ...nast.Node) Offence { return Offence{Msg: msg, Nodes: nodes} }

// ---- literal validity (Appendix A.2: scalars follow their ParseLiteral)

// validLiteral: is the value literal acceptable where type t is expected?
// Variables are accepted (their positions are another rule's business). A
// nil value stands for "not provided".
func (c *ctx) validLiteral(t *model.TypeRef, v nast.Node) bool {
	if t.Kind == "nonnull" {
		if v == nil {
			return false
		}
		return c.validLiteral(t.Of, v)
	}
	if v == nil {
		return true
	}
	if _, ok := v.(*nast.Variable); ok {
		return true
	}
	if t.Kind == "list" {
		if lv, ok := v.(*nast.ListValue); ok {
			for _, it := range lv.Items {
				if !c.validLiteral(t.Of, it) {
					return false
				}
			}
			return true
		}
		return c.validLiteral(t.Of, v) // a bare item is a list of one
	}
	td := c.s.Type(t.Name)
	if td == nil {
		return true // unknown type: nothing to say
	}
	switch td.Kind {
	case model.InputObject:
		ov, ok := v.(*nast.ObjectValue)
		if !ok {
			return false
		}
		for _, f := range ov.Fields {
			if td.InputField(f.Name.Value) == nil {
				return false // unknown field
			}
		}
		for _, fd := range td.InputFields {
			var val nast.Node
			for _, f := range ov.Fields {
				if f.Name.Value == fd.Name {
					val = f.Value
					if !c.o.PickLast {
						break
					}
				}
			}
			if !c.validLiteral(fd.Type, val) {
				return false // wrong value, or a missing non-null field
			}
		}
		return true
	case model.Enum:
		ev, ok := v.(*nast.EnumValue)
		return ok && td.EnumValue(ev.Value) != nil
	case model.Scalar:
		return validScalarLiteral(t.Name, v)
	}
	return true // an output type in input position: another rule's business
}

func validScalarLiteral(name string, v nast.Node) bool {
	switch name {
	case "Int":
		iv, ok := v.(*nast.IntValue)
		if !ok {
			return false
		}
		x, err := strconv.ParseInt(iv.Raw, 10, 64)
		return err == nil && x >= math.MinInt32 && x <= math.MaxInt32
	case "Float":
		switch x := v.(type) {
		case *nast.IntValue:
			_, err := strconv.ParseFloat(x.Raw, 64)
			return err == nil
		case *nast.FloatValue:
			_, err := strconv.ParseFloat(x.Raw, 64)
			return err == nil
		}
		return false
	case "String":
		_, ok := v.(*nast.StringValue)
		return ok
	case "Boolean":
		_, ok := v.(*nast.BooleanValue)
		return ok
	case "ID":
		switch v.(type) {
		case *nast.StringValue, *nast.IntValue:
			return true
		}
		return false
	}
	// custom scalars of the generated schemas (Tag): string literals only
	_, ok := v.(*nast.StringValue)
	return ok
}

// ---- 1. ArgumentsOfCorrectType

func argumentsOfCorrectType(c *ctx) []Offence {
	var out []Offence
	c.walk(&hooks{argument: func(a *nast.Argument, owner nast.Node, def *model.InputDef) {
		if def == nil {
			return
		}
		if !c.validLiteral(def.Type, a.Value) {
			out = append(out, off(fmt.Sprintf("argument %q: %s is not a valid %s", a.Name.Value, valueText(a.Value), def.Type), a.Value, a))
		}
	}})
	return out
}

// ---- 2. DefaultValuesOfCorrectType

func defaultValuesOfCorrectType(c *ctx) []Offence {
	var out []Offence
	c.walk(&hooks{varDef: func(op *nast.Operation, vd *nast.VarDef) {
		if vd.Default == nil {
			return
		}
		t, known := c.typeOfNode(vd.Type)
		if t == nil {
			return
		}
		if t.Kind == "nonnull" {
			o := off(fmt.Sprintf("variable $%s of non-null type %s has a default value", vd.Var.Name.Value, t), vd.Default, vd)
			o.Optional = !known // the type is unknown: nothing can be said about it for sure
			out = append(out, o)
		}
		if !known && t.Kind != "nonnull" {
			// nothing can be said about a literal for a type that does not exist
			o := off(fmt.Sprintf("default value of $%s whose type %s is unknown", vd.Var.Name.Value, t), vd.Default, vd)
			o.Optional = true
			out = append(out, o)
		}
		if known && c.s.IsInput(t.Base()) && !c.validLiteral(t.Nullable(), vd.Default) {
			out = append(out, off(fmt.Sprintf("default value %s of $%s is not a valid %s", valueText(vd.Default), vd.Var.Name.Value, t), vd.Default, vd))
		}
	}})
	return out
}

// ---- 3. FieldsOnCorrectType

func fieldsOnCorrectType(c *ctx) []Offence {
	var out []Offence
	c.walk(&hooks{field: func(f *nast.Field, parent string, def *fdef) {
		if parent == "" {
			return // parent type unknown: nothing to check the field against
		}
		if def == nil {
			out = append(out, off(fmt.Sprintf("field %q is not defined on type %s", f.Name.Value, parent), f))
		}
	}})
	return out
}

// ---- 4. FragmentsOnCompositeTypes

func fragmentsOnCompositeTypes(c *ctx) []Offence {
	var out []Offence
	check := func(tc *nast.Named, owner nast.Node) {
		if tc == nil {
			return
		}
		n := tc.Name.Value
		if !c.typeKnown(n) || opaque(n) {
			return
		}
		if !c.s.IsComposite(n) {
			out = append(out, off(fmt.Sprintf("fragment on non-composite type %s", n), tc, owner))
		}
	}
	c.walk(&hooks{
		fragment:       func(f *nast.Fragment, cond string) { check(f.TypeCond, f) },
		inlineFragment: func(inf *nast.InlineFragment, parent string) { check(inf.TypeCond, inf) },
	})
	return out
}

// ---- 5. KnownArgumentNames

func knownArgumentNames(c *ctx) []Offence {
	var out []Offence
	fieldKnown := map[*nast.Field]bool{}
	c.walk(&hooks{
		field: func(f *nast.Field, parent string, def *fdef) { fieldKnown[f] = def != nil },
		argument: func(a *nast.Argument, owner nast.Node, def *model.InputDef) {
			if def != nil {
				return
			}
			switch o := owner.(type) {
			case *nast.Field:
				if fieldKnown[o] {
					out = append(out, off(fmt.Sprintf("unknown argument %q on field %q", a.Name.Value, o.Name.Value), a))
				}
			case *nast.Directive:
				if c.directiveDef(o.Name.Value) != nil {
					out = append(out, off(fmt.Sprintf("unknown argument %q on directive @%s", a.Name.Value, o.Name.Value), a))
				}
			}
		},
	})
	return out
}

// ---- 6. KnownDirectives

// directiveLocation names the location of a directive attached to owner, as
// in directives.go of this edition.
func directiveLocation(owner nast.Node) string {
	switch o := owner.(type) {
	case *nast.Operation:
		switch o.Op {
		case "query":
			return "QUERY"
		case "mutation":
			return "MUTATION"
		case "subscription":
			return "SUBSCRIPTION"
		}
	case *nast.Field:
		return "FIELD"
	case *nast.FragmentSpread:
		return "FRAGMENT_SPREAD"
	case *nast.InlineFragment:
		return "INLINE_FRAGMENT"
	case *nast.Fragment:
		return "FRAGMENT_DEFINITION"
	}
	return ""
}

func knownDirectives(c *ctx) []Offence {
	var out []Offence
	c.walk(&hooks{directive: func(d *nast.Directive, owner nast.Node, def *model.DirectiveDef) {
		if def == nil {
			out = append(out, off(fmt.Sprintf("unknown directive @%s", d.Name.Value), d))
			return
		}
		loc := directiveLocation(owner)
		for _, l := range def.Locations {
			if l == loc {
				return
			}
		}
		out = append(out, off(fmt.Sprintf("directive @%s may not be used on %s", d.Name.Value, loc), d))
	}})
	return out
}

// ---- 7. KnownFragmentNames

func knownFragmentNames(c *ctx) []Offence {
	var out []Offence
	c.walk(&hooks{spread: func(sp *nast.FragmentSpread, parent string) {
		if c.fragment(sp.Name.Value) == nil {
			out = append(out, off(fmt.Sprintf("unknown fragment %q", sp.Name.Value), sp.Name, sp))
		}
	}})
	return out
}

// ---- 8. KnownTypeNames

func namedTypesIn(n nast.Node) []*nast.Named {
	switch v := n.(type) {
	case *nast.Named:
		return []*nast.Named{v}
	case *nast.List:
		return namedTypesIn(v.Of)
	case *nast.NonNull:
		return namedTypesIn(v.Of)
	}
	return nil
}

func knownTypeNames(c *ctx) []Offence {
	var out []Offence
	check := func(ns []*nast.Named) {
		for _, n := range ns {
			if n == nil || opaque(n.Name.Value) {
				continue
			}
			if !c.typeKnown(n.Name.Value) {
				out = append(out, off(fmt.Sprintf("unknown type %q", n.Name.Value), n))
			}
		}
	}
	c.walk(&hooks{
		varDef:         func(op *nast.Operation, vd *nast.VarDef) { check(namedTypesIn(vd.Type)) },
		fragment:       func(f *nast.Fragment, cond string) { check([]*nast.Named{f.TypeCond}) },
		inlineFragment: func(inf *nast.InlineFragment, parent string) { check([]*nast.Named{inf.TypeCond}) },
	})
	return out
}

// ---- 9. LoneAnonymousOperation

func loneAnonymousOperation(c *ctx) []Offence {
	var out []Offence
	ops := c.operations()
	if len(ops) <= 1 {
		return nil
	}
	for _, op := range ops {
		if op.Name == nil {
			out = append(out, off("anonymous operation next to other operations", op))
		}
	}
	return out
}

// ---- 10. NoFragmentCycles (DFS on the spread graph)

// reaches: can fragment `from` reach fragment `target` through spreads
// (zero or more steps)?
func (c *ctx) reaches(from, target string, seen map[string]bool) bool {
	if from == target {
		return true
	}
	if seen[from] {
		return false
	}
	seen[from] = true
	f := c.fragment(from)
	if f == nil {
		return false
	}
	for _, sp := range spreadsIn(f.Sel) {
		if c.fragment(sp.Name.Value) != nil && c.reaches(sp.Name.Value, target, seen) {
			return true
		}
	}
	return false
}

func noFragmentCycles(c *ctx) []Offence {
	// a spread `...X` inside the definition of Y lies on a cycle iff Y can be
	// reached from X
	var onCycle []nast.Node
	for _, f := range c.fragments() {
		for _, sp := range spreadsIn(f.Sel) {
			if c.fragment(sp.Name.Value) == nil {
				continue
			}
			if c.reaches(sp.Name.Value, f.Name.Value, map[string]bool{}) {
				onCycle = append(onCycle, sp)
			}
		}
	}
	var out []Offence
	for _, sp := range onCycle {
		o := off(fmt.Sprintf("fragment spread ...%s lies on a cycle", sp.(*nast.FragmentSpread).Name.Value), sp)
		o.Related = onCycle
		out = append(out, o)
	}
	return out
}

// ---- 11. NoUndefinedVariables

func noUndefinedVariables(c *ctx) []Offence {
	var out []Offence
	for _, op := range c.operations() {
		for _, u := range c.usages(op) {
			if c.varDef(op, u.v.Name.Value) == nil {
				o := off(fmt.Sprintf("variable $%s is not defined by the operation", u.v.Name.Value), u.v)
				o.Related = []nast.Node{op}
				out = append(out, o)
			}
		}
	}
	return out
}

// ---- 12. NoUnusedFragments

func noUnusedFragments(c *ctx) []Offence {
	used := map[string]bool{}
	for _, op := range c.operations() {
		c.reachableFragments(op.Sel, used)
	}
	var out []Offence
	for _, f := range c.fragments() {
		if !used[f.Name.Value] {
			out = append(out, off(fmt.Sprintf("fragment %q is never used", f.Name.Value), f))
		}
	}
	return out
}

// ---- 13. NoUnusedVariables

func noUnusedVariables(c *ctx) []Offence {
	var out []Offence
	for _, op := range c.operations() {
		used := map[string]bool{}
		for _, u := range c.usages(op) {
			used[u.v.Name.Value] = true
		}
		for _, vd := range op.Vars {
			if !used[vd.Var.Name.Value] {
				out = append(out, off(fmt.Sprintf("variable $%s is never used", vd.Var.Name.Value), vd))
			}
		}
	}
	return out
}

// ---- 15. PossibleFragmentSpreads

func (c *ctx) typesOverlap(a, b string) bool {
	for _, x := range c.s.PossibleTypes(a) {
		for _, y := range c.s.PossibleTypes(b) {
			if x == y {
				return true
			}
		}
	}
	return false
}

func possibleFragmentSpreads(c *ctx) []Offence {
	var out []Offence
	check := func(node nast.Node, parent, fragType string, what string) {
		if parent == "" || fragType == "" || !c.typeKnown(fragType) || opaque(fragType) {
			return
		}
		if !c.s.IsComposite(fragType) {
			// `... on String`: the rule presupposes a composite condition
			// (FragmentsOnCompositeTypes reports it); open here
			o := off(fmt.Sprintf("%s on non-composite type %s inside %s", what, fragType, parent), node)
			o.Optional = true
			out = append(out, o)
			return
		}
		if parent == fragType {
			return
		}
		if !c.typesOverlap(parent, fragType) {
			out = append(out, off(fmt.Sprintf("%s: type %s can never be %s", what, parent, fragType), node))
		}
	}
	c.walk(&hooks{
		inlineFragment: func(inf *nast.InlineFragment, parent string) {
			if inf.TypeCond == nil {
				return
			}
			check(inf, parent, inf.TypeCond.Name.Value, "inline fragment")
		},
		spread: func(sp *nast.FragmentSpread, parent string) {
			f := c.fragment(sp.Name.Value)
			if f == nil || f.TypeCond == nil {
				return
			}
			check(sp, parent, f.TypeCond.Name.Value, "spread of "+sp.Name.Value)
		},
	})
	return out
}

// ---- 16. ProvidedNonNullArguments (argument defaults are ignored in this edition)

func providedNonNullArguments(c *ctx) []Offence {
	var out []Offence
	missing := func(defs []*model.InputDef, args []*nast.Argument) []string {
		var m []string
		for _, d := range defs {
			if d.Type.Kind != "nonnull" {
				continue
			}
			found := false
			for _, a := range args {
				if a.Name.Value == d.Name {
					found = true
				}
			}
			if !found {
				m = append(m, d.Name)
			}
		}
		return m
	}
	c.walk(&hooks{
		field: func(f *nast.Field, parent string, def *fdef) {
			if def == nil {
				return
			}
			for _, n := range missing(def.Args, f.Args) {
				out = append(out, off(fmt.Sprintf("field %q: required argument %q not provided", f.Name.Value, n), f))
			}
		},
		directive: func(d *nast.Directive, owner nast.Node, def *model.DirectiveDef) {
			if def == nil {
				return
			}
			for _, n := range missing(def.Args, d.Args) {
				out = append(out, off(fmt.Sprintf("directive @%s: required argument %q not provided", d.Name.Value, n), d))
			}
		},
	})
	return out
}

// ---- 17. ScalarLeafs

func scalarLeafs(c *ctx) []Offence {
	var out []Offence
	c.walk(&hooks{field: func(f *nast.Field, parent string, def *fdef) {
		if def == nil {
			return
		}
		base := def.Type.Base()
		if opaque(base) || !c.typeKnown(base) {
			return
		}
		if c.s.IsLeaf(base) {
			if f.Sel != nil {
				out = append(out, off(fmt.Sprintf("field %q of leaf type %s has a selection set", f.Name.Value, def.Type), f.Sel, f))
			}
		} else if c.s.IsComposite(base) && f.Sel == nil {
			out = append(out, off(fmt.Sprintf("field %q of type %s needs a selection set", f.Name.Value, def.Type), f))
		}
	}})
	return out
}

// ---- 18..22 uniqueness rules

func dupOffence(what, name string, first, dup *nast.Name, firstOwner, dupOwner nast.Node) Offence {
	o := off(fmt.Sprintf("more than one %s named %q", what, name), first, dup)
	if firstOwner != nil {
		o.Nodes = append(o.Nodes, firstOwner, dupOwner)
	}
	return o
}

func dupArguments(args []*nast.Argument) []Offence {
	var out []Offence
	for i, a := range args {
		for j := 0; j < i; j++ {
			if args[j].Name.Value == a.Name.Value {
				out = append(out, dupOffence("argument", a.Name.Value, args[j].Name, a.Name, args[j], a))
				break
			}
		}
	}
	return out
}

func uniqueArgumentNames(c *ctx) []Offence {
	var out []Offence
	c.walk(&hooks{
		field: func(f *nast.Field, parent string, def *fdef) { out = append(out, dupArguments(f.Args)...) },
		directive: func(d *nast.Directive, owner nast.Node, def *model.DirectiveDef) {
			out = append(out, dupArguments(d.Args)...)
		},
	})
	return out
}

func uniqueFragmentNames(c *ctx) []Offence {
	var out []Offence
	fs := c.fragments()
	for i, f := range fs {
		for j := 0; j < i; j++ {
			if fs[j].Name.Value == f.Name.Value {
				out = append(out, dupOffence("fragment", f.Name.Value, fs[j].Name, f.Name, fs[j], f))
				break
			}
		}
	}
	return out
}

func uniqueInputFieldNames(c *ctx) []Offence {
	var out []Offence
	// every object value of the document, at any depth, wherever values occur
	var visit func(n nast.Node)
	visit = func(n nast.Node) {
		if ov, ok := n.(*nast.ObjectValue); ok {
			for i, f := range ov.Fields {
				for j := 0; j < i; j++ {
					if ov.Fields[j].Name.Value == f.Name.Value {
						out = append(out, dupOffence("input field", f.Name.Value, ov.Fields[j].Name, f.Name, ov.Fields[j], f))
						break
					}
				}
			}
		}
		for _, ch := range nast.Children(n) {
			visit(ch)
		}
	}
	for _, d := range c.doc.Defs {
		switch d.(type) {
		case *nast.Operation, *nast.Fragment:
			visit(d)
		}
	}
	return out
}

func uniqueOperationNames(c *ctx) []Offence {
	var out []Offence
	ops := c.operations()
	for i, op := range ops {
		if op.Name == nil {
			continue // anonymous operations have no name to clash (LoneAnonymousOperation covers them)
		}
		for j := 0; j < i; j++ {
			if ops[j].Name != nil && ops[j].Name.Value == op.Name.Value {
				out = append(out, dupOffence("operation", op.Name.Value, ops[j].Name, op.Name, ops[j], op))
				break
			}
		}
	}
	return out
}

func uniqueVariableNames(c *ctx) []Offence {
	var out []Offence
	for _, op := range c.operations() {
		for i, vd := range op.Vars {
			for j := 0; j < i; j++ {
				if op.Vars[j].Var.Name.Value == vd.Var.Name.Value {
					o := dupOffence("variable", vd.Var.Name.Value, op.Vars[j].Var.Name, vd.Var.Name, op.Vars[j].Var, vd.Var)
					o.Nodes = append(o.Nodes, op.Vars[j], vd)
					out = append(out, o)
					break
				}
			}
		}
	}
	return out
}

// ---- 23. VariablesAreInputTypes

func variablesAreInputTypes(c *ctx) []Offence {
	var out []Offence
	c.walk(&hooks{varDef: func(op *nast.Operation, vd *nast.VarDef) {
		t, known := c.typeOfNode(vd.Type)
		if t == nil || opaque(t.Base()) {
			return
		}
		if !known {
			// the spec's IsInputType is false for a type that does not exist,
			// the rule's intent presupposes a known type (KnownTypeNames
			// reports it): open
			o := off(fmt.Sprintf("variable $%s has the unknown type %s", vd.Var.Name.Value, t), vd.Type)
			o.Optional = true
			out = append(out, o)
			return
		}
		if !c.s.IsInput(t.Base()) {
			o := off(fmt.Sprintf("variable $%s has non-input type %s", vd.Var.Name.Value, t), vd.Type)
			o.Related = []nast.Node{vd}
			out = append(out, o)
		}
	}})
	return out
}

// ---- 24. VariablesInAllowedPosition

// subType: may a variable of type v be used where type loc is expected?
// (input types only: no abstract types involved)
func subType(v, loc *model.TypeRef) bool {
	if loc.Kind == "nonnull" {
		if v.Kind != "nonnull" {
			return false
		}
		return subType(v.Of, loc.Of)
	}
	if v.Kind == "nonnull" {
		return subType(v.Of, loc)
	}
	if loc.Kind == "list" {
		if v.Kind != "list" {
			return false
		}
		return subType(v.Of, loc.Of)
	}
	if v.Kind == "list" {
		return false
	}
	return v.Name == loc.Name
}

func variablesInAllowedPosition(c *ctx) []Offence {
	var out []Offence
	for _, op := range c.operations() {
		for _, u := range c.usages(op) {
			vd := c.varDef(op, u.v.Name.Value)
			if vd == nil || u.expected == nil {
				continue
			}
			vt, known := c.typeOfNode(vd.Type)
			if vt == nil {
				continue
			}
			eff := vt
			if vd.Default != nil && vt.Kind != "nonnull" {
				eff = model.NonNull(vt) // a default makes the variable effectively non-null
			}
			if !subType(eff, u.expected) {
				o := off(fmt.Sprintf("variable $%s of type %s used where %s is expected", u.v.Name.Value, vt, u.expected), u.v, vd)
				// a variable whose declared type does not exist has no type to compare
				o.Optional = !known
				out = append(out, o)
			}
		}
	}
	return out
}
