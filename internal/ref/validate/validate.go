// Package validate is the reference model of GraphQL document validation for
// the edition the library implements (October 2016 semantics, DESIGN.md
// Appendix A.2): the 24 rules of graphql.SpecifiedRules written as
// independent brute-force predicates over the schema MODEL and the neutral
// syntax tree. It imports nothing from github.com/graphql-go/graphql and
// shares no structure with the library's validator: no visitor, no TypeInfo
// stacks, no memo tables, no pair caches. Every rule does its own plain
// recursive traversal (walk.go computes the type environment on the way
// down); the overlap rule is the specification's FieldsInSetCanMerge /
// SameResponseShape on fully expanded field sets (overlap.go).
//
// API
//
//	Check(s, doc)            map[rule name][]Offence   (a rule is violated iff it has >= 1 non-optional offence)
//	CheckRule(rule, s, doc)  []Offence
//	CheckWith / Decide       see below: duplicate definitions make some rules ambiguous
//
// Offence.Nodes lists every node at whose START the rule may legitimately
// locate the error as its FIRST location (rule-specific tolerance: any spread
// on a cycle, either of two conflicting fields, either of two equal names,
// the name or the construct it names). Offence.Related lists further nodes a
// report may legitimately mention as additional locations.
//
// Offence.Optional marks an offence whose premise is undermined by another
// violation in the same document, or which the edition leaves open (examples:
// a variable of an unknown type used in a typed position; `... on String`
// for the possible-spreads rule; overlap comparison of fields that carry
// duplicate argument names). An optional offence may or may not be reported.
//
// Duplicate definitions (two fragments of one name, two variables of one name
// in an operation, an argument or input field given twice) make every rule
// that resolves names ambiguous: the specification does not say which
// definition is meant. Options.PickLast chooses the first or the last
// definition; Decide runs both and reports per rule what MUST be reported
// (violated under both readings) and what MAY be reported (some reading has
// an offence, optional ones included).
package validate

import (
	"sort"

	"verif/internal/model"
	"verif/internal/nast"
)

// Rule names, in the order of graphql.SpecifiedRules (without the "Rule" suffix).
const (
	ArgumentsOfCorrectType       = "ArgumentsOfCorrectType"
	DefaultValuesOfCorrectType   = "DefaultValuesOfCorrectType"
	FieldsOnCorrectType          = "FieldsOnCorrectType"
	FragmentsOnCompositeTypes    = "FragmentsOnCompositeTypes"
	KnownArgumentNames           = "KnownArgumentNames"
	KnownDirectives              = "KnownDirectives"
	KnownFragmentNames           = "KnownFragmentNames"
	KnownTypeNames               = "KnownTypeNames"
	LoneAnonymousOperation       = "LoneAnonymousOperation"
	NoFragmentCycles             = "NoFragmentCycles"
	NoUndefinedVariables         = "NoUndefinedVariables"
	NoUnusedFragments            = "NoUnusedFragments"
	NoUnusedVariables            = "NoUnusedVariables"
	OverlappingFieldsCanBeMerged = "OverlappingFieldsCanBeMerged"
	PossibleFragmentSpreads      = "PossibleFragmentSpreads"
	ProvidedNonNullArguments     = "ProvidedNonNullArguments"
	ScalarLeafs                  = "ScalarLeafs"
	UniqueArgumentNames          = "UniqueArgumentNames"
	UniqueFragmentNames          = "UniqueFragmentNames"
	UniqueInputFieldNames        = "UniqueInputFieldNames"
	UniqueOperationNames         = "UniqueOperationNames"
	UniqueVariableNames          = "UniqueVariableNames"
	VariablesAreInputTypes       = "VariablesAreInputTypes"
	VariablesInAllowedPosition   = "VariablesInAllowedPosition"
)

// Rules lists the 24 rule names in the order of graphql.SpecifiedRules.
var Rules = []string{
	ArgumentsOfCorrectType, DefaultValuesOfCorrectType, FieldsOnCorrectType, FragmentsOnCompositeTypes,
	KnownArgumentNames, KnownDirectives, KnownFragmentNames, KnownTypeNames, LoneAnonymousOperation,
	NoFragmentCycles, NoUndefinedVariables, NoUnusedFragments, NoUnusedVariables, OverlappingFieldsCanBeMerged,
	PossibleFragmentSpreads, ProvidedNonNullArguments, ScalarLeafs, UniqueArgumentNames, UniqueFragmentNames,
	UniqueInputFieldNames, UniqueOperationNames, UniqueVariableNames, VariablesAreInputTypes, VariablesInAllowedPosition,
}

// Offence is one violation of one rule.
type Offence struct {
	Rule     string
	Nodes    []nast.Node // acceptable FIRST locations (node starts)
	Related  []nast.Node // acceptable further locations
	Msg      string
	Optional bool // may or may not be reported (see package comment)
}

// Options select the reading of duplicate definitions.
type Options struct {
	// PickLast resolves a fragment name, a variable name, an argument name
	// or an input-field name that is defined more than once to its LAST
	// definition (default: the first).
	PickLast bool
	// Budget bounds the number of field-pair comparisons of the overlap rule
	// (0 = default 400000). When exhausted the rule's result is undecided:
	// one optional offence without nodes is returned.
	Budget int
	// TypenameUntyped makes the overlap rule treat the meta field __typename
	// as a field without known type (the relaxation that mirrors the
	// library's defect class "overlap rule does not type __typename").
	TypenameUntyped bool
}

var ruleFuncs = map[string]func(c *ctx) []Offence{
	ArgumentsOfCorrectType:       argumentsOfCorrectType,
	DefaultValuesOfCorrectType:   defaultValuesOfCorrectType,
	FieldsOnCorrectType:          fieldsOnCorrectType,
	FragmentsOnCompositeTypes:    fragmentsOnCompositeTypes,
	KnownArgumentNames:           knownArgumentNames,
	KnownDirectives:              knownDirectives,
	KnownFragmentNames:           knownFragmentNames,
	KnownTypeNames:               knownTypeNames,
	LoneAnonymousOperation:       loneAnonymousOperation,
	NoFragmentCycles:             noFragmentCycles,
	NoUndefinedVariables:         noUndefinedVariables,
	NoUnusedFragments:            noUnusedFragments,
	NoUnusedVariables:            noUnusedVariables,
	OverlappingFieldsCanBeMerged: overlappingFieldsCanBeMerged,
	PossibleFragmentSpreads:      possibleFragmentSpreads,
	ProvidedNonNullArguments:     providedNonNullArguments,
	ScalarLeafs:                  scalarLeafs,
	UniqueArgumentNames:          uniqueArgumentNames,
	UniqueFragmentNames:          uniqueFragmentNames,
	UniqueInputFieldNames:        uniqueInputFieldNames,
	UniqueOperationNames:         uniqueOperationNames,
	UniqueVariableNames:          uniqueVariableNames,
	VariablesAreInputTypes:       variablesAreInputTypes,
	VariablesInAllowedPosition:   variablesInAllowedPosition,
}

// Check evaluates all 24 rules (first-definition reading).
func Check(s *model.Schema, doc *nast.Document) map[string][]Offence {
	return CheckWith(s, doc, Options{})
}

// CheckWith evaluates all 24 rules under the given reading.
func CheckWith(s *model.Schema, doc *nast.Document, o Options) map[string][]Offence {
	out := map[string][]Offence{}
	for _, r := range Rules {
		out[r] = checkRule(r, s, doc, o)
	}
	return out
}

// CheckRule evaluates one rule (first-definition reading). Unknown rule names yield nil.
func CheckRule(rule string, s *model.Schema, doc *nast.Document) []Offence {
	return checkRule(rule, s, doc, Options{})
}

// CheckRuleWith evaluates one rule under the given reading.
func CheckRuleWith(rule string, s *model.Schema, doc *nast.Document, o Options) []Offence {
	return checkRule(rule, s, doc, o)
}

func checkRule(rule string, s *model.Schema, doc *nast.Document, o Options) []Offence {
	f := ruleFuncs[rule]
	if f == nil {
		return nil
	}
	c := newCtx(s, doc, o)
	offs := f(c)
	for i := range offs {
		offs[i].Rule = rule
	}
	return offs
}

// Violated reports whether a list of offences contains a non-optional one.
func Violated(offs []Offence) bool {
	for _, o := range offs {
		if !o.Optional {
			return true
		}
	}
	return false
}

// Result is the decision for one rule.
type Result struct {
	Must     bool      // violated for sure: >= 1 error must be reported
	May      bool      // errors may be reported (some offence exists, optional ones included, or the rule is open)
	Open     bool      // the document's duplicate definitions make the rule's meaning ambiguous: nothing is demanded, locations are not compared
	Offences []Offence // union over the readings
}

// Ambiguity describes the duplicate definitions of a document that are NOT
// mere repetitions (identical text): they make name resolution ambiguous.
type Ambiguity struct {
	Fragments   bool // two different fragments of one name
	Variables   bool // two different definitions of one variable in one operation
	Arguments   bool // one argument given twice with different values
	InputFields bool // one input field given twice with different values
}

func (a Ambiguity) Any() bool { return a.Fragments || a.Variables || a.Arguments || a.InputFields }

// nodeText renders a subtree canonically without touching it.
func nodeText(n nast.Node) string {
	switch v := n.(type) {
	case nil:
		return ""
	case *nast.Name:
		return v.Value
	case *nast.Named:
		return v.Name.Value
	case *nast.List:
		return "[" + nodeText(v.Of) + "]"
	case *nast.NonNull:
		return nodeText(v.Of) + "!"
	case *nast.Variable, *nast.IntValue, *nast.FloatValue, *nast.StringValue, *nast.BooleanValue, *nast.EnumValue, *nast.ListValue, *nast.ObjectValue:
		return valueText(n)
	}
	out := n.Kind() + "("
	if op, ok := n.(*nast.Operation); ok {
		out += op.Op
	}
	for _, ch := range nast.Children(n) {
		out += " " + nodeText(ch)
	}
	return out + ")"
}

// Ambiguities finds the duplicate definitions that differ.
func Ambiguities(doc *nast.Document) Ambiguity {
	var a Ambiguity
	frags := map[string]string{}
	for _, d := range doc.Defs {
		if f, ok := d.(*nast.Fragment); ok {
			t := nodeText(f)
			if old, dup := frags[f.Name.Value]; dup && old != t {
				a.Fragments = true
			}
			frags[f.Name.Value] = t
		}
		if op, ok := d.(*nast.Operation); ok {
			seen := map[string]string{}
			for _, vd := range op.Vars {
				t := nodeText(vd)
				if old, dup := seen[vd.Var.Name.Value]; dup && old != t {
					a.Variables = true
				}
				seen[vd.Var.Name.Value] = t
			}
		}
	}
	dupArgs := func(as []*nast.Argument) bool {
		seen := map[string]string{}
		for _, x := range as {
			t := valueText(x.Value)
			if old, dup := seen[x.Name.Value]; dup && old != t {
				return true
			}
			seen[x.Name.Value] = t
		}
		return false
	}
	var visit func(n nast.Node)
	visit = func(n nast.Node) {
		switch v := n.(type) {
		case *nast.Field:
			a.Arguments = a.Arguments || dupArgs(v.Args)
		case *nast.Directive:
			a.Arguments = a.Arguments || dupArgs(v.Args)
		case *nast.ObjectValue:
			seen := map[string]string{}
			for _, f := range v.Fields {
				t := valueText(f.Value)
				if old, dup := seen[f.Name.Value]; dup && old != t {
					a.InputFields = true
				}
				seen[f.Name.Value] = t
			}
		}
		for _, ch := range nast.Children(n) {
			visit(ch)
		}
	}
	visit(doc)
	return a
}

// Ambiguous reports whether the document has duplicate definitions that differ.
func Ambiguous(doc *nast.Document) bool { return Ambiguities(doc).Any() }

// hasDuplicates: some fragment name, variable name (per operation), argument
// name (per field / directive) or input-field name (per object) occurs twice.
func hasDuplicates(doc *nast.Document) bool {
	frags := map[string]bool{}
	for _, d := range doc.Defs {
		if f, ok := d.(*nast.Fragment); ok {
			if frags[f.Name.Value] {
				return true
			}
			frags[f.Name.Value] = true
		}
		if op, ok := d.(*nast.Operation); ok {
			seen := map[string]bool{}
			for _, vd := range op.Vars {
				if seen[vd.Var.Name.Value] {
					return true
				}
				seen[vd.Var.Name.Value] = true
			}
		}
	}
	dupArgs := func(as []*nast.Argument) bool {
		seen := map[string]bool{}
		for _, a := range as {
			if seen[a.Name.Value] {
				return true
			}
			seen[a.Name.Value] = true
		}
		return false
	}
	var visit func(n nast.Node) bool
	visit = func(n nast.Node) bool {
		switch v := n.(type) {
		case *nast.Field:
			if dupArgs(v.Args) {
				return true
			}
		case *nast.Directive:
			if dupArgs(v.Args) {
				return true
			}
		case *nast.ObjectValue:
			seen := map[string]bool{}
			for _, f := range v.Fields {
				if seen[f.Name.Value] {
					return true
				}
				seen[f.Name.Value] = true
			}
		}
		for _, ch := range nast.Children(n) {
			if visit(ch) {
				return true
			}
		}
		return false
	}
	return visit(doc)
}

// rules whose meaning depends on which of several different definitions of
// one name is meant
var openBy = map[string]func(a Ambiguity) bool{
	NoFragmentCycles:             func(a Ambiguity) bool { return a.Fragments },
	NoUnusedFragments:            func(a Ambiguity) bool { return a.Fragments },
	NoUnusedVariables:            func(a Ambiguity) bool { return a.Fragments },
	NoUndefinedVariables:         func(a Ambiguity) bool { return a.Fragments },
	PossibleFragmentSpreads:      func(a Ambiguity) bool { return a.Fragments },
	VariablesInAllowedPosition:   func(a Ambiguity) bool { return a.Fragments || a.Variables },
	OverlappingFieldsCanBeMerged: func(a Ambiguity) bool { return a.Fragments || a.Arguments },
	ArgumentsOfCorrectType:       func(a Ambiguity) bool { return a.InputFields },
	DefaultValuesOfCorrectType:   func(a Ambiguity) bool { return a.InputFields },
}

// Decide evaluates all rules. Duplicate definitions that are identical
// repetitions do not matter for name resolution; when duplicates DIFFER the
// rules that resolve such names are open for the document (both readings are
// still evaluated so that the offences can be shown).
func Decide(s *model.Schema, doc *nast.Document) map[string]Result {
	first := CheckWith(s, doc, Options{})
	amb := Ambiguities(doc)
	var last map[string][]Offence
	if hasDuplicates(doc) {
		// identical repetitions do not change any verdict, but a report may
		// name the nodes of either copy
		last = CheckWith(s, doc, Options{PickLast: true})
	}
	out := map[string]Result{}
	for _, r := range Rules {
		res := Result{Must: Violated(first[r]), May: len(first[r]) > 0, Offences: first[r]}
		if last != nil {
			res.Offences = append(append([]Offence{}, first[r]...), last[r]...)
			res.May = res.May || len(last[r]) > 0
			res.Must = res.Must && Violated(last[r])
		}
		if f := openBy[r]; f != nil && f(amb) {
			res.Open, res.Must, res.May = true, false, true
		}
		for _, o := range res.Offences {
			if o.Optional && len(o.Nodes) == 0 {
				res.Open, res.Must, res.May = true, false, true // undecided (budget)
			}
		}
		out[r] = res
	}
	return out
}

// Valid reports whether every rule passes for sure (no rule MAY report) and
// whether some rule is violated for sure.
func Valid(res map[string]Result) (valid, invalid bool) {
	valid = true
	for _, r := range Rules {
		if res[r].May {
			valid = false
		}
		if res[r].Must {
			invalid = true
		}
	}
	return
}

// ViolatedRules lists, sorted, the rules with Must set.
func ViolatedRules(res map[string]Result) []string {
	var out []string
	for _, r := range Rules {
		if res[r].Must {
			out = append(out, r)
		}
	}
	sort.Strings(out)
	return out
}
