package validate

import (
	"strings"

	"verif/internal/model"
	"verif/internal/nast"
)

// ctx is the state of one rule evaluation: the schema model, the document and
// the chosen reading of duplicate definitions. Nothing is cached between
// rules or between questions inside one rule.
type ctx struct {
	s      *model.Schema
	doc    *nast.Document
	o      Options
	budget int
	spent  bool
	reach  map[string]bool
}

func newCtx(s *model.Schema, doc *nast.Document, o Options) *ctx {
	b := o.Budget
	if b <= 0 {
		b = 400000
	}
	return &ctx{s: s, doc: doc, o: o, budget: b, reach: Reachable(s)}
}

// Reachable lists the type names that belong to the schema the model
// describes: everything reachable from the root operation types, the extra
// types and the directive arguments through field types, argument types,
// interfaces, union members and input fields, plus String and Boolean (the
// introspection schema and @skip/@include use them). A type of the model
// that nothing refers to is NOT part of the schema; a built-in scalar that
// nothing refers to is not part of it either.
func Reachable(s *model.Schema) map[string]bool {
	seen := map[string]bool{"String": true, "Boolean": true}
	var visit func(name string)
	inputs := func(defs []*model.InputDef) {
		for _, d := range defs {
			visit(d.Type.Base())
		}
	}
	visit = func(name string) {
		if name == "" || seen[name] {
			return
		}
		td := s.Type(name)
		if td == nil {
			return
		}
		seen[name] = true
		for _, f := range td.Fields {
			visit(f.Type.Base())
			inputs(f.Args)
		}
		for _, i := range td.Interfaces {
			visit(i)
		}
		for _, m := range td.Members {
			visit(m)
		}
		inputs(td.InputFields)
	}
	visit(s.Query)
	visit(s.Mutation)
	visit(s.Subscription)
	for _, n := range s.Extra {
		visit(n)
	}
	for _, d := range s.Directives {
		inputs(d.Args)
	}
	return seen
}

// ---- definitions of the document

func (c *ctx) operations() []*nast.Operation {
	var out []*nast.Operation
	for _, d := range c.doc.Defs {
		if op, ok := d.(*nast.Operation); ok {
			out = append(out, op)
		}
	}
	return out
}

func (c *ctx) fragments() []*nast.Fragment {
	var out []*nast.Fragment
	for _, d := range c.doc.Defs {
		if f, ok := d.(*nast.Fragment); ok {
			out = append(out, f)
		}
	}
	return out
}

// fragment resolves a fragment name (first or last definition of that name).
func (c *ctx) fragment(name string) *nast.Fragment {
	var found *nast.Fragment
	for _, f := range c.fragments() {
		if f.Name.Value == name {
			if !c.o.PickLast {
				return f
			}
			found = f
		}
	}
	return found
}

// varDef resolves a variable name inside an operation.
func (c *ctx) varDef(op *nast.Operation, name string) *nast.VarDef {
	var found *nast.VarDef
	for _, vd := range op.Vars {
		if vd.Var.Name.Value == name {
			if !c.o.PickLast {
				return vd
			}
			found = vd
		}
	}
	return found
}

// ---- the type system as the rules see it

// fdef is a field definition: from the model, or one of the meta fields.
type fdef struct {
	Type *model.TypeRef
	Args []*model.InputDef
}

// opaque reports whether a type name belongs to the introspection schema,
// which the model does not describe: nothing is decided about such positions.
func opaque(name string) bool { return strings.HasPrefix(name, "__") }

// fieldDef looks a field up on a parent type ("" = unknown).
func (c *ctx) fieldDef(parent, name string) *fdef {
	if parent == "" {
		return nil
	}
	td := c.s.Type(parent)
	if td == nil {
		return nil
	}
	if td.Kind != model.Object && td.Kind != model.Interface && td.Kind != model.Union {
		return nil
	}
	if name == "__typename" {
		return &fdef{Type: model.NonNull(model.Named("String"))}
	}
	if parent == c.s.Query {
		if name == "__schema" {
			return &fdef{Type: model.NonNull(model.Named("__Schema"))}
		}
		if name == "__type" {
			return &fdef{Type: model.Named("__Type"), Args: []*model.InputDef{{Name: "name", Type: model.NonNull(model.Named("String"))}}}
		}
	}
	if td.Kind == model.Union {
		return nil
	}
	if f := td.Field(name); f != nil {
		return &fdef{Type: f.Type, Args: f.Args}
	}
	return nil
}

// typeKnown: the name denotes a type of the schema (see Reachable).
func (c *ctx) typeKnown(name string) bool { return c.reach[name] && c.s.Type(name) != nil }

// compositeOrUnknown maps a type name to the parent type of a selection set
// applied to it: the name itself when it is an object, interface or union,
// "" otherwise (unknown type, leaf type, input object, introspection type).
func (c *ctx) composite(name string) string {
	if name != "" && c.typeKnown(name) && c.s.IsComposite(name) {
		return name
	}
	return ""
}

var builtinDirectives = []*model.DirectiveDef{
	{Name: "include", Locations: []string{"FIELD", "FRAGMENT_SPREAD", "INLINE_FRAGMENT"}, Args: []*model.InputDef{{Name: "if", Type: model.NonNull(model.Named("Boolean"))}}},
	{Name: "skip", Locations: []string{"FIELD", "FRAGMENT_SPREAD", "INLINE_FRAGMENT"}, Args: []*model.InputDef{{Name: "if", Type: model.NonNull(model.Named("Boolean"))}}},
	{Name: "deprecated", Locations: []string{"FIELD_DEFINITION", "ENUM_VALUE"}, Args: []*model.InputDef{{Name: "reason", Type: model.Named("String"), HasDefault: true, Default: "No longer supported"}}},
}

func (c *ctx) directiveDef(name string) *model.DirectiveDef {
	for _, d := range c.s.Directives {
		if d.Name == name {
			return d
		}
	}
	for _, d := range builtinDirectives {
		if d.Name == name {
			return d
		}
	}
	return nil
}

func inputDefByName(defs []*model.InputDef, name string) *model.InputDef {
	for _, d := range defs {
		if d.Name == name {
			return d
		}
	}
	return nil
}

// typeOfNode converts a type node into a model type. baseKnown tells whether
// the innermost named type exists in the schema.
func (c *ctx) typeOfNode(n nast.Node) (t *model.TypeRef, baseKnown bool) {
	switch v := n.(type) {
	case *nast.Named:
		return model.Named(v.Name.Value), c.typeKnown(v.Name.Value)
	case *nast.List:
		in, k := c.typeOfNode(v.Of)
		if in == nil {
			return nil, false
		}
		return model.ListOf(in), k
	case *nast.NonNull:
		in, k := c.typeOfNode(v.Of)
		if in == nil {
			return nil, false
		}
		return model.NonNull(in), k
	}
	return nil, false
}

// ---- the walk: one recursive descent that hands every node to the hooks a
// rule is interested in, together with its type environment.

type hooks struct {
	operation      func(op *nast.Operation, root string)
	varDef         func(op *nast.Operation, vd *nast.VarDef)
	fragment       func(f *nast.Fragment, cond string)
	selectionSet   func(ss *nast.SelectionSet, parent string)
	field          func(f *nast.Field, parent string, def *fdef)
	inlineFragment func(inf *nast.InlineFragment, parent string)
	spread         func(sp *nast.FragmentSpread, parent string)
	// directive: owner is the node the directive is attached to
	directive func(d *nast.Directive, owner nast.Node, def *model.DirectiveDef)
	// argument: owner is the *nast.Field or *nast.Directive; def is nil when
	// the owner or the argument is unknown
	argument func(a *nast.Argument, owner nast.Node, def *model.InputDef)
	// value: every value node at every depth with the input type expected at
	// its position (nil = unknown)
	value func(v nast.Node, expected *model.TypeRef)
}

func (c *ctx) walk(h *hooks) {
	for _, d := range c.doc.Defs {
		switch v := d.(type) {
		case *nast.Operation:
			root := c.composite(c.s.Root(v.Op))
			if h.operation != nil {
				h.operation(v, root)
			}
			for _, vd := range v.Vars {
				if h.varDef != nil {
					h.varDef(v, vd)
				}
				if vd.Default != nil {
					t, known := c.typeOfNode(vd.Type)
					if !known || !c.s.IsInput(t.Base()) {
						t = nil
					}
					c.walkValue(vd.Default, t, h)
				}
			}
			c.walkDirectives(v.Directives, v, h)
			c.walkSel(v.Sel, root, h)
		case *nast.Fragment:
			cond := ""
			if v.TypeCond != nil {
				cond = v.TypeCond.Name.Value
			}
			if h.fragment != nil {
				h.fragment(v, cond)
			}
			c.walkDirectives(v.Directives, v, h)
			c.walkSel(v.Sel, c.composite(cond), h)
		}
	}
}

func (c *ctx) walkSel(ss *nast.SelectionSet, parent string, h *hooks) {
	if ss == nil {
		return
	}
	if h.selectionSet != nil {
		h.selectionSet(ss, parent)
	}
	for _, it := range ss.Items {
		switch v := it.(type) {
		case *nast.Field:
			def := c.fieldDef(parent, v.Name.Value)
			if h.field != nil {
				h.field(v, parent, def)
			}
			for _, a := range v.Args {
				var ad *model.InputDef
				if def != nil {
					ad = inputDefByName(def.Args, a.Name.Value)
				}
				if h.argument != nil {
					h.argument(a, v, ad)
				}
				var t *model.TypeRef
				if ad != nil {
					t = ad.Type
				}
				c.walkValue(a.Value, t, h)
			}
			c.walkDirectives(v.Directives, v, h)
			sub := ""
			if def != nil {
				sub = c.composite(def.Type.Base())
			}
			c.walkSel(v.Sel, sub, h)
		case *nast.InlineFragment:
			if h.inlineFragment != nil {
				h.inlineFragment(v, parent)
			}
			c.walkDirectives(v.Directives, v, h)
			sub := parent
			if v.TypeCond != nil {
				sub = c.composite(v.TypeCond.Name.Value)
			}
			c.walkSel(v.Sel, sub, h)
		case *nast.FragmentSpread:
			if h.spread != nil {
				h.spread(v, parent)
			}
			c.walkDirectives(v.Directives, v, h)
		}
	}
}

func (c *ctx) walkDirectives(ds []*nast.Directive, owner nast.Node, h *hooks) {
	for _, d := range ds {
		def := c.directiveDef(d.Name.Value)
		if h.directive != nil {
			h.directive(d, owner, def)
		}
		for _, a := range d.Args {
			var ad *model.InputDef
			if def != nil {
				ad = inputDefByName(def.Args, a.Name.Value)
			}
			if h.argument != nil {
				h.argument(a, d, ad)
			}
			var t *model.TypeRef
			if ad != nil {
				t = ad.Type
			}
			c.walkValue(a.Value, t, h)
		}
	}
}

// itemType is the type expected for the items of a list value written where
// t is expected: the element type when t (ignoring non-null) is a list.
func itemType(t *model.TypeRef) *model.TypeRef {
	if t == nil {
		return nil
	}
	n := t.Nullable()
	if n.Kind == "list" {
		return n.Of
	}
	return nil
}

// inputFieldType is the type expected for field `name` of an object value
// written where t is expected (a bare object stands for a list of one, so
// list wrappers are looked through).
func (c *ctx) inputFieldType(t *model.TypeRef, name string) *model.TypeRef {
	if t == nil {
		return nil
	}
	td := c.s.Type(t.Base())
	if td == nil || td.Kind != model.InputObject {
		return nil
	}
	if f := td.InputField(name); f != nil {
		return f.Type
	}
	return nil
}

func (c *ctx) walkValue(v nast.Node, t *model.TypeRef, h *hooks) {
	if v == nil {
		return
	}
	if h.value != nil {
		h.value(v, t)
	}
	switch x := v.(type) {
	case *nast.ListValue:
		for _, it := range x.Items {
			c.walkValue(it, itemType(t), h)
		}
	case *nast.ObjectValue:
		for _, f := range x.Fields {
			c.walkValue(f.Value, c.inputFieldType(t, f.Name.Value), h)
		}
	}
}

// ---- fragment reachability and variable usages (plain traversal)

// spreadsIn lists the fragment spreads inside a selection set at any depth
// (through fields and inline fragments, not through other fragments).
func spreadsIn(ss *nast.SelectionSet) []*nast.FragmentSpread {
	var out []*nast.FragmentSpread
	if ss == nil {
		return nil
	}
	for _, it := range ss.Items {
		switch v := it.(type) {
		case *nast.Field:
			out = append(out, spreadsIn(v.Sel)...)
		case *nast.InlineFragment:
			out = append(out, spreadsIn(v.Sel)...)
		case *nast.FragmentSpread:
			out = append(out, v)
		}
	}
	return out
}

// reachableFragments lists the names of the fragments reachable from a
// selection set through spreads (defined fragments only).
func (c *ctx) reachableFragments(ss *nast.SelectionSet, seen map[string]bool) {
	for _, sp := range spreadsIn(ss) {
		n := sp.Name.Value
		if seen[n] {
			continue
		}
		f := c.fragment(n)
		if f == nil {
			continue
		}
		seen[n] = true
		c.reachableFragments(f.Sel, seen)
	}
}

type usage struct {
	v        *nast.Variable
	expected *model.TypeRef
}

// usages collects every variable usage of an operation: in its directives,
// its selection set and all fragments reachable from it, each with the input
// type expected at its position.
func (c *ctx) usages(op *nast.Operation) []usage {
	var out []usage
	h := &hooks{value: func(v nast.Node, t *model.TypeRef) {
		if x, ok := v.(*nast.Variable); ok {
			out = append(out, usage{x, t})
		}
	}}
	c.walkDirectives(op.Directives, op, h)
	c.walkSel(op.Sel, c.composite(c.s.Root(op.Op)), h)
	seen := map[string]bool{}
	c.reachableFragments(op.Sel, seen)
	// in document order of the definitions, for determinism
	for _, f := range c.fragments() {
		if !seen[f.Name.Value] || c.fragment(f.Name.Value) != f {
			continue
		}
		c.walkDirectives(f.Directives, f, h)
		cond := ""
		if f.TypeCond != nil {
			cond = f.TypeCond.Name.Value
		}
		c.walkSel(f.Sel, c.composite(cond), h)
	}
	return out
}

// valueText renders a value canonically WITHOUT touching the tree
// (nast.PrintValue rewrites the spans of the nodes it prints).
func valueText(n nast.Node) string {
	switch v := n.(type) {
	case *nast.Variable:
		return "$" + v.Name.Value
	case *nast.IntValue:
		return v.Raw
	case *nast.FloatValue:
		return v.Raw
	case *nast.StringValue:
		return nast.QuoteString(v.Value)
	case *nast.BooleanValue:
		if v.Value {
			return "true"
		}
		return "false"
	case *nast.EnumValue:
		return v.Value
	case *nast.ListValue:
		parts := make([]string, len(v.Items))
		for i, it := range v.Items {
			parts[i] = valueText(it)
		}
		return "[" + strings.Join(parts, ", ") + "]"
	case *nast.ObjectValue:
		parts := make([]string, len(v.Fields))
		for i, f := range v.Fields {
			parts[i] = f.Name.Value + ": " + valueText(f.Value)
		}
		return "{" + strings.Join(parts, ", ") + "}"
	}
	return "<nil>"
}
