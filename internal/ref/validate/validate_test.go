package validate

import (
	"sort"
	"strings"
	"testing"

	"verif/internal/model"
	"verif/internal/ref/syntax"
)

// A small schema and a table of documents with the exact set of rules that
// must be violated (written from the specification text, edition of
// DESIGN.md Appendix A.2).
func testModel() *model.Schema {
	N := model.Named
	str, in := N("String"), N("Int")
	m := &model.Schema{Query: "Q", Types: []*model.TypeDef{
		{Kind: model.Enum, Name: "E", Values: []*model.EnumVal{{Name: "A", Internal: "A"}, {Name: "B", Internal: "B"}}},
		{Kind: model.InputObject, Name: "In2", InputFields: []*model.InputDef{{Name: "c", Type: in}, {Name: "d", Type: model.NonNull(in)}}},
		{Kind: model.InputObject, Name: "In", InputFields: []*model.InputDef{{Name: "a", Type: in}, {Name: "b", Type: N("In2")}, {Name: "l", Type: model.ListOf(N("In2"))}}},
		{Kind: model.Interface, Name: "I", Fields: []*model.FieldDef{{Name: "x", Type: str}}},
		{Kind: model.Object, Name: "O", Interfaces: []string{"I"}, Fields: []*model.FieldDef{{Name: "x", Type: str}, {Name: "y", Type: in}, {Name: "o", Type: N("O")}}},
		{Kind: model.Object, Name: "P", Interfaces: []string{"I"}, Fields: []*model.FieldDef{{Name: "x", Type: str}, {Name: "y", Type: str}}},
		{Kind: model.Union, Name: "U", Members: []string{"O", "P"}},
		{Kind: model.Object, Name: "Q", Fields: []*model.FieldDef{
			{Name: "a", Type: str, Args: []*model.InputDef{{Name: "i", Type: in}}},
			{Name: "b", Type: str},
			{Name: "n", Type: str, Args: []*model.InputDef{{Name: "x", Type: model.NonNull(in)}}},
			{Name: "f", Type: str, Args: []*model.InputDef{{Name: "in", Type: N("In")}}},
			{Name: "g", Type: in, Args: []*model.InputDef{{Name: "e", Type: N("E")}, {Name: "l", Type: model.ListOf(in)}}},
			{Name: "o", Type: N("O")}, {Name: "os", Type: model.ListOf(N("O"))}, {Name: "i", Type: N("I")}, {Name: "u", Type: N("U")},
		}},
	}, Extra: []string{"O", "P"}}
	m.Reindex()
	return m
}

func TestRules(t *testing.T) {
	m := testModel()
	cases := []struct{ doc, want string }{
		{"{ a b o { x y } os { ... { x } } i { x ... on O { y } } u { __typename ... on P { y } } }", ""},
		{"{ nope }", FieldsOnCorrectType},
		{"{ u { x } }", FieldsOnCorrectType},
		{"{ a(j: 1) }", KnownArgumentNames},
		{"{ a @skip(if: true, unless: false) }", KnownArgumentNames},
		{"{ a @nope }", KnownDirectives},
		{"query @skip(if: true) { a }", KnownDirectives},
		{"{ ...F } fragment F on Q @include(if: true) { a }", KnownDirectives},
		{"{ a @deprecated }", KnownDirectives},
		{"{ ...Nope }", KnownFragmentNames},
		{"query($v: Nope) { a }", KnownTypeNames + " " + NoUnusedVariables},
		{"{ ... on Nope { a } }", KnownTypeNames},
		{"{ a } { b }", LoneAnonymousOperation},
		{"query A { a } query A { b }", UniqueOperationNames},
		{"{ ...F } fragment F on Q { ...F }", NoFragmentCycles},
		{"{ ...F } fragment F on Q { o { ...G } } fragment G on O { o { ...H } } fragment H on O { ...G }", NoFragmentCycles},
		{"{ a(i: $v) }", NoUndefinedVariables},
		{"query A { ...F } query B($v: Int) { ...F } fragment F on Q { a(i: $v) }", NoUndefinedVariables},
		{"{ a } fragment F on Q { a }", NoUnusedFragments},
		{"query($v: Int) { a }", NoUnusedVariables},
		{"{ x: a x: b }", OverlappingFieldsCanBeMerged},
		{"{ a(i: 1) a(i: 2) }", OverlappingFieldsCanBeMerged},
		{"{ a(i: 1) a }", OverlappingFieldsCanBeMerged},
		{"{ x: a ...F } fragment F on Q { ...G } fragment G on Q { x: b }", OverlappingFieldsCanBeMerged},
		{"{ o { k: x } ...F } fragment F on Q { o { ...G } } fragment G on O { k: y }", OverlappingFieldsCanBeMerged},
		{"{ u { ... on O { k: y } ... on P { k: y } } }", OverlappingFieldsCanBeMerged}, // Int vs String
		{"{ u { ... on O { k: x } ... on P { k: y } } }", ""},                           // different names, exclusive parents, same shape
		{"{ i { ... on O { k: x } ... on I { k: __typename } } }", OverlappingFieldsCanBeMerged},
		{"{ u { ... on O { k: y } ... on P { k: __typename } } }", OverlappingFieldsCanBeMerged},
		{"{ o { ... on P { x } } }", PossibleFragmentSpreads},
		{"{ o { ...F } } fragment F on P { x }", PossibleFragmentSpreads},
		{"{ i { ... on U { __typename } } }", ""},
		{"{ n }", ProvidedNonNullArguments},
		{"{ a @skip }", ProvidedNonNullArguments},
		{"{ a { x } }", ScalarLeafs},
		{"{ o }", ScalarLeafs},
		{"{ a(i: 1, i: 1) }", UniqueArgumentNames},
		{"{ ...F } fragment F on Q { a } fragment F on Q { a }", UniqueFragmentNames},
		{"{ f(in: {a: 1, a: 1}) }", UniqueInputFieldNames},
		{"{ f(in: {b: {d: 1, d: 1}}) }", UniqueInputFieldNames},
		{"{ f(in: {l: [{d: 1}, {d: 2, d: 2}]}) }", UniqueInputFieldNames},
		{"query($v: Int, $v: Int) { a(i: $v) }", UniqueVariableNames},
		{"query($v: O) { a(i: $v) }", VariablesAreInputTypes + " " + VariablesInAllowedPosition},
		{"query($v: String) { a(i: $v) }", VariablesInAllowedPosition},
		{"query($v: Int) { n(x: $v) }", VariablesInAllowedPosition},
		{"query($v: Int = 1) { n(x: $v) }", ""}, // edition: a default makes the variable usable in a non-null position
		{"query($v: Int! = 1) { n(x: $v) }", DefaultValuesOfCorrectType},
		{"query($v: Int = \"x\") { a(i: $v) }", DefaultValuesOfCorrectType},
		{"query($v: Int) { g(l: $v) }", VariablesInAllowedPosition},
		{"query($v: Int) { g(l: [$v]) }", ""},
		{"query($v: [Int]) { g(l: [$v]) }", VariablesInAllowedPosition},
		{"{ a(i: \"1\") }", ArgumentsOfCorrectType},
		{"{ a(i: 2147483648) }", ArgumentsOfCorrectType},
		{"{ a(i: -2147483648) }", ""},
		{"{ g(e: C) }", ArgumentsOfCorrectType},
		{"{ g(e: \"A\") }", ArgumentsOfCorrectType},
		{"{ g(l: 1) g2: g(l: [1, 2]) }", ""},
		{"{ g(l: [1, \"2\"]) }", ArgumentsOfCorrectType},
		{"{ f(in: {b: {c: 1}}) }", ArgumentsOfCorrectType}, // missing non-null field d
		{"{ f(in: {b: {d: 1, z: 1}}) }", ArgumentsOfCorrectType},
		{"{ f(in: {l: {d: 1}}) }", ""}, // a bare item is a list of one
		{"{ a @nope(i: \"x\") }", KnownDirectives},
		{"{ ... on String { a } }", FragmentsOnCompositeTypes},
		{"{ ...F } fragment F on E { a }", FragmentsOnCompositeTypes},
		{"query($v: Float) { a }", KnownTypeNames + " " + NoUnusedVariables}, // Float is not part of this schema
	}
	for _, c := range cases {
		doc, err := syntax.Parse([]byte(c.doc))
		if err != nil {
			t.Fatalf("%s: %s", c.doc, err.Msg)
		}
		res := Decide(m, doc)
		got := strings.Join(ViolatedRules(res), " ")
		w := strings.Fields(c.want)
		sort.Strings(w)
		if got != strings.Join(w, " ") {
			t.Errorf("%s\n   violated: %q\n   want:     %q", c.doc, got, strings.Join(w, " "))
		}
		for _, r := range Rules {
			for _, o := range res[r].Offences {
				if !o.Optional && len(o.Nodes) == 0 {
					t.Errorf("%s: offence of %s without nodes", c.doc, r)
				}
			}
		}
	}
}

func TestCyclicInputTerminates(t *testing.T) {
	m := testModel()
	for _, text := range []string{
		"{ o { ...R } o { ...R } } fragment R on O { o { ...R } }",
		"{ o { ...R } o { ...S } } fragment R on O { k: x o { ...R } } fragment S on O { o { ...S k: y } }",
		"{ ...F } fragment F on Q { x: a ...G } fragment G on Q { x: b ...F }",
	} {
		doc, err := syntax.Parse([]byte(text))
		if err != nil {
			t.Fatal(err.Msg)
		}
		res := Decide(m, doc)
		if !res[NoFragmentCycles].Must {
			t.Errorf("%s: cycle not found", text)
		}
	}
}
