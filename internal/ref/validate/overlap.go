package validate

import (
	"fmt"
	"sort"

	"verif/internal/model"
	"verif/internal/nast"
)

// OverlappingFieldsCanBeMerged, as the specification words it:
//
//	FieldsInSetCanMerge(set):
//	  fieldsForName = the selections of `set` with a given response name,
//	                  including visiting fragments and inline fragments
//	  for each pair fieldA, fieldB of fieldsForName:
//	    SameResponseShape(fieldA, fieldB) must be true
//	    if the parent types of fieldA and fieldB are equal or either is not an object type:
//	      fieldA and fieldB must have identical field names
//	      fieldA and fieldB must have identical sets of arguments
//	      mergedSet = selection set of fieldA + selection set of fieldB
//	      FieldsInSetCanMerge(mergedSet) must be true
//
//	SameResponseShape(fieldA, fieldB):
//	  typeA, typeB = the return types
//	  non-null on one side requires non-null on the other; list likewise; unwrap
//	  if either is a scalar or enum: they must be the same type
//	  mergedSet = selection set of fieldA + selection set of fieldB
//	  for each pair subfieldA, subfieldB with one response name in mergedSet:
//	    SameResponseShape(subfieldA, subfieldB) must be true
//
// applied to EVERY selection set of the document. Field sets are expanded
// fully and afresh for every question (fragments through a visited guard so
// that cyclic input terminates); nothing is memoised. The only extra device
// is a stack of the field pairs currently being compared, so that documents
// whose fragments are cyclic THROUGH FIELDS (`fragment F on T { t { ...F } }`)
// terminate: a pair met again while it is being compared is assumed mergeable
// (the comparison in progress decides it).

// occ is one field occurrence of an expanded field set.
type occ struct {
	f      *nast.Field
	parent string // named parent type, "" when unknown
	def    *fdef  // nil when the field or its parent is unknown
}

func responseKey(f *nast.Field) string {
	if f.Alias != nil {
		return f.Alias.Value
	}
	return f.Name.Value
}

// condParent: the parent type the selections of a fragment with type
// condition tc apply to. An unknown condition leaves the type unknown.
func (c *ctx) condParent(tc *nast.Named, enclosing string) string {
	if tc == nil {
		return enclosing
	}
	if !c.typeKnown(tc.Name.Value) {
		return ""
	}
	return tc.Name.Value
}

// expand lists the fields of a selection set "including visiting fragments
// and inline fragments".
func (c *ctx) expand(ss *nast.SelectionSet, parent string, visited map[string]bool, out *[]occ) {
	if ss == nil {
		return
	}
	for _, it := range ss.Items {
		switch v := it.(type) {
		case *nast.Field:
			def := c.fieldDef(parent, v.Name.Value)
			if c.o.TypenameUntyped && v.Name.Value == "__typename" {
				def = nil
			}
			*out = append(*out, occ{f: v, parent: parent, def: def})
		case *nast.InlineFragment:
			c.expand(v.Sel, c.condParent(v.TypeCond, parent), visited, out)
		case *nast.FragmentSpread:
			n := v.Name.Value
			if visited[n] {
				continue
			}
			visited[n] = true
			f := c.fragment(n)
			if f == nil {
				continue
			}
			c.expand(f.Sel, c.condParent(f.TypeCond, ""), visited, out)
		}
	}
}

// subParent is the parent type of the sub-selection of a field occurrence.
func (c *ctx) subParent(o occ) string {
	if o.def == nil {
		return ""
	}
	b := o.def.Type.Base()
	if !c.typeKnown(b) {
		return ""
	}
	return b
}

// mergedSet is "the result of adding the selection set of fieldA and the
// selection set of fieldB".
func (c *ctx) mergedSet(a, b occ) []occ {
	var out []occ
	c.expand(a.f.Sel, c.subParent(a), map[string]bool{}, &out)
	c.expand(b.f.Sel, c.subParent(b), map[string]bool{}, &out)
	return out
}

type pairKey [2]*nast.Field

type conflict struct {
	a, b     occ
	why      string
	deeper   []nast.Node // fields involved below the pair
	optional bool
}

type overlapRun struct {
	c          *ctx
	mergeStack map[pairKey]bool
	shapeStack map[pairKey]bool
}

func (r *overlapRun) tick() bool {
	r.c.budget--
	if r.c.budget < 0 {
		r.c.spent = true
		return false
	}
	return true
}

func (c *ctx) isObject(name string) bool { return name != "" && c.s.KindOf(name) == model.Object }

func hasDupArgs(as []*nast.Argument) bool {
	seen := map[string]bool{}
	for _, a := range as {
		if seen[a.Name.Value] {
			return true
		}
		seen[a.Name.Value] = true
	}
	return false
}

// sameArguments: identical sets of (name, value) — values compared by their
// canonical text.
func sameArguments(a, b []*nast.Argument) bool {
	canon := func(as []*nast.Argument) []string {
		var out []string
		for _, x := range as {
			out = append(out, x.Name.Value+":"+valueText(x.Value))
		}
		sort.Strings(out)
		return out
	}
	ca, cb := canon(a), canon(b)
	if len(ca) != len(cb) {
		return false
	}
	for i := range ca {
		if ca[i] != cb[i] {
			return false
		}
	}
	return true
}

// shapeConflict implements SameResponseShape; "" means the shapes agree.
func (r *overlapRun) shapeConflict(a, b occ) (why string, deeper []nast.Node) {
	if a.f == b.f {
		return "", nil
	}
	k, k2 := pairKey{a.f, b.f}, pairKey{b.f, a.f}
	if r.shapeStack[k] || r.shapeStack[k2] {
		return "", nil
	}
	if !r.tick() {
		return "", nil
	}
	r.shapeStack[k] = true
	defer delete(r.shapeStack, k)
	c := r.c
	if a.def != nil && b.def != nil {
		ta, tb := a.def.Type, b.def.Type
		for {
			if ta.Kind == "nonnull" || tb.Kind == "nonnull" {
				if ta.Kind != tb.Kind {
					return fmt.Sprintf("conflicting types %s and %s", a.def.Type, b.def.Type), nil
				}
				ta, tb = ta.Of, tb.Of
				continue
			}
			if ta.Kind == "list" || tb.Kind == "list" {
				if ta.Kind != tb.Kind {
					return fmt.Sprintf("conflicting types %s and %s", a.def.Type, b.def.Type), nil
				}
				ta, tb = ta.Of, tb.Of
				continue
			}
			break
		}
		if !opaque(ta.Name) && !opaque(tb.Name) && (c.s.IsLeaf(ta.Name) || c.s.IsLeaf(tb.Name)) {
			if ta.Name != tb.Name {
				return fmt.Sprintf("conflicting types %s and %s", a.def.Type, b.def.Type), nil
			}
			return "", nil
		}
	}
	if a.f.Sel == nil && b.f.Sel == nil {
		return "", nil
	}
	merged := c.mergedSet(a, b)
	for i := 0; i < len(merged); i++ {
		for j := i + 1; j < len(merged); j++ {
			if responseKey(merged[i].f) != responseKey(merged[j].f) {
				continue
			}
			// every conflicting pair is collected: a report may mention all of them
			if w, d := r.shapeConflict(merged[i], merged[j]); w != "" {
				deeper = append(deeper, merged[i].f, merged[j].f)
				deeper = append(deeper, d...)
				if why == "" {
					why = "subfields " + responseKey(merged[i].f) + ": " + w
				}
			}
		}
	}
	return why, deeper
}

// pairConflict decides one pair of fieldsForName.
func (r *overlapRun) pairConflict(a, b occ) *conflict {
	if a.f == b.f {
		return nil // the same selection reached twice
	}
	k, k2 := pairKey{a.f, b.f}, pairKey{b.f, a.f}
	if r.mergeStack[k] || r.mergeStack[k2] {
		return nil
	}
	if !r.tick() {
		return nil
	}
	r.mergeStack[k] = true
	defer delete(r.mergeStack, k)
	c := r.c
	// The verdict follows the specification's order (shape first); the fields
	// a report may mention are collected from every failing clause.
	var cf *conflict
	if why, deeper := r.shapeConflict(a, b); why != "" {
		cf = &conflict{a: a, b: b, why: why, deeper: deeper}
	}
	exclusive := a.parent != b.parent && c.isObject(a.parent) && c.isObject(b.parent)
	if exclusive {
		return cf
	}
	if a.f.Name.Value != b.f.Name.Value {
		if cf == nil {
			cf = &conflict{a: a, b: b, why: fmt.Sprintf("%s and %s are different fields", a.f.Name.Value, b.f.Name.Value)}
		}
		return cf
	}
	if !sameArguments(a.f.Args, b.f.Args) {
		if cf == nil {
			cf = &conflict{a: a, b: b, why: "differing arguments", optional: hasDupArgs(a.f.Args) || hasDupArgs(b.f.Args)}
		}
		return cf
	}
	if a.f.Sel == nil && b.f.Sel == nil {
		return cf
	}
	sub := r.conflictsIn(c.mergedSet(a, b))
	if len(sub) == 0 {
		return cf
	}
	if cf == nil {
		cf = &conflict{a: a, b: b, why: "subfields conflict: " + sub[0].why, optional: true}
		for _, s := range sub {
			if !s.optional {
				cf.optional = false
			}
		}
	}
	for _, s := range sub {
		cf.deeper = append(cf.deeper, s.a.f, s.b.f)
		cf.deeper = append(cf.deeper, s.deeper...)
	}
	return cf
}

// conflictsIn implements FieldsInSetCanMerge: every pair of one response name.
func (r *overlapRun) conflictsIn(set []occ) []conflict {
	var out []conflict
	for i := 0; i < len(set); i++ {
		for j := i + 1; j < len(set); j++ {
			if responseKey(set[i].f) != responseKey(set[j].f) {
				continue
			}
			if cf := r.pairConflict(set[i], set[j]); cf != nil {
				out = append(out, *cf)
			}
		}
	}
	return out
}

func overlappingFieldsCanBeMerged(c *ctx) []Offence {
	var out []Offence
	c.walk(&hooks{selectionSet: func(ss *nast.SelectionSet, parent string) {
		if c.spent {
			return
		}
		var set []occ
		c.expand(ss, parent, map[string]bool{}, &set)
		r := &overlapRun{c: c, mergeStack: map[pairKey]bool{}, shapeStack: map[pairKey]bool{}}
		for _, cf := range r.conflictsIn(set) {
			o := off(fmt.Sprintf("fields %q conflict: %s", responseKey(cf.a.f), cf.why), cf.a.f, cf.b.f)
			o.Related = cf.deeper
			o.Optional = cf.optional
			out = append(out, o)
		}
	}})
	if c.spent {
		// comparison budget exhausted: undecided
		return []Offence{{Msg: "comparison budget exhausted: undecided", Optional: true}}
	}
	return out
}
