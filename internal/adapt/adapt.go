// Package adapt compares an AST produced by the library
// (github.com/graphql-go/graphql/language/ast) with the neutral tree (nast)
// produced by the reference parser or a generator. It is explicit per node
// kind (no reflection); a library node of a kind that is not expected at a
// position is itself a difference.
package adapt

import (
	"fmt"
	"sort"
	"strconv"
	"unicode/utf8"

	"github.com/graphql-go/graphql/language/ast"

	"verif/internal/nast"
)

// Diff kinds.
const (
	DKind  = "kind"  // different node kind / unexpected library node / nil vs non-nil
	DName  = "name"  // a Name (or operation keyword) differs
	DValue = "value" // a literal value differs
	DCount = "count" // a list has a different number of elements
	DOrder = "order" // same elements, different order
	DSpan  = "span"  // Loc does not delimit the reference span under either reading
)

// Diff is one difference between the library AST and the reference tree.
type Diff struct {
	Path string // e.g. Defs[0].Sel.Items[2].Args[0].Value
	What string // one of the D* constants
	Lib  string
	Ref  string
	// LibRaw / RefRaw are the undecorated values of a "value" difference.
	LibRaw, RefRaw string
	// Node is the reference node at Path (nil when there is none); it lets a
	// caller decide whether a difference falls into a documented class.
	Node nast.Node
}

func (d Diff) String() string {
	return fmt.Sprintf("%s: %s differs: library %s, reference %s", d.Path, d.What, d.Lib, d.Ref)
}

type cmp struct {
	src   []byte
	diffs []Diff
	// rune offset -> byte offset table, built lazily
	runeOff []int
	ascii   bool
	doc     bool // comparing a document: the Document span is compared leniently
}

// CompareDocument compares a parsed library document with the reference
// tree of the same source text.
func CompareDocument(lib *ast.Document, ref *nast.Document, src []byte) []Diff {
	c := newCmp(src)
	c.document("", lib, ref)
	return c.diffs
}

// CompareValue compares a library value with a reference value.
func CompareValue(lib ast.Value, ref nast.Node, src []byte) []Diff {
	c := newCmp(src)
	c.value("Value", lib, ref)
	return c.diffs
}

func newCmp(src []byte) *cmp {
	c := &cmp{src: src, ascii: true}
	for _, b := range src {
		if b >= utf8.RuneSelf {
			c.ascii = false
			break
		}
	}
	return c
}

func (c *cmp) add(path, what, lib, ref string, node nast.Node) {
	if len(c.diffs) < 64 {
		c.diffs = append(c.diffs, Diff{Path: path, What: what, Lib: lib, Ref: ref, Node: node})
	}
}

// runeToByte maps a code point offset to a byte offset (-1 when out of range).
func (c *cmp) runeToByte(r int) int {
	if r < 0 {
		return -1
	}
	if c.ascii {
		if r > len(c.src) {
			return -1
		}
		return r
	}
	if c.runeOff == nil {
		off := make([]int, 0, len(c.src)+1)
		for i := 0; i < len(c.src); {
			off = append(off, i)
			_, w := utf8.DecodeRune(c.src[i:])
			i += w
		}
		off = append(off, len(c.src))
		c.runeOff = off
	}
	if r >= len(c.runeOff) {
		return -1
	}
	return c.runeOff[r]
}

// span applies the span rule: Loc.Start/End, read as byte offsets or as code
// point offsets, must delimit exactly the reference span.
func (c *cmp) span(path string, loc *ast.Location, ref nast.Node) {
	if loc == nil {
		c.add(path, DSpan, "nil Loc", spanStr(ref.Pos()), ref)
		return
	}
	rs := ref.Pos()
	if loc.Start == rs.Start && loc.End == rs.End {
		return
	}
	if !c.ascii && c.runeToByte(loc.Start) == rs.Start && c.runeToByte(loc.End) == rs.End {
		return
	}
	c.add(path, DSpan, fmt.Sprintf("[%d,%d)%s", loc.Start, loc.End, c.excerpt(loc.Start, loc.End)), spanStr(rs)+c.excerpt(rs.Start, rs.End), ref)
}

// docSpan: the text of a Document is not delimited by tokens of its own, so
// the library's span may extend over ignored characters before the first and
// after the last token (it uses first token .. end of input).
func (c *cmp) docSpan(path string, loc *ast.Location, ref *nast.Document) {
	if loc == nil {
		c.add(path, DSpan, "nil Loc", spanStr(ref.Pos()), ref)
		return
	}
	ok := func(s, e int) bool { return s >= 0 && s <= ref.Start && e >= ref.End && e <= len(c.src) }
	if ok(loc.Start, loc.End) {
		return
	}
	if !c.ascii && ok(c.runeToByte(loc.Start), c.runeToByte(loc.End)) {
		return
	}
	c.add(path, DSpan, fmt.Sprintf("[%d,%d)", loc.Start, loc.End), spanStr(ref.Pos())+" (may extend over ignored text up to the ends of the input)", ref)
}

func spanStr(s *nast.Span) string { return fmt.Sprintf("[%d,%d)", s.Start, s.End) }

func (c *cmp) excerpt(s, e int) string {
	if s < 0 || e > len(c.src) || s > e {
		return " (out of range)"
	}
	t := c.src[s:e]
	if len(t) > 40 {
		return " " + strconv.Quote(string(t[:18])+"…"+string(t[len(t)-18:]))
	}
	return " " + strconv.Quote(string(t))
}

func (c *cmp) kind(path, libKind, want string, ref nast.Node) {
	if libKind != want {
		c.add(path, DKind, "Kind field "+strconv.Quote(libKind), want, ref)
	}
}

func (c *cmp) count(path string, nl, nr int, ref nast.Node) int {
	if nl != nr {
		c.add(path, DCount, strconv.Itoa(nl), strconv.Itoa(nr), ref)
	}
	if nl < nr {
		return nl
	}
	return nr
}

// order reports an order difference when both lists hold the same keys in a
// different sequence; it returns true when it reported (elements are then not
// compared one by one).
func (c *cmp) order(path string, lk, rk []string, ref nast.Node) bool {
	if len(lk) != len(rk) || len(lk) < 2 {
		return false
	}
	same := true
	for i := range lk {
		if lk[i] != rk[i] {
			same = false
			break
		}
	}
	if same {
		return false
	}
	ls := append([]string(nil), lk...)
	rs := append([]string(nil), rk...)
	sort.Strings(ls)
	sort.Strings(rs)
	for i := range ls {
		if ls[i] != rs[i] {
			return false
		}
	}
	c.add(path, DOrder, fmt.Sprint(lk), fmt.Sprint(rk), ref)
	return true
}

func idx(path, field string, i int) string {
	if path == "" {
		return field + "[" + strconv.Itoa(i) + "]"
	}
	return path + "." + field + "[" + strconv.Itoa(i) + "]"
}

func sub(path, field string) string {
	if path == "" {
		return field
	}
	return path + "." + field
}

// ---- names and small nodes

func (c *cmp) name(path string, l *ast.Name, r *nast.Name) {
	if l == nil || r == nil {
		if (l == nil) != (r == nil) {
			c.add(path, DKind, nilStr(l == nil, "Name"), nilStr(r == nil, "Name"), nameNode(r))
		}
		return
	}
	c.kind(path, l.Kind, "Name", r)
	if l.Value != r.Value {
		c.add(path, DName, strconv.Quote(l.Value), strconv.Quote(r.Value), r)
	}
	c.span(path, l.Loc, r)
}

func nameNode(r *nast.Name) nast.Node {
	if r == nil {
		return nil
	}
	return r
}

func nilStr(isNil bool, kind string) string {
	if isNil {
		return "nil"
	}
	return kind
}

func libName(n *ast.Name) string {
	if n == nil {
		return "<nil>"
	}
	return n.Value
}

func refName(n *nast.Name) string {
	if n == nil {
		return "<nil>"
	}
	return n.Value
}

func (c *cmp) named(path string, l *ast.Named, r *nast.Named) {
	if l == nil || r == nil {
		if (l == nil) != (r == nil) {
			var n nast.Node
			if r != nil {
				n = r
			}
			c.add(path, DKind, nilStr(l == nil, "Named"), nilStr(r == nil, "Named"), n)
		}
		return
	}
	c.kind(path, l.Kind, "Named", r)
	c.span(path, l.Loc, r)
	c.name(sub(path, "Name"), l.Name, r.Name)
}

func (c *cmp) typeRef(path string, l ast.Type, r nast.Node) {
	if isNilType(l) || r == nil {
		if isNilType(l) != (r == nil) {
			c.add(path, DKind, nilStr(isNilType(l), "type"), nilStr(r == nil, "type"), r)
		}
		return
	}
	switch lt := l.(type) {
	case *ast.Named:
		rt, ok := r.(*nast.Named)
		if !ok {
			c.add(path, DKind, "Named", r.Kind(), r)
			return
		}
		c.named(path, lt, rt)
	case *ast.List:
		rt, ok := r.(*nast.List)
		if !ok {
			c.add(path, DKind, "List", r.Kind(), r)
			return
		}
		c.kind(path, lt.Kind, "List", r)
		c.span(path, lt.Loc, rt)
		c.typeRef(sub(path, "Of"), lt.Type, rt.Of)
	case *ast.NonNull:
		rt, ok := r.(*nast.NonNull)
		if !ok {
			c.add(path, DKind, "NonNull", r.Kind(), r)
			return
		}
		c.kind(path, lt.Kind, "NonNull", r)
		c.span(path, lt.Loc, rt)
		c.typeRef(sub(path, "Of"), lt.Type, rt.Of)
	default:
		c.add(path, DKind, fmt.Sprintf("unexpected library type node %T", l), r.Kind(), r)
	}
}

func isNilType(t ast.Type) bool {
	switch v := t.(type) {
	case nil:
		return true
	case *ast.Named:
		return v == nil
	case *ast.List:
		return v == nil
	case *ast.NonNull:
		return v == nil
	}
	return false
}

func isNilValue(v ast.Value) bool {
	switch x := v.(type) {
	case nil:
		return true
	case *ast.Variable:
		return x == nil
	case *ast.IntValue:
		return x == nil
	case *ast.FloatValue:
		return x == nil
	case *ast.StringValue:
		return x == nil
	case *ast.BooleanValue:
		return x == nil
	case *ast.EnumValue:
		return x == nil
	case *ast.ListValue:
		return x == nil
	case *ast.ObjectValue:
		return x == nil
	}
	return false
}

// ---- values

func (c *cmp) value(path string, l ast.Value, r nast.Node) {
	if isNilValue(l) || r == nil {
		if isNilValue(l) != (r == nil) {
			c.add(path, DKind, nilStr(isNilValue(l), "value"), nilStr(r == nil, "value"), r)
		}
		return
	}
	mismatch := func(libKind string) { c.add(path, DKind, libKind, r.Kind(), r) }
	switch lv := l.(type) {
	case *ast.Variable:
		rv, ok := r.(*nast.Variable)
		if !ok {
			mismatch("Variable")
			return
		}
		c.variable(path, lv, rv)
	case *ast.IntValue:
		rv, ok := r.(*nast.IntValue)
		if !ok {
			mismatch("IntValue")
			return
		}
		c.kind(path, lv.Kind, "IntValue", r)
		if lv.Value != rv.Raw {
			c.add(path, DValue, strconv.Quote(lv.Value), strconv.Quote(rv.Raw), r)
		}
		c.span(path, lv.Loc, rv)
	case *ast.FloatValue:
		rv, ok := r.(*nast.FloatValue)
		if !ok {
			mismatch("FloatValue")
			return
		}
		c.kind(path, lv.Kind, "FloatValue", r)
		if lv.Value != rv.Raw {
			c.add(path, DValue, strconv.Quote(lv.Value), strconv.Quote(rv.Raw), r)
		}
		c.span(path, lv.Loc, rv)
	case *ast.StringValue:
		rv, ok := r.(*nast.StringValue)
		if !ok {
			mismatch("StringValue")
			return
		}
		c.stringValue(path, lv, rv)
	case *ast.BooleanValue:
		rv, ok := r.(*nast.BooleanValue)
		if !ok {
			mismatch("BooleanValue")
			return
		}
		c.kind(path, lv.Kind, "BooleanValue", r)
		if lv.Value != rv.Value {
			c.add(path, DValue, strconv.FormatBool(lv.Value), strconv.FormatBool(rv.Value), r)
		}
		c.span(path, lv.Loc, rv)
	case *ast.EnumValue:
		rv, ok := r.(*nast.EnumValue)
		if !ok {
			mismatch("EnumValue")
			return
		}
		c.kind(path, lv.Kind, "EnumValue", r)
		if lv.Value != rv.Value {
			c.add(path, DValue, strconv.Quote(lv.Value), strconv.Quote(rv.Value), r)
		}
		c.span(path, lv.Loc, rv)
	case *ast.ListValue:
		rv, ok := r.(*nast.ListValue)
		if !ok {
			mismatch("ListValue")
			return
		}
		c.kind(path, lv.Kind, "ListValue", r)
		c.span(path, lv.Loc, rv)
		n := c.count(sub(path, "Items"), len(lv.Values), len(rv.Items), r)
		for i := 0; i < n; i++ {
			c.value(idx(path, "Items", i), lv.Values[i], rv.Items[i])
		}
	case *ast.ObjectValue:
		rv, ok := r.(*nast.ObjectValue)
		if !ok {
			mismatch("ObjectValue")
			return
		}
		c.kind(path, lv.Kind, "ObjectValue", r)
		c.span(path, lv.Loc, rv)
		n := c.count(sub(path, "Fields"), len(lv.Fields), len(rv.Fields), r)
		var lk, rk []string
		for i := 0; i < n; i++ {
			if lv.Fields[i] != nil {
				lk = append(lk, libName(lv.Fields[i].Name))
			}
			rk = append(rk, refName(rv.Fields[i].Name))
		}
		if len(lv.Fields) == len(rv.Fields) && c.order(sub(path, "Fields"), lk, rk, r) {
			return
		}
		for i := 0; i < n; i++ {
			p := idx(path, "Fields", i)
			lf, rf := lv.Fields[i], rv.Fields[i]
			if lf == nil {
				c.add(p, DKind, "nil", "ObjectField", rf)
				continue
			}
			c.kind(p, lf.Kind, "ObjectField", rf)
			c.span(p, lf.Loc, rf)
			c.name(sub(p, "Name"), lf.Name, rf.Name)
			c.value(sub(p, "Value"), lf.Value, rf.Value)
		}
	default:
		c.add(path, DKind, fmt.Sprintf("unexpected library value node %T", l), r.Kind(), r)
	}
}

func (c *cmp) stringValue(path string, l *ast.StringValue, r *nast.StringValue) {
	c.kind(path, l.Kind, "StringValue", r)
	if l.Value != r.Value {
		c.add(path, DValue, strconv.Quote(l.Value), strconv.Quote(r.Value), r)
		if n := len(c.diffs); n > 0 && c.diffs[n-1].Path == path {
			c.diffs[n-1].LibRaw, c.diffs[n-1].RefRaw = l.Value, r.Value
		}
	}
	c.span(path, l.Loc, r)
}

// description: the library keeps descriptions as *ast.StringValue; nil and
// the empty string are the same description.
func (c *cmp) description(path string, l *ast.StringValue, r *nast.StringValue) {
	if l == nil && r == nil {
		return
	}
	if l == nil {
		if r.Value != "" {
			c.add(path, DValue, "nil description", strconv.Quote(r.Value), r)
		}
		return
	}
	if r == nil {
		if l.Value != "" {
			c.add(path, DValue, strconv.Quote(l.Value), "no description", nil)
		}
		return
	}
	c.stringValue(path, l, r)
}

func (c *cmp) variable(path string, l *ast.Variable, r *nast.Variable) {
	if l == nil || r == nil {
		if (l == nil) != (r == nil) {
			var n nast.Node
			if r != nil {
				n = r
			}
			c.add(path, DKind, nilStr(l == nil, "Variable"), nilStr(r == nil, "Variable"), n)
		}
		return
	}
	c.kind(path, l.Kind, "Variable", r)
	c.span(path, l.Loc, r)
	c.name(sub(path, "Name"), l.Name, r.Name)
}

// ---- arguments and directives

func (c *cmp) arguments(path string, l []*ast.Argument, r []*nast.Argument, parent nast.Node) {
	n := c.count(sub(path, "Args"), len(l), len(r), parent)
	if len(l) == len(r) {
		var lk, rk []string
		for i := range l {
			if l[i] != nil {
				lk = append(lk, libName(l[i].Name))
			}
			rk = append(rk, refName(r[i].Name))
		}
		if c.order(sub(path, "Args"), lk, rk, parent) {
			return
		}
	}
	for i := 0; i < n; i++ {
		p := idx(path, "Args", i)
		if l[i] == nil {
			c.add(p, DKind, "nil", "Argument", r[i])
			continue
		}
		c.kind(p, l[i].Kind, "Argument", r[i])
		c.span(p, l[i].Loc, r[i])
		c.name(sub(p, "Name"), l[i].Name, r[i].Name)
		c.value(sub(p, "Value"), l[i].Value, r[i].Value)
	}
}

func (c *cmp) directives(path string, l []*ast.Directive, r []*nast.Directive, parent nast.Node) {
	n := c.count(sub(path, "Directives"), len(l), len(r), parent)
	if len(l) == len(r) {
		var lk, rk []string
		for i := range l {
			if l[i] != nil {
				lk = append(lk, libName(l[i].Name))
			}
			rk = append(rk, refName(r[i].Name))
		}
		if c.order(sub(path, "Directives"), lk, rk, parent) {
			return
		}
	}
	for i := 0; i < n; i++ {
		p := idx(path, "Directives", i)
		if l[i] == nil {
			c.add(p, DKind, "nil", "Directive", r[i])
			continue
		}
		c.kind(p, l[i].Kind, "Directive", r[i])
		c.span(p, l[i].Loc, r[i])
		c.name(sub(p, "Name"), l[i].Name, r[i].Name)
		c.arguments(p, l[i].Arguments, r[i].Args, r[i])
	}
}

// ---- selections

func (c *cmp) selectionSet(path string, l *ast.SelectionSet, r *nast.SelectionSet) {
	if l == nil || r == nil {
		if (l == nil) != (r == nil) {
			var n nast.Node
			if r != nil {
				n = r
			}
			c.add(path, DKind, nilStr(l == nil, "SelectionSet"), nilStr(r == nil, "SelectionSet"), n)
		}
		return
	}
	c.kind(path, l.Kind, "SelectionSet", r)
	c.span(path, l.Loc, r)
	n := c.count(sub(path, "Items"), len(l.Selections), len(r.Items), r)
	if len(l.Selections) == len(r.Items) {
		var lk, rk []string
		for i := range l.Selections {
			lk = append(lk, libSelKey(l.Selections[i]))
			rk = append(rk, refSelKey(r.Items[i]))
		}
		if c.order(sub(path, "Items"), lk, rk, r) {
			return
		}
	}
	for i := 0; i < n; i++ {
		c.selection(idx(path, "Items", i), l.Selections[i], r.Items[i])
	}
}

func libSelKey(s ast.Selection) string {
	switch v := s.(type) {
	case *ast.Field:
		if v != nil {
			return "F:" + libName(v.Alias) + ":" + libName(v.Name)
		}
	case *ast.FragmentSpread:
		if v != nil {
			return "S:" + libName(v.Name)
		}
	case *ast.InlineFragment:
		if v != nil {
			if v.TypeCondition != nil {
				return "I:" + libName(v.TypeCondition.Name)
			}
			return "I:"
		}
	}
	return "?"
}

func refSelKey(n nast.Node) string {
	switch v := n.(type) {
	case *nast.Field:
		return "F:" + refName(v.Alias) + ":" + refName(v.Name)
	case *nast.FragmentSpread:
		return "S:" + refName(v.Name)
	case *nast.InlineFragment:
		if v.TypeCond != nil {
			return "I:" + refName(v.TypeCond.Name)
		}
		return "I:"
	}
	return "?"
}

func (c *cmp) selection(path string, l ast.Selection, r nast.Node) {
	switch lv := l.(type) {
	case *ast.Field:
		rv, ok := r.(*nast.Field)
		if !ok || lv == nil {
			c.add(path, DKind, nilStr(lv == nil, "Field"), r.Kind(), r)
			return
		}
		c.kind(path, lv.Kind, "Field", r)
		c.span(path, lv.Loc, rv)
		c.name(sub(path, "Alias"), lv.Alias, rv.Alias)
		c.name(sub(path, "Name"), lv.Name, rv.Name)
		c.arguments(path, lv.Arguments, rv.Args, rv)
		c.directives(path, lv.Directives, rv.Directives, rv)
		c.selectionSet(sub(path, "Sel"), lv.SelectionSet, rv.Sel)
	case *ast.FragmentSpread:
		rv, ok := r.(*nast.FragmentSpread)
		if !ok || lv == nil {
			c.add(path, DKind, nilStr(lv == nil, "FragmentSpread"), r.Kind(), r)
			return
		}
		c.kind(path, lv.Kind, "FragmentSpread", r)
		c.span(path, lv.Loc, rv)
		c.name(sub(path, "Name"), lv.Name, rv.Name)
		c.directives(path, lv.Directives, rv.Directives, rv)
	case *ast.InlineFragment:
		rv, ok := r.(*nast.InlineFragment)
		if !ok || lv == nil {
			c.add(path, DKind, nilStr(lv == nil, "InlineFragment"), r.Kind(), r)
			return
		}
		c.kind(path, lv.Kind, "InlineFragment", r)
		c.span(path, lv.Loc, rv)
		c.named(sub(path, "TypeCond"), lv.TypeCondition, rv.TypeCond)
		c.directives(path, lv.Directives, rv.Directives, rv)
		c.selectionSet(sub(path, "Sel"), lv.SelectionSet, rv.Sel)
	default:
		c.add(path, DKind, fmt.Sprintf("unexpected library selection node %T", l), r.Kind(), r)
	}
}

// ---- definitions

func (c *cmp) document(path string, l *ast.Document, r *nast.Document) {
	if l == nil || r == nil {
		if (l == nil) != (r == nil) {
			c.add(sub(path, "Document"), DKind, nilStr(l == nil, "Document"), nilStr(r == nil, "Document"), nil)
		}
		return
	}
	c.kind(sub(path, "Document"), l.Kind, "Document", r)
	c.docSpan(sub(path, "Document"), l.Loc, r)
	n := c.count(sub(path, "Defs"), len(l.Definitions), len(r.Defs), r)
	for i := 0; i < n; i++ {
		c.definition(idx(path, "Defs", i), l.Definitions[i], r.Defs[i])
	}
}

func (c *cmp) varDefs(path string, l []*ast.VariableDefinition, r []*nast.VarDef, parent nast.Node) {
	n := c.count(sub(path, "Vars"), len(l), len(r), parent)
	for i := 0; i < n; i++ {
		p := idx(path, "Vars", i)
		if l[i] == nil {
			c.add(p, DKind, "nil", "VariableDefinition", r[i])
			continue
		}
		c.kind(p, l[i].Kind, "VariableDefinition", r[i])
		c.span(p, l[i].Loc, r[i])
		c.variable(sub(p, "Var"), l[i].Variable, r[i].Var)
		c.typeRef(sub(p, "Type"), l[i].Type, r[i].Type)
		c.value(sub(p, "Default"), l[i].DefaultValue, r[i].Default)
	}
}

func (c *cmp) fieldDefs(path string, l []*ast.FieldDefinition, r []*nast.FieldDef, parent nast.Node) {
	n := c.count(sub(path, "Fields"), len(l), len(r), parent)
	for i := 0; i < n; i++ {
		p := idx(path, "Fields", i)
		if l[i] == nil {
			c.add(p, DKind, "nil", "FieldDefinition", r[i])
			continue
		}
		c.kind(p, l[i].Kind, "FieldDefinition", r[i])
		c.span(p, l[i].Loc, r[i])
		c.description(sub(p, "Desc"), l[i].Description, r[i].Desc)
		c.name(sub(p, "Name"), l[i].Name, r[i].Name)
		c.inputValueDefs(p, "Args", l[i].Arguments, r[i].Args, r[i])
		c.typeRef(sub(p, "Type"), l[i].Type, r[i].Type)
		c.directives(p, l[i].Directives, r[i].Directives, r[i])
	}
}

func (c *cmp) inputValueDefs(path, field string, l []*ast.InputValueDefinition, r []*nast.InputValueDef, parent nast.Node) {
	n := c.count(sub(path, field), len(l), len(r), parent)
	for i := 0; i < n; i++ {
		p := idx(path, field, i)
		if l[i] == nil {
			c.add(p, DKind, "nil", "InputValueDefinition", r[i])
			continue
		}
		c.kind(p, l[i].Kind, "InputValueDefinition", r[i])
		c.span(p, l[i].Loc, r[i])
		c.description(sub(p, "Desc"), l[i].Description, r[i].Desc)
		c.name(sub(p, "Name"), l[i].Name, r[i].Name)
		c.typeRef(sub(p, "Type"), l[i].Type, r[i].Type)
		c.value(sub(p, "Default"), l[i].DefaultValue, r[i].Default)
		c.directives(p, l[i].Directives, r[i].Directives, r[i])
	}
}

func (c *cmp) namedList(path, field string, l []*ast.Named, r []*nast.Named, parent nast.Node) {
	n := c.count(sub(path, field), len(l), len(r), parent)
	if len(l) == len(r) {
		var lk, rk []string
		for i := range l {
			if l[i] != nil {
				lk = append(lk, libName(l[i].Name))
			}
			rk = append(rk, refName(r[i].Name))
		}
		if c.order(sub(path, field), lk, rk, parent) {
			return
		}
	}
	for i := 0; i < n; i++ {
		c.named(idx(path, field, i), l[i], r[i])
	}
}

func (c *cmp) objectDef(path string, l *ast.ObjectDefinition, r *nast.ObjectDef) {
	if l == nil || r == nil {
		if (l == nil) != (r == nil) {
			var n nast.Node
			if r != nil {
				n = r
			}
			c.add(path, DKind, nilStr(l == nil, "ObjectDefinition"), nilStr(r == nil, "ObjectDefinition"), n)
		}
		return
	}
	c.kind(path, l.Kind, "ObjectDefinition", r)
	c.span(path, l.Loc, r)
	c.description(sub(path, "Desc"), l.Description, r.Desc)
	c.name(sub(path, "Name"), l.Name, r.Name)
	c.namedList(path, "Interfaces", l.Interfaces, r.Interfaces, r)
	c.directives(path, l.Directives, r.Directives, r)
	c.fieldDefs(path, l.Fields, r.Fields, r)
}

func (c *cmp) definition(path string, l ast.Node, r nast.Node) {
	wrong := func(libKind string) { c.add(path, DKind, libKind, r.Kind(), r) }
	switch lv := l.(type) {
	case *ast.OperationDefinition:
		rv, ok := r.(*nast.Operation)
		if !ok || lv == nil {
			wrong(nilStr(lv == nil, "OperationDefinition"))
			return
		}
		c.kind(path, lv.Kind, "OperationDefinition", r)
		c.span(path, lv.Loc, rv)
		if lv.Operation != rv.Op {
			c.add(sub(path, "Op"), DName, strconv.Quote(lv.Operation), strconv.Quote(rv.Op), r)
		}
		c.name(sub(path, "Name"), lv.Name, rv.Name)
		c.varDefs(path, lv.VariableDefinitions, rv.Vars, rv)
		c.directives(path, lv.Directives, rv.Directives, rv)
		c.selectionSet(sub(path, "Sel"), lv.SelectionSet, rv.Sel)
	case *ast.FragmentDefinition:
		rv, ok := r.(*nast.Fragment)
		if !ok || lv == nil {
			wrong(nilStr(lv == nil, "FragmentDefinition"))
			return
		}
		c.kind(path, lv.Kind, "FragmentDefinition", r)
		c.span(path, lv.Loc, rv)
		c.name(sub(path, "Name"), lv.Name, rv.Name)
		if len(lv.VariableDefinitions) != 0 {
			c.add(sub(path, "Vars"), DCount, strconv.Itoa(len(lv.VariableDefinitions)), "0 (fragments take no variables)", r)
		}
		c.named(sub(path, "TypeCond"), lv.TypeCondition, rv.TypeCond)
		c.directives(path, lv.Directives, rv.Directives, rv)
		c.selectionSet(sub(path, "Sel"), lv.SelectionSet, rv.Sel)
	case *ast.SchemaDefinition:
		rv, ok := r.(*nast.SchemaDef)
		if !ok || lv == nil {
			wrong(nilStr(lv == nil, "SchemaDefinition"))
			return
		}
		c.kind(path, lv.Kind, "SchemaDefinition", r)
		c.span(path, lv.Loc, rv)
		c.directives(path, lv.Directives, rv.Directives, rv)
		n := c.count(sub(path, "OpTypes"), len(lv.OperationTypes), len(rv.OpTypes), r)
		for i := 0; i < n; i++ {
			p := idx(path, "OpTypes", i)
			lo, ro := lv.OperationTypes[i], rv.OpTypes[i]
			if lo == nil {
				c.add(p, DKind, "nil", "OperationTypeDefinition", ro)
				continue
			}
			c.kind(p, lo.Kind, "OperationTypeDefinition", ro)
			c.span(p, lo.Loc, ro)
			if lo.Operation != ro.Op {
				c.add(sub(p, "Op"), DName, strconv.Quote(lo.Operation), strconv.Quote(ro.Op), ro)
			}
			c.named(sub(p, "Type"), lo.Type, ro.Type)
		}
	case *ast.ScalarDefinition:
		rv, ok := r.(*nast.ScalarDef)
		if !ok || lv == nil {
			wrong(nilStr(lv == nil, "ScalarDefinition"))
			return
		}
		c.kind(path, lv.Kind, "ScalarDefinition", r)
		c.span(path, lv.Loc, rv)
		c.description(sub(path, "Desc"), lv.Description, rv.Desc)
		c.name(sub(path, "Name"), lv.Name, rv.Name)
		c.directives(path, lv.Directives, rv.Directives, rv)
	case *ast.ObjectDefinition:
		rv, ok := r.(*nast.ObjectDef)
		if !ok || lv == nil {
			wrong(nilStr(lv == nil, "ObjectDefinition"))
			return
		}
		c.objectDef(path, lv, rv)
	case *ast.InterfaceDefinition:
		rv, ok := r.(*nast.InterfaceDef)
		if !ok || lv == nil {
			wrong(nilStr(lv == nil, "InterfaceDefinition"))
			return
		}
		c.kind(path, lv.Kind, "InterfaceDefinition", r)
		c.span(path, lv.Loc, rv)
		c.description(sub(path, "Desc"), lv.Description, rv.Desc)
		c.name(sub(path, "Name"), lv.Name, rv.Name)
		c.directives(path, lv.Directives, rv.Directives, rv)
		c.fieldDefs(path, lv.Fields, rv.Fields, rv)
	case *ast.UnionDefinition:
		rv, ok := r.(*nast.UnionDef)
		if !ok || lv == nil {
			wrong(nilStr(lv == nil, "UnionDefinition"))
			return
		}
		c.kind(path, lv.Kind, "UnionDefinition", r)
		c.span(path, lv.Loc, rv)
		c.description(sub(path, "Desc"), lv.Description, rv.Desc)
		c.name(sub(path, "Name"), lv.Name, rv.Name)
		c.directives(path, lv.Directives, rv.Directives, rv)
		c.namedList(path, "Types", lv.Types, rv.Types, rv)
	case *ast.EnumDefinition:
		rv, ok := r.(*nast.EnumDef)
		if !ok || lv == nil {
			wrong(nilStr(lv == nil, "EnumDefinition"))
			return
		}
		c.kind(path, lv.Kind, "EnumDefinition", r)
		c.span(path, lv.Loc, rv)
		c.description(sub(path, "Desc"), lv.Description, rv.Desc)
		c.name(sub(path, "Name"), lv.Name, rv.Name)
		c.directives(path, lv.Directives, rv.Directives, rv)
		n := c.count(sub(path, "Values"), len(lv.Values), len(rv.Values), r)
		for i := 0; i < n; i++ {
			p := idx(path, "Values", i)
			le, re := lv.Values[i], rv.Values[i]
			if le == nil {
				c.add(p, DKind, "nil", "EnumValueDefinition", re)
				continue
			}
			c.kind(p, le.Kind, "EnumValueDefinition", re)
			c.span(p, le.Loc, re)
			c.description(sub(p, "Desc"), le.Description, re.Desc)
			c.name(sub(p, "Name"), le.Name, re.Name)
			c.directives(p, le.Directives, re.Directives, re)
		}
	case *ast.InputObjectDefinition:
		rv, ok := r.(*nast.InputObjectDef)
		if !ok || lv == nil {
			wrong(nilStr(lv == nil, "InputObjectDefinition"))
			return
		}
		c.kind(path, lv.Kind, "InputObjectDefinition", r)
		c.span(path, lv.Loc, rv)
		c.description(sub(path, "Desc"), lv.Description, rv.Desc)
		c.name(sub(path, "Name"), lv.Name, rv.Name)
		c.directives(path, lv.Directives, rv.Directives, rv)
		c.inputValueDefs(path, "Fields", lv.Fields, rv.Fields, rv)
	case *ast.TypeExtensionDefinition:
		rv, ok := r.(*nast.TypeExtension)
		if !ok || lv == nil {
			wrong(nilStr(lv == nil, "TypeExtensionDefinition"))
			return
		}
		c.kind(path, lv.Kind, "TypeExtensionDefinition", r)
		c.span(path, lv.Loc, rv)
		c.objectDef(sub(path, "Def"), lv.Definition, rv.Def)
	case *ast.DirectiveDefinition:
		rv, ok := r.(*nast.DirectiveDef)
		if !ok || lv == nil {
			wrong(nilStr(lv == nil, "DirectiveDefinition"))
			return
		}
		c.kind(path, lv.Kind, "DirectiveDefinition", r)
		c.span(path, lv.Loc, rv)
		c.description(sub(path, "Desc"), lv.Description, rv.Desc)
		c.name(sub(path, "Name"), lv.Name, rv.Name)
		c.inputValueDefs(path, "Args", lv.Arguments, rv.Args, rv)
		n := c.count(sub(path, "Locations"), len(lv.Locations), len(rv.Locations), r)
		for i := 0; i < n; i++ {
			c.name(idx(path, "Locations", i), lv.Locations[i], rv.Locations[i])
		}
	case nil:
		wrong("nil")
	default:
		c.add(path, DKind, fmt.Sprintf("unexpected library definition node %T", l), r.Kind(), r)
	}
}
