package adapt

import (
	"strings"
	"testing"

	"github.com/graphql-go/graphql/language/parser"
	"github.com/graphql-go/graphql/language/source"

	"verif/internal/ref/syntax"
)

// cross compares the library AST of libSrc with the reference tree of refSrc.
func cross(t *testing.T, libSrc, refSrc string) []Diff {
	t.Helper()
	l, err := parser.Parse(parser.ParseParams{Source: &source.Source{Body: []byte(libSrc), Name: "x"}})
	if err != nil {
		t.Fatalf("library rejects %q: %v", libSrc, err)
	}
	r, rerr := syntax.Parse([]byte(refSrc))
	if rerr != nil {
		t.Fatalf("reference rejects %q: %s", refSrc, rerr.Msg)
	}
	return CompareDocument(l, r, []byte(refSrc))
}

func TestEqual(t *testing.T) {
	for _, s := range []string{
		`{ a }`,
		`query Q($v: [Int!]! = [1, 2], $w: I = {k: "s", l: E}) @d(a: $v) { x: f(a: 1.5, b: true, c: """blk""") @e { ...F ... on T { y } ... @i { z } } }`,
		`fragment F on T @d { a }`,
		`schema @d { query: Q mutation: M }`,
		`"d" scalar S @d`,
		"\"\"\"\n d\n\"\"\" type T implements I & J @d { \"f\" f(\"a\" a: Int = 1 @x): [T!]! @y }",
		`interface I { f: Int } union U @d = A | B enum E { "a" A @x B } input I { a: Int = 1 } extend type T { g: Int } directive @d(a: Int) on A | B`,
		"{ a(s: \"é€😀\") # é€😀 in a comment\n { b(t: \"x\") } }",
		"  { a }  ",
	} {
		if d := cross(t, s, s); len(d) != 0 {
			t.Errorf("%q: unexpected diffs %v", s, d)
		}
	}
}

func TestDifferences(t *testing.T) {
	cases := []struct{ lib, ref, what, path string }{
		{`{ a b }`, `{ b a }`, DOrder, "Defs[0].Sel.Items"},
		{`{ a b }`, `{ a c }`, DName, "Defs[0].Sel.Items[1].Name"},
		{`{ a b }`, `{ a   }`, DCount, "Defs[0].Sel.Items"},
		{`{ a(x: 1) }`, `{ a(x: 2) }`, DValue, "Defs[0].Sel.Items[0].Args[0].Value"},
		{`{ a(x: 1) }`, `{ a(x: A) }`, DKind, "Defs[0].Sel.Items[0].Args[0].Value"},
		{`{ a(x: "1") }`, `{ a(x: "2") }`, DValue, "Defs[0].Sel.Items[0].Args[0].Value"},
		{`{ a(x: [1 2]) }`, `{ a(x: [1 3]) }`, DValue, "Defs[0].Sel.Items[0].Args[0].Value.Items[1]"},
		{`{ a(x: {k: 1}) }`, `{ a(x: {l: 1}) }`, DName, "Defs[0].Sel.Items[0].Args[0].Value.Fields[0].Name"},
		{`{ a  }`, `{  a }`, DSpan, "Defs[0].Sel.Items[0]"},
		{`{ ...F }`, `{ ...G }`, DName, "Defs[0].Sel.Items[0].Name"},
		{`{ ... on T { a } }`, `{ ...    T @d   }`, DKind, "Defs[0].Sel.Items[0]"},
		{`query Q { a }`, `query   { a }`, DKind, "Defs[0].Name"},
		{`mutation { a }`, `query    { a }`, DName, "Defs[0].Op"},
		{`query ($a: Int ) { a }`, `query ($a: Int!) { a }`, DKind, "Defs[0].Vars[0].Type"},
		{`type T { f: Int }`, `type U { f: Int }`, DName, "Defs[0].Name"},
		{`"a" type T { f: Int }`, `"b" type T { f: Int }`, DValue, "Defs[0].Desc"},
		{`type T implements I & J { }`, `type T implements J & I { }`, DOrder, "Defs[0].Interfaces"},
		{`enum E { A B }`, `enum E { A C }`, DName, "Defs[0].Values[1].Name"},
		{`scalar S`, `type S {}`, DKind, "Defs[0]"},
	}
	for _, c := range cases {
		ds := cross(t, c.lib, c.ref)
		found := false
		for _, d := range ds {
			if d.What == c.what && d.Path == c.path {
				found = true
			}
		}
		if !found {
			var all []string
			for _, d := range ds {
				all = append(all, d.String())
			}
			t.Errorf("lib %q vs ref %q: want %s at %s, got %s", c.lib, c.ref, c.what, c.path, strings.Join(all, " | "))
		}
	}
}

func TestDescriptionNilEqualsEmpty(t *testing.T) {
	if d := cross(t, `"" type T { f: Int }`, `   type T { f: Int }`); len(d) != 1 || d[0].What != DSpan {
		// the only difference is where the definition starts
		t.Errorf("diffs %v", d)
	}
}

func TestValueCompare(t *testing.T) {
	src := `{a: [1, "s", $v, E, true, 1.5]}`
	l, err := parser.ParseValue(parser.ParseParams{Source: &source.Source{Body: []byte(src), Name: "x"}})
	if err != nil {
		t.Fatal(err)
	}
	r, rerr := syntax.ParseValue([]byte(src))
	if rerr != nil {
		t.Fatal(rerr.Msg)
	}
	if d := CompareValue(l, r, []byte(src)); len(d) != 0 {
		t.Errorf("diffs %v", d)
	}
}
