// Package schemagen generates schema models (model.Schema) from a seed.
package schemagen

import (
	"fmt"

	"verif/internal/core"
	"verif/internal/model"
	"verif/internal/ref/coerce"
)

// Options bound the generated schema.
type Options struct {
	Objects    int // besides Query/Mutation
	Interfaces int
	Unions     int
	Enums      int
	Inputs     int
	MaxFields  int
	MaxArgs    int
	Mutation   bool
	Descs      bool // descriptions, deprecations (for introspection)
	WrapDepth  int  // max list nesting
}

func DefaultOptions(r *core.RNG) Options {
	return Options{
		Objects: r.Range(2, 4), Interfaces: r.Range(1, 2), Unions: r.Range(1, 2), Enums: r.Range(1, 2), Inputs: r.Range(1, 3),
		MaxFields: 5, MaxArgs: 3, Mutation: r.Chance(60), Descs: r.Chance(50), WrapDepth: 2,
	}
}

type gen struct {
	r       *core.RNG
	o       Options
	s       *model.Schema
	objs    []string
	ifaces  []string
	unions  []string
	enums   []string
	inputs  []string
	scalars []string
}

var enumInternals = []func(i int, name string) interface{}{
	func(i int, name string) interface{} { return name },                       // default-like: the name itself
	func(i int, name string) interface{} { return i },                          // ints (0 included)
	func(i int, name string) interface{} { return "int-" + fmt.Sprint(i*i+7) }, // strings that are not names
	func(i int, name string) interface{} { return float64(i) + 0.5 },
}

// Gen builds a valid schema model.
func Gen(r *core.RNG, o Options) *model.Schema {
	g := &gen{r: r, o: o, s: &model.Schema{Query: "Q"}}
	g.scalars = []string{"Int", "Float", "String", "Boolean", "ID", "Tag"}
	g.s.Types = append(g.s.Types, &model.TypeDef{Kind: model.Scalar, Name: "Tag", Desc: g.desc("custom scalar")})
	for i := 0; i < o.Enums; i++ {
		name := fmt.Sprintf("E%d", i)
		g.enums = append(g.enums, name)
		td := &model.TypeDef{Kind: model.Enum, Name: name, Desc: g.desc("enum " + name)}
		mk := enumInternals[r.Intn(len(enumInternals))]
		n := r.Range(2, 4)
		for j := 0; j < n; j++ {
			vn := fmt.Sprintf("%s_V%d", name, j)
			ev := &model.EnumVal{Name: vn, Internal: mk(j, vn), Desc: g.desc("value")}
			if o.Descs && r.Chance(25) {
				why := "old " + vn
				ev.Deprecation = &why
			}
			td.Values = append(td.Values, ev)
		}
		g.s.Types = append(g.s.Types, td)
	}
	// input objects: acyclic, In(i) may reference In(j) for j < i
	for i := 0; i < o.Inputs; i++ {
		name := fmt.Sprintf("In%d", i)
		td := &model.TypeDef{Kind: model.InputObject, Name: name, Desc: g.desc("input " + name), ThunkFields: r.Chance(30)}
		g.s.Types = append(g.s.Types, td)
		g.s.Reindex()
		n := r.Range(1, 4)
		for j := 0; j < n; j++ {
			td.InputFields = append(td.InputFields, g.inputDef(fmt.Sprintf("f%d", j)))
		}
		g.inputs = append(g.inputs, name)
	}
	for i := 0; i < o.Interfaces; i++ {
		g.ifaces = append(g.ifaces, fmt.Sprintf("I%d", i))
	}
	for i := 0; i < o.Objects; i++ {
		g.objs = append(g.objs, fmt.Sprintf("T%d", i))
	}
	for i := 0; i < o.Unions; i++ {
		g.unions = append(g.unions, fmt.Sprintf("U%d", i))
	}
	// declare composite types first (fields later, they may reference each other cyclically)
	for _, n := range g.ifaces {
		g.s.Types = append(g.s.Types, &model.TypeDef{Kind: model.Interface, Name: n, Desc: g.desc("interface " + n), ThunkFields: r.Chance(50), NoResolveType: r.Chance(25)})
	}
	for _, n := range g.objs {
		g.s.Types = append(g.s.Types, &model.TypeDef{Kind: model.Object, Name: n, Desc: g.desc("object " + n), ThunkFields: r.Chance(50), ThunkInterfaces: r.Chance(40)})
	}
	for _, n := range g.unions {
		g.s.Types = append(g.s.Types, &model.TypeDef{Kind: model.Union, Name: n, Desc: g.desc("union " + n), ThunkMembers: r.Chance(40), NoResolveType: r.Chance(25)})
	}
	g.s.Types = append(g.s.Types, &model.TypeDef{Kind: model.Object, Name: "Q", Desc: g.desc("query root"), ThunkFields: r.Chance(50)})
	if o.Mutation {
		g.s.Mutation = "M"
		g.s.Types = append(g.s.Types, &model.TypeDef{Kind: model.Object, Name: "M", Desc: g.desc("mutation root")})
	}
	g.s.Reindex()
	// interface fields
	for _, n := range g.ifaces {
		td := g.s.Type(n)
		k := r.Range(1, 3)
		for j := 0; j < k; j++ {
			td.Fields = append(td.Fields, g.fieldDef(fmt.Sprintf("%s_f%d", lower(n), j), false))
		}
	}
	// objects: implement a random subset of interfaces (each interface gets >= 1 implementer)
	for idx, n := range g.objs {
		td := g.s.Type(n)
		for ii, in := range g.ifaces {
			if r.Chance(45) || idx == ii%len(g.objs) {
				td.Interfaces = append(td.Interfaces, in)
				for _, f := range g.s.Type(in).Fields {
					if td.Field(f.Name) == nil {
						td.Fields = append(td.Fields, g.implField(f))
					}
				}
			}
		}
		k := r.Range(1, o.MaxFields)
		for j := 0; j < k; j++ {
			td.Fields = append(td.Fields, g.fieldDef(fmt.Sprintf("%s_g%d", lower(n), j), true))
		}
	}
	// objects whose possible types are needed by abstract resolution: when an
	// interface or union omits ResolveType every possible type needs IsTypeOf.
	for _, n := range g.unions {
		td := g.s.Type(n)
		perm := r.Perm(len(g.objs))
		k := r.Range(1, min(3, len(g.objs)))
		for _, p := range perm[:k] {
			td.Members = append(td.Members, g.objs[p])
		}
	}
	for _, n := range append(append([]string{}, g.ifaces...), g.unions...) {
		td := g.s.Type(n)
		if td.NoResolveType {
			for _, p := range g.s.PossibleTypes(n) {
				g.s.Type(p).UseIsTypeOf = true
			}
		}
	}
	for _, n := range g.objs {
		if r.Chance(20) {
			g.s.Type(n).UseIsTypeOf = true
		}
	}
	// covariant implementations: where an interface field returns an abstract
	// type, an implementer may narrow it to one of its possible object types
	// (this is also what makes schema construction consult the possible-type
	// tables, see Schema.IsPossibleType)
	g.s.Reindex()
	for _, n := range g.objs {
		td := g.s.Type(n)
		for _, in := range td.Interfaces {
			for _, f := range g.s.Type(in).Fields {
				of := td.Field(f.Name)
				base := g.s.Type(f.Type.Base())
				if of == nil || base == nil || (base.Kind != model.Interface && base.Kind != model.Union) || !r.Chance(30) {
					continue
				}
				if p := g.s.PossibleTypes(base.Name); len(p) > 0 && of.Type.Base() == base.Name {
					nf := *of
					nf.Type = replaceBase(of.Type, p[r.Intn(len(p))])
					for i, x := range td.Fields {
						if x == of {
							td.Fields[i] = &nf
						}
					}
				}
			}
		}
	}
	// Query root: reach everything
	q := g.s.Type("Q")
	i := 0
	add := func(t *model.TypeRef) {
		f := g.fieldDefOfType(fmt.Sprintf("q%d", i), t)
		i++
		q.Fields = append(q.Fields, f)
	}
	for _, n := range g.objs {
		add(g.wrapOut(model.Named(n)))
	}
	for _, n := range g.ifaces {
		add(g.wrapOut(model.Named(n)))
	}
	for _, n := range g.unions {
		add(g.wrapOut(model.Named(n)))
	}
	for k := r.Range(2, 4); k > 0; k-- {
		add(g.wrapOut(model.Named(g.leaf())))
	}
	// a few list-of-composite fields for sure
	add(model.ListOf(model.Named(g.objs[r.Intn(len(g.objs))])))
	if len(g.ifaces) > 0 {
		add(model.ListOf(model.Named(g.ifaces[r.Intn(len(g.ifaces))])))
	}
	if len(g.unions) > 0 {
		add(model.NonNull(model.ListOf(model.NonNull(model.Named(g.unions[r.Intn(len(g.unions))])))))
	}
	if o.Mutation {
		m := g.s.Type("M")
		k := r.Range(2, 5)
		for j := 0; j < k; j++ {
			var t *model.TypeRef
			if r.Chance(50) {
				t = g.wrapOut(model.Named(g.objs[r.Intn(len(g.objs))]))
			} else {
				t = g.wrapOut(model.Named(g.leaf()))
			}
			m.Fields = append(m.Fields, g.fieldDefOfType(fmt.Sprintf("m%d", j), t))
		}
	}
	// objects not reachable from the roots are passed as extra types
	g.s.Extra = nil
	for _, n := range g.objs {
		if len(g.s.Type(n).Interfaces) > 0 {
			g.s.Extra = append(g.s.Extra, n)
		}
	}
	if o.Descs && r.Chance(60) {
		g.s.Directives = append(g.s.Directives, &model.DirectiveDef{Name: "tagged", Desc: "custom directive",
			Locations: []string{"FIELD", "FRAGMENT_SPREAD", "INLINE_FRAGMENT", "QUERY"}, Args: []*model.InputDef{g.inputDef("by")}})
	}
	g.s.Reindex()
	return g.s
}

func replaceBase(t *model.TypeRef, name string) *model.TypeRef {
	switch t.Kind {
	case "list":
		return model.ListOf(replaceBase(t.Of, name))
	case "nonnull":
		return model.NonNull(replaceBase(t.Of, name))
	}
	return model.Named(name)
}

func min(a, b int) int {
	if a < b {
		return a
	}
	return b
}

func lower(s string) string {
	b := []byte(s)
	for i := range b {
		if b[i] >= 'A' && b[i] <= 'Z' {
			b[i] += 32
		}
	}
	return string(b)
}

func (g *gen) desc(s string) string {
	if g.o.Descs && g.r.Chance(60) {
		return s
	}
	return ""
}

func (g *gen) leaf() string {
	if len(g.enums) > 0 && g.r.Chance(30) {
		return g.enums[g.r.Intn(len(g.enums))]
	}
	return g.scalars[g.r.Intn(len(g.scalars))]
}

func (g *gen) outBase() string {
	switch x := g.r.Intn(10); {
	case x < 4:
		return g.leaf()
	case x < 7:
		return g.objs[g.r.Intn(len(g.objs))]
	case x < 9 && len(g.ifaces) > 0:
		return g.ifaces[g.r.Intn(len(g.ifaces))]
	default:
		if len(g.unions) > 0 {
			return g.unions[g.r.Intn(len(g.unions))]
		}
		return g.objs[g.r.Intn(len(g.objs))]
	}
}

// wrapOut wraps a named type in list / non-null wrappers.
func (g *gen) wrapOut(t *model.TypeRef) *model.TypeRef {
	if g.r.Chance(30) {
		t = model.NonNull(t)
	}
	for d := 0; d < g.o.WrapDepth; d++ {
		if !g.r.Chance(30) {
			break
		}
		t = model.ListOf(t)
		if g.r.Chance(35) {
			t = model.NonNull(t)
		}
	}
	return t
}

func (g *gen) inBase() string {
	if len(g.inputs) > 0 && g.r.Chance(30) {
		return g.inputs[g.r.Intn(len(g.inputs))]
	}
	return g.leaf()
}

func (g *gen) wrapIn(t *model.TypeRef) *model.TypeRef {
	if g.r.Chance(25) {
		t = model.NonNull(t)
	}
	for d := 0; d < g.o.WrapDepth; d++ {
		if !g.r.Chance(25) {
			break
		}
		t = model.ListOf(t)
		if g.r.Chance(30) {
			t = model.NonNull(t)
		}
	}
	return t
}

func (g *gen) inputDef(name string) *model.InputDef {
	t := g.wrapIn(model.Named(g.inBase()))
	d := &model.InputDef{Name: name, Type: t, Desc: g.desc("input " + name)}
	if t.Kind != "nonnull" && g.r.Chance(40) {
		d.HasDefault = true
		d.Default = InternalValue(g.r, g.s, t, 2)
		if coerce.Nullish(d.Default) {
			d.HasDefault = false
			d.Default = nil
		}
	}
	return d
}

func (g *gen) fieldDef(name string, allowArgs bool) *model.FieldDef {
	return g.fieldDefOfType(name, g.wrapOut(model.Named(g.outBase())))
}

func (g *gen) fieldDefOfType(name string, t *model.TypeRef) *model.FieldDef {
	f := &model.FieldDef{Name: name, Type: t, Desc: g.desc("field " + name)}
	if g.r.Chance(50) {
		n := g.r.Range(1, g.o.MaxArgs)
		for j := 0; j < n; j++ {
			f.Args = append(f.Args, g.inputDef(fmt.Sprintf("a%d", j)))
		}
	}
	if g.o.Descs && g.r.Chance(15) {
		why := "use something else"
		if g.r.Chance(30) {
			why = ""
		}
		f.Deprecation = &why
	}
	return f
}

// implField is an implementer's version of an interface field: same args,
// same or covariant type.
func (g *gen) implField(f *model.FieldDef) *model.FieldDef {
	nf := &model.FieldDef{Name: f.Name, Type: f.Type, Args: f.Args, Desc: g.desc("impl " + f.Name)}
	if f.Type.Kind != "nonnull" && g.r.Chance(25) {
		nf.Type = model.NonNull(f.Type)
	}
	if g.r.Chance(20) {
		// an extra optional argument is allowed
		extra := g.inputDef("extra")
		if extra.Type.Kind == "nonnull" {
			extra.Type = extra.Type.Of
		}
		nf.Args = append(append([]*model.InputDef{}, f.Args...), extra)
	}
	return nf
}

// InternalValue returns a conformant INTERNAL (coerced) value of type t,
// in fully coerced form (nested defaults applied), or nil.
func InternalValue(r *core.RNG, s *model.Schema, t *model.TypeRef, depth int) interface{} {
	switch t.Kind {
	case "nonnull":
		v := InternalValue(r, s, t.Of, depth)
		return v
	case "list":
		n := r.Range(0, 2)
		if depth <= 0 {
			n = 0
		}
		out := make([]interface{}, 0, n)
		for i := 0; i < n; i++ {
			v := InternalValue(r, s, t.Of, depth-1)
			if v == nil && t.Of.Kind == "nonnull" {
				continue
			}
			out = append(out, v)
		}
		return out
	}
	td := s.Type(t.Name)
	if td == nil {
		return nil
	}
	switch td.Kind {
	case model.Enum:
		return td.Values[r.Intn(len(td.Values))].Internal
	case model.InputObject:
		out := map[string]interface{}{}
		for _, f := range td.InputFields {
			var v interface{}
			if f.Type.Kind == "nonnull" || r.Chance(50) {
				v = InternalValue(r, s, f.Type, depth-1)
			}
			if v == nil && f.HasDefault {
				v = f.Default
			}
			if v == nil && f.Type.Kind == "nonnull" {
				return nil // cannot build a conformant value at this depth
			}
			if v != nil {
				out[f.Name] = v
			}
		}
		return out
	case model.Scalar:
		switch t.Name {
		case "Int":
			return []int{0, 1, -1, 7, 42, 2147483647, -2147483648}[r.Intn(7)]
		case "Float":
			return []float64{0, 1.5, -2.25, 1e10, 3}[r.Intn(5)]
		case "String":
			return []string{"", "s", "hello world", "q\"uote", "line\nbreak", "ünï"}[r.Intn(6)]
		case "Boolean":
			return r.Bool()
		case "ID":
			return []string{"1", "id-2", "0"}[r.Intn(3)]
		case "Tag":
			return coerce.TagPrefix + []string{"x", "y z", ""}[r.Intn(3)]
		}
	}
	return nil
}
