// Package typedoc generates type-directed (mostly valid) executable
// documents over a schema model, as neutral trees, together with what is
// needed to run them: operation names, variable definitions, variable values.
package typedoc

import (
	"fmt"
	"sort"
	"strconv"

	"verif/internal/core"
	"verif/internal/model"
	"verif/internal/nast"
)

type Options struct {
	MaxDepth     int
	MaxWidth     int
	Fragments    int  // number of named fragments to try
	Ops          int  // number of operations (1..)
	DirPct       int  // percent chance of a @skip/@include on a selection
	VarDirPct    int  // of those, percent that are variable-driven
	DupPct       int  // percent chance to repeat a selection (duplicate response key)
	ArgVarPct    int  // percent chance an argument value uses a variable
	Mutation     bool // allow mutation operations
	Typename     bool // allow __typename
	CustomDirs   bool // allow the schema's custom directives
	OnlyMutation bool // every operation is a mutation (when the schema has a mutation root)
}

func DefaultOptions(r *core.RNG) Options {
	return Options{MaxDepth: r.Range(2, 4), MaxWidth: r.Range(2, 4), Fragments: r.Range(0, 4), Ops: r.Range(1, 2),
		DirPct: 25, VarDirPct: 60, DupPct: 25, ArgVarPct: 30, Mutation: true, Typename: true, CustomDirs: true}
}

// VarInfo is a variable of the document-wide pool (a name has one type everywhere).
type VarInfo struct {
	Name string
	Type *model.TypeRef
	Dir  bool // used as the `if` of @skip/@include somewhere
}

// Doc is a generated document.
type Doc struct {
	AST  *nast.Document
	Ops  []*nast.Operation
	Vars map[string]*VarInfo // pool
}

type gen struct {
	r      *core.RNG
	s      *model.Schema
	o      Options
	vars   map[string]*VarInfo
	vorder []string
	frags  []*fragInfo
}

type fragInfo struct {
	def  *nast.Fragment
	cond string
	idx  int
}

func nm(s string) *nast.Name { return &nast.Name{Value: s} }

// Gen generates a document.
func Gen(r *core.RNG, s *model.Schema, o Options) *Doc {
	g := &gen{r: r, s: s, o: o, vars: map[string]*VarInfo{}}
	// declare fragments (bodies generated from the last to the first so a
	// fragment can only spread higher-numbered ones: acyclic)
	var comps []string
	for _, t := range s.Types {
		if t.Kind == model.Object || t.Kind == model.Interface || t.Kind == model.Union {
			if t.Name == s.Mutation {
				continue
			}
			comps = append(comps, t.Name)
		}
	}
	for i := 0; i < o.Fragments; i++ {
		cond := comps[r.Intn(len(comps))]
		if r.Chance(30) {
			cond = s.Query
		}
		g.frags = append(g.frags, &fragInfo{idx: i, cond: cond, def: &nast.Fragment{Name: nm(fmt.Sprintf("F%d", i)), TypeCond: &nast.Named{Name: nm(cond)}}})
	}
	for i := len(g.frags) - 1; i >= 0; i-- {
		f := g.frags[i]
		f.def.Sel = g.selSet(f.cond, r.Range(1, o.MaxDepth), i+1)
	}
	doc := &nast.Document{}
	d := &Doc{AST: doc, Vars: g.vars}
	nops := o.Ops
	if nops < 1 {
		nops = 1
	}
	for i := 0; i < nops; i++ {
		op := &nast.Operation{Op: "query"}
		root := s.Query
		if s.Mutation != "" && (o.OnlyMutation || (o.Mutation && r.Chance(25))) {
			op.Op = "mutation"
			root = s.Mutation
		}
		if nops > 1 || r.Chance(60) {
			op.Name = nm(fmt.Sprintf("Op%d", i))
		} else if op.Op == "query" && r.Chance(50) {
			op.Shorthand = true
		}
		op.Sel = g.selSet(root, o.MaxDepth, 0)
		d.Ops = append(d.Ops, op)
		doc.Defs = append(doc.Defs, op)
	}
	// keep only fragments reachable from some operation
	used := map[string]bool{}
	var visit func(ss *nast.SelectionSet)
	visit = func(ss *nast.SelectionSet) {
		if ss == nil {
			return
		}
		for _, it := range ss.Items {
			switch v := it.(type) {
			case *nast.Field:
				visit(v.Sel)
			case *nast.InlineFragment:
				visit(v.Sel)
			case *nast.FragmentSpread:
				if !used[v.Name.Value] {
					used[v.Name.Value] = true
					for _, f := range g.frags {
						if f.def.Name.Value == v.Name.Value {
							visit(f.def.Sel)
						}
					}
				}
			}
		}
	}
	for _, op := range d.Ops {
		visit(op.Sel)
	}
	for _, f := range g.frags {
		if used[f.def.Name.Value] {
			doc.Defs = append(doc.Defs, f.def)
		}
	}
	// variable definitions: exactly the variables used in each operation's scope
	for _, op := range d.Ops {
		names := UsedVars(doc, op)
		if op.Shorthand && len(names) > 0 {
			op.Shorthand = false
		}
		for _, n := range names {
			vi := g.vars[n]
			vd := &nast.VarDef{Var: &nast.Variable{Name: nm(n)}, Type: TypeNode(vi.Type)}
			if vi.Type.Kind != "nonnull" && r.Chance(30) {
				if dv := g.literal(vi.Type, 2, false); dv != nil {
					vd.Default = dv
				}
			}
			op.Vars = append(op.Vars, vd)
		}
	}
	return d
}

// TypeNode converts a model type to a type node.
func TypeNode(t *model.TypeRef) nast.Node {
	switch t.Kind {
	case "list":
		return &nast.List{Of: TypeNode(t.Of)}
	case "nonnull":
		return &nast.NonNull{Of: TypeNode(t.Of)}
	}
	return &nast.Named{Name: nm(t.Name)}
}

// UsedVars lists, sorted, the variables used in an operation including
// through fragment spreads.
func UsedVars(doc *nast.Document, op *nast.Operation) []string {
	frags := map[string]*nast.Fragment{}
	for _, d := range doc.Defs {
		if f, ok := d.(*nast.Fragment); ok {
			frags[f.Name.Value] = f
		}
	}
	seen := map[string]bool{}
	visited := map[string]bool{}
	var val func(n nast.Node)
	val = func(n nast.Node) {
		switch v := n.(type) {
		case *nast.Variable:
			seen[v.Name.Value] = true
		case *nast.ListValue:
			for _, it := range v.Items {
				val(it)
			}
		case *nast.ObjectValue:
			for _, f := range v.Fields {
				val(f.Value)
			}
		}
	}
	dirs := func(ds []*nast.Directive) {
		for _, d := range ds {
			for _, a := range d.Args {
				val(a.Value)
			}
		}
	}
	var sel func(ss *nast.SelectionSet)
	sel = func(ss *nast.SelectionSet) {
		if ss == nil {
			return
		}
		for _, it := range ss.Items {
			switch v := it.(type) {
			case *nast.Field:
				for _, a := range v.Args {
					val(a.Value)
				}
				dirs(v.Directives)
				sel(v.Sel)
			case *nast.InlineFragment:
				dirs(v.Directives)
				sel(v.Sel)
			case *nast.FragmentSpread:
				dirs(v.Directives)
				if f := frags[v.Name.Value]; f != nil && !visited[v.Name.Value] {
					visited[v.Name.Value] = true
					dirs(f.Directives)
					sel(f.Sel)
				}
			}
		}
	}
	dirs(op.Directives)
	sel(op.Sel)
	var out []string
	for n := range seen {
		out = append(out, n)
	}
	sort.Strings(out)
	return out
}

func (g *gen) overlap(a, b string) bool {
	pa := g.s.PossibleTypes(a)
	pb := g.s.PossibleTypes(b)
	for _, x := range pa {
		for _, y := range pb {
			if x == y {
				return true
			}
		}
	}
	return false
}

// varFor returns a pool variable of exactly type t (creating one).
func (g *gen) varFor(t *model.TypeRef, dir bool) *nast.Variable {
	var cands []string
	for _, n := range g.vorder {
		if g.vars[n].Type.Equal(t) {
			cands = append(cands, n)
		}
	}
	if len(cands) > 0 && g.r.Chance(60) {
		n := cands[g.r.Intn(len(cands))]
		if dir {
			g.vars[n].Dir = true
		}
		return &nast.Variable{Name: nm(n)}
	}
	n := "v" + strconv.Itoa(len(g.vorder))
	g.vars[n] = &VarInfo{Name: n, Type: t, Dir: dir}
	g.vorder = append(g.vorder, n)
	return &nast.Variable{Name: nm(n)}
}

func (g *gen) directives() []*nast.Directive {
	var out []*nast.Directive
	if !g.r.Chance(g.o.DirPct) {
		return nil
	}
	mk := func(name string) *nast.Directive {
		var v nast.Node
		if g.r.Chance(g.o.VarDirPct) {
			v = g.varFor(model.NonNull(model.Named("Boolean")), true)
		} else {
			v = &nast.BooleanValue{Value: g.r.Bool()}
		}
		return &nast.Directive{Name: nm(name), Args: []*nast.Argument{{Name: nm("if"), Value: v}}}
	}
	switch g.r.Intn(5) {
	case 0, 1:
		out = append(out, mk("skip"))
	case 2, 3:
		out = append(out, mk("include"))
	default:
		out = append(out, mk("skip"), mk("include"))
		if g.r.Bool() {
			out[0], out[1] = out[1], out[0]
		}
	}
	return out
}

// selSet generates a non-empty selection set for a composite parent type.
// Fragments with index >= minFrag may be spread.
func (g *gen) selSet(parent string, depth int, minFrag int) *nast.SelectionSet {
	ss := &nast.SelectionSet{}
	td := g.s.Type(parent)
	n := g.r.Range(1, g.o.MaxWidth)
	for i := 0; i < n; i++ {
		g.addSelection(ss, td, depth, minFrag)
	}
	if len(ss.Items) == 0 {
		ss.Items = append(ss.Items, &nast.Field{Name: nm("__typename")})
	}
	// duplicates: repeat an existing selection (same key), possibly with another sub-selection / directive
	if g.r.Chance(g.o.DupPct) {
		src := ss.Items[g.r.Intn(len(ss.Items))]
		if dup := g.duplicate(src, td, depth, minFrag); dup != nil {
			at := g.r.Intn(len(ss.Items) + 1)
			ss.Items = append(ss.Items, nil)
			copy(ss.Items[at+1:], ss.Items[at:])
			ss.Items[at] = dup
		}
	}
	return ss
}

func (g *gen) duplicate(src nast.Node, td *model.TypeDef, depth, minFrag int) nast.Node {
	switch v := src.(type) {
	case *nast.Field:
		f := &nast.Field{Name: nm(v.Name.Value), Directives: g.directives()}
		if v.Alias != nil {
			f.Alias = nm(v.Alias.Value)
		}
		f.Args = cloneArgs(v.Args)
		if v.Sel != nil {
			fd := td.Field(v.Name.Value)
			if fd == nil {
				return nil
			}
			f.Sel = g.selSet(fd.Type.Base(), depth-1, minFrag)
		}
		return f
	case *nast.FragmentSpread:
		return &nast.FragmentSpread{Name: nm(v.Name.Value), Directives: g.directives()}
	}
	return nil
}

func cloneArgs(as []*nast.Argument) []*nast.Argument {
	var out []*nast.Argument
	for _, a := range as {
		out = append(out, &nast.Argument{Name: nm(a.Name.Value), Value: CloneValue(a.Value)})
	}
	return out
}

// CloneValue deep-copies a value node.
func CloneValue(n nast.Node) nast.Node {
	switch v := n.(type) {
	case *nast.Variable:
		return &nast.Variable{Name: nm(v.Name.Value)}
	case *nast.IntValue:
		c := *v
		return &c
	case *nast.FloatValue:
		c := *v
		return &c
	case *nast.StringValue:
		c := *v
		return &c
	case *nast.BooleanValue:
		c := *v
		return &c
	case *nast.EnumValue:
		c := *v
		return &c
	case *nast.ListValue:
		c := &nast.ListValue{}
		for _, it := range v.Items {
			c.Items = append(c.Items, CloneValue(it))
		}
		return c
	case *nast.ObjectValue:
		c := &nast.ObjectValue{}
		for _, f := range v.Fields {
			c.Fields = append(c.Fields, &nast.ObjectField{Name: nm(f.Name.Value), Value: CloneValue(f.Value)})
		}
		return c
	}
	return nil
}

func (g *gen) addSelection(ss *nast.SelectionSet, td *model.TypeDef, depth, minFrag int) {
	r := g.r
	parent := td.Name
	x := r.Intn(100)
	switch {
	case x < 12 && minFrag < len(g.frags):
		// named fragment spread whose type condition can apply here
		var cands []*fragInfo
		for _, f := range g.frags[minFrag:] {
			if g.overlap(parent, f.cond) {
				cands = append(cands, f)
			}
		}
		if len(cands) > 0 {
			f := cands[r.Intn(len(cands))]
			ss.Items = append(ss.Items, &nast.FragmentSpread{Name: nm(f.def.Name.Value), Directives: g.directives()})
			return
		}
		fallthrough
	case x < 27 && depth > 0:
		// inline fragment, with or without type condition
		inf := &nast.InlineFragment{Directives: g.directives()}
		cond := parent
		if r.Chance(70) {
			// any composite type overlapping the parent
			var cands []string
			for _, t := range g.s.Types {
				if (t.Kind == model.Object || t.Kind == model.Interface || t.Kind == model.Union) && g.overlap(parent, t.Name) {
					cands = append(cands, t.Name)
				}
			}
			if len(cands) > 0 {
				cond = cands[r.Intn(len(cands))]
				inf.TypeCond = &nast.Named{Name: nm(cond)}
			}
		}
		inf.Sel = g.selSet(cond, depth-1, minFrag)
		ss.Items = append(ss.Items, inf)
		return
	}
	if td.Kind == model.Union || len(td.Fields) == 0 {
		if g.o.Typename {
			ss.Items = append(ss.Items, &nast.Field{Name: nm("__typename"), Directives: g.directives()})
		}
		return
	}
	if g.o.Typename && r.Chance(8) {
		f := &nast.Field{Name: nm("__typename"), Directives: g.directives()}
		if r.Chance(30) {
			f.Alias = nm("tn")
		}
		ss.Items = append(ss.Items, f)
		return
	}
	// a field
	var cands []*model.FieldDef
	for _, f := range td.Fields {
		if depth <= 0 && !g.s.IsLeaf(f.Type.Base()) {
			continue
		}
		cands = append(cands, f)
	}
	if len(cands) == 0 {
		return
	}
	fd := cands[r.Intn(len(cands))]
	f := &nast.Field{Name: nm(fd.Name), Directives: g.directives()}
	argText := ""
	for _, a := range fd.Args {
		need := a.Type.Kind == "nonnull" && !a.HasDefault
		if need || r.Chance(60) {
			var v nast.Node
			if r.Chance(g.o.ArgVarPct) {
				v = g.varFor(a.Type, false)
			} else {
				v = g.literal(a.Type, 3, true)
			}
			if v == nil {
				if need {
					v = g.varFor(a.Type, false)
				} else {
					continue
				}
			}
			f.Args = append(f.Args, &nast.Argument{Name: nm(a.Name), Value: v})
			argText += a.Name + ":" + nast.PrintValue(v) + ","
		}
	}
	if r.Chance(30) && len(f.Args) > 1 {
		// argument order is irrelevant
		f.Args[0], f.Args[len(f.Args)-1] = f.Args[len(f.Args)-1], f.Args[0]
	}
	// the response key identifies (field, arguments): alias derived from both
	if argText != "" {
		f.Alias = nm(fmt.Sprintf("%s_%x", fd.Name, core.HashString(sortedArgText(f.Args))&0xffff))
	} else if r.Chance(20) {
		f.Alias = nm("k_" + fd.Name)
	}
	if !g.s.IsLeaf(fd.Type.Base()) {
		f.Sel = g.selSet(fd.Type.Base(), depth-1, minFrag)
	}
	ss.Items = append(ss.Items, f)
}

func sortedArgText(as []*nast.Argument) string {
	var parts []string
	for _, a := range as {
		parts = append(parts, a.Name.Value+":"+nast.PrintValue(a.Value))
	}
	sort.Strings(parts)
	out := ""
	for _, p := range parts {
		out += p + ","
	}
	return out
}

// literal generates a conformant literal for input type t (nil = omit).
func (g *gen) literal(t *model.TypeRef, depth int, allowVars bool) nast.Node {
	r := g.r
	if allowVars && r.Chance(g.o.ArgVarPct/3) {
		return g.varFor(t, false)
	}
	switch t.Kind {
	case "nonnull":
		return g.literal(t.Of, depth, allowVars)
	case "list":
		if r.Chance(15) && t.Of.Kind != "list" {
			// list-of-one: a bare item where a list is expected
			if v := g.literal(t.Of, depth-1, allowVars); v != nil {
				if _, isVar := v.(*nast.Variable); !isVar {
					return v
				}
			}
		}
		lv := &nast.ListValue{}
		n := r.Range(0, 3)
		if depth <= 0 {
			n = 0
		}
		for i := 0; i < n; i++ {
			if v := g.literal(t.Of, depth-1, allowVars && t.Of.Kind != "nonnull"); v != nil {
				lv.Items = append(lv.Items, v)
			}
		}
		return lv
	}
	td := g.s.Type(t.Name)
	if td == nil {
		return nil
	}
	switch td.Kind {
	case model.Enum:
		return &nast.EnumValue{Value: td.Values[r.Intn(len(td.Values))].Name}
	case model.InputObject:
		ov := &nast.ObjectValue{}
		for _, f := range td.InputFields {
			need := f.Type.Kind == "nonnull"
			if need || (depth > 0 && r.Chance(55)) {
				v := g.literal(f.Type, depth-1, allowVars && !need)
				if v == nil {
					if need {
						return nil
					}
					continue
				}
				ov.Fields = append(ov.Fields, &nast.ObjectField{Name: nm(f.Name), Value: v})
			}
		}
		if r.Chance(30) && len(ov.Fields) > 1 {
			ov.Fields[0], ov.Fields[len(ov.Fields)-1] = ov.Fields[len(ov.Fields)-1], ov.Fields[0]
		}
		return ov
	case model.Scalar:
		switch t.Name {
		case "Int":
			return &nast.IntValue{Raw: []string{"0", "1", "-1", "42", "2147483647", "-2147483648", "123456"}[r.Intn(7)]}
		case "Float":
			return []nast.Node{&nast.FloatValue{Raw: "1.5"}, &nast.FloatValue{Raw: "-0.25"}, &nast.FloatValue{Raw: "1e3"}, &nast.IntValue{Raw: "7"}, &nast.FloatValue{Raw: "2.5E-2"}}[r.Intn(5)]
		case "String":
			return &nast.StringValue{Value: []string{"", "abc", "with space", "q\"uote\\back", "tab\there", "ünïcödé", "new\nline"}[r.Intn(7)]}
		case "Boolean":
			return &nast.BooleanValue{Value: r.Bool()}
		case "ID":
			if r.Bool() {
				return &nast.IntValue{Raw: strconv.Itoa(r.Intn(100))}
			}
			return &nast.StringValue{Value: "id-" + strconv.Itoa(r.Intn(100))}
		case "Tag":
			return &nast.StringValue{Value: []string{"x", "tag me", ""}[r.Intn(3)]}
		}
	}
	return nil
}

// VarValue generates a conformant JSON-like runtime value for a variable of
// type t (nil = leave absent). JSON shapes: float64 or int for numbers.
func VarValue(r *core.RNG, s *model.Schema, t *model.TypeRef, depth int) interface{} {
	switch t.Kind {
	case "nonnull":
		return VarValue(r, s, t.Of, depth)
	case "list":
		if r.Chance(12) && t.Of.Kind != "list" {
			return VarValue(r, s, t.Of, depth-1) // list-of-one
		}
		n := r.Range(0, 3)
		if depth <= 0 {
			n = 0
		}
		out := []interface{}{}
		for i := 0; i < n; i++ {
			v := VarValue(r, s, t.Of, depth-1)
			if v == nil && t.Of.Kind == "nonnull" {
				continue
			}
			out = append(out, v)
		}
		return out
	}
	td := s.Type(t.Name)
	if td == nil {
		return nil
	}
	switch td.Kind {
	case model.Enum:
		return td.Values[r.Intn(len(td.Values))].Name
	case model.InputObject:
		out := map[string]interface{}{}
		for _, f := range td.InputFields {
			need := f.Type.Kind == "nonnull"
			if need || (depth > 0 && r.Chance(55)) {
				v := VarValue(r, s, f.Type, depth-1)
				if v == nil {
					if need {
						return nil
					}
					continue
				}
				out[f.Name] = v
			}
		}
		return out
	case model.Scalar:
		switch t.Name {
		case "Int":
			if r.Bool() {
				return float64([]int{0, 5, -3, 2147483647, -2147483648}[r.Intn(5)]) // as decoded by encoding/json
			}
			return []int{0, 9, -8, 1000}[r.Intn(4)]
		case "Float":
			if r.Chance(30) {
				return r.Intn(100)
			}
			return []float64{0.5, -1.25, 3, 1e6}[r.Intn(4)]
		case "String":
			return []string{"", "var string", "v\"q", "ü"}[r.Intn(4)]
		case "Boolean":
			return r.Bool()
		case "ID":
			if r.Chance(30) {
				return r.Intn(1000)
			}
			return "vid" + strconv.Itoa(r.Intn(100))
		case "Tag":
			return []string{"vt", "v t"}[r.Intn(2)]
		}
	}
	return nil
}

// Assignment generates variable values for an operation. Directive
// variables (Boolean!) are taken from bits; the others are conformant values
// (nullable ones sometimes absent).
func Assignment(r *core.RNG, s *model.Schema, d *Doc, op *nast.Operation, bits uint64) map[string]interface{} {
	out := map[string]interface{}{}
	bi := 0
	for _, vd := range op.Vars {
		n := vd.Var.Name.Value
		vi := d.Vars[n]
		if vi.Type.Kind == "nonnull" && vi.Type.Of.Kind == "named" && vi.Type.Of.Name == "Boolean" {
			out[n] = bits&(1<<uint(bi)) != 0
			bi++
			continue
		}
		if vi.Type.Kind != "nonnull" && r.Chance(30) {
			continue // absent: default or null
		}
		v := VarValue(r, s, vi.Type, 3)
		if v == nil && vi.Type.Kind == "nonnull" {
			// could not build (depth); give the simplest conformant shape
			v = VarValue(r, s, vi.Type, 6)
		}
		if v != nil {
			out[n] = v
		}
	}
	return out
}

// BoolVars counts the Boolean! variables of an operation.
func BoolVars(d *Doc, op *nast.Operation) int {
	n := 0
	for _, vd := range op.Vars {
		vi := d.Vars[vd.Var.Name.Value]
		if vi.Type.Kind == "nonnull" && vi.Type.Of.Kind == "named" && vi.Type.Of.Name == "Boolean" {
			n++
		}
	}
	return n
}
