package invaliddoc

import (
	"testing"

	"verif/internal/core"
	"verif/internal/gen/schemagen"
	"verif/internal/gen/typedoc"
	"verif/internal/nast"
	"verif/internal/ref/syntax"
	"verif/internal/ref/validate"
)

// Every operator must (a) be deterministic for a given RNG stream, (b) yield
// text the reference parser accepts, (c) break its target rule (by the
// reference) in at least one of the tried documents; near misses must keep
// valid documents valid.
func TestOperators(t *testing.T) {
	hit := make([]int, len(Operators))
	tried := make([]int, len(Operators))
	for si := 0; si < 6; si++ {
		sr := core.NewRNG(uint64(100 + si))
		opts := schemagen.DefaultOptions(sr)
		opts.Descs = true
		m := schemagen.Gen(sr, opts)
		for di := 0; di < 40; di++ {
			dr := core.NewRNG(uint64(si*1000 + di))
			d := typedoc.Gen(dr, m, typedoc.DefaultOptions(dr))
			nast.Print(d.AST)
			if v, _ := validate.Valid(validate.Decide(m, d.AST)); !v {
				continue
			}
			for op := range Operators {
				r1, ok := Apply(core.NewRNG(uint64(op)).Derive(uint64(di)), m, d.AST, op)
				if !ok {
					continue
				}
				r2, _ := Apply(core.NewRNG(uint64(op)).Derive(uint64(di)), m, d.AST, op)
				t1, t2 := nast.Print(r1.Doc), nast.Print(r2.Doc)
				if t1 != t2 {
					t.Fatalf("operator %s is not deterministic", Operators[op].Name)
				}
				if _, err := syntax.Parse([]byte(t1)); err != nil {
					t.Fatalf("operator %s produced text the reference parser rejects (%s): %s", Operators[op].Name, err.Msg, t1)
				}
				tried[op]++
				res := validate.Decide(m, r1.Doc)
				if Operators[op].KeepsValid {
					if v, _ := validate.Valid(res); v {
						hit[op]++
					} else {
						t.Errorf("near miss %s made the document invalid (%v): %s\n%s", Operators[op].Name, validate.ViolatedRules(res), r1.Note, t1)
					}
				} else if res[Operators[op].Rule].Must {
					hit[op]++
				}
			}
		}
	}
	for op, o := range Operators {
		if tried[op] == 0 {
			t.Errorf("operator %s never found a site", o.Name)
		} else if hit[op] == 0 {
			t.Errorf("operator %s never broke %s (%d tries)", o.Name, o.Rule, tried[op])
		} else if hit[op]*10 < tried[op]*8 {
			t.Logf("operator %s: %d/%d on target", o.Name, hit[op], tried[op])
		}
	}
}

func TestFamily(t *testing.T) {
	if FamilySize(0) != 30 || FamilySize(1) != 42*42 || FamilySize(2) != 56*56*56 {
		t.Fatalf("family sizes: %d %d %d", FamilySize(0), FamilySize(1), FamilySize(2))
	}
	seen := map[string]bool{}
	for i := uint64(0); i < FamilySize(1); i++ {
		text := FamilyDoc(1, i)
		if seen[text] {
			t.Fatalf("duplicate family document %q", text)
		}
		seen[text] = true
		if _, err := syntax.Parse([]byte(text)); err != nil {
			t.Fatalf("%q: %s", text, err.Msg)
		}
	}
	if FamilyDoc(2, 7*56*56+8*56+0) != "{ x: a }\nfragment F on Q { x: a x: b }\nfragment G on Q { x: a x: a }" {
		t.Fatalf("unexpected %q", FamilyDoc(2, 7*56*56+8*56+0))
	}
}
