package invaliddoc

import (
	"fmt"

	"verif/internal/core"
	"verif/internal/model"
	"verif/internal/nast"
)

// The overlap operators plant two fields with one response key that cannot
// be merged — differing in field name, in arguments, or in response shape —
// at depth d below a selection set (d merged composite fields deep), with the
// second one reached through a chain of k new fragments that starts at level
// j of the path:
//
//	S { ov_p0: f0 { ov_p1: f1 { ov_x: LEFT } } }          the first, written out
//	S { ov_p0: f0 { ...Ov_0 } }                           the second: down to level j, then
//	fragment Ov_0 on T1 { ...Ov_1 }                       k fragments,
//	fragment Ov_1 on T1 { ov_p1: f1 { ov_x: RIGHT } }     the last one holding the rest
//
// "exclusive" plants the near miss that must stay valid: fields of different
// names under different object types.

func noRequiredArgs(fd *model.FieldDef) bool {
	for _, a := range fd.Args {
		if a.Type.Kind == "nonnull" {
			return false
		}
	}
	return true
}

// pathFrom finds d composite fields leading down from type t.
func pathFrom(r *core.RNG, s *model.Schema, t string, d int) ([]*model.FieldDef, string, bool) {
	if d == 0 {
		return nil, t, true
	}
	td := s.Type(t)
	if td == nil || (td.Kind != model.Object && td.Kind != model.Interface) {
		return nil, "", false
	}
	var c []*model.FieldDef
	for _, fd := range td.Fields {
		if s.IsComposite(fd.Type.Base()) && noRequiredArgs(fd) {
			c = append(c, fd)
		}
	}
	for _, i := range r.Perm(len(c)) {
		if rest, end, ok := pathFrom(r, s, c[i].Type.Base(), d-1); ok {
			return append([]*model.FieldDef{c[i]}, rest...), end, true
		}
	}
	return nil, "", false
}

type leafPair struct {
	left, right []nast.Node // selections to plant at the end of the path
	note        string
}

func shapeOf(t *model.TypeRef) string { return t.String() }

func simpleLiterals(s *model.Schema, t *model.TypeRef) (nast.Node, nast.Node) {
	if t.Kind == "nonnull" {
		t = t.Of
	}
	if t.Kind != "named" {
		return nil, nil
	}
	td := s.Type(t.Name)
	if td == nil {
		return nil, nil
	}
	switch td.Kind {
	case model.Enum:
		if len(td.Values) >= 2 {
			return &nast.EnumValue{Value: td.Values[0].Name}, &nast.EnumValue{Value: td.Values[1].Name}
		}
	case model.Scalar:
		switch t.Name {
		case "Int", "Float", "ID":
			return &nast.IntValue{Raw: "1"}, &nast.IntValue{Raw: "2"}
		case "Boolean":
			return &nast.BooleanValue{Value: true}, &nast.BooleanValue{Value: false}
		default:
			return &nast.StringValue{Value: "one"}, &nast.StringValue{Value: "two"}
		}
	}
	return nil, nil
}

func fieldSel(s *model.Schema, alias string, fd *model.FieldDef, args []*nast.Argument) *nast.Field {
	f := &nast.Field{Alias: nm(alias), Name: nm(fd.Name), Args: args}
	if s.IsComposite(fd.Type.Base()) {
		f.Sel = typenameSel()
	}
	return f
}

// leavesFor builds the two conflicting (or, for "exclusive", compatible) ends.
func leavesFor(r *core.RNG, s *model.Schema, kind, end string) (*leafPair, bool) {
	td := s.Type(end)
	if td == nil {
		return nil, false
	}
	switch kind {
	case "name":
		var c []*model.FieldDef
		for _, fd := range td.Fields {
			if noRequiredArgs(fd) {
				c = append(c, fd)
			}
		}
		if td.Kind == model.Union || len(c) == 0 {
			return nil, false
		}
		a := c[r.Intn(len(c))]
		// against another field, or against __typename
		var others []*model.FieldDef
		for _, fd := range c {
			if fd != a {
				others = append(others, fd)
			}
		}
		if len(others) == 0 || r.Chance(15) {
			return &leafPair{left: []nast.Node{fieldSel(s, "ov_x", a, nil)}, right: []nast.Node{&nast.Field{Alias: nm("ov_x"), Name: nm("__typename")}},
				note: fmt.Sprintf("ov_x: %s / ov_x: __typename on %s", a.Name, end)}, true
		}
		b := others[r.Intn(len(others))]
		return &leafPair{left: []nast.Node{fieldSel(s, "ov_x", a, nil)}, right: []nast.Node{fieldSel(s, "ov_x", b, nil)},
			note: fmt.Sprintf("ov_x: %s / ov_x: %s on %s", a.Name, b.Name, end)}, true
	case "args":
		type cand struct {
			fd *model.FieldDef
			a  *model.InputDef
		}
		var c []cand
		if td.Kind == model.Union {
			return nil, false
		}
		for _, fd := range td.Fields {
			for _, a := range fd.Args {
				// every other argument must be optional
				ok := true
				for _, o := range fd.Args {
					if o != a && o.Type.Kind == "nonnull" {
						ok = false
					}
				}
				if v1, _ := simpleLiterals(s, a.Type); ok && v1 != nil {
					c = append(c, cand{fd, a})
				}
			}
		}
		if len(c) == 0 {
			return nil, false
		}
		x := c[r.Intn(len(c))]
		v1, v2 := simpleLiterals(s, x.a.Type)
		l := fieldSel(s, "ov_x", x.fd, []*nast.Argument{{Name: nm(x.a.Name), Value: v1}})
		var rt *nast.Field
		if x.a.Type.Kind != "nonnull" && r.Chance(35) {
			rt = fieldSel(s, "ov_x", x.fd, nil) // present versus absent
		} else {
			rt = fieldSel(s, "ov_x", x.fd, []*nast.Argument{{Name: nm(x.a.Name), Value: v2}})
		}
		return &leafPair{left: []nast.Node{l}, right: []nast.Node{rt}, note: fmt.Sprintf("ov_x: %s(%s: ...) with differing arguments on %s", x.fd.Name, x.a.Name, end)}, true
	case "shape", "exclusive":
		// two different object types possible at `end`
		poss := s.PossibleTypes(end)
		if len(poss) < 2 {
			return nil, false
		}
		type cand struct {
			o1, o2 string
			f1, f2 *model.FieldDef
		}
		var c []cand
		for _, o1 := range poss {
			for _, o2 := range poss {
				if o1 == o2 {
					continue
				}
				for _, f1 := range s.Type(o1).Fields {
					for _, f2 := range s.Type(o2).Fields {
						if !noRequiredArgs(f1) || !noRequiredArgs(f2) || !s.IsLeaf(f1.Type.Base()) || !s.IsLeaf(f2.Type.Base()) {
							continue
						}
						same := shapeOf(f1.Type) == shapeOf(f2.Type)
						if kind == "shape" && !same {
							c = append(c, cand{o1, o2, f1, f2})
						}
						if kind == "exclusive" && same && f1.Name != f2.Name {
							c = append(c, cand{o1, o2, f1, f2})
						}
					}
				}
			}
		}
		if len(c) == 0 {
			return nil, false
		}
		x := c[r.Intn(len(c))]
		mk := func(o string, fd *model.FieldDef) nast.Node {
			return &nast.InlineFragment{TypeCond: &nast.Named{Name: nm(o)}, Sel: &nast.SelectionSet{Items: []nast.Node{fieldSel(s, "ov_x", fd, nil)}}}
		}
		return &leafPair{left: []nast.Node{mk(x.o1, x.f1)}, right: []nast.Node{mk(x.o2, x.f2)},
			note: fmt.Sprintf("... on %s { ov_x: %s (%s) } / ... on %s { ov_x: %s (%s) } inside %s", x.o1, x.f1.Name, x.f1.Type, x.o2, x.f2.Name, x.f2.Type, end)}, true
	}
	return nil, false
}

// nest wraps items in the path fields path[from:].
func nest(path []*model.FieldDef, from int, items []nast.Node) []nast.Node {
	for i := len(path) - 1; i >= from; i-- {
		items = []nast.Node{&nast.Field{Alias: nm("ov_p" + itoa(i)), Name: nm(path[i].Name), Sel: &nast.SelectionSet{Items: items}}}
	}
	return items
}

func overlapOp(kind string) func(r *core.RNG, st *sites) (string, bool) {
	return func(r *core.RNG, st *sites) (string, bool) {
		var cs []*selSite
		for _, s := range st.sels {
			if s.parent != "" {
				cs = append(cs, s)
			}
		}
		if len(cs) == 0 {
			return "", false
		}
		// several attempts with decreasing ambition
		for attempt := 0; attempt < 8; attempt++ {
			s := cs[r.Intn(len(cs))]
			d := r.Range(0, 3)
			if attempt >= 4 {
				d = r.Range(0, 1)
			}
			path, end, ok := pathFrom(r, st.s, s.parent, d)
			if !ok {
				continue
			}
			lp, ok := leavesFor(r, st.s, kind, end)
			if !ok {
				continue
			}
			k := r.Range(0, 3)
			j := r.Range(0, len(path))
			// type at level j
			tj := s.parent
			if j > 0 {
				tj = path[j-1].Type.Base()
			}
			left := nest(path, 0, lp.left)
			var right []nast.Node
			if k == 0 {
				right = nest(path, 0, lp.right)
			} else {
				base := st.freshFragName("Ov")
				names := make([]string, k)
				for i := range names {
					names[i] = base + "_" + itoa(i)
				}
				right = nest(path[:j], 0, []nast.Node{&nast.FragmentSpread{Name: nm(names[0])}})
				for i := 0; i < k; i++ {
					f := &nast.Fragment{Name: nm(names[i]), TypeCond: &nast.Named{Name: nm(tj)}}
					if i < k-1 {
						f.Sel = &nast.SelectionSet{Items: []nast.Node{&nast.FragmentSpread{Name: nm(names[i+1])}}}
						if r.Chance(30) {
							f.Sel.Items = append([]nast.Node{&nast.Field{Name: nm("__typename")}}, f.Sel.Items...)
						}
					} else {
						f.Sel = &nast.SelectionSet{Items: nest(path, j, lp.right)}
					}
					st.doc.Defs = append(st.doc.Defs, f)
				}
			}
			// the second may also sit inside an inline fragment without condition
			if r.Chance(20) {
				right = []nast.Node{&nast.InlineFragment{Sel: &nast.SelectionSet{Items: right}}}
			}
			if r.Bool() {
				left, right = right, left
			}
			for _, it := range left {
				insertItem(r, s.ss, it)
			}
			s.ss.Items = append(s.ss.Items, right...)
			return fmt.Sprintf("%s: %s; depth %d, %d fragments from level %d, in a selection set on %s", kind, lp.note, len(path), k, j, s.parent), true
		}
		return "", false
	}
}
