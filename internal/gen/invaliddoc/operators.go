package invaliddoc

import (
	"fmt"
	"sort"

	"verif/internal/core"
	"verif/internal/model"
	"verif/internal/nast"
)

// Operator is one rule-targeted mutation.
type Operator struct {
	Name string
	// Rule is the validation rule (name as in ref/validate) the operator is
	// meant to break; "" for operators that must keep the document valid.
	Rule string
	// KeepsValid: the mutation is a near miss that must NOT make a valid
	// document invalid (e.g. default-value widening).
	KeepsValid bool
	apply      func(r *core.RNG, st *sites) (note string, ok bool)
}

// Result of applying an operator.
type Result struct {
	Doc      *nast.Document
	Operator string
	Rule     string
	Note     string // what was done, for samples
}

// Operators is the fixed, ordered list of mutation operators (index addressable).
var Operators = []*Operator{
	{Name: "unknown-field", Rule: "FieldsOnCorrectType", apply: opUnknownField},
	{Name: "field-of-other-type", Rule: "FieldsOnCorrectType", apply: opFieldOfOtherType},
	{Name: "unknown-argument", Rule: "KnownArgumentNames", apply: opUnknownArgument},
	{Name: "unknown-directive-argument", Rule: "KnownArgumentNames", apply: opUnknownDirectiveArgument},
	{Name: "unknown-type-variable", Rule: "KnownTypeNames", apply: opUnknownTypeVariable},
	{Name: "unknown-type-condition", Rule: "KnownTypeNames", apply: opUnknownTypeCondition},
	{Name: "unknown-directive", Rule: "KnownDirectives", apply: opUnknownDirective},
	{Name: "misplaced-directive", Rule: "KnownDirectives", apply: opMisplacedDirective},
	{Name: "unknown-fragment", Rule: "KnownFragmentNames", apply: opUnknownFragment},
	{Name: "wrong-literal", Rule: "ArgumentsOfCorrectType", apply: opWrongLiteral},
	{Name: "wrong-literal-deep", Rule: "ArgumentsOfCorrectType", apply: opWrongLiteralDeep},
	{Name: "input-object-unknown-field", Rule: "ArgumentsOfCorrectType", apply: opInputUnknownField},
	{Name: "input-object-missing-field", Rule: "ArgumentsOfCorrectType", apply: opInputMissingField},
	{Name: "int-out-of-range", Rule: "ArgumentsOfCorrectType", apply: opIntOutOfRange},
	{Name: "missing-required-argument", Rule: "ProvidedNonNullArguments", apply: opMissingRequiredArgument},
	{Name: "missing-directive-argument", Rule: "ProvidedNonNullArguments", apply: opMissingDirectiveArgument},
	{Name: "undefined-variable", Rule: "NoUndefinedVariables", apply: opUndefinedVariable},
	{Name: "undefined-variable-in-fragment", Rule: "NoUndefinedVariables", apply: opUndefinedVariableInFragment},
	{Name: "unused-variable", Rule: "NoUnusedVariables", apply: opUnusedVariable},
	{Name: "duplicate-variable", Rule: "UniqueVariableNames", apply: opDuplicateVariable},
	{Name: "variable-nullability", Rule: "VariablesInAllowedPosition", apply: opVariableNullability},
	{Name: "variable-listness", Rule: "VariablesInAllowedPosition", apply: opVariableListness},
	{Name: "variable-base-type", Rule: "VariablesInAllowedPosition", apply: opVariableBaseType},
	{Name: "variable-default-widening", KeepsValid: true, apply: opVariableDefaultWidening},
	{Name: "non-input-variable-type", Rule: "VariablesAreInputTypes", apply: opNonInputVariableType},
	{Name: "default-wrong-type", Rule: "DefaultValuesOfCorrectType", apply: opDefaultWrongType},
	{Name: "default-on-non-null", Rule: "DefaultValuesOfCorrectType", apply: opDefaultOnNonNull},
	{Name: "fragment-cycle-1", Rule: "NoFragmentCycles", apply: cycleOp(1)},
	{Name: "fragment-cycle-2", Rule: "NoFragmentCycles", apply: cycleOp(2)},
	{Name: "fragment-cycle-3", Rule: "NoFragmentCycles", apply: cycleOp(3)},
	{Name: "fragment-cycle-4", Rule: "NoFragmentCycles", apply: cycleOp(4)},
	{Name: "fragment-cycle-existing", Rule: "NoFragmentCycles", apply: opCycleExisting},
	{Name: "fragment-cycle-through-field", Rule: "NoFragmentCycles", apply: opCycleThroughField},
	{Name: "unused-fragment", Rule: "NoUnusedFragments", apply: opUnusedFragment},
	{Name: "duplicate-fragment", Rule: "UniqueFragmentNames", apply: opDuplicateFragment},
	{Name: "impossible-inline-spread", Rule: "PossibleFragmentSpreads", apply: opImpossibleInline},
	{Name: "impossible-named-spread", Rule: "PossibleFragmentSpreads", apply: opImpossibleNamed},
	{Name: "fragment-on-non-composite", Rule: "FragmentsOnCompositeTypes", apply: opFragmentOnNonComposite},
	{Name: "inline-on-non-composite", Rule: "FragmentsOnCompositeTypes", apply: opInlineOnNonComposite},
	{Name: "leaf-with-selection", Rule: "ScalarLeafs", apply: opLeafWithSelection},
	{Name: "composite-without-selection", Rule: "ScalarLeafs", apply: opCompositeWithoutSelection},
	{Name: "duplicate-argument", Rule: "UniqueArgumentNames", apply: opDuplicateArgument},
	{Name: "duplicate-directive-argument", Rule: "UniqueArgumentNames", apply: opDuplicateDirectiveArgument},
	{Name: "duplicate-input-field", Rule: "UniqueInputFieldNames", apply: opDuplicateInputField},
	{Name: "duplicate-input-field-nested", Rule: "UniqueInputFieldNames", apply: opDuplicateInputFieldNested},
	{Name: "duplicate-operation-name", Rule: "UniqueOperationNames", apply: opDuplicateOperationName},
	{Name: "anonymous-next-to-others", Rule: "LoneAnonymousOperation", apply: opAnonymousNextToOthers},
	{Name: "two-anonymous-operations", Rule: "LoneAnonymousOperation", apply: opTwoAnonymous},
	{Name: "overlap-name", Rule: "OverlappingFieldsCanBeMerged", apply: overlapOp("name")},
	{Name: "overlap-arguments", Rule: "OverlappingFieldsCanBeMerged", apply: overlapOp("args")},
	{Name: "overlap-shape", Rule: "OverlappingFieldsCanBeMerged", apply: overlapOp("shape")},
	{Name: "overlap-exclusive-name", KeepsValid: true, apply: overlapOp("exclusive")},
}

// OperatorIndex returns the index of the named operator (-1 if unknown).
func OperatorIndex(name string) int {
	for i, o := range Operators {
		if o.Name == name {
			return i
		}
	}
	return -1
}

// Apply applies operator number op to a deep copy of doc. ok is false when
// the document offers no site for the operator.
func Apply(r *core.RNG, s *model.Schema, doc *nast.Document, op int) (*Result, bool) {
	o := Operators[op%len(Operators)]
	cp := Clone(doc)
	st := collect(s, cp)
	note, ok := o.apply(r, st)
	if !ok {
		return nil, false
	}
	return &Result{Doc: cp, Operator: o.Name, Rule: o.Rule, Note: note}, true
}

// ApplyTwo applies two operators in sequence (two-rule combination).
func ApplyTwo(r *core.RNG, s *model.Schema, doc *nast.Document, op1, op2 int) (*Result, bool) {
	r1, ok := Apply(r.Derive(1), s, doc, op1)
	if !ok {
		return nil, false
	}
	r2, ok := Apply(r.Derive(2), s, r1.Doc, op2)
	if !ok {
		return nil, false
	}
	r2.Operator = r1.Operator + "+" + r2.Operator
	r2.Rule = r1.Rule + "+" + r2.Rule
	r2.Note = r1.Note + "; " + r2.Note
	return r2, true
}

// ---- helpers

func pick[T any](r *core.RNG, xs []T) (T, bool) {
	var zero T
	if len(xs) == 0 {
		return zero, false
	}
	return xs[r.Intn(len(xs))], true
}

func unshorthand(op *nast.Operation) {
	if op.Shorthand {
		op.Shorthand = false
		op.Op = "query"
	}
}

func typenameSel() *nast.SelectionSet {
	return &nast.SelectionSet{Items: []nast.Node{&nast.Field{Name: nm("__typename")}}}
}

func insertItem(r *core.RNG, ss *nast.SelectionSet, it nast.Node) {
	at := r.Intn(len(ss.Items) + 1)
	ss.Items = append(ss.Items, nil)
	copy(ss.Items[at+1:], ss.Items[at:])
	ss.Items[at] = it
}

func ownerDirs(owner nast.Node) *[]*nast.Directive {
	switch o := owner.(type) {
	case *nast.Operation:
		return &o.Directives
	case *nast.Fragment:
		return &o.Directives
	case *nast.Field:
		return &o.Directives
	case *nast.FragmentSpread:
		return &o.Directives
	case *nast.InlineFragment:
		return &o.Directives
	}
	return nil
}

func describeOwner(owner nast.Node) string {
	switch o := owner.(type) {
	case *nast.Operation:
		return o.Op + " operation"
	case *nast.Fragment:
		return "fragment definition " + o.Name.Value
	case *nast.Field:
		return "field " + o.Name.Value
	case *nast.FragmentSpread:
		return "spread ..." + o.Name.Value
	case *nast.InlineFragment:
		return "inline fragment"
	}
	return "?"
}

func sortedCompositeNames(s *model.Schema) []string {
	var out []string
	for _, t := range s.Types {
		if t.Kind == model.Object || t.Kind == model.Interface || t.Kind == model.Union {
			out = append(out, t.Name)
		}
	}
	sort.Strings(out)
	return out
}

func overlapTypes(s *model.Schema, a, b string) bool {
	for _, x := range s.PossibleTypes(a) {
		for _, y := range s.PossibleTypes(b) {
			if x == y {
				return true
			}
		}
	}
	return false
}

// ---- fields

func opUnknownField(r *core.RNG, st *sites) (string, bool) {
	var c []*fieldSite
	for _, f := range st.fields {
		if f.parent != "" {
			c = append(c, f)
		}
	}
	f, ok := pick(r, c)
	if !ok {
		return "", false
	}
	old := f.f.Name.Value
	f.f.Name = nm("nosuch_" + itoa(r.Intn(100)))
	if f.f.Alias == nil {
		// keep the response key so that sibling duplicates still merge or
		// clash as they did
		f.f.Alias = nm(old)
		if old == "__typename" {
			f.f.Alias = nil
		}
	}
	return fmt.Sprintf("field %s on %s renamed to %s", old, f.parent, f.f.Name.Value), true
}

func opFieldOfOtherType(r *core.RNG, st *sites) (string, bool) {
	// a selection set whose parent is abstract (interface or union) gets a
	// field that exists only on one of its possible object types
	type cand struct {
		sel  *selSite
		name string
		from string
	}
	var cs []cand
	for _, s := range st.sels {
		if s.parent == "" {
			continue
		}
		td := st.s.Type(s.parent)
		if td.Kind != model.Interface && td.Kind != model.Union {
			continue
		}
		for _, p := range st.s.PossibleTypes(s.parent) {
			for _, fd := range st.s.Type(p).Fields {
				if td.Field(fd.Name) != nil || !st.s.IsLeaf(fd.Type.Base()) {
					continue
				}
				req := false
				for _, a := range fd.Args {
					if a.Type.Kind == "nonnull" {
						req = true
					}
				}
				if !req {
					cs = append(cs, cand{s, fd.Name, p})
				}
			}
		}
	}
	c, ok := pick(r, cs)
	if !ok {
		return "", false
	}
	insertItem(r, c.sel.ss, &nast.Field{Alias: nm("other_" + c.name), Name: nm(c.name)})
	return fmt.Sprintf("field %s of %s selected on %s", c.name, c.from, c.sel.parent), true
}

// ---- arguments

func opUnknownArgument(r *core.RNG, st *sites) (string, bool) {
	var c []*fieldSite
	for _, f := range st.fields {
		if f.def != nil || f.meta && f.parent != "" {
			c = append(c, f)
		}
	}
	f, ok := pick(r, c)
	if !ok {
		return "", false
	}
	a := &nast.Argument{Name: nm("nosuch_arg"), Value: &nast.IntValue{Raw: "1"}}
	at := r.Intn(len(f.f.Args) + 1)
	f.f.Args = append(f.f.Args, nil)
	copy(f.f.Args[at+1:], f.f.Args[at:])
	f.f.Args[at] = a
	return "argument nosuch_arg added to field " + f.f.Name.Value, true
}

func knownDirective(st *sites, name string) bool {
	if name == "skip" || name == "include" || name == "deprecated" {
		return true
	}
	for _, d := range st.s.Directives {
		if d.Name == name {
			return true
		}
	}
	return false
}

func opUnknownDirectiveArgument(r *core.RNG, st *sites) (string, bool) {
	var c []*dirSite
	for _, d := range st.dirs {
		if knownDirective(st, d.d.Name.Value) {
			c = append(c, d)
		}
	}
	d, ok := pick(r, c)
	if !ok {
		// add a fresh @include(if: true, nosuch: 1) on some field
		f, ok := pick(r, st.fields)
		if !ok {
			return "", false
		}
		f.f.Directives = append(f.f.Directives, &nast.Directive{Name: nm("include"), Args: []*nast.Argument{
			{Name: nm("if"), Value: &nast.BooleanValue{Value: true}}, {Name: nm("nosuch_arg"), Value: &nast.IntValue{Raw: "1"}}}})
		return "@include(if: true, nosuch_arg: 1) added to field " + f.f.Name.Value, true
	}
	d.d.Args = append(d.d.Args, &nast.Argument{Name: nm("nosuch_arg"), Value: &nast.StringValue{Value: "x"}})
	return "argument nosuch_arg added to @" + d.d.Name.Value, true
}

// ---- types

func innermost(t nast.Node) *nast.Named {
	for {
		switch v := t.(type) {
		case *nast.Named:
			return v
		case *nast.List:
			t = v.Of
		case *nast.NonNull:
			t = v.Of
		default:
			return nil
		}
	}
}

func opUnknownTypeVariable(r *core.RNG, st *sites) (string, bool) {
	var c []*nast.VarDef
	for _, op := range st.ops {
		c = append(c, op.Vars...)
	}
	vd, ok := pick(r, c)
	if !ok {
		return "", false
	}
	n := innermost(vd.Type)
	old := n.Name.Value
	n.Name = nm("NoSuchType")
	return fmt.Sprintf("type of $%s: %s -> NoSuchType", vd.Var.Name.Value, old), true
}

func opUnknownTypeCondition(r *core.RNG, st *sites) (string, bool) {
	var c []*nast.Named
	for _, f := range st.frags {
		c = append(c, f.TypeCond)
	}
	for _, i := range st.inlines {
		if i.TypeCond != nil {
			c = append(c, i.TypeCond)
		}
	}
	n, ok := pick(r, c)
	if !ok {
		s, ok := pick(r, st.sels)
		if !ok {
			return "", false
		}
		insertItem(r, s.ss, &nast.InlineFragment{TypeCond: &nast.Named{Name: nm("NoSuchType")}, Sel: typenameSel()})
		return "inline fragment on NoSuchType added", true
	}
	old := n.Name.Value
	n.Name = nm("NoSuchType")
	return "type condition " + old + " -> NoSuchType", true
}

// ---- directives

func opUnknownDirective(r *core.RNG, st *sites) (string, bool) {
	o, ok := pick(r, st.owners)
	if !ok {
		return "", false
	}
	if op, isOp := o.(*nast.Operation); isOp {
		unshorthand(op)
	}
	ds := ownerDirs(o)
	d := &nast.Directive{Name: nm("nosuch_dir")}
	if r.Bool() {
		d.Args = []*nast.Argument{{Name: nm("if"), Value: &nast.BooleanValue{Value: true}}}
	}
	*ds = append(*ds, d)
	return "@nosuch_dir on " + describeOwner(o), true
}

func locationOf(owner nast.Node) string {
	switch o := owner.(type) {
	case *nast.Operation:
		switch o.Op {
		case "mutation":
			return "MUTATION"
		case "subscription":
			return "SUBSCRIPTION"
		}
		return "QUERY"
	case *nast.Fragment:
		return "FRAGMENT_DEFINITION"
	case *nast.Field:
		return "FIELD"
	case *nast.FragmentSpread:
		return "FRAGMENT_SPREAD"
	case *nast.InlineFragment:
		return "INLINE_FRAGMENT"
	}
	return ""
}

func opMisplacedDirective(r *core.RNG, st *sites) (string, bool) {
	type dirInfo struct {
		name string
		locs []string
		args func() []*nast.Argument
	}
	ifTrue := func() []*nast.Argument {
		return []*nast.Argument{{Name: nm("if"), Value: &nast.BooleanValue{Value: true}}}
	}
	dirs := []dirInfo{
		{"skip", []string{"FIELD", "FRAGMENT_SPREAD", "INLINE_FRAGMENT"}, ifTrue},
		{"include", []string{"FIELD", "FRAGMENT_SPREAD", "INLINE_FRAGMENT"}, ifTrue},
		{"deprecated", []string{"FIELD_DEFINITION", "ENUM_VALUE"}, func() []*nast.Argument { return nil }},
	}
	for _, d := range st.s.Directives {
		req := false
		for _, a := range d.Args {
			if a.Type.Kind == "nonnull" {
				req = true
			}
		}
		if !req {
			dirs = append(dirs, dirInfo{d.Name, d.Locations, func() []*nast.Argument { return nil }})
		}
	}
	type cand struct {
		owner nast.Node
		d     dirInfo
	}
	var cs []cand
	for _, o := range st.owners {
		loc := locationOf(o)
		for _, d := range dirs {
			allowed := false
			for _, l := range d.locs {
				if l == loc {
					allowed = true
				}
			}
			if !allowed {
				cs = append(cs, cand{o, d})
			}
		}
	}
	// every location kind gets a fair chance: pick the location first
	byLoc := map[string][]cand{}
	var locs []string
	for _, c := range cs {
		l := locationOf(c.owner)
		if _, ok := byLoc[l]; !ok {
			locs = append(locs, l)
		}
		byLoc[l] = append(byLoc[l], c)
	}
	if len(locs) == 0 {
		return "", false
	}
	sort.Strings(locs)
	c, _ := pick(r, byLoc[locs[r.Intn(len(locs))]])
	if op, isOp := c.owner.(*nast.Operation); isOp {
		unshorthand(op)
	}
	ds := ownerDirs(c.owner)
	*ds = append(*ds, &nast.Directive{Name: nm(c.d.name), Args: c.d.args()})
	return fmt.Sprintf("@%s on %s (%s)", c.d.name, describeOwner(c.owner), locationOf(c.owner)), true
}

// ---- fragments: unknown / unused / duplicate

func opUnknownFragment(r *core.RNG, st *sites) (string, bool) {
	s, ok := pick(r, st.sels)
	if !ok {
		return "", false
	}
	insertItem(r, s.ss, &nast.FragmentSpread{Name: nm("NoSuchFragment")})
	return "spread ...NoSuchFragment added", true
}

func opUnusedFragment(r *core.RNG, st *sites) (string, bool) {
	name := st.freshFragName("Unused")
	cond := st.s.Query
	if cs := sortedCompositeNames(st.s); len(cs) > 0 && r.Bool() {
		cond = cs[r.Intn(len(cs))]
	}
	f := &nast.Fragment{Name: nm(name), TypeCond: &nast.Named{Name: nm(cond)}, Sel: typenameSel()}
	at := r.Intn(len(st.doc.Defs) + 1)
	st.doc.Defs = append(st.doc.Defs, nil)
	copy(st.doc.Defs[at+1:], st.doc.Defs[at:])
	st.doc.Defs[at] = f
	return "unused fragment " + name + " on " + cond, true
}

func opDuplicateFragment(r *core.RNG, st *sites) (string, bool) {
	if f, ok := pick(r, st.frags); ok {
		st.doc.Defs = append(st.doc.Defs, cloneFrag(f))
		return "fragment " + f.Name.Value + " defined twice (identical)", true
	}
	// no fragment: add one, spread it in an operation, and define it twice
	var roots []*selSite
	for _, s := range st.sels {
		if s.depth == 0 && s.inOp != nil && s.parent != "" {
			roots = append(roots, s)
		}
	}
	s, ok := pick(r, roots)
	if !ok {
		return "", false
	}
	name := st.freshFragName("Dup")
	insertItem(r, s.ss, &nast.FragmentSpread{Name: nm(name)})
	mk := func() *nast.Fragment {
		return &nast.Fragment{Name: nm(name), TypeCond: &nast.Named{Name: nm(s.parent)}, Sel: typenameSel()}
	}
	st.doc.Defs = append(st.doc.Defs, mk(), mk())
	return "new fragment " + name + " defined twice", true
}

// ---- fragment cycles

// cycleOp adds k new fragments forming a cycle of length k, spread from an
// operation so that they are used.
func cycleOp(k int) func(r *core.RNG, st *sites) (string, bool) {
	return func(r *core.RNG, st *sites) (string, bool) {
		var roots []*selSite
		for _, s := range st.sels {
			if s.parent != "" && (s.inOp != nil || s.inFrag != nil) {
				roots = append(roots, s)
			}
		}
		s, ok := pick(r, roots)
		if !ok {
			return "", false
		}
		base := st.freshFragName("Cyc")
		names := make([]string, k)
		for i := range names {
			names[i] = base + "_" + itoa(i)
		}
		insertItem(r, s.ss, &nast.FragmentSpread{Name: nm(names[0])})
		for i := 0; i < k; i++ {
			f := &nast.Fragment{Name: nm(names[i]), TypeCond: &nast.Named{Name: nm(s.parent)}, Sel: typenameSel()}
			sp := &nast.FragmentSpread{Name: nm(names[(i+1)%k])}
			if r.Chance(30) {
				// the spread may sit inside an inline fragment
				f.Sel.Items = append(f.Sel.Items, &nast.InlineFragment{Sel: &nast.SelectionSet{Items: []nast.Node{sp}}})
			} else {
				insertItem(r, f.Sel, sp)
			}
			st.doc.Defs = append(st.doc.Defs, f)
		}
		return fmt.Sprintf("cycle of %d new fragments on %s", k, s.parent), true
	}
}

// opCycleExisting closes a cycle through an existing fragment: F spreads itself.
func opCycleExisting(r *core.RNG, st *sites) (string, bool) {
	f, ok := pick(r, st.frags)
	if !ok {
		return "", false
	}
	insertItem(r, f.Sel, &nast.FragmentSpread{Name: nm(f.Name.Value)})
	return "fragment " + f.Name.Value + " spreads itself", true
}

// opCycleThroughField: fragment F on T { f { ...F } } where f's type can be T.
func opCycleThroughField(r *core.RNG, st *sites) (string, bool) {
	type cand struct {
		t  string
		fd *model.FieldDef
	}
	var cs []cand
	for _, n := range sortedCompositeNames(st.s) {
		td := st.s.Type(n)
		for _, fd := range td.Fields {
			if !st.s.IsComposite(fd.Type.Base()) || !overlapTypes(st.s, fd.Type.Base(), n) {
				continue
			}
			req := false
			for _, a := range fd.Args {
				if a.Type.Kind == "nonnull" {
					req = true
				}
			}
			if !req {
				cs = append(cs, cand{n, fd})
			}
		}
	}
	c, ok := pick(r, cs)
	if !ok {
		return "", false
	}
	// spread it from a selection set where T can occur
	var sites []*selSite
	for _, s := range st.sels {
		if s.parent != "" && overlapTypes(st.s, s.parent, c.t) {
			sites = append(sites, s)
		}
	}
	s, ok := pick(r, sites)
	if !ok {
		return "", false
	}
	name := st.freshFragName("Rec")
	insertItem(r, s.ss, &nast.FragmentSpread{Name: nm(name)})
	f := &nast.Fragment{Name: nm(name), TypeCond: &nast.Named{Name: nm(c.t)}, Sel: &nast.SelectionSet{Items: []nast.Node{
		&nast.Field{Alias: nm("rec"), Name: nm(c.fd.Name), Sel: &nast.SelectionSet{Items: []nast.Node{&nast.Field{Name: nm("__typename")}, &nast.FragmentSpread{Name: nm(name)}}}},
	}}}
	st.doc.Defs = append(st.doc.Defs, f)
	return fmt.Sprintf("fragment %s on %s { rec: %s { ...%s } }", name, c.t, c.fd.Name, name), true
}

// ---- spreads

func opImpossibleInline(r *core.RNG, st *sites) (string, bool) {
	type cand struct {
		s *selSite
		x string
	}
	byPair := map[string][]cand{}
	var pairs []string
	for _, s := range st.sels {
		if s.parent == "" {
			continue
		}
		for _, x := range sortedCompositeNames(st.s) {
			if !overlapTypes(st.s, s.parent, x) {
				p := st.s.KindOf(s.parent) + "/" + st.s.KindOf(x)
				if _, ok := byPair[p]; !ok {
					pairs = append(pairs, p)
				}
				byPair[p] = append(byPair[p], cand{s, x})
			}
		}
	}
	if len(pairs) == 0 {
		return "", false
	}
	sort.Strings(pairs)
	p := pairs[r.Intn(len(pairs))]
	c, _ := pick(r, byPair[p])
	insertItem(r, c.s.ss, &nast.InlineFragment{TypeCond: &nast.Named{Name: nm(c.x)}, Sel: typenameSel()})
	return fmt.Sprintf("... on %s inside %s (%s)", c.x, c.s.parent, p), true
}

func opImpossibleNamed(r *core.RNG, st *sites) (string, bool) {
	type cand struct {
		s *selSite
		x string
	}
	byPair := map[string][]cand{}
	var pairs []string
	for _, s := range st.sels {
		if s.parent == "" {
			continue
		}
		for _, x := range sortedCompositeNames(st.s) {
			if !overlapTypes(st.s, s.parent, x) {
				p := st.s.KindOf(s.parent) + "/" + st.s.KindOf(x)
				if _, ok := byPair[p]; !ok {
					pairs = append(pairs, p)
				}
				byPair[p] = append(byPair[p], cand{s, x})
			}
		}
	}
	if len(pairs) == 0 {
		return "", false
	}
	sort.Strings(pairs)
	p := pairs[r.Intn(len(pairs))]
	c, _ := pick(r, byPair[p])
	name := st.freshFragName("Imp")
	insertItem(r, c.s.ss, &nast.FragmentSpread{Name: nm(name)})
	st.doc.Defs = append(st.doc.Defs, &nast.Fragment{Name: nm(name), TypeCond: &nast.Named{Name: nm(c.x)}, Sel: typenameSel()})
	return fmt.Sprintf("...%s (on %s) inside %s (%s)", name, c.x, c.s.parent, p), true
}

func nonCompositeNames(s *model.Schema) []string {
	out := []string{"String", "Int", "Boolean", "ID", "Float"}
	for _, t := range s.Types {
		if t.Kind == model.Scalar || t.Kind == model.Enum || t.Kind == model.InputObject {
			out = append(out, t.Name)
		}
	}
	return out
}

func opFragmentOnNonComposite(r *core.RNG, st *sites) (string, bool) {
	ncs := nonCompositeNames(st.s)
	x := ncs[r.Intn(len(ncs))]
	s, ok := pick(r, st.sels)
	if !ok {
		return "", false
	}
	name := st.freshFragName("Leaf")
	insertItem(r, s.ss, &nast.FragmentSpread{Name: nm(name)})
	st.doc.Defs = append(st.doc.Defs, &nast.Fragment{Name: nm(name), TypeCond: &nast.Named{Name: nm(x)}, Sel: typenameSel()})
	return "fragment " + name + " on " + x, true
}

func opInlineOnNonComposite(r *core.RNG, st *sites) (string, bool) {
	ncs := nonCompositeNames(st.s)
	x := ncs[r.Intn(len(ncs))]
	s, ok := pick(r, st.sels)
	if !ok {
		return "", false
	}
	insertItem(r, s.ss, &nast.InlineFragment{TypeCond: &nast.Named{Name: nm(x)}, Sel: typenameSel()})
	return "... on " + x, true
}

// ---- leaves

func containsSpreadOrVar(n nast.Node) bool {
	switch n.(type) {
	case *nast.FragmentSpread, *nast.Variable:
		return true
	}
	for _, c := range nast.Children(n) {
		if containsSpreadOrVar(c) {
			return true
		}
	}
	return false
}

func opLeafWithSelection(r *core.RNG, st *sites) (string, bool) {
	var c []*fieldSite
	for _, f := range st.fields {
		if f.f.Sel == nil && (f.meta && f.parent != "" || f.def != nil && st.s.IsLeaf(f.def.Type.Base())) {
			c = append(c, f)
		}
	}
	f, ok := pick(r, c)
	if !ok {
		return "", false
	}
	f.f.Sel = &nast.SelectionSet{Items: []nast.Node{&nast.Field{Name: nm("sub")}}}
	return "leaf field " + f.f.Name.Value + " given a selection set", true
}

func opCompositeWithoutSelection(r *core.RNG, st *sites) (string, bool) {
	var clean, any []*fieldSite
	for _, f := range st.fields {
		if f.f.Sel != nil && f.def != nil && st.s.IsComposite(f.def.Type.Base()) {
			any = append(any, f)
			if !containsSpreadOrVar(f.f.Sel) {
				clean = append(clean, f)
			}
		}
	}
	c := clean
	if len(c) == 0 {
		c = any
	}
	f, ok := pick(r, c)
	if !ok {
		return "", false
	}
	f.f.Sel = nil
	return "selection set of composite field " + f.f.Name.Value + " removed", true
}

// ---- duplicates

func opDuplicateArgument(r *core.RNG, st *sites) (string, bool) {
	var c []*fieldSite
	for _, f := range st.fields {
		if len(f.f.Args) > 0 {
			c = append(c, f)
		}
	}
	f, ok := pick(r, c)
	if !ok {
		return "", false
	}
	a := f.f.Args[r.Intn(len(f.f.Args))]
	f.f.Args = append(f.f.Args, &nast.Argument{Name: nm(a.Name.Value), Value: CloneValue(a.Value)})
	return "argument " + a.Name.Value + " of field " + f.f.Name.Value + " given twice", true
}

func opDuplicateDirectiveArgument(r *core.RNG, st *sites) (string, bool) {
	var c []*dirSite
	for _, d := range st.dirs {
		if len(d.d.Args) > 0 {
			c = append(c, d)
		}
	}
	d, ok := pick(r, c)
	if !ok {
		f, ok := pick(r, st.fields)
		if !ok {
			return "", false
		}
		f.f.Directives = append(f.f.Directives, &nast.Directive{Name: nm("skip"), Args: []*nast.Argument{
			{Name: nm("if"), Value: &nast.BooleanValue{Value: false}}, {Name: nm("if"), Value: &nast.BooleanValue{Value: false}}}})
		return "@skip(if: false, if: false) added to " + f.f.Name.Value, true
	}
	a := d.d.Args[0]
	d.d.Args = append(d.d.Args, &nast.Argument{Name: nm(a.Name.Value), Value: CloneValue(a.Value)})
	return "argument " + a.Name.Value + " of @" + d.d.Name.Value + " given twice", true
}

func dupInputField(r *core.RNG, st *sites, nested bool) (string, bool) {
	var c []*objSite
	for _, o := range st.objs {
		if len(o.ov.Fields) > 0 && (o.depth > 0) == nested {
			c = append(c, o)
		}
	}
	o, ok := pick(r, c)
	if !ok {
		return "", false
	}
	f := o.ov.Fields[r.Intn(len(o.ov.Fields))]
	o.ov.Fields = append(o.ov.Fields, &nast.ObjectField{Name: nm(f.Name.Value), Value: CloneValue(f.Value)})
	return fmt.Sprintf("input field %s given twice (object nesting depth %d)", f.Name.Value, o.depth), true
}

func opDuplicateInputField(r *core.RNG, st *sites) (string, bool) { return dupInputField(r, st, false) }
func opDuplicateInputFieldNested(r *core.RNG, st *sites) (string, bool) {
	return dupInputField(r, st, true)
}

func opDuplicateOperationName(r *core.RNG, st *sites) (string, bool) {
	op, ok := pick(r, st.ops)
	if !ok {
		return "", false
	}
	// all operations must be named for the result to break only this rule
	for i, o := range st.ops {
		if o.Name == nil {
			unshorthand(o)
			o.Name = nm("Anon" + itoa(i))
		}
	}
	root := st.s.Root(op.Op)
	if root == "" {
		return "", false
	}
	st.doc.Defs = append(st.doc.Defs, &nast.Operation{Op: op.Op, Name: nm(op.Name.Value), Sel: typenameSel()})
	return "second operation named " + op.Name.Value, true
}

func opAnonymousNextToOthers(r *core.RNG, st *sites) (string, bool) {
	if len(st.ops) == 0 {
		return "", false
	}
	for i, o := range st.ops {
		if o.Name == nil {
			unshorthand(o)
			o.Name = nm("Named" + itoa(i))
		}
	}
	anon := &nast.Operation{Op: "query", Shorthand: r.Bool(), Sel: typenameSel()}
	if r.Bool() {
		st.doc.Defs = append([]nast.Node{anon}, st.doc.Defs...)
	} else {
		st.doc.Defs = append(st.doc.Defs, anon)
	}
	return "anonymous operation added next to named ones", true
}

func opTwoAnonymous(r *core.RNG, st *sites) (string, bool) {
	if len(st.ops) != 1 {
		return "", false
	}
	op := st.ops[0]
	if op.Name != nil {
		op.Name = nil
	}
	st.doc.Defs = append(st.doc.Defs, &nast.Operation{Op: "query", Shorthand: r.Bool(), Sel: typenameSel()})
	return "two anonymous operations", true
}
