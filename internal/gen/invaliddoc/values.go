package invaliddoc

import (
	"fmt"

	"verif/internal/core"
	"verif/internal/model"
	"verif/internal/nast"
)

// ---- wrong literals

// wrongLiteral returns a literal that is NOT valid for the NAMED input type
// t (no wrappers), or nil when none can be made.
func wrongLiteral(r *core.RNG, s *model.Schema, name string) nast.Node {
	str := &nast.StringValue{Value: "wrong"}
	flt := &nast.FloatValue{Raw: "1.5"}
	boo := &nast.BooleanValue{Value: true}
	one := &nast.IntValue{Raw: "1"}
	enu := &nast.EnumValue{Value: "NO_SUCH_VALUE"}
	obj := &nast.ObjectValue{}
	td := s.Type(name)
	if td == nil {
		return nil
	}
	switch td.Kind {
	case model.Enum:
		return []nast.Node{enu, str, one, boo, &nast.StringValue{Value: td.Values[0].Name}}[r.Intn(5)]
	case model.InputObject:
		return []nast.Node{one, str, boo, enu}[r.Intn(4)]
	case model.Scalar:
		switch name {
		case "Int":
			return []nast.Node{str, flt, boo, enu, obj, &nast.IntValue{Raw: "2147483648"}, &nast.IntValue{Raw: "-2147483649"}, &nast.StringValue{Value: "1"}}[r.Intn(8)]
		case "Float":
			return []nast.Node{str, boo, enu, obj, &nast.StringValue{Value: "1.5"}}[r.Intn(5)]
		case "String":
			return []nast.Node{one, flt, boo, enu, obj}[r.Intn(5)]
		case "Boolean":
			return []nast.Node{one, str, enu, &nast.StringValue{Value: "true"}, &nast.IntValue{Raw: "0"}, obj}[r.Intn(6)]
		case "ID":
			return []nast.Node{flt, boo, enu, obj}[r.Intn(4)]
		default: // custom scalar (Tag): string literals only
			return []nast.Node{one, flt, boo, enu, obj}[r.Intn(5)]
		}
	}
	return nil
}

func isLiteral(n nast.Node) bool {
	switch n.(type) {
	case *nast.IntValue, *nast.FloatValue, *nast.StringValue, *nast.BooleanValue, *nast.EnumValue:
		return true
	}
	return false
}

// innermostNamed strips list / non-null wrappers.
func namedOf(t *model.TypeRef) string { return t.Base() }

func wrongLiteralAt(r *core.RNG, st *sites, deep bool) (string, bool) {
	var c []*valueSite
	for _, v := range st.values {
		if v.expected == nil || v.isConst {
			continue
		}
		if deep != (v.depth > 0) {
			continue
		}
		n := v.get()
		// replace scalar/enum literals, or whole objects/lists
		if _, isVar := n.(*nast.Variable); isVar {
			continue
		}
		c = append(c, v)
	}
	v, ok := pick(r, c)
	if !ok {
		return "", false
	}
	old := nast.PrintValue(v.get())
	var w nast.Node
	t := v.expected
	switch x := v.get().(type) {
	case *nast.ListValue:
		// put a wrong item into the list (list-typed position), or replace
		// a bare-object position by a wrong scalar
		it := t
		if t.Nullable().Kind == "list" {
			it = t.Nullable().Of
		}
		w0 := wrongLiteral(r, st.s, namedOf(it))
		if w0 == nil {
			return "", false
		}
		// nested list types: wrap so that the item sits at the right depth
		for it.Nullable().Kind == "list" {
			w0 = &nast.ListValue{Items: []nast.Node{w0}}
			it = it.Nullable().Of
		}
		x.Items = append(x.Items, w0)
		return fmt.Sprintf("wrong item %s appended to list %s (expected %s)", nast.PrintValue(w0), old, t), true
	default:
		w = wrongLiteral(r, st.s, namedOf(t))
	}
	if w == nil {
		return "", false
	}
	v.set(w)
	return fmt.Sprintf("literal %s -> %s where %s is expected (depth %d)", old, nast.PrintValue(w), t, v.depth), true
}

func opWrongLiteral(r *core.RNG, st *sites) (string, bool)     { return wrongLiteralAt(r, st, false) }
func opWrongLiteralDeep(r *core.RNG, st *sites) (string, bool) { return wrongLiteralAt(r, st, true) }

func inputObjectSites(st *sites) []*valueSite {
	var c []*valueSite
	for _, v := range st.values {
		if v.expected == nil || v.isConst {
			continue
		}
		if _, ok := v.get().(*nast.ObjectValue); !ok {
			continue
		}
		if td := st.s.Type(v.expected.Base()); td != nil && td.Kind == model.InputObject {
			c = append(c, v)
		}
	}
	return c
}

func opInputUnknownField(r *core.RNG, st *sites) (string, bool) {
	v, ok := pick(r, inputObjectSites(st))
	if !ok {
		return "", false
	}
	ov := v.get().(*nast.ObjectValue)
	ov.Fields = append(ov.Fields, &nast.ObjectField{Name: nm("nosuch_field"), Value: &nast.IntValue{Raw: "1"}})
	return fmt.Sprintf("unknown input field added to %s value (depth %d)", v.expected.Base(), v.depth), true
}

func opInputMissingField(r *core.RNG, st *sites) (string, bool) {
	type cand struct {
		v *valueSite
		i int
	}
	var cs []cand
	for _, v := range inputObjectSites(st) {
		td := st.s.Type(v.expected.Base())
		ov := v.get().(*nast.ObjectValue)
		for i, f := range ov.Fields {
			if fd := td.InputField(f.Name.Value); fd != nil && fd.Type.Kind == "nonnull" {
				cs = append(cs, cand{v, i})
			}
		}
	}
	c, ok := pick(r, cs)
	if !ok {
		return "", false
	}
	ov := c.v.get().(*nast.ObjectValue)
	name := ov.Fields[c.i].Name.Value
	if containsSpreadOrVar(ov.Fields[c.i].Value) {
		return "", false // would also make a variable unused
	}
	ov.Fields = append(ov.Fields[:c.i:c.i], ov.Fields[c.i+1:]...)
	return fmt.Sprintf("required input field %s removed from %s value (depth %d)", name, c.v.expected.Base(), c.v.depth), true
}

func opIntOutOfRange(r *core.RNG, st *sites) (string, bool) {
	var c []*valueSite
	for _, v := range st.values {
		if v.expected == nil || v.isConst || v.expected.Base() != "Int" {
			continue
		}
		if _, ok := v.get().(*nast.IntValue); ok {
			c = append(c, v)
		}
	}
	v, ok := pick(r, c)
	if !ok {
		return "", false
	}
	raw := []string{"2147483648", "-2147483649", "3000000000", "9223372036854775807", "99999999999999999999"}[r.Intn(5)]
	v.set(&nast.IntValue{Raw: raw})
	return "Int literal " + raw + " (outside 32 bits)", true
}

// ---- required arguments

func opMissingRequiredArgument(r *core.RNG, st *sites) (string, bool) {
	type cand struct {
		f *fieldSite
		i int
	}
	var cs []cand
	for _, f := range st.fields {
		if f.def == nil {
			continue
		}
		for i, a := range f.f.Args {
			for _, d := range f.def.Args {
				if d.Name == a.Name.Value && d.Type.Kind == "nonnull" && !containsSpreadOrVar(a.Value) {
					cs = append(cs, cand{f, i})
				}
			}
		}
	}
	c, ok := pick(r, cs)
	if !ok {
		return "", false
	}
	name := c.f.f.Args[c.i].Name.Value
	c.f.f.Args = append(c.f.f.Args[:c.i:c.i], c.f.f.Args[c.i+1:]...)
	return "required argument " + name + " of field " + c.f.f.Name.Value + " removed", true
}

func opMissingDirectiveArgument(r *core.RNG, st *sites) (string, bool) {
	var c []*dirSite
	for _, d := range st.dirs {
		if (d.d.Name.Value == "skip" || d.d.Name.Value == "include") && len(d.d.Args) == 1 && !containsSpreadOrVar(d.d.Args[0].Value) {
			c = append(c, d)
		}
	}
	d, ok := pick(r, c)
	if !ok {
		f, ok := pick(r, st.fields)
		if !ok {
			return "", false
		}
		f.f.Directives = append(f.f.Directives, &nast.Directive{Name: nm("include")})
		return "@include without `if` added to " + f.f.Name.Value, true
	}
	d.d.Args = nil
	return "`if` removed from @" + d.d.Name.Value, true
}

// ---- variables

type varUse struct {
	op  *nast.Operation
	vd  *nast.VarDef
	use *valueSite
}

// directUses lists usages of variables inside operations (not through
// fragments) together with their definitions; only variables that are used
// exactly there (once in the whole document) are safe to retype.
func directUses(st *sites) []varUse {
	count := map[string]int{}
	for _, v := range st.values {
		if x, ok := v.get().(*nast.Variable); ok {
			count[x.Name.Value]++
		}
	}
	// which operation does a value site belong to? recompute by walking each
	// operation alone
	var out []varUse
	for _, op := range st.ops {
		one := &nast.Document{Defs: []nast.Node{op}}
		sub := collect(st.s, one)
		for _, v := range sub.values {
			x, ok := v.get().(*nast.Variable)
			if !ok || v.expected == nil || count[x.Name.Value] != 1 {
				continue
			}
			for _, vd := range op.Vars {
				if vd.Var.Name.Value == x.Name.Value {
					out = append(out, varUse{op, vd, v})
				}
			}
		}
	}
	return out
}

func opUndefinedVariable(r *core.RNG, st *sites) (string, bool) {
	// remove the definition of a used variable
	type cand struct {
		op *nast.Operation
		i  int
	}
	var cs []cand
	for _, op := range st.ops {
		for i := range op.Vars {
			cs = append(cs, cand{op, i})
		}
	}
	if c, ok := pick(r, cs); ok && r.Chance(60) {
		name := c.op.Vars[c.i].Var.Name.Value
		c.op.Vars = append(c.op.Vars[:c.i:c.i], c.op.Vars[c.i+1:]...)
		return "definition of $" + name + " removed", true
	}
	// or use a fresh undefined variable in a directive of an operation's field
	var fs []*fieldSite
	for _, f := range st.fields {
		if f.inOp != nil {
			fs = append(fs, f)
		}
	}
	f, ok := pick(r, fs)
	if !ok {
		return "", false
	}
	f.f.Directives = append(f.f.Directives, &nast.Directive{Name: nm("include"), Args: []*nast.Argument{{Name: nm("if"), Value: &nast.Variable{Name: nm("undef")}}}})
	return "@include(if: $undef) added to " + f.f.Name.Value, true
}

func opUndefinedVariableInFragment(r *core.RNG, st *sites) (string, bool) {
	// a usage inside a fragment definition that is reachable from an operation
	var fs []*fieldSite
	for _, f := range st.fields {
		if f.inOp == nil {
			fs = append(fs, f)
		}
	}
	f, ok := pick(r, fs)
	if !ok {
		return "", false
	}
	f.f.Directives = append(f.f.Directives, &nast.Directive{Name: nm("skip"), Args: []*nast.Argument{{Name: nm("if"), Value: &nast.Variable{Name: nm("undef_in_fragment")}}}})
	return "@skip(if: $undef_in_fragment) added to " + f.f.Name.Value + " inside a fragment", true
}

func opUnusedVariable(r *core.RNG, st *sites) (string, bool) {
	op, ok := pick(r, st.ops)
	if !ok {
		return "", false
	}
	unshorthand(op)
	name := st.freshVarName(op, "unused")
	t := []nast.Node{&nast.Named{Name: nm("Int")}, &nast.NonNull{Of: &nast.Named{Name: nm("Boolean")}}, &nast.List{Of: &nast.Named{Name: nm("String")}}}[r.Intn(3)]
	op.Vars = append(op.Vars, &nast.VarDef{Var: &nast.Variable{Name: nm(name)}, Type: t})
	return "unused variable $" + name + " defined", true
}

func opDuplicateVariable(r *core.RNG, st *sites) (string, bool) {
	var c []*nast.Operation
	for _, op := range st.ops {
		if len(op.Vars) > 0 {
			c = append(c, op)
		}
	}
	op, ok := pick(r, c)
	if !ok {
		return "", false
	}
	vd := op.Vars[r.Intn(len(op.Vars))]
	op.Vars = append(op.Vars, cloneVarDef(vd))
	return "variable $" + vd.Var.Name.Value + " defined twice", true
}

func opVariableNullability(r *core.RNG, st *sites) (string, bool) {
	// a variable used where T! is expected, declared T! (no default): declare it T
	var c []varUse
	for _, u := range directUses(st) {
		if u.use.expected.Kind == "nonnull" {
			if nn, ok := u.vd.Type.(*nast.NonNull); ok && nn != nil {
				c = append(c, u)
			}
		}
	}
	u, ok := pick(r, c)
	if !ok {
		return "", false
	}
	u.vd.Type = u.vd.Type.(*nast.NonNull).Of
	u.vd.Default = nil
	return fmt.Sprintf("$%s declared %s but used where %s is expected", u.vd.Var.Name.Value, nast.PrintType(u.vd.Type), u.use.expected), true
}

func opVariableDefaultWidening(r *core.RNG, st *sites) (string, bool) {
	// the edition's special case: a nullable variable WITH a default may be
	// used where the non-null type is expected
	var c []varUse
	for _, u := range directUses(st) {
		if u.use.expected.Kind == "nonnull" {
			if nn, ok := u.vd.Type.(*nast.NonNull); ok && nn != nil {
				c = append(c, u)
			}
		}
	}
	u, ok := pick(r, c)
	if !ok {
		return "", false
	}
	inner := u.use.expected.Of
	dv := validLiteralFor(r, st.s, inner, 2)
	if dv == nil {
		return "", false
	}
	u.vd.Type = u.vd.Type.(*nast.NonNull).Of
	u.vd.Default = dv
	return fmt.Sprintf("$%s declared %s = %s and used where %s is expected (allowed)", u.vd.Var.Name.Value, nast.PrintType(u.vd.Type), nast.PrintValue(dv), u.use.expected), true
}

func opVariableListness(r *core.RNG, st *sites) (string, bool) {
	c := directUses(st)
	u, ok := pick(r, c)
	if !ok {
		return "", false
	}
	if u.use.expected.Nullable().Kind == "list" {
		// declared as the item type
		it := u.use.expected.Nullable().Of
		u.vd.Type = typeNode(it)
	} else {
		u.vd.Type = &nast.List{Of: typeNode(u.use.expected.Nullable())}
	}
	u.vd.Default = nil
	return fmt.Sprintf("$%s declared %s but used where %s is expected", u.vd.Var.Name.Value, nast.PrintType(u.vd.Type), u.use.expected), true
}

func opVariableBaseType(r *core.RNG, st *sites) (string, bool) {
	c := directUses(st)
	u, ok := pick(r, c)
	if !ok {
		return "", false
	}
	base := u.use.expected.Base()
	var others []string
	for _, n := range []string{"Int", "Float", "String", "Boolean", "ID"} {
		if n != base {
			others = append(others, n)
		}
	}
	for _, t := range st.s.Types {
		if (t.Kind == model.Enum || t.Kind == model.InputObject || t.Kind == model.Scalar) && t.Name != base {
			others = append(others, t.Name)
		}
	}
	nb := others[r.Intn(len(others))]
	n := innermost(u.vd.Type)
	n.Name = nm(nb)
	u.vd.Default = nil
	return fmt.Sprintf("$%s declared %s but used where %s is expected", u.vd.Var.Name.Value, nast.PrintType(u.vd.Type), u.use.expected), true
}

func opNonInputVariableType(r *core.RNG, st *sites) (string, bool) {
	comps := sortedCompositeNames(st.s)
	if len(comps) == 0 {
		return "", false
	}
	x := comps[r.Intn(len(comps))]
	var c []*nast.VarDef
	for _, op := range st.ops {
		c = append(c, op.Vars...)
	}
	if vd, ok := pick(r, c); ok && r.Bool() {
		innermost(vd.Type).Name = nm(x)
		vd.Default = nil
		return "$" + vd.Var.Name.Value + " retyped to the output type " + x, true
	}
	// a new variable of an output type, used in a directive so that it is not unused
	var fs []*fieldSite
	for _, f := range st.fields {
		if f.inOp != nil {
			fs = append(fs, f)
		}
	}
	f, ok := pick(r, fs)
	if !ok {
		return "", false
	}
	op := f.inOp
	unshorthand(op)
	name := st.freshVarName(op, "out")
	op.Vars = append(op.Vars, &nast.VarDef{Var: &nast.Variable{Name: nm(name)}, Type: &nast.Named{Name: nm(x)}})
	f.f.Directives = append(f.f.Directives, &nast.Directive{Name: nm("nosuch_typed"), Args: []*nast.Argument{{Name: nm("v"), Value: &nast.Variable{Name: nm(name)}}}})
	return "new variable $" + name + ": " + x + " (output type)", true
}

func typeNode(t *model.TypeRef) nast.Node {
	switch t.Kind {
	case "list":
		return &nast.List{Of: typeNode(t.Of)}
	case "nonnull":
		return &nast.NonNull{Of: typeNode(t.Of)}
	}
	return &nast.Named{Name: nm(t.Name)}
}

// validLiteralFor builds a conformant literal (nil when impossible at this depth).
func validLiteralFor(r *core.RNG, s *model.Schema, t *model.TypeRef, depth int) nast.Node {
	switch t.Kind {
	case "nonnull":
		return validLiteralFor(r, s, t.Of, depth)
	case "list":
		lv := &nast.ListValue{}
		if depth > 0 && r.Bool() {
			if it := validLiteralFor(r, s, t.Of, depth-1); it != nil {
				lv.Items = append(lv.Items, it)
			}
		}
		return lv
	}
	td := s.Type(t.Name)
	if td == nil {
		return nil
	}
	switch td.Kind {
	case model.Enum:
		return &nast.EnumValue{Value: td.Values[r.Intn(len(td.Values))].Name}
	case model.InputObject:
		ov := &nast.ObjectValue{}
		for _, f := range td.InputFields {
			if f.Type.Kind == "nonnull" {
				v := validLiteralFor(r, s, f.Type, depth-1)
				if v == nil || depth <= 0 {
					return nil
				}
				ov.Fields = append(ov.Fields, &nast.ObjectField{Name: nm(f.Name), Value: v})
			}
		}
		return ov
	case model.Scalar:
		switch t.Name {
		case "Int":
			return &nast.IntValue{Raw: "7"}
		case "Float":
			return &nast.FloatValue{Raw: "2.5"}
		case "Boolean":
			return &nast.BooleanValue{Value: r.Bool()}
		case "ID":
			return &nast.StringValue{Value: "id"}
		default:
			return &nast.StringValue{Value: "s"}
		}
	}
	return nil
}

// ---- defaults

func opDefaultWrongType(r *core.RNG, st *sites) (string, bool) {
	var c []*nast.VarDef
	for _, op := range st.ops {
		for _, vd := range op.Vars {
			if _, nn := vd.Type.(*nast.NonNull); !nn && typeOf(st.s, vd.Type) != nil {
				c = append(c, vd)
			}
		}
	}
	vd, ok := pick(r, c)
	if !ok {
		return "", false
	}
	t := typeOf(st.s, vd.Type)
	w := wrongLiteral(r, st.s, t.Base())
	if w == nil {
		return "", false
	}
	// sometimes at depth: inside a list for list types
	if t.Kind == "list" && r.Bool() {
		it := t.Of
		for it.Nullable().Kind == "list" {
			w = &nast.ListValue{Items: []nast.Node{w}}
			it = it.Nullable().Of
		}
		w = &nast.ListValue{Items: []nast.Node{w}}
	}
	vd.Default = w
	return fmt.Sprintf("$%s: %s = %s", vd.Var.Name.Value, nast.PrintType(vd.Type), nast.PrintValue(w)), true
}

func opDefaultOnNonNull(r *core.RNG, st *sites) (string, bool) {
	var c []*nast.VarDef
	for _, op := range st.ops {
		for _, vd := range op.Vars {
			if _, nn := vd.Type.(*nast.NonNull); nn && typeOf(st.s, vd.Type) != nil {
				c = append(c, vd)
			}
		}
	}
	vd, ok := pick(r, c)
	if !ok {
		return "", false
	}
	dv := validLiteralFor(r, st.s, typeOf(st.s, vd.Type), 2)
	if dv == nil {
		return "", false
	}
	vd.Default = dv
	return fmt.Sprintf("$%s: %s = %s (default on a non-null variable)", vd.Var.Name.Value, nast.PrintType(vd.Type), nast.PrintValue(dv)), true
}
