package invaliddoc

import (
	"strings"

	"verif/internal/model"
)

// The exhaustive small-scope family of DESIGN.md section 4 C02 (d): ALL
// documents
//
//	{ SET }  fragment F on Q { SET }  fragment G on Q { SET }  ...
//
// with n fragments (F, G, H, I), where every SET is a sequence of one or two
// selections over the alphabet
//
//	x: a   x: b   a   a(i: 1)   a(i: 2)   ...F   ...G   ...     (the n spreads)
//
// over the fixed model  type Q { a(i: Int): String  b: String }. All spread
// graphs on n fragments occur, cyclic ones, self loops and unused fragments
// included. Documents are addressed by (n, index); FamilySize(n) is the
// number of documents with n fragments.

var familyFields = []string{"x: a", "x: b", "a", "a(i: 1)", "a(i: 2)"}
var familyFragNames = []string{"F", "G", "H", "I"}

// FamilyModel is the fixed model of the family.
func FamilyModel() *model.Schema {
	str := model.Named("String")
	m := &model.Schema{Query: "Q", Types: []*model.TypeDef{
		{Kind: model.Object, Name: "Q", Fields: []*model.FieldDef{
			{Name: "a", Type: str, Args: []*model.InputDef{{Name: "i", Type: model.Named("Int")}}},
			{Name: "b", Type: str},
		}},
	}}
	m.Reindex()
	return m
}

func familyAlphabet(n int) []string {
	a := append([]string{}, familyFields...)
	for i := 0; i < n; i++ {
		a = append(a, "..."+familyFragNames[i])
	}
	return a
}

// setsPerSlot is the number of selection sets with one or two selections.
func setsPerSlot(n int) int {
	a := len(familyFields) + n
	return a + a*a
}

// FamilySize is the number of documents with n fragments (0 <= n <= 4).
func FamilySize(n int) uint64 {
	s := uint64(setsPerSlot(n))
	t := uint64(1)
	for i := 0; i <= n; i++ {
		t *= s
	}
	return t
}

func familySet(n int, code int) string {
	alpha := familyAlphabet(n)
	a := len(alpha)
	if code < a {
		return alpha[code]
	}
	code -= a
	return alpha[code/a] + " " + alpha[code%a]
}

// FamilyDoc returns the text of document number idx of the family with n
// fragments (idx < FamilySize(n)). Slot 0 is the query, slots 1..n the
// fragments F, G, ...
func FamilyDoc(n int, idx uint64) string {
	s := uint64(setsPerSlot(n))
	var b strings.Builder
	b.WriteString("{ " + familySet(n, int(idx%s)) + " }")
	idx /= s
	for i := 0; i < n; i++ {
		b.WriteString("\nfragment " + familyFragNames[i] + " on Q { " + familySet(n, int(idx%s)) + " }")
		idx /= s
	}
	return b.String()
}
