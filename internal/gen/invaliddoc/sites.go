// Package invaliddoc turns VALID neutral documents (from typedoc.Gen) into
// documents that break (ideally) exactly one validation rule each, by
// rule-targeted mutation operators; it also provides two-rule combinations
// and the exhaustive small-scope family of DESIGN.md section 4 C02 (d).
//
// Everything is addressable: an operator is applied with its own RNG stream
// (one stream per case, DEV.md), the family by document index.
//
// The operators work on a deep copy of the input tree; spans of the result
// are unset until it is printed (nast.Print) or rendered (gramdoc.Render).
package invaliddoc

import (
	"verif/internal/model"
	"verif/internal/nast"
)

func nm(s string) *nast.Name { return &nast.Name{Value: s} }

// ---- deep copy

// Clone deep-copies a document (executable definitions only).
func Clone(d *nast.Document) *nast.Document {
	out := &nast.Document{}
	for _, def := range d.Defs {
		switch v := def.(type) {
		case *nast.Operation:
			out.Defs = append(out.Defs, cloneOp(v))
		case *nast.Fragment:
			out.Defs = append(out.Defs, cloneFrag(v))
		}
	}
	return out
}

func cloneName(n *nast.Name) *nast.Name {
	if n == nil {
		return nil
	}
	return nm(n.Value)
}

func cloneOp(o *nast.Operation) *nast.Operation {
	c := &nast.Operation{Op: o.Op, Shorthand: o.Shorthand, Name: cloneName(o.Name), Directives: cloneDirs(o.Directives), Sel: cloneSel(o.Sel)}
	for _, vd := range o.Vars {
		c.Vars = append(c.Vars, cloneVarDef(vd))
	}
	return c
}

func cloneVarDef(vd *nast.VarDef) *nast.VarDef {
	return &nast.VarDef{Var: &nast.Variable{Name: cloneName(vd.Var.Name)}, Type: CloneType(vd.Type), Default: CloneValue(vd.Default)}
}

func cloneFrag(f *nast.Fragment) *nast.Fragment {
	return &nast.Fragment{Name: cloneName(f.Name), TypeCond: cloneNamed(f.TypeCond), Directives: cloneDirs(f.Directives), Sel: cloneSel(f.Sel)}
}

func cloneNamed(n *nast.Named) *nast.Named {
	if n == nil {
		return nil
	}
	return &nast.Named{Name: cloneName(n.Name)}
}

// CloneType deep-copies a type node.
func CloneType(t nast.Node) nast.Node {
	switch v := t.(type) {
	case *nast.Named:
		return cloneNamed(v)
	case *nast.List:
		return &nast.List{Of: CloneType(v.Of)}
	case *nast.NonNull:
		return &nast.NonNull{Of: CloneType(v.Of)}
	}
	return nil
}

func cloneDirs(ds []*nast.Directive) []*nast.Directive {
	var out []*nast.Directive
	for _, d := range ds {
		out = append(out, &nast.Directive{Name: cloneName(d.Name), Args: cloneArgs(d.Args)})
	}
	return out
}

func cloneArgs(as []*nast.Argument) []*nast.Argument {
	var out []*nast.Argument
	for _, a := range as {
		out = append(out, &nast.Argument{Name: cloneName(a.Name), Value: CloneValue(a.Value)})
	}
	return out
}

func cloneSel(s *nast.SelectionSet) *nast.SelectionSet {
	if s == nil {
		return nil
	}
	c := &nast.SelectionSet{}
	for _, it := range s.Items {
		switch v := it.(type) {
		case *nast.Field:
			c.Items = append(c.Items, &nast.Field{Alias: cloneName(v.Alias), Name: cloneName(v.Name), Args: cloneArgs(v.Args), Directives: cloneDirs(v.Directives), Sel: cloneSel(v.Sel)})
		case *nast.FragmentSpread:
			c.Items = append(c.Items, &nast.FragmentSpread{Name: cloneName(v.Name), Directives: cloneDirs(v.Directives)})
		case *nast.InlineFragment:
			c.Items = append(c.Items, &nast.InlineFragment{TypeCond: cloneNamed(v.TypeCond), Directives: cloneDirs(v.Directives), Sel: cloneSel(v.Sel)})
		}
	}
	return c
}

// CloneValue deep-copies a value node (nil stays nil).
func CloneValue(n nast.Node) nast.Node {
	switch v := n.(type) {
	case *nast.Variable:
		return &nast.Variable{Name: cloneName(v.Name)}
	case *nast.IntValue:
		return &nast.IntValue{Raw: v.Raw}
	case *nast.FloatValue:
		return &nast.FloatValue{Raw: v.Raw}
	case *nast.StringValue:
		return &nast.StringValue{Value: v.Value, Block: v.Block}
	case *nast.BooleanValue:
		return &nast.BooleanValue{Value: v.Value}
	case *nast.EnumValue:
		return &nast.EnumValue{Value: v.Value}
	case *nast.ListValue:
		c := &nast.ListValue{}
		for _, it := range v.Items {
			c.Items = append(c.Items, CloneValue(it))
		}
		return c
	case *nast.ObjectValue:
		c := &nast.ObjectValue{}
		for _, f := range v.Fields {
			c.Fields = append(c.Fields, &nast.ObjectField{Name: cloneName(f.Name), Value: CloneValue(f.Value)})
		}
		return c
	}
	return nil
}

// ---- sites: the places of a document an operator can act on, with the
// type environment the generator needs (generator-side knowledge; the
// reference validator computes its own).

type fieldSite struct {
	f      *nast.Field
	in     *nast.SelectionSet
	parent string // named parent type ("" unknown)
	def    *model.FieldDef
	meta   bool // __typename
	depth  int
	inOp   *nast.Operation // enclosing operation (nil inside a fragment definition)
}

type selSite struct {
	ss     *nast.SelectionSet
	parent string
	depth  int
	inOp   *nast.Operation
	inFrag *nast.Fragment
}

type valueSite struct {
	get      func() nast.Node
	set      func(nast.Node)
	expected *model.TypeRef
	depth    int  // 0 = the argument value itself
	inObject bool // directly a field of an input object
	inList   bool // directly an item of a list value
	isConst  bool // inside a variable default
}

type argSite struct {
	a     *nast.Argument
	owner nast.Node // *nast.Field | *nast.Directive
	def   *model.InputDef
}

type dirSite struct {
	d     *nast.Directive
	owner nast.Node
}

type objSite struct {
	ov    *nast.ObjectValue
	depth int // 0 = top level (an argument value / default / list item thereof); >0 nested in another object
}

type sites struct {
	s       *model.Schema
	doc     *nast.Document
	ops     []*nast.Operation
	frags   []*nast.Fragment
	fields  []*fieldSite
	sels    []*selSite
	values  []*valueSite
	args    []*argSite
	dirs    []*dirSite
	objs    []*objSite
	spreads []*nast.FragmentSpread
	inlines []*nast.InlineFragment
	// owners of directive lists
	owners []nast.Node
}

func composite(s *model.Schema, name string) string {
	if name != "" && s.IsComposite(name) {
		return name
	}
	return ""
}

func collect(s *model.Schema, doc *nast.Document) *sites {
	st := &sites{s: s, doc: doc}
	for _, d := range doc.Defs {
		switch v := d.(type) {
		case *nast.Operation:
			st.ops = append(st.ops, v)
			st.owners = append(st.owners, v)
			for _, vd := range v.Vars {
				if vd.Default != nil {
					vd := vd
					st.value(func() nast.Node { return vd.Default }, func(n nast.Node) { vd.Default = n }, typeOf(s, vd.Type), 0, false, false, true, 0)
				}
			}
			st.directives(v.Directives, v)
			st.sel(v.Sel, composite(s, s.Root(v.Op)), 0, v, nil)
		case *nast.Fragment:
			st.frags = append(st.frags, v)
			st.owners = append(st.owners, v)
			st.directives(v.Directives, v)
			st.sel(v.Sel, composite(s, v.TypeCond.Name.Value), 0, nil, v)
		}
	}
	return st
}

func typeOf(s *model.Schema, n nast.Node) *model.TypeRef {
	switch v := n.(type) {
	case *nast.Named:
		if s.Type(v.Name.Value) == nil {
			return nil
		}
		return model.Named(v.Name.Value)
	case *nast.List:
		if in := typeOf(s, v.Of); in != nil {
			return model.ListOf(in)
		}
	case *nast.NonNull:
		if in := typeOf(s, v.Of); in != nil {
			return model.NonNull(in)
		}
	}
	return nil
}

func (st *sites) directives(ds []*nast.Directive, owner nast.Node) {
	for _, d := range ds {
		st.dirs = append(st.dirs, &dirSite{d: d, owner: owner})
		var defs []*model.InputDef
		switch d.Name.Value {
		case "skip", "include":
			defs = []*model.InputDef{{Name: "if", Type: model.NonNull(model.Named("Boolean"))}}
		default:
			for _, dd := range st.s.Directives {
				if dd.Name == d.Name.Value {
					defs = dd.Args
				}
			}
		}
		st.arguments(d.Args, d, defs)
	}
}

func (st *sites) arguments(as []*nast.Argument, owner nast.Node, defs []*model.InputDef) {
	for _, a := range as {
		a := a
		var def *model.InputDef
		for _, d := range defs {
			if d.Name == a.Name.Value {
				def = d
			}
		}
		st.args = append(st.args, &argSite{a: a, owner: owner, def: def})
		var t *model.TypeRef
		if def != nil {
			t = def.Type
		}
		st.value(func() nast.Node { return a.Value }, func(n nast.Node) { a.Value = n }, t, 0, false, false, false, 0)
	}
}

func (st *sites) value(get func() nast.Node, set func(nast.Node), t *model.TypeRef, depth int, inObj, inList, isConst bool, objDepth int) {
	st.values = append(st.values, &valueSite{get: get, set: set, expected: t, depth: depth, inObject: inObj, inList: inList, isConst: isConst})
	switch v := get().(type) {
	case *nast.ListValue:
		var it *model.TypeRef
		if t != nil && t.Nullable().Kind == "list" {
			it = t.Nullable().Of
		}
		for i := range v.Items {
			i := i
			st.value(func() nast.Node { return v.Items[i] }, func(n nast.Node) { v.Items[i] = n }, it, depth+1, false, true, isConst, objDepth)
		}
	case *nast.ObjectValue:
		st.objs = append(st.objs, &objSite{ov: v, depth: objDepth})
		var td *model.TypeDef
		if t != nil {
			td = st.s.Type(t.Base())
			if td != nil && td.Kind != model.InputObject {
				td = nil
			}
		}
		for _, f := range v.Fields {
			f := f
			var ft *model.TypeRef
			if td != nil {
				if fd := td.InputField(f.Name.Value); fd != nil {
					ft = fd.Type
				}
			}
			st.value(func() nast.Node { return f.Value }, func(n nast.Node) { f.Value = n }, ft, depth+1, true, false, isConst, objDepth+1)
		}
	}
}

func (st *sites) sel(ss *nast.SelectionSet, parent string, depth int, inOp *nast.Operation, inFrag *nast.Fragment) {
	if ss == nil {
		return
	}
	st.sels = append(st.sels, &selSite{ss: ss, parent: parent, depth: depth, inOp: inOp, inFrag: inFrag})
	for _, it := range ss.Items {
		switch v := it.(type) {
		case *nast.Field:
			fs := &fieldSite{f: v, in: ss, parent: parent, depth: depth, inOp: inOp}
			if v.Name.Value == "__typename" {
				fs.meta = true
			} else if parent != "" {
				if td := st.s.Type(parent); td != nil {
					fs.def = td.Field(v.Name.Value)
				}
			}
			st.fields = append(st.fields, fs)
			st.owners = append(st.owners, v)
			var defs []*model.InputDef
			if fs.def != nil {
				defs = fs.def.Args
			}
			st.arguments(v.Args, v, defs)
			st.directives(v.Directives, v)
			sub := ""
			if fs.def != nil {
				sub = composite(st.s, fs.def.Type.Base())
			}
			st.sel(v.Sel, sub, depth+1, inOp, inFrag)
		case *nast.InlineFragment:
			st.inlines = append(st.inlines, v)
			st.owners = append(st.owners, v)
			st.directives(v.Directives, v)
			sub := parent
			if v.TypeCond != nil {
				sub = composite(st.s, v.TypeCond.Name.Value)
			}
			st.sel(v.Sel, sub, depth+1, inOp, inFrag)
		case *nast.FragmentSpread:
			st.spreads = append(st.spreads, v)
			st.owners = append(st.owners, v)
			st.directives(v.Directives, v)
		}
	}
}

// fresh returns a name with the given prefix that does not occur as a
// fragment name in the document.
func (st *sites) freshFragName(prefix string) string {
	// fragments appended to the document by an earlier operator count too
	var names []string
	for _, d := range st.doc.Defs {
		if f, ok := d.(*nast.Fragment); ok {
			names = append(names, f.Name.Value)
		}
	}
	for i := 0; ; i++ {
		n := prefix + itoa(i)
		free := true
		for _, u := range names {
			if u == n || (len(u) > len(n) && u[:len(n)+1] == n+"_") {
				free = false
			}
		}
		if free {
			return n
		}
	}
}

func (st *sites) freshVarName(op *nast.Operation, prefix string) string {
	used := map[string]bool{}
	for _, o := range st.ops {
		for _, vd := range o.Vars {
			used[vd.Var.Name.Value] = true
		}
	}
	for i := 0; ; i++ {
		n := prefix + itoa(i)
		if !used[n] {
			return n
		}
	}
}

func itoa(i int) string {
	if i == 0 {
		return "0"
	}
	var b []byte
	for i > 0 {
		b = append([]byte{byte('0' + i%10)}, b...)
		i /= 10
	}
	return string(b)
}
