// Package bytegen holds the seeded, index-addressable input generators of
// check C03: exhaustive token sequences, mutations of valid texts, an
// enumerated list of lexical corner cases, and layout variation with
// multi-byte text in ignored positions. Everything is a pure function of its
// arguments (and of the *core.RNG handed in), so a case can be regenerated
// from its id.
package bytegen

import (
	"strings"

	"verif/internal/core"
	"verif/internal/ref/syntax"
)

// Alphabet is the token alphabet of the exhaustive enumeration: the 14
// punctuators, 18 keywords, and one plain name, int, float, string and block
// string.
var Alphabet = []string{
	"!", "$", "(", ")", "...", ":", "=", "@", "[", "]", "{", "}", "|", "&",
	"query", "mutation", "subscription", "fragment", "on", "true", "false", "null",
	"schema", "scalar", "type", "interface", "union", "enum", "input", "extend", "directive", "implements",
	"a", "1", "1.5", `"s"`, `"""b"""`,
}

// TokenSeqCount is the number of sequences of the given length.
func TokenSeqCount(length int) uint64 {
	n := uint64(1)
	for i := 0; i < length; i++ {
		n *= uint64(len(Alphabet))
	}
	return n
}

// TokenSeq returns the index-th token sequence of the given length (index in
// [0, TokenSeqCount(length))), tokens joined by single spaces. The first
// token varies slowest.
func TokenSeq(index uint64, length int) string {
	k := uint64(len(Alphabet))
	var parts [16]string
	if length > len(parts) {
		length = len(parts)
	}
	for i := length - 1; i >= 0; i-- {
		parts[i] = Alphabet[index%k]
		index /= k
	}
	return strings.Join(parts[:length], " ")
}

// ---- mutations

// MutationOps names the mutation operators (for feature histograms).
var MutationOps = []string{
	"tok-insert", "tok-delete", "tok-swap", "tok-replace", "tok-dup",
	"byte-flip", "byte-insert", "byte-delete", "multibyte-insert", "newline-insert",
	"control-insert", "special-insert", "truncate", "corner-insert", "tok-move",
}

var multiByte = []string{"é", "€", "😀", "\ufeff", "\u2028", "\u00a0", "ÿ", "\u0301", "\ufffd", "\U0010FFFF"}
var newlines = []string{"\n", "\r", "\r\n", "\n\r", "\r\r\n"}
var specials = []string{`"`, `\`, "#", ".", "-", "0", "9", "e", "E", "+", "_", ",", `"""`, `\"`, `\u`, "..", "'", "`", "~", "%", "^", "*", ";", "<", ">", "?", "/"}

type piece struct{ start, end int }

// pieces splits text into token lexemes (by the reference lexer as far as it
// gets, then by blanks).
func pieces(text string) []piece {
	toks, err := syntax.Tokens([]byte(text))
	var ps []piece
	last := 0
	for _, t := range toks {
		if t.Kind == syntax.KEOF {
			break
		}
		ps = append(ps, piece{t.Start, t.End})
		last = t.End
	}
	if err != nil {
		// split the remainder on blanks
		i := last
		for i < len(text) {
			for i < len(text) && (text[i] == ' ' || text[i] == '\n' || text[i] == '\t' || text[i] == '\r') {
				i++
			}
			st := i
			for i < len(text) && !(text[i] == ' ' || text[i] == '\n' || text[i] == '\t' || text[i] == '\r') {
				i++
			}
			if i > st {
				ps = append(ps, piece{st, i})
			}
		}
	}
	return ps
}

// Mutate applies one mutation operator chosen by r to text and returns the
// mutated text and the operator's name.
func Mutate(r *core.RNG, text string) (string, string) {
	op := r.Intn(len(MutationOps))
	name := MutationOps[op]
	ps := pieces(text)
	tok := func() string { return Alphabet[r.Intn(len(Alphabet))] }
	bytePos := func() int { return r.Intn(len(text) + 1) }
	insertAt := func(p int, s string) string { return text[:p] + s + text[p:] }
	boundary := func() int {
		if len(ps) == 0 {
			return bytePos()
		}
		k := r.Intn(len(ps) + 1)
		if k == len(ps) {
			return ps[k-1].end
		}
		return ps[k].start
	}
	switch name {
	case "tok-insert":
		return insertAt(boundary(), " "+tok()+" "), name
	case "tok-delete":
		if len(ps) == 0 {
			return text, name
		}
		p := ps[r.Intn(len(ps))]
		return text[:p.start] + text[p.end:], name
	case "tok-swap":
		if len(ps) < 2 {
			return text, name
		}
		i := r.Intn(len(ps) - 1)
		a, b := ps[i], ps[i+1]
		return text[:a.start] + text[b.start:b.end] + text[a.end:b.start] + text[a.start:a.end] + text[b.end:], name
	case "tok-move":
		if len(ps) < 3 {
			return text, name
		}
		i, j := r.Intn(len(ps)), r.Intn(len(ps))
		if i == j {
			return text, name
		}
		a := ps[i]
		lex := text[a.start:a.end]
		rest := text[:a.start] + text[a.end:]
		at := ps[j].start
		if j > i {
			at -= a.end - a.start
		}
		return rest[:at] + " " + lex + " " + rest[at:], name
	case "tok-replace":
		if len(ps) == 0 {
			return text, name
		}
		p := ps[r.Intn(len(ps))]
		return text[:p.start] + tok() + text[p.end:], name
	case "tok-dup":
		if len(ps) == 0 {
			return text, name
		}
		p := ps[r.Intn(len(ps))]
		return text[:p.end] + " " + text[p.start:p.end] + text[p.end:], name
	case "byte-flip":
		if len(text) == 0 {
			return text, name
		}
		b := []byte(text)
		b[r.Intn(len(b))] ^= 1 << uint(r.Intn(8))
		return string(b), name
	case "byte-insert":
		return insertAt(bytePos(), string([]byte{byte(r.Intn(256))})), name
	case "byte-delete":
		if len(text) == 0 {
			return text, name
		}
		p := r.Intn(len(text))
		return text[:p] + text[p+1:], name
	case "multibyte-insert":
		return insertAt(bytePos(), multiByte[r.Intn(len(multiByte))]), name
	case "newline-insert":
		return insertAt(bytePos(), newlines[r.Intn(len(newlines))]), name
	case "control-insert":
		c := byte(r.Intn(33))
		if c == 32 {
			c = 0x7f
		}
		return insertAt(bytePos(), string([]byte{c})), name
	case "special-insert":
		return insertAt(bytePos(), specials[r.Intn(len(specials))]), name
	case "truncate":
		return text[:bytePos()], name
	case "corner-insert":
		cs := Corners()
		return insertAt(boundary(), " "+cs[r.Intn(len(cs))].Text+" "), name
	}
	return text, name
}

// ---- layout variation

// LayoutOptions steer Relayout.
type LayoutOptions struct {
	MultiByte bool // comments with multi-byte text and BOMs between tokens
	Tight     bool // drop separators where the grammar allows it
	Strings   bool // replace some plain string literals by strings with multi-byte content
}

var asciiComments = []string{"#", "# c", "#,", "# {}()[]:!@$=|&...", "#\"", "#\t#", "# \"\"\" ", "#query", "#1"}
var mbComments = []string{"#é", "# €uro", "#😀", "#aé😀€z", "#\u2028", "#\u00a0", "# \ufeff", "#éééé", "#\U0010FFFF"}
var mbStrings = []string{`"é"`, `"€😀"`, `"a é b"`, "\"\ufeff\"", `"😀😀😀😀"`, `"é\n€"`}

func needsSeparator(a, b syntax.Token) bool {
	punct := func(t syntax.Token) bool {
		switch t.Kind {
		case syntax.KName, syntax.KInt, syntax.KFloat, syntax.KString, syntax.KBlockString:
			return false
		}
		return true
	}
	if !punct(a) && !punct(b) {
		return true
	}
	if (a.Kind == syntax.KInt || a.Kind == syntax.KFloat) && b.Kind == "..." {
		return true
	}
	return false
}

// Relayout re-renders the token stream of a valid text with random ignored
// runs (blanks, commas, LF/CR/CRLF, comments, and with MultiByte also
// multi-byte comments and BOMs). The token sequence is unchanged, so the
// result is valid whenever text is. ok is false when text does not lex.
func Relayout(r *core.RNG, text string, o LayoutOptions) (out string, ok bool) {
	toks, err := syntax.Tokens([]byte(text))
	if err != nil {
		return text, false
	}
	var sb strings.Builder
	ignored := func(min int) {
		n := min
		if r.Chance(50) {
			n += r.Intn(3)
		}
		for i := 0; i < n; i++ {
			switch k := r.Intn(14); {
			case k < 4:
				sb.WriteByte(' ')
			case k == 4:
				sb.WriteByte('\t')
			case k == 5:
				sb.WriteByte(',')
			case k < 9:
				sb.WriteString(newlines[r.Intn(3)])
			case k < 11:
				sb.WriteString(asciiComments[r.Intn(len(asciiComments))])
				sb.WriteString(newlines[r.Intn(3)])
			case k == 11 && o.MultiByte:
				sb.WriteString("\ufeff")
			case o.MultiByte:
				sb.WriteString(mbComments[r.Intn(len(mbComments))])
				sb.WriteString(newlines[r.Intn(3)])
			default:
				sb.WriteByte(' ')
			}
		}
	}
	if o.MultiByte && r.Chance(30) {
		sb.WriteString("\ufeff")
	}
	if r.Chance(30) {
		ignored(1)
	}
	for i, t := range toks {
		if t.Kind == syntax.KEOF {
			break
		}
		if i > 0 {
			min := 1
			if !needsSeparator(toks[i-1], t) && (o.Tight || r.Chance(25)) {
				min = 0
			}
			if min == 0 && !r.Chance(30) {
				// nothing
			} else {
				ignored(min)
			}
		}
		lex := text[t.Start:t.End]
		if o.Strings && t.Kind == syntax.KString && r.Chance(50) {
			lex = mbStrings[r.Intn(len(mbStrings))]
		}
		sb.WriteString(lex)
	}
	if r.Chance(40) {
		ignored(1)
		if r.Chance(30) {
			// a final comment without line terminator
			sb.WriteString(" # end")
			if o.MultiByte && r.Chance(50) {
				sb.WriteString(" é")
			}
		}
	}
	return sb.String(), true
}
