package bytegen

import (
	"testing"

	"verif/internal/core"
	"verif/internal/ref/syntax"
)

func TestTokenSeq(t *testing.T) {
	if len(Alphabet) != 37 || TokenSeqCount(4) != 37*37*37*37 {
		t.Fatalf("alphabet %d", len(Alphabet))
	}
	if TokenSeq(0, 1) != "!" || TokenSeq(36, 1) != `"""b"""` || TokenSeq(37, 2) != "$ !" || TokenSeq(37*37-1, 2) != `"""b""" """b"""` {
		t.Errorf("indexing: %q %q %q", TokenSeq(0, 1), TokenSeq(36, 1), TokenSeq(37, 2))
	}
	seen := map[string]bool{}
	for i := uint64(0); i < TokenSeqCount(2); i++ {
		seen[TokenSeq(i, 2)] = true
	}
	if len(seen) != 37*37 {
		t.Errorf("length-2 sequences are not distinct: %d", len(seen))
	}
}

func TestSeedsAndRelayout(t *testing.T) {
	for i, s := range SeedDocs() {
		if _, err := syntax.Parse([]byte(s)); err != nil {
			t.Errorf("seed %d rejected at %d: %s\n%s", i, err.Pos, err.Msg, s)
			continue
		}
		want, _ := syntax.Tokens([]byte(s))
		for k := 0; k < 20; k++ {
			r := core.NewRNG(uint64(i)).Derive(uint64(k))
			out, ok := Relayout(r, s, LayoutOptions{MultiByte: k%2 == 0, Tight: k%3 == 0})
			if !ok {
				t.Fatalf("seed %d does not lex", i)
			}
			got, err := syntax.Tokens([]byte(out))
			if err != nil || len(got) != len(want) {
				t.Errorf("seed %d layout %d: token stream changed (%v)\n%q", i, k, err, out)
				continue
			}
			for j := range got {
				if got[j].Kind != want[j].Kind || got[j].Value != want[j].Value {
					t.Errorf("seed %d layout %d: token %d %v != %v", i, k, j, got[j], want[j])
					break
				}
			}
			out2, _ := Relayout(core.NewRNG(uint64(i)).Derive(uint64(k)), s, LayoutOptions{MultiByte: k%2 == 0, Tight: k%3 == 0})
			if out2 != out {
				t.Errorf("Relayout is not deterministic")
			}
		}
	}
}

func TestMutateDeterministic(t *testing.T) {
	ops := map[string]bool{}
	base := SeedDocs()[3]
	for i := 0; i < 2000; i++ {
		a, op := Mutate(core.NewRNG(7).Derive(uint64(i)), base)
		b, _ := Mutate(core.NewRNG(7).Derive(uint64(i)), base)
		if a != b {
			t.Fatalf("Mutate is not deterministic at %d", i)
		}
		ops[op] = true
	}
	if len(ops) != len(MutationOps) {
		t.Errorf("operators seen: %d of %d", len(ops), len(MutationOps))
	}
	if NumCornerCases() < 4000 || len(DocCorners()) < 100 {
		t.Errorf("corner list too small: %d, %d", NumCornerCases(), len(DocCorners()))
	}
}
