package bytegen

import "strings"

// Corner is one enumerated lexical corner case: a lexeme (or a short run of
// lexemes) that is placed in value / description positions of a few
// documents.
type Corner struct {
	Group string // escapes | unicode-escapes | numbers | strings | blockstrings | names | punctuators
	Text  string
}

const bs = `\`
const q3 = `"""`

// U is a backslash followed by u.
const U = bs + "u"

var corners []Corner

// Corners returns the enumerated corner list (stable order).
func Corners() []Corner { return corners }

func init() {
	add := func(group string, texts ...string) {
		for _, t := range texts {
			corners = append(corners, Corner{Group: group, Text: t})
		}
	}
	// every single-character escape over printable ASCII (8 valid, the rest invalid)
	for c := 0x20; c < 0x7f; c++ {
		add("escapes", `"`+bs+string(rune(c))+`"`)
	}
	add("escapes",
		`"a`+bs+`"b`+bs+bs+`c`+bs+`/d`+bs+`be`+bs+`ff`+bs+`ng`+bs+`rh`+bs+`ti"`,
		`"`+bs+bs+bs+`""`, `"`+bs+bs+`"`, `"`+bs+`é"`, `"`+bs+"\t"+`"`, `"`+bs+"\n"+`"`, `"`+bs,
	)
	add("unicode-escapes",
		`"`+U+`"`, `"`+U+`0"`, `"`+U+`00"`, `"`+U+`004"`, `"`+U+`0041"`, `"`+U+`00411"`,
		`"`+U+`ZZZZ"`, `"`+U+`004G"`, `"`+U+`G041"`, `"`+U+` 041"`, `"`+U+`00e9"`, `"`+U+`00E9"`, `"`+U+`abcd"`, `"`+U+`ABCD"`,
		`"`+bs+`U0041"`, `"`+U+`{41}"`, `"`+U+`+041"`, `"`+U+`-041"`, `"`+U+`0x41"`,
		`"`+U+`0000"`, `"`+U+`001F"`, `"`+U+`007F"`, `"`+U+`0080"`, `"`+U+`FEFF"`, `"`+U+`FFFE"`, `"`+U+`FFFF"`, `"`+U+`D7FF`+U+`E000"`,
		`"`+U+`D83D`+U+`DE00"`, `"`+U+`d83d`+U+`de00"`, `"`+U+`D83D"`, `"`+U+`DE00"`, `"`+U+`DE00`+U+`D83D"`, `"`+U+`D83Dx"`, `"`+U+`D83D`+bs+`n"`, `"`+U+`DBFF`+U+`DFFF"`, `"`+U+`D800`+U+`DBFF"`,
		`"`+U+`004`, `"`+U+`0041`, `"`+U, `"`+U+`00é9"`, `"`+U+`00`+"\n"+`41"`,
		`"x`+U+`0041`+U+`0042y"`, `"`+bs+bs+`u0041"`,
	)
	add("numbers",
		"0", "-0", "00", "01", "-01", "007", "1.", ".5", "1.5", "1e", "1e+", "1e-", "1E5", "1e5", "1e+5", "1e-5", "1E+5", "1E-5", "-", "-a", "- 1", "0.0e-0",
		"1.0E+10", "-1.5e-3", "1.e5", "1e5.5", "1.5.5", "1..5", "0.", "0e0", "0E0", "-0e0", "0.0", "-0.0", "00.5", "0.5", "0.50", "10", "100", "-100", "9", "-9",
		"123456789012345678901234567890", "-123456789012345678901234567890", "1e400", "1.7976931348623157e309", "0.000000000000000000000000000001",
		"+1", "--1", "-+1", "1-", "1-2", "1+2", "1e", "1ee5", "1e5e5", "1a", "0x1", "1.5e3x", "1_0", "0b1", "1f", "1.0f", "1L", "-1a", "0_", "1E", "1e+a", "1.a", "1.e", "-.5", "-e5", ".e5", "1,5", "1 .5", "1. 5", "0-0", "1.5-1.5", "1e5-1",
	)
	add("strings",
		`""`, `"a"`, `"abc`, `"abc`+bs, `"abc`+bs+`"`, `"`, `"a" "b"`, `"a""b"`, `"a"b"`, `'a'`, "`a`",
		"\"a\tb\"", "\"a\nb\"", "\"a\rb\"", "\"a\r\nb\"", "\"a\x00b\"", "\"a\x01b\"", "\"a\x08b\"", "\"a\x0bb\"", "\"a\x0cb\"", "\"a\x1fb\"", "\"a\x7fb\"", "\"a\ufeffb\"",
		"\"é\"", "\"€\"", "\"\U0001F600\"", "\"a é € \U0001F600 z\"", "\"\u2028\"", "\"\u00a0\"", "\"\u0301\"", "\"\ufffd\"", "\"\U0010FFFF\"", "\"\uffff\"",
		`"# not a comment"`, `"a, b"`, `"..."`, `"{}"`, `"/"`, `"'"`, `" "`, `"  a  "`, `"query"`, `"null"`,
	)
	add("blockstrings",
		q3, q3+`"`, q3+`""`, q3+q3, q3+q3+`"`, q3+q3+`""`, q3+q3+q3, q3+`a`+q3, q3+`abc`, q3+`abc"`, q3+`abc""`, q3+`abc`+bs+q3,
		q3+bs+q3+q3, q3+bs+q3, q3+`a`+bs+q3+`b`+q3, q3+bs+q3+bs+q3+q3, q3+bs+bs+q3, q3+bs+bs+` `+q3, q3+bs+bs+bs+q3+q3, q3+`a`+q3+`b`+q3, q3+`a"b""c`+q3, q3+`"a`+q3, q3+`a" `+q3, q3+`""a`+q3,
		q3+`a`+bs+`nb`+bs+`q`+U+`12`+q3, q3+bs+q3, q3+bs+`"`+q3, q3+bs+`""`+q3,
		// indentation
		q3+"\n  a\n    b\n  c\n"+q3, q3+"\n\ta\n\t\tb\n\tc\n"+q3, q3+"\r\n  a\r\n    b\r\n  c\r\n"+q3, q3+"\r  a\r    b\r  c\r"+q3,
		q3+"  a\n  b"+q3, q3+"abcdef\n    x"+q3, q3+"ab\n    x"+q3, q3+"    \n    x"+q3, q3+"a\n  b\n  c"+q3, q3+"  a\n b\n  c"+q3,
		q3+"\n  a\n \n  b"+q3, q3+"\n  a\n\n  b"+q3, q3+"\n  a\n   \n  b"+q3, q3+"a\n \n  b"+q3, q3+"\n    a\n  \n \n    b"+q3,
		q3+"\n\n  a\n\n  b\n\n   \n"+q3, q3+"   \n \t \n"+q3, q3+"\n"+q3, q3+"\n\n"+q3, q3+" "+q3, q3+"\t"+q3, q3+"\r\n"+q3, q3+"\n\r"+q3,
		q3+"a\n\n\n"+q3, q3+"\n\n\na"+q3, q3+"a\n\r  b"+q3, q3+"a\r\n\r\n  b"+q3, q3+"a\n  b\r   c\r\n    d"+q3,
		q3+"\n\ta\n  b"+q3, q3+"\n \ta\n\t b"+q3, q3+"\n  a  \n  b  "+q3, q3+"\n  é\n   €"+q3, q3+"\n  a\n  \ufeffb"+q3, q3+"\n\u00a0 a\n  b"+q3,
		q3+"  a"+q3, q3+"a  "+q3, q3+"  a\n"+q3, q3+"\n  a"+q3, q3+"\n  a\n"+q3, q3+"a\n  "+bs+q3+"\n  b"+q3, q3+"a\x00b"+q3, q3+"a\x0bb"+q3, q3+"a\x1fb"+q3, q3+"a\x7fb"+q3, q3+"a\tb"+q3,
		q3+"\n      deep\n    less\n  least\nnone\n"+q3,
	)
	add("names",
		"a", "A", "_", "__", "_1", "a1", "A9_", "__typename", "a_b_c", "aB", "a1b2c3", "1a", "a-b", "a.b", "aé", "é", "a\u0301", "\ufeffa", "a\ufeff", "a\ufeffb",
		strings.Repeat("a", 300), "on", "true", "false", "null", "nul", "tru", "TRUE", "Null", "query", "fragment", "implements", "extend",
	)
	add("punctuators",
		".", "..", "...", "....", ".....", "......", ". . .", ".. .", ". ..", "$$", "$$a", "$a$b", "$", "$ a", "$1", "$\"a\"", "!!", "!", "@@", "@", "@a@b", "::", ":", "==", "=", "[[", "]]", "[]", "[[]]", "{{", "}}", "{}", "{{}}", "||", "|", "&&", "&", "((", "))", "()",
		"!$", "...a...", "a...", "...1", "1...", "\"a\"...", "...\"a\"", "[...]", "{...}", "[1,]", "[,1]", "[,]", "[,,,]", "{,}", "{a:1,}", "{,a:1}", "{a:,1}", "{a,:1}", "[1 2]", "[1,,2]", "[a b]", "[$a $b]", "{a:1 b:2}", "{a:1,b:2}", "{a:{b:{c:[[[]]]}}}",
		"#", "# c", "#\n", "1#c\n", "a#b", "?", "%", "^", "*", "~", ";", "<", ">", "/", bs, "`", "'",
	)
}

// Context is a document with a hole.
type Context struct {
	Name   string
	Prefix string
	Suffix string
	Value  bool // the bare corner, parsed with ParseValue
}

var contexts = []Context{
	{Name: "arg", Prefix: "{ f(a: ", Suffix: ") }"},
	{Name: "vardefault", Prefix: "query($v: Int = ", Suffix: "){f}"},
	{Name: "description", Prefix: "", Suffix: " type T { f: Int }"},
	{Name: "fielddesc", Prefix: "type T { ", Suffix: " f(", Value: false},
	{Name: "list", Prefix: "{ f(a: [", Suffix: " 1]) }"},
	{Name: "object", Prefix: "{ f(a: {k: ", Suffix: "}) }"},
	{Name: "argdefault", Prefix: "type T { f(a: Int = ", Suffix: " @d): Int }"},
	{Name: "selection", Prefix: "{ a ", Suffix: " b }"},
	{Name: "tight", Prefix: "{f(a:", Suffix: ")}"},
	{Name: "value", Value: true},
}

func init() {
	// fielddesc: the corner as the description of a field and of an argument
	contexts[3].Suffix = " f(" + "\"ad\"" + " x: Int): Int }"
}

// Contexts returns the embedding contexts.
func Contexts() []Context { return contexts }

// NumCornerCases is the number of (corner, context) pairs.
func NumCornerCases() int { return len(corners) * len(contexts) }

// CornerCase returns the i-th (corner, context) pair and its text.
func CornerCase(i int) (c Corner, ctx Context, text string) {
	c = corners[i/len(contexts)]
	ctx = contexts[i%len(contexts)]
	return c, ctx, ctx.Prefix + c.Text + ctx.Suffix
}

// DocCorners are whole-document corner cases (keyword-like strings, empty
// documents, descriptions in odd places, BOM placement, ...).
func DocCorners() []string {
	return []string{
		"", " ", "\n", ",", ",,,", "#", "# c", "# c\n", "\ufeff", "\ufeff\ufeff", " \ufeff ", "\ufeff# c\n", "\t\r\n",
		"\ufeff{ a }", "\ufeffquery { a }", "\ufeff query { a }", "\ufeff\nquery Q { a }", "{ a }\ufeff", "{\ufeffa\ufeff}", "query\ufeffQ { a }", "\ufefftype T { a: Int }", "{ a \ufeff: b }",
		`{ ... "on" T { a } }`, `{ ... ` + q3 + `on` + q3 + ` T { a } }`, `{ ..."on" { a } }`, `{ ... "on" }`, `{ ... "off" T { a } }`,
		`type A "implements" B { }`, `type A ` + q3 + `implements` + q3 + ` B { f: Int }`, `type A "implements" & B & C { }`, `type A "implements" { }`, `extend type A "implements" B { }`, `type A "implement" B { }`,
		`fragment F "on" T { a }`, `fragment "on" on T { a }`, `directive @d "on" FIELD`, `"extend" type T { }`, `"type" T { }`, `"query" { a }`, `"schema" { query: Q }`, `"fragment" F on T { a }`,
		`"d" schema { query: Q }`, `"d" extend type T { }`, `extend "d" type T { }`, `extend ` + q3 + `d` + q3 + ` type T { a: Int }`, `extend "d" "e" type T { }`, `"d" query { a }`, `"d" { a }`, `"d" fragment F on T { a }`, `"d" "e" type T { }`, `"d"`, q3 + `d` + q3, `"d" directive @x on A`, `"d" scalar S "e" scalar T`,
		`enum E { true false null }`, `enum E { on query type }`, `directive @d on FOO | bar | on`, `type T { f: Int } "d"`,
		`schema { query: Q } schema { query: R }`, `schema { }`, `schema { query: Q, }`, `type T { , }`, `type T { ,f: Int, }`, `enum E { , }`, `input I { , }`, `{ , }`, `{ a(,) }`, `query (,) { a }`,
		`query($a: [Int}) {f}`, `query($a: ]) {f}`, `query($a: ) {f}`, `query($a: [Int) {f}`, `query($a: [Int`, `query($a: [`, `query($a:`, `type T { f: [Int`, `type T { f: [`, `type T { f:`, `type T { f(a: [Int`, `directive @d(a: [Int`, `input I { a: [Int`,
		`query($a: Int!!) {f}`, `query($a: [Int]!!) {f}`, `query($a: [[[Int!]!]!]!) {f}`, `query($a: [!]) {f}`, `query($a: Int[]) {f}`,
		`type T implements & { }`, `type T implements & & A { }`, `type T implements A & { }`, `type T implements A && B { }`, `type T implements "A" { }`, `type T implements A B { }`, `type T implements A, B { }`, `type T implements & A, & B { }`,
		`union U = | A`, `union U = A |`, `union U = A || B`, `union U = "A"`, `union U = A | "B"`,
		`{ a }}`, `{{ a }`, `{ a } x`, `{ a } 1`, `{ a } "s"`, `{ a } query`, `{ a } query { b } fragment`, `x { a }`,
	}
}

// SeedDocs are small valid documents that together use every production of
// the dialect; they are the bases of the mutation and layout workloads (with
// the two kitchen-sink files of /repo and generated documents).
func SeedDocs() []string {
	return []string{
		`{ a }`,
		`{ a b c }`,
		`query Q { a { b { c } } }`,
		`query Q($v: Int, $w: [String!]! = ["a", "b"], $x: In = {k: 1, l: [true, false], m: E}) @d(a: $v) { x: f(a: $v, b: 1.5e3, c: "s", d: """b""", e: [1, [2]], g: {h: $w}) @skip(if: $v) @include(if: true) { y } }`,
		`mutation M { m(a: -1) { r } }`,
		`subscription S($i: ID!) @live { s(i: $i) }`,
		`{ ...F ... on T { a } ... @d { b } ... { c } ...G @e(x: 1) }`,
		`fragment F on T @d { a ...G } fragment G on U { b }`,
		`query A { a } query B { b } mutation C { c } fragment D on E { f }`,
		`{ on query mutation subscription fragment true false null schema scalar type interface union enum input extend directive implements }`,
		`{ a(on: on, true: true, null: nul, query: query) }`,
		`{ a(x: "é€😀 ` + U + `00e9 \n \" \\ \/ \b\f\r\t") }`,
		`schema { query: Q mutation: M subscription: S }`,
		`schema @d(a: 1) { query: Q }`,
		`scalar S scalar T @d @e(a: [1, 2])`,
		`"desc" scalar S`,
		`"""
  block description
    indented
  """
type T implements I & J @d { "field" f("arg" a: Int = 1 @e, b: [S!]! = ["x"]): T @f g: [[Int!]]! }`,
		`type T { }`,
		`type T implements & I { f: Int }`,
		`interface I @d { f(a: Int): Int "d" g: S }`,
		`interface I { }`,
		`union U = A`,
		`"u" union U @d = A | B | C`,
		`enum E { A B C }`,
		`"e" enum E @d { "a" A @e B @f(x: 1) }`,
		`enum E { }`,
		`input I { a: Int b: [S] = [] c: J = {} }`,
		`"i" input I @d { "a" a: Int = 1 @e }`,
		`input I { }`,
		`extend type T { f: Int }`,
		`extend type T implements I @d { "f" f(a: Int): Int }`,
		`directive @d on FIELD`,
		`"dd" directive @d("a" a: Int = 1 @x, b: S) on FIELD | FRAGMENT_SPREAD | INLINE_FRAGMENT | QUERY`,
		`type Q { a: Int } { a } scalar S query R { b }`,
		`type T { type: type query: query on(on: on = on): on }`,
		`{ a(x: [[[]]], y: {}, z: {a: {b: {c: []}}}) }`,
		`{ a(x: 0, y: -0, z: 0.0, w: 1e10, v: -1.5E-10, u: 123456789012345678901234567890) }`,
		`{ a(s: "", t: """""", u: " ", v: """ """, w: """a"b""c""", x: """\"""""") }`,
		`query ($a: Int = 1 $b: Int = 2) { a(x: $a y: $b) }`,
		`{a{b{c{d{e{f{g{h{i{j}}}}}}}}}}`,
	}
}
