package gramdoc

import (
	"verif/internal/core"
	"verif/internal/nast"
)

// Placeholder bodies: to be replaced by gen.go / render.go.

func Gen(r *core.RNG, opts Options) *nast.Document { panic("gramdoc.Gen: not implemented yet") }
func GenValue(r *core.RNG, depth int, isConst bool) nast.Node {
	panic("gramdoc.GenValue: not implemented yet")
}
func Render(doc *nast.Document, lay *Layout) string { panic("gramdoc.Render: not implemented yet") }
func RenderValue(v nast.Node, lay *Layout) string   { panic("gramdoc.RenderValue: not implemented yet") }
func Compact() *Layout                              { panic("gramdoc.Compact: not implemented yet") }
func RandomLayout(r *core.RNG) *Layout              { panic("gramdoc.RandomLayout: not implemented yet") }
