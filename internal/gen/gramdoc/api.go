// Package gramdoc generates random GraphQL documents as neutral trees
// (nast) straight from the grammar (type-unaware), and renders neutral trees
// to source text under a layout policy, filling in every node's byte span.
//
// API contract (other packages compile against these signatures):
//
//	Gen(r, opts)            random document, executable and/or type-system definitions
//	GenValue(r, depth, c)   random value (const ⇒ no variables)
//	Render(doc, lay)        text of the document; sets Span on every node of doc (byte offsets)
//	RenderValue(v, lay)     same for a lone value
//	Compact()               layout with single spaces, LF, no comments (canonical)
//	RandomLayout(r)         random layout: LF/CR/CRLF mixes, indentation, commas, comments
//	                        (ASCII or multi-byte), BOM at start, blank lines
//
// Additions (same package, purely additive):
//
//	RenderInfo(doc, lay)    Render + Info{NameAfterMultiByteIgnored (the D6 input class), Tokens}
//	BlockRepresentable(v)   can a block string have exactly the value v?
//	BlockStringValue(raw)   the specification's BlockStringValue algorithm (written from the spec text)
//
// Bodies: gen.go (generator), render.go (renderer, span conventions in the
// comment of Render), strings.go (string and block-string spelling).
package gramdoc

import (
	"verif/internal/core"
	"verif/internal/nast"
)

// Options steer Gen.
type Options struct {
	Executable bool // generate operations and fragments
	TypeSystem bool // generate type-system definitions
	MaxDepth   int  // selection / value nesting depth (default 4)
	MaxWidth   int  // items per list (default 4)
	RichValues bool // strings over hostile character classes, block strings, nested values
	MaxDefs    int  // definitions per document (default 4)
}

// Layout steers Render. The zero value is NOT valid; use Compact or RandomLayout.
type Layout struct {
	Newline      []string // pool of line terminators used for line breaks ("\n", "\r", "\r\n")
	Indent       string   // indentation unit
	Multiline    bool     // break lines inside selection sets / definitions
	Commas       int      // percent chance of a comma between list items / args / selections
	Comments     int      // percent chance of a comment before a token (comment ends at a line terminator)
	MultiByte    bool     // comments may contain multi-byte UTF-8 text
	BOM          bool     // emit U+FEFF at the very start
	ExtraSpace   int      // percent chance of extra blanks between tokens
	BlockStrings bool     // StringValue{Block:true} is written as a block string when representable
	R            *core.RNG
}

// The functions below are the contract; see gen.go / render.go / strings.go for the bodies.
var (
	_ func(r *core.RNG, opts Options) *nast.Document       = Gen
	_ func(r *core.RNG, depth int, isConst bool) nast.Node = GenValue
	_ func(doc *nast.Document, lay *Layout) string         = Render
	_ func(v nast.Node, lay *Layout) string                = RenderValue
	_ func() *Layout                                       = Compact
	_ func(r *core.RNG) *Layout                            = RandomLayout
)
