package gramdoc

import (
	"strings"

	"verif/internal/core"
	"verif/internal/nast"
)

// Gen draws a random document straight from the grammar of DESIGN.md
// Appendix A.1 (type-unaware). The tree is always representable in the
// dialect: names match [_A-Za-z][_0-9A-Za-z]*, no null literal, enum values
// are never true/false/null, no variables in const positions, `( )` and
// selection sets are never empty, fragment names are never `on`, NonNull never
// wraps NonNull, StringValue{Block:true} only for BlockRepresentable values.
// Spans are zero until Render fills them in.
//
// Gen is a pure function of the RNG state: no maps are iterated, no clock, no
// math/rand.
func Gen(r *core.RNG, opts Options) *nast.Document {
	g := newGen(r, opts)
	n := r.Range(1, g.o.MaxDefs)
	doc := &nast.Document{}
	for i := 0; i < n; i++ {
		ts := g.o.TypeSystem && (!g.o.Executable || r.Bool())
		if ts {
			doc.Defs = append(doc.Defs, g.typeSystemDef())
		} else {
			doc.Defs = append(doc.Defs, g.executableDef())
		}
	}
	return doc
}

// GenValue draws a random value with nesting depth at most depth (0 = a
// scalar). With isConst no variable occurs anywhere inside. Strings are drawn
// from the hostile classes (as with Options.RichValues).
func GenValue(r *core.RNG, depth int, isConst bool) nast.Node {
	g := newGen(r, Options{RichValues: true, MaxDepth: depth})
	return g.value(depth, isConst)
}

type gen struct {
	r *core.RNG
	o Options
}

func newGen(r *core.RNG, o Options) *gen {
	if !o.Executable && !o.TypeSystem {
		o.Executable = true
	}
	if o.MaxDepth <= 0 {
		o.MaxDepth = 4
	}
	if o.MaxWidth <= 0 {
		o.MaxWidth = 4
	}
	if o.MaxDefs <= 0 {
		o.MaxDefs = 4
	}
	return &gen{r: r, o: o}
}

// ---------------------------------------------------------------------------
// names
// ---------------------------------------------------------------------------

var plainNames = []string{"a", "b", "c", "d", "e", "f", "x", "y", "z", "id", "name", "foo", "bar", "baz", "qux",
	"A", "B", "C", "T", "U", "Foo", "Bar", "Query", "Node", "Int", "String", "Boolean", "ID", "Float",
	"_", "__", "_a", "a_", "__typename", "__schema", "a1", "x2y", "_0", "A9", "camelCase", "snake_case", "UPPER_CASE",
	"Z_9_z", "aVeryLongNameIndeedWithManyManyCharactersInIt0123456789"}

// keywords are ordinary names everywhere but in the few places listed below.
var keywordNames = []string{"query", "mutation", "subscription", "fragment", "on", "schema", "scalar", "type",
	"interface", "union", "enum", "input", "extend", "directive", "implements", "true", "false", "null", "repeatable"}

var enumNames = []string{"RED", "GREEN", "BLUE", "A", "b", "_x", "ON", "off", "Null", "TRUE", "nul", "truE", "NaN", "Infinity", "e1", "E", "_1"}

var directiveLocations = []string{"QUERY", "MUTATION", "SUBSCRIPTION", "FIELD", "FRAGMENT_DEFINITION", "FRAGMENT_SPREAD",
	"INLINE_FRAGMENT", "SCHEMA", "SCALAR", "OBJECT", "FIELD_DEFINITION", "ARGUMENT_DEFINITION", "INTERFACE", "UNION",
	"ENUM", "ENUM_VALUE", "INPUT_OBJECT", "INPUT_FIELD_DEFINITION"}

func (g *gen) rawName(notOn, notLiteral bool) string {
	for {
		var s string
		if g.r.Chance(12) {
			s = keywordNames[g.r.Intn(len(keywordNames))]
		} else {
			s = plainNames[g.r.Intn(len(plainNames))]
		}
		if notOn && s == "on" {
			continue
		}
		if notLiteral && (s == "true" || s == "false" || s == "null") {
			continue
		}
		return s
	}
}

func (g *gen) name() *nast.Name     { return &nast.Name{Value: g.rawName(false, false)} }
func (g *gen) fragName() *nast.Name { return &nast.Name{Value: g.rawName(true, false)} }
func (g *gen) named() *nast.Named   { return &nast.Named{Name: g.name()} }

func (g *gen) width(min int) int { return g.r.Range(min, g.o.MaxWidth) }

// ---------------------------------------------------------------------------
// executable definitions
// ---------------------------------------------------------------------------

func (g *gen) executableDef() nast.Node {
	r := g.r
	if r.Chance(35) {
		return &nast.Fragment{Name: g.fragName(), TypeCond: g.named(), Directives: g.directives(false, 25), Sel: g.selectionSet(g.depth())}
	}
	if r.Chance(20) {
		return &nast.Operation{Op: "query", Shorthand: true, Sel: g.selectionSet(g.depth())}
	}
	op := &nast.Operation{Op: []string{"query", "mutation", "subscription"}[r.Intn(3)]}
	if r.Chance(70) {
		op.Name = g.name()
	}
	if r.Chance(45) {
		n := g.width(1)
		for i := 0; i < n; i++ {
			vd := &nast.VarDef{Var: &nast.Variable{Name: g.name()}, Type: g.typ(3)}
			if r.Chance(40) {
				vd.Default = g.value(g.valueDepth(), true)
			}
			op.Vars = append(op.Vars, vd)
		}
	}
	op.Directives = g.directives(false, 30)
	op.Sel = g.selectionSet(g.depth())
	return op
}

func (g *gen) depth() int { return g.r.Range(0, g.o.MaxDepth-1) }

// valueDepth is skewed towards shallow values; RichValues goes to MaxDepth.
func (g *gen) valueDepth() int {
	r := g.r
	if !g.o.RichValues {
		if r.Chance(80) {
			return 0
		}
		return 1
	}
	switch {
	case r.Chance(40):
		return 0
	case r.Chance(40):
		return r.Range(1, 2)
	default:
		return r.Range(2, g.o.MaxDepth)
	}
}

func (g *gen) selectionSet(depth int) *nast.SelectionSet {
	r := g.r
	s := &nast.SelectionSet{}
	n := g.width(1)
	for i := 0; i < n; i++ {
		k := r.Intn(100)
		switch {
		case k < 65 || (depth <= 0 && k < 85):
			f := &nast.Field{Name: g.name()}
			if r.Chance(25) {
				f.Alias = g.name()
			}
			if r.Chance(35) {
				f.Args = g.arguments(false)
			}
			f.Directives = g.directives(false, 20)
			if depth > 0 && r.Chance(45) {
				f.Sel = g.selectionSet(depth - 1)
			}
			s.Items = append(s.Items, f)
		case k < 85 || depth <= 0:
			s.Items = append(s.Items, &nast.FragmentSpread{Name: g.fragName(), Directives: g.directives(false, 25)})
		default:
			f := &nast.InlineFragment{Directives: g.directives(false, 25), Sel: g.selectionSet(depth - 1)}
			if r.Chance(65) {
				f.TypeCond = g.named()
			}
			s.Items = append(s.Items, f)
		}
	}
	return s
}

func (g *gen) arguments(isConst bool) []*nast.Argument {
	n := g.r.Range(1, min(3, g.o.MaxWidth))
	var out []*nast.Argument
	for i := 0; i < n; i++ {
		out = append(out, &nast.Argument{Name: g.name(), Value: g.value(g.valueDepth(), isConst)})
	}
	return out
}

// directives returns 0..2 directives; pct is the chance of having any.
func (g *gen) directives(isConst bool, pct int) []*nast.Directive {
	r := g.r
	if !r.Chance(pct) {
		return nil
	}
	n := 1
	if r.Chance(30) {
		n = 2
	}
	var out []*nast.Directive
	for i := 0; i < n; i++ {
		d := &nast.Directive{Name: g.name()}
		if r.Chance(55) {
			d.Args = g.arguments(isConst)
		}
		out = append(out, d)
	}
	return out
}

// ---------------------------------------------------------------------------
// types
// ---------------------------------------------------------------------------

func (g *gen) typ(depth int) nast.Node {
	r := g.r
	k := r.Intn(100)
	switch {
	case depth <= 0 || k < 45:
		return g.named()
	case k < 70:
		return &nast.List{Of: g.typ(depth - 1)}
	default:
		// NonNull wraps a named type or a list, never another NonNull
		if r.Bool() {
			return &nast.NonNull{Of: g.named()}
		}
		return &nast.NonNull{Of: &nast.List{Of: g.typ(depth - 1)}}
	}
}

// ---------------------------------------------------------------------------
// values
// ---------------------------------------------------------------------------

var intRaws = []string{"0", "-0", "1", "-1", "7", "42", "-42", "10", "100", "2147483647", "-2147483648", "2147483648",
	"9007199254740993", "123456789012345678901234567890", "-9223372036854775809"}

var floatRaws = []string{"0.0", "-0.0", "1.5", "-1.5", "3.14159", "0.000001", "123.456", "1e10", "1E10", "1e+10", "1e-10",
	"-1e10", "0e0", "0E-0", "1.5e10", "1.5E-3", "-1.0e+0", "6.022e23", "1.0E+308", "1e400", "0.1e1", "10.01E+01", "1e0000", "2.50"}

func (g *gen) value(depth int, isConst bool) nast.Node {
	r := g.r
	if depth > 0 {
		k := r.Intn(100)
		if k < 30 {
			l := &nast.ListValue{}
			n := r.Range(0, g.o.MaxWidth)
			if r.Chance(12) {
				n = 0
			}
			for i := 0; i < n; i++ {
				l.Items = append(l.Items, g.value(depth-1, isConst))
			}
			return l
		}
		if k < 60 {
			o := &nast.ObjectValue{}
			n := r.Range(0, g.o.MaxWidth)
			if r.Chance(12) {
				n = 0
			}
			for i := 0; i < n; i++ {
				o.Fields = append(o.Fields, &nast.ObjectField{Name: g.name(), Value: g.value(depth-1, isConst)})
			}
			return o
		}
	}
	k := r.Intn(100)
	switch {
	case k < 14 && !isConst:
		return &nast.Variable{Name: g.name()}
	case k < 28:
		if r.Chance(50) {
			return &nast.IntValue{Raw: itoa(r.Range(-1000, 1000))}
		}
		return &nast.IntValue{Raw: intRaws[r.Intn(len(intRaws))]}
	case k < 40:
		return &nast.FloatValue{Raw: floatRaws[r.Intn(len(floatRaws))]}
	case k < 72:
		return g.stringValue()
	case k < 82:
		return &nast.BooleanValue{Value: r.Bool()}
	default:
		if r.Chance(30) {
			return &nast.EnumValue{Value: g.rawName(false, true)}
		}
		return &nast.EnumValue{Value: enumNames[r.Intn(len(enumNames))]}
	}
}

func itoa(n int) string {
	if n == 0 {
		return "0"
	}
	neg := n < 0
	if neg {
		n = -n
	}
	var b []byte
	for n > 0 {
		b = append([]byte{byte('0' + n%10)}, b...)
		n /= 10
	}
	if neg {
		return "-" + string(b)
	}
	return string(b)
}

// ---------------------------------------------------------------------------
// strings
// ---------------------------------------------------------------------------

var words = []string{"a", "hello", "world", "Hello World", "x y", "some text", "1", "0", "true", "null", "foo bar baz", "The quick brown fox"}

// hostile pieces: every class named by the property.
var hostile = []string{
	`"`, `\`, `/`, "\b", "\f", "\n", "\r", "\t", "\r\n", "\x00", "\x01", "\x07", "\x0b", "\x1b", "\x1f", "\x7f",
	"\u0080", "\u0085", "\u009f", "\u00a0", "\u2028", "\u2029", "\ufeff", "\ufffd", "\ufffe", "\uffff", "\ud7ff", "\ue000",
	"\U00010000", "\U0001F600", "\U0001F468\u200d\U0001F469", "\U0010FFFF", "\u00e9", "e\u0301", "\u65e5\u672c", "\u0436",
	`""`, `"""`, `\"""`, `""""`, `\"`, `\\`, `\n`, `\u0041`, `\u`, `\x41`, `\/`, "#", "# not a comment", ",", "'", "`",
	"{", "}", "[", "]", "(", ")", "$", "@", "!", ":", "=", "|", "&", "...", " ", "  ", "\t\t", "%s", "%!v", "${x}", "<EOF>",
}

// blockPieces: what a block string may hold.
var blockPieces = []string{
	"text", "a line", "word", `"`, `""`, `"""`, `\"""`, `""""`, `\`, `\\`, `\n`, `\"`, "/", "\t", "x\ty", "#", "# c", ",",
	"\u00e9", "\u65e5\u672c", "\U0001F600", "\u2028", "\ufeff", "\u007f", "\u0085", "{", "}", "'", "...", "a  b", "trailing ", "$v", "@d",
}

func (g *gen) stringValue() *nast.StringValue {
	r := g.r
	if !g.o.RichValues {
		if r.Chance(12) {
			return g.blockCandidate(false)
		}
		if r.Chance(10) {
			return &nast.StringValue{Value: ""}
		}
		return &nast.StringValue{Value: words[r.Intn(len(words))]}
	}
	if r.Chance(30) {
		return g.blockCandidate(true)
	}
	return &nast.StringValue{Value: g.hostileString()}
}

func (g *gen) hostileString() string {
	r := g.r
	var b strings.Builder
	n := r.Range(0, 6)
	for i := 0; i < n; i++ {
		if r.Chance(65) {
			b.WriteString(hostile[r.Intn(len(hostile))])
		} else {
			b.WriteString(words[r.Intn(len(words))])
		}
	}
	return b.String()
}

// blockCandidate draws a value shaped like the body of a block string
// (several lines, own indentation, blank lines, quotes). Most candidates are
// made representable; the rest (and whatever is not) become quoted strings.
func (g *gen) blockCandidate(rich bool) *nast.StringValue {
	r := g.r
	if r.Chance(6) {
		return &nast.StringValue{Value: "", Block: true}
	}
	nl := 1
	if r.Chance(65) {
		nl = r.Range(2, 5)
	}
	lines := make([]string, nl)
	for i := range lines {
		if i > 0 && i < nl-1 && r.Chance(20) {
			// blank line in the middle, sometimes with white space on it
			lines[i] = []string{"", "", " ", "  ", "\t"}[r.Intn(5)]
			continue
		}
		var b strings.Builder
		if r.Chance(45) {
			b.WriteString([]string{" ", "  ", "    ", "\t", " \t", "      "}[r.Intn(6)])
		}
		np := r.Range(1, 3)
		for j := 0; j < np; j++ {
			if rich && r.Chance(55) {
				b.WriteString(blockPieces[r.Intn(len(blockPieces))])
			} else {
				b.WriteString(words[r.Intn(len(words))])
			}
			if j < np-1 && r.Chance(50) {
				b.WriteByte(' ')
			}
		}
		if r.Chance(12) {
			// a long line (printers treat long and short text differently)
			target := r.Range(71, 140)
			for b.Len() < target {
				b.WriteByte(' ')
				b.WriteString(words[r.Intn(len(words))])
			}
		}
		lines[i] = b.String()
	}
	if !r.Chance(12) {
		// repair towards representability: one later line without indentation
		if nl > 1 {
			has := false
			for _, l := range lines[1:] {
				if !isBlankLine(l) && leadingWS(l) == 0 {
					has = true
				}
			}
			if !has {
				i := r.Range(1, nl-1)
				if isBlankLine(lines[i]) {
					i = nl - 1
				}
				lines[i] = strings.TrimLeft(lines[i], " \t")
			}
		}
	}
	if rich && r.Chance(6) {
		// leading / trailing blank lines: not representable, becomes a quoted string
		if r.Bool() {
			lines = append([]string{""}, lines...)
		} else {
			lines = append(lines, "")
		}
	}
	v := strings.Join(lines, "\n")
	return &nast.StringValue{Value: v, Block: BlockRepresentable(v)}
}

// description: quoted or block, plain or hostile.
func (g *gen) description(pct int) *nast.StringValue {
	r := g.r
	if !r.Chance(pct) {
		return nil
	}
	if !g.o.RichValues {
		if r.Chance(35) {
			return g.blockCandidate(false)
		}
		return &nast.StringValue{Value: words[r.Intn(len(words))]}
	}
	switch {
	case r.Chance(45):
		return g.blockCandidate(true)
	case r.Chance(30):
		return &nast.StringValue{Value: words[r.Intn(len(words))]}
	default:
		return &nast.StringValue{Value: g.hostileString()}
	}
}

// ---------------------------------------------------------------------------
// type-system definitions
// ---------------------------------------------------------------------------

func (g *gen) typeSystemDef() nast.Node {
	r := g.r
	const descPct = 40
	switch r.Intn(9) {
	case 0:
		s := &nast.SchemaDef{Directives: g.directives(true, 30)}
		ops := []string{"query", "mutation", "subscription"}
		n := r.Range(1, 3)
		for i := 0; i < n; i++ {
			// any operation type name, repetitions allowed (syntax only)
			s.OpTypes = append(s.OpTypes, &nast.OpTypeDef{Op: ops[r.Intn(3)], Type: g.named()})
		}
		return s
	case 1:
		return &nast.ScalarDef{Desc: g.description(descPct), Name: g.name(), Directives: g.directives(true, 35)}
	case 2:
		return g.objectDef(true)
	case 3:
		return &nast.InterfaceDef{Desc: g.description(descPct), Name: g.name(), Directives: g.directives(true, 30), Fields: g.fieldDefs()}
	case 4:
		u := &nast.UnionDef{Desc: g.description(descPct), Name: g.name(), Directives: g.directives(true, 30)}
		n := g.width(1)
		for i := 0; i < n; i++ {
			u.Types = append(u.Types, g.named())
		}
		return u
	case 5:
		e := &nast.EnumDef{Desc: g.description(descPct), Name: g.name(), Directives: g.directives(true, 30)}
		n := g.width(0)
		if r.Chance(10) {
			n = 0
		}
		for i := 0; i < n; i++ {
			nm := enumNames[r.Intn(len(enumNames))]
			if r.Chance(30) {
				nm = g.rawName(false, true)
			}
			e.Values = append(e.Values, &nast.EnumValueDef{Desc: g.description(30), Name: &nast.Name{Value: nm}, Directives: g.directives(true, 25)})
		}
		return e
	case 6:
		io := &nast.InputObjectDef{Desc: g.description(descPct), Name: g.name(), Directives: g.directives(true, 30)}
		n := g.width(0)
		if r.Chance(10) {
			n = 0
		}
		for i := 0; i < n; i++ {
			io.Fields = append(io.Fields, g.inputValueDef())
		}
		return io
	case 7:
		return &nast.TypeExtension{Def: g.objectDef(false)}
	default:
		d := &nast.DirectiveDef{Desc: g.description(descPct), Name: g.name()}
		if r.Chance(50) {
			d.Args = g.argDefs()
		}
		n := r.Range(1, 4)
		for i := 0; i < n; i++ {
			d.Locations = append(d.Locations, &nast.Name{Value: directiveLocations[r.Intn(len(directiveLocations))]})
		}
		return d
	}
}

func (g *gen) objectDef(withDesc bool) *nast.ObjectDef {
	r := g.r
	o := &nast.ObjectDef{Name: g.name()}
	if withDesc {
		o.Desc = g.description(40)
	}
	if r.Chance(45) {
		n := r.Range(1, 3)
		for i := 0; i < n; i++ {
			o.Interfaces = append(o.Interfaces, g.named())
		}
	}
	o.Directives = g.directives(true, 30)
	o.Fields = g.fieldDefs()
	return o
}

func (g *gen) fieldDefs() []*nast.FieldDef {
	r := g.r
	n := g.width(0)
	if r.Chance(10) {
		n = 0
	}
	var out []*nast.FieldDef
	for i := 0; i < n; i++ {
		f := &nast.FieldDef{Desc: g.description(30), Name: g.name(), Type: g.typ(3), Directives: g.directives(true, 25)}
		if r.Chance(40) {
			f.Args = g.argDefs()
		}
		out = append(out, f)
	}
	return out
}

func (g *gen) argDefs() []*nast.InputValueDef {
	n := g.r.Range(1, min(3, g.o.MaxWidth))
	var out []*nast.InputValueDef
	for i := 0; i < n; i++ {
		out = append(out, g.inputValueDef())
	}
	return out
}

func (g *gen) inputValueDef() *nast.InputValueDef {
	r := g.r
	iv := &nast.InputValueDef{Desc: g.description(25), Name: g.name(), Type: g.typ(3), Directives: g.directives(true, 25)}
	if r.Chance(45) {
		iv.Default = g.value(g.valueDepth(), true)
	}
	return iv
}
