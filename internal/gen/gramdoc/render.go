package gramdoc

import (
	"strings"

	"verif/internal/core"
	"verif/internal/nast"
)

// Render writes doc as source text under the layout policy lay and sets the
// Span of EVERY node of the tree (byte offsets into the returned text, half
// open).
//
// Span conventions (they follow the grammar productions, and coincide with
// the Loc the library parser records for ASCII-only layouts):
//
//   - a node spans from the first byte of its first token to the byte after
//     its last token; ignored characters (blanks, commas, comments, BOM)
//     before or after are never inside, ignored characters between its tokens
//     are;
//   - Document: first token of the first definition to the last token of the
//     last definition (the library instead ends its Document Loc at the EOF
//     position, i.e. after trailing ignored characters);
//   - a type-system definition, field definition, input value definition,
//     enum value definition or directive definition STARTS AT ITS
//     DESCRIPTION when it has one (Description is part of the production);
//     the description itself is a StringValue node with its own span;
//   - TypeExtension spans `extend ... }`, its ObjectDef starts at `type`;
//   - a shorthand operation `{ ... }` has the span of its selection set;
//   - SelectionSet, ListValue, ObjectValue, List include their brackets;
//     NonNull spans the inner type and the `!`; Variable includes the `$`;
//     Directive includes the `@` and the argument parentheses; a Field spans
//     alias to the end of its sub-selection; StringValue includes the quotes.
//
// Render also normalises StringValue.Block to what was written: a value with
// Block:true is written as a quoted string (and Block reset to false) when
// the layout has BlockStrings off or the value is not BlockRepresentable.
//
// Render draws its random choices from lay.R; rendering twice with the same
// *Layout therefore yields different texts. Compact() has no RNG and is
// canonical.
func Render(doc *nast.Document, lay *Layout) string {
	w := newRenderer(lay)
	w.document(doc)
	return w.finish()
}

// Info is what the renderer knows about the text it produced.
type Info struct {
	// NameAfterMultiByteIgnored: some NAME token (name, keyword, enum value,
	// true/false) is immediately preceded by an ignored run (comment, BOM)
	// holding a multi-byte character. That is the input class of the library
	// lexer's offset defect D6 (DESIGN.md 1.3): the library mis-lexes such
	// text, so its verdict on it says nothing about the generator.
	NameAfterMultiByteIgnored bool
	Tokens                    int // lexical tokens written
}

// RenderInfo is Render plus what the renderer knows about the text.
func RenderInfo(doc *nast.Document, lay *Layout) (string, Info) {
	w := newRenderer(lay)
	w.document(doc)
	return w.finish(), Info{NameAfterMultiByteIgnored: w.d6, Tokens: w.ntok}
}

// RenderValue writes a lone value (spans as for Render).
func RenderValue(v nast.Node, lay *Layout) string {
	w := newRenderer(lay)
	w.leading()
	w.value(v)
	w.trailing()
	return w.finish()
}

// Compact is the canonical layout: one space between tokens except tight
// punctuation, LF never used, no commas, no comments, minimal escapes.
func Compact() *Layout {
	return &Layout{Newline: []string{"\n"}, Indent: "", Multiline: false, BlockStrings: true}
}

// RandomLayout draws a layout. About a third of the layouts are "plain"
// multi-line pretty layouts, the rest mix terminators, commas, comments and
// extra blanks. MultiByte comments and BOM are rare (they trigger the known
// NAME-token offset defect of the library lexer, D6).
func RandomLayout(r *core.RNG) *Layout {
	l := &Layout{R: r.Derive(0x1a7)}
	switch r.Intn(6) {
	case 0:
		l.Newline = []string{"\n"}
	case 1:
		l.Newline = []string{"\r\n"}
	case 2:
		l.Newline = []string{"\r"}
	case 3:
		l.Newline = []string{"\n", "\r\n"}
	default:
		l.Newline = []string{"\n", "\r", "\r\n"}
	}
	l.Indent = []string{"", " ", "  ", "    ", "\t", " \t"}[r.Intn(6)]
	l.Multiline = r.Chance(65)
	l.BlockStrings = r.Chance(90)
	if r.Chance(35) {
		return l // plain
	}
	l.Commas = []int{0, 0, 30, 60, 100}[r.Intn(5)]
	l.Comments = []int{0, 0, 5, 15, 40}[r.Intn(5)]
	l.ExtraSpace = []int{0, 10, 30, 60}[r.Intn(4)]
	if l.Comments > 0 {
		l.MultiByte = r.Chance(15)
	}
	l.BOM = r.Chance(6)
	return l
}

func (l *Layout) newline() string {
	if len(l.Newline) == 0 {
		return "\n"
	}
	if l.R == nil {
		return l.Newline[0]
	}
	return l.Newline[l.R.Intn(len(l.Newline))]
}

func (l *Layout) chance(pct int) bool { return l.R != nil && pct > 0 && l.R.Chance(pct) }

// ---------------------------------------------------------------------------

type tokKind int

const (
	tNone   tokKind = iota
	tPunct          // ! $ ( ) : = @ [ ] { } | &
	tSpread         // ...
	tName
	tNumber
	tString // quoted or block
)

// glue is the preferred separation before a token.
type glue int

const (
	gTight glue = iota // nothing (when the tokens cannot fuse)
	gSpace             // one space
	gLine              // line break + indentation when Multiline, else one space
	gItem              // like gSpace/gLine but a comma may be put before the separator (between list items)
)

type renderer struct {
	lay     *Layout
	b       strings.Builder
	prev    tokKind
	lastEnd int
	level   int
	pend    []int
	ntok    int
	// hazard tracking for the library's D6 defect: a NAME token whose
	// immediately preceding ignored run holds a multi-byte character.
	d6 bool
}

func newRenderer(lay *Layout) *renderer {
	if lay == nil {
		lay = Compact()
	}
	return &renderer{lay: lay}
}

func (w *renderer) finish() string { return w.b.String() }

func (w *renderer) open() int { w.pend = append(w.pend, -1); return len(w.pend) - 1 }

func (w *renderer) close(sp *nast.Span, h int) {
	sp.Start, sp.End = w.pend[h], w.lastEnd
	w.pend = w.pend[:h]
}

var asciiComments = []string{"", " c", " a comment", "#", " \"quoted\" { } ...", " query { x }", "\ttab", " \\n", " \"\"\"", "!$()", " 1e9", ","}
var mbComments = []string{" \u00e9", " \u65e5\u672c\u8a9e", " \u2028 ls", " \U0001F600", " \u00a0 nbsp", "\ufeff", " \u0436#\u044f"}

func needSep(prev, next tokKind) bool {
	word := func(k tokKind) bool { return k == tName || k == tNumber }
	switch {
	case word(prev) && word(next):
		return true
	case prev == tNumber && next == tSpread:
		return true
	case prev == tString && next == tString:
		return true
	case prev == tSpread && next == tSpread:
		return true
	case prev == tSpread && next == tNumber:
		return false
	}
	return false
}

// ignored writes the ignored run before a token.
func (w *renderer) ignored(g glue, next tokKind) {
	lay := w.lay
	start := w.b.Len()
	mb := false
	if w.ntok == 0 {
		w.leadingRun(&mb)
	} else {
		if g == gItem {
			if lay.chance(lay.Commas) {
				if lay.chance(20) {
					w.b.WriteByte(' ')
				}
				w.b.WriteByte(',')
				if lay.chance(5) {
					w.b.WriteByte(',')
				}
			}
			g = gLine
		}
		if lay.chance(lay.ExtraSpace) {
			w.b.WriteString([]string{" ", "  ", "\t", " \t ", "   "}[lay.R.Intn(5)])
		}
		if lay.MultiByte && lay.chance(3) {
			w.b.WriteString("\ufeff") // a BOM is an ignored character anywhere
			mb = true
		}
		if lay.chance(lay.Comments) {
			w.comment(&mb)
			if lay.Multiline {
				w.b.WriteString(strings.Repeat(lay.Indent, w.level))
			}
		} else {
			switch g {
			case gSpace:
				w.b.WriteByte(' ')
			case gLine:
				if lay.Multiline {
					w.b.WriteString(lay.newline())
					if lay.chance(lay.ExtraSpace / 4) {
						w.b.WriteString(lay.newline()) // blank line
					}
					w.b.WriteString(strings.Repeat(lay.Indent, w.level))
				} else {
					w.b.WriteByte(' ')
				}
			}
		}
		if lay.chance(lay.ExtraSpace / 2) {
			w.b.WriteString([]string{" ", "  ", "\t"}[lay.R.Intn(3)])
		}
	}
	if w.b.Len() == start && needSep(w.prev, next) {
		w.b.WriteByte(' ')
	}
	if mb && next == tName {
		w.d6 = true
	}
}

func (w *renderer) comment(mb *bool) {
	lay := w.lay
	w.b.WriteByte('#')
	if lay.MultiByte && lay.R.Chance(50) {
		w.b.WriteString(mbComments[lay.R.Intn(len(mbComments))])
		*mb = true
	} else {
		w.b.WriteString(asciiComments[lay.R.Intn(len(asciiComments))])
	}
	w.b.WriteString(lay.newline())
}

func (w *renderer) leadingRun(mb *bool) {
	lay := w.lay
	if lay.BOM {
		w.b.WriteString("\ufeff")
		*mb = true
	}
	if lay.R == nil {
		return
	}
	if lay.chance(lay.ExtraSpace) {
		w.b.WriteString([]string{" ", "\t", "  "}[lay.R.Intn(3)])
	}
	if lay.chance(lay.ExtraSpace / 2) {
		w.b.WriteString(lay.newline())
	}
	if lay.chance(lay.Comments) {
		w.comment(mb)
	}
}

func (w *renderer) leading() {}

// trailing writes ignored characters after the last token.
func (w *renderer) trailing() {
	lay := w.lay
	if lay.R == nil {
		return
	}
	if lay.Multiline || lay.chance(30) {
		w.b.WriteString(lay.newline())
	}
	if lay.chance(lay.Comments) {
		w.b.WriteByte('#')
		w.b.WriteString(asciiComments[lay.R.Intn(len(asciiComments))])
		if lay.R.Bool() {
			w.b.WriteString(lay.newline())
		}
	}
	if lay.chance(lay.ExtraSpace / 2) {
		w.b.WriteString(" ")
	}
}

// tok writes one token preceded by its ignored run.
func (w *renderer) tok(g glue, k tokKind, text string) {
	w.ignored(g, k)
	start := w.b.Len()
	w.b.WriteString(text)
	w.lastEnd = w.b.Len()
	for i := len(w.pend) - 1; i >= 0 && w.pend[i] < 0; i-- {
		w.pend[i] = start
	}
	w.prev = k
	w.ntok++
}

func (w *renderer) punct(g glue, s string) { w.tok(g, tPunct, s) }
func (w *renderer) kw(g glue, s string)    { w.tok(g, tName, s) }

func (w *renderer) name(g glue, n *nast.Name) {
	h := w.open()
	w.tok(g, tName, n.Value)
	w.close(&n.Span, h)
}

// ---------------------------------------------------------------------------
// document and executable definitions
// ---------------------------------------------------------------------------

func (w *renderer) document(d *nast.Document) {
	h := w.open()
	for i, def := range d.Defs {
		g := gLine
		if i == 0 {
			g = gTight
		}
		w.definition(g, def)
	}
	if len(d.Defs) == 0 {
		w.pend[h] = 0
	}
	w.close(&d.Span, h)
	w.trailing()
}

func (w *renderer) definition(g glue, n nast.Node) {
	switch v := n.(type) {
	case *nast.Operation:
		w.operation(g, v)
	case *nast.Fragment:
		w.fragment(g, v)
	case *nast.SchemaDef:
		w.schemaDef(g, v)
	case *nast.ScalarDef:
		h := w.open()
		g = w.desc(g, v.Desc)
		w.kw(g, "scalar")
		w.name(gSpace, v.Name)
		w.directives(v.Directives)
		w.close(&v.Span, h)
	case *nast.ObjectDef:
		w.objectDef(g, v)
	case *nast.InterfaceDef:
		h := w.open()
		g = w.desc(g, v.Desc)
		w.kw(g, "interface")
		w.name(gSpace, v.Name)
		w.directives(v.Directives)
		w.fieldDefs(v.Fields)
		w.close(&v.Span, h)
	case *nast.UnionDef:
		h := w.open()
		g = w.desc(g, v.Desc)
		w.kw(g, "union")
		w.name(gSpace, v.Name)
		w.directives(v.Directives)
		w.punct(gSpace, "=")
		for i, t := range v.Types {
			if i > 0 {
				w.punct(gSpace, "|")
			}
			w.named(gSpace, t)
		}
		w.close(&v.Span, h)
	case *nast.EnumDef:
		h := w.open()
		g = w.desc(g, v.Desc)
		w.kw(g, "enum")
		w.name(gSpace, v.Name)
		w.directives(v.Directives)
		w.punct(gSpace, "{")
		w.level++
		for i, ev := range v.Values {
			ig := gItem
			if i == 0 {
				ig = gLine
			}
			eh := w.open()
			ig = w.desc(ig, ev.Desc)
			w.name(ig, ev.Name)
			w.directives(ev.Directives)
			w.close(&ev.Span, eh)
		}
		w.level--
		w.closeBrace(len(v.Values), "}")
		w.close(&v.Span, h)
	case *nast.InputObjectDef:
		h := w.open()
		g = w.desc(g, v.Desc)
		w.kw(g, "input")
		w.name(gSpace, v.Name)
		w.directives(v.Directives)
		w.punct(gSpace, "{")
		w.level++
		for i, f := range v.Fields {
			ig := gItem
			if i == 0 {
				ig = gLine
			}
			w.inputValueDef(ig, f)
		}
		w.level--
		w.closeBrace(len(v.Fields), "}")
		w.close(&v.Span, h)
	case *nast.TypeExtension:
		h := w.open()
		w.kw(g, "extend")
		w.objectDef(gSpace, v.Def)
		w.close(&v.Span, h)
	case *nast.DirectiveDef:
		h := w.open()
		g = w.desc(g, v.Desc)
		w.kw(g, "directive")
		w.punct(gSpace, "@")
		w.name(gTight, v.Name)
		w.argDefs(v.Args)
		w.kw(gSpace, "on")
		for i, l := range v.Locations {
			if i > 0 {
				w.punct(gSpace, "|")
			}
			w.name(gSpace, l)
		}
		w.close(&v.Span, h)
	default:
		panic("gramdoc.Render: unknown definition node " + n.Kind())
	}
}

// closeBrace writes the closing bracket of a block: on its own line when the
// block had items and the layout is multi-line.
func (w *renderer) closeBrace(nitems int, s string) {
	if nitems > 0 {
		w.punct(gLine, s)
	} else {
		w.punct(gTight, s)
	}
}

func (w *renderer) operation(g glue, o *nast.Operation) {
	h := w.open()
	if o.Shorthand {
		w.selectionSet(g, o.Sel)
		w.close(&o.Span, h)
		return
	}
	w.kw(g, o.Op)
	if o.Name != nil {
		w.name(gSpace, o.Name)
	}
	if len(o.Vars) > 0 {
		if o.Name != nil {
			w.punct(gTight, "(")
		} else {
			w.punct(gSpace, "(")
		}
		for i, vd := range o.Vars {
			ig := gItem
			if i == 0 {
				ig = gTight
			}
			vh := w.open()
			w.variable(ig, vd.Var)
			w.punct(gTight, ":")
			w.typ(gSpace, vd.Type)
			if vd.Default != nil {
				w.punct(gSpace, "=")
				w.valueG(gSpace, vd.Default)
			}
			w.close(&vd.Span, vh)
		}
		w.punct(gTight, ")")
	}
	w.directives(o.Directives)
	w.selectionSet(gSpace, o.Sel)
	w.close(&o.Span, h)
}

func (w *renderer) fragment(g glue, f *nast.Fragment) {
	h := w.open()
	w.kw(g, "fragment")
	w.name(gSpace, f.Name)
	w.kw(gSpace, "on")
	w.named(gSpace, f.TypeCond)
	w.directives(f.Directives)
	w.selectionSet(gSpace, f.Sel)
	w.close(&f.Span, h)
}

func (w *renderer) selectionSet(g glue, s *nast.SelectionSet) {
	h := w.open()
	w.punct(g, "{")
	w.level++
	for i, it := range s.Items {
		ig := gItem
		if i == 0 {
			ig = gLine
		}
		switch v := it.(type) {
		case *nast.Field:
			fh := w.open()
			if v.Alias != nil {
				w.name(ig, v.Alias)
				w.punct(gTight, ":")
				w.name(gSpace, v.Name)
			} else {
				w.name(ig, v.Name)
			}
			w.arguments(v.Args)
			w.directives(v.Directives)
			if v.Sel != nil {
				w.selectionSet(gSpace, v.Sel)
			}
			w.close(&v.Span, fh)
		case *nast.FragmentSpread:
			fh := w.open()
			w.tok(ig, tSpread, "...")
			w.name(gTight, v.Name)
			w.directives(v.Directives)
			w.close(&v.Span, fh)
		case *nast.InlineFragment:
			fh := w.open()
			w.tok(ig, tSpread, "...")
			if v.TypeCond != nil {
				w.kw(gSpace, "on")
				w.named(gSpace, v.TypeCond)
			}
			w.directives(v.Directives)
			w.selectionSet(gSpace, v.Sel)
			w.close(&v.Span, fh)
		default:
			panic("gramdoc.Render: unknown selection node " + it.Kind())
		}
	}
	w.level--
	w.closeBrace(len(s.Items), "}")
	w.close(&s.Span, h)
}

func (w *renderer) arguments(args []*nast.Argument) {
	if len(args) == 0 {
		return
	}
	w.punct(gTight, "(")
	for i, a := range args {
		ig := gItem
		if i == 0 {
			ig = gTight
		}
		ah := w.open()
		w.nameInline(ig, a.Name)
		w.punct(gTight, ":")
		w.valueG(gSpace, a.Value)
		w.close(&a.Span, ah)
	}
	w.punct(gTight, ")")
}

// nameInline writes a name that follows an inline item separator: a space
// (never a line break) unless it is the first item.
func (w *renderer) nameInline(g glue, n *nast.Name) {
	if g == gItem {
		g = w.inlineItem()
	}
	w.name(g, n)
}

// inlineItem handles the comma of an inline list (arguments, list values,
// object fields, variable definitions) and returns the glue to use.
func (w *renderer) inlineItem() glue {
	lay := w.lay
	if lay.chance(lay.Commas) {
		w.b.WriteByte(',')
		if lay.chance(30) {
			return gTight
		}
	}
	return gSpace
}

func (w *renderer) directives(ds []*nast.Directive) {
	for _, d := range ds {
		h := w.open()
		w.punct(gSpace, "@")
		w.name(gTight, d.Name)
		w.arguments(d.Args)
		w.close(&d.Span, h)
	}
}

func (w *renderer) variable(g glue, v *nast.Variable) {
	if g == gItem {
		g = w.inlineItem()
	}
	h := w.open()
	w.punct(g, "$")
	w.name(gTight, v.Name)
	w.close(&v.Span, h)
}

// ---------------------------------------------------------------------------
// types
// ---------------------------------------------------------------------------

func (w *renderer) named(g glue, n *nast.Named) {
	h := w.open()
	w.name(g, n.Name)
	w.close(&n.Span, h)
}

func (w *renderer) typ(g glue, t nast.Node) {
	switch v := t.(type) {
	case *nast.Named:
		w.named(g, v)
	case *nast.List:
		h := w.open()
		w.punct(g, "[")
		w.typ(gTight, v.Of)
		w.punct(gTight, "]")
		w.close(&v.Span, h)
	case *nast.NonNull:
		h := w.open()
		w.typ(g, v.Of)
		w.punct(gTight, "!")
		w.close(&v.Span, h)
	default:
		panic("gramdoc.Render: unknown type node")
	}
}

// ---------------------------------------------------------------------------
// values
// ---------------------------------------------------------------------------

func (w *renderer) value(v nast.Node) { w.valueG(gTight, v) }

func (w *renderer) valueG(g glue, n nast.Node) {
	if g == gItem {
		g = w.inlineItem()
	}
	switch v := n.(type) {
	case *nast.Variable:
		w.variable(g, v)
	case *nast.IntValue:
		h := w.open()
		w.tok(g, tNumber, v.Raw)
		w.close(&v.Span, h)
	case *nast.FloatValue:
		h := w.open()
		w.tok(g, tNumber, v.Raw)
		w.close(&v.Span, h)
	case *nast.StringValue:
		w.stringValue(g, v)
	case *nast.BooleanValue:
		h := w.open()
		if v.Value {
			w.tok(g, tName, "true")
		} else {
			w.tok(g, tName, "false")
		}
		w.close(&v.Span, h)
	case *nast.EnumValue:
		h := w.open()
		w.tok(g, tName, v.Value)
		w.close(&v.Span, h)
	case *nast.ListValue:
		h := w.open()
		w.punct(g, "[")
		for i, it := range v.Items {
			ig := gItem
			if i == 0 {
				ig = gTight
			}
			w.valueG(ig, it)
		}
		w.punct(gTight, "]")
		w.close(&v.Span, h)
	case *nast.ObjectValue:
		h := w.open()
		w.punct(g, "{")
		for i, f := range v.Fields {
			ig := gItem
			if i == 0 {
				ig = gTight
			}
			fh := w.open()
			w.nameInline(ig, f.Name)
			w.punct(gTight, ":")
			w.valueG(gSpace, f.Value)
			w.close(&f.Span, fh)
		}
		w.punct(gTight, "}")
		w.close(&v.Span, h)
	default:
		panic("gramdoc.Render: unknown value node")
	}
}

func (w *renderer) stringValue(g glue, s *nast.StringValue) {
	h := w.open()
	if s.Block && w.lay.BlockStrings && BlockRepresentable(s.Value) {
		w.tok(g, tString, writeBlock(s.Value, w.lay, w.level))
	} else {
		s.Block = false
		w.tok(g, tString, writeQuoted(s.Value, w.lay.R))
	}
	w.close(&s.Span, h)
}

// ---------------------------------------------------------------------------
// type system
// ---------------------------------------------------------------------------

// desc writes an optional description and returns the glue for the token
// that follows it.
func (w *renderer) desc(g glue, d *nast.StringValue) glue {
	if d == nil {
		return g
	}
	w.stringValue(g, d)
	return gLine
}

func (w *renderer) schemaDef(g glue, s *nast.SchemaDef) {
	h := w.open()
	w.kw(g, "schema")
	w.directives(s.Directives)
	w.punct(gSpace, "{")
	w.level++
	for i, ot := range s.OpTypes {
		ig := gItem
		if i == 0 {
			ig = gLine
		}
		oh := w.open()
		w.kw(ig, ot.Op)
		w.punct(gTight, ":")
		w.named(gSpace, ot.Type)
		w.close(&ot.Span, oh)
	}
	w.level--
	w.closeBrace(len(s.OpTypes), "}")
	w.close(&s.Span, h)
}

func (w *renderer) objectDef(g glue, o *nast.ObjectDef) {
	h := w.open()
	g = w.desc(g, o.Desc)
	w.kw(g, "type")
	w.name(gSpace, o.Name)
	if len(o.Interfaces) > 0 {
		w.kw(gSpace, "implements")
		if w.lay.chance(15) {
			w.punct(gSpace, "&") // optional leading ampersand
		}
		for i, it := range o.Interfaces {
			if i > 0 {
				w.punct(gSpace, "&")
			}
			w.named(gSpace, it)
		}
	}
	w.directives(o.Directives)
	w.fieldDefs(o.Fields)
	w.close(&o.Span, h)
}

func (w *renderer) fieldDefs(fs []*nast.FieldDef) {
	w.punct(gSpace, "{")
	w.level++
	for i, f := range fs {
		ig := gItem
		if i == 0 {
			ig = gLine
		}
		h := w.open()
		ig = w.desc(ig, f.Desc)
		w.name(ig, f.Name)
		w.argDefs(f.Args)
		w.punct(gTight, ":")
		w.typ(gSpace, f.Type)
		w.directives(f.Directives)
		w.close(&f.Span, h)
	}
	w.level--
	w.closeBrace(len(fs), "}")
}

func (w *renderer) argDefs(args []*nast.InputValueDef) {
	if len(args) == 0 {
		return
	}
	w.punct(gTight, "(")
	for i, a := range args {
		ig := gItem
		if i == 0 {
			ig = gTight
		}
		if ig == gItem {
			ig = w.inlineItem()
		}
		w.inputValueDef(ig, a)
	}
	w.punct(gTight, ")")
}

func (w *renderer) inputValueDef(g glue, a *nast.InputValueDef) {
	h := w.open()
	if a.Desc != nil {
		w.stringValue(g, a.Desc)
		g = gSpace
	}
	w.name(g, a.Name)
	w.punct(gTight, ":")
	w.typ(gSpace, a.Type)
	if a.Default != nil {
		w.punct(gSpace, "=")
		w.valueG(gSpace, a.Default)
	}
	w.directives(a.Directives)
	w.close(&a.Span, h)
}
