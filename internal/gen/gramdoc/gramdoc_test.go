package gramdoc

import (
	"fmt"
	"regexp"
	"strings"
	"testing"

	"github.com/graphql-go/graphql/language/ast"
	"github.com/graphql-go/graphql/language/parser"

	"verif/internal/core"
	"verif/internal/nast"
)

var nameRe = regexp.MustCompile(`^[_A-Za-z][_0-9A-Za-z]*$`)

func optsFor(r *core.RNG) Options {
	o := Options{RichValues: r.Chance(70)}
	switch r.Intn(3) {
	case 0:
		o.Executable = true
	case 1:
		o.TypeSystem = true
	default:
		o.Executable, o.TypeSystem = true, true
	}
	if r.Chance(30) {
		o.MaxDepth, o.MaxWidth, o.MaxDefs = r.Range(1, 6), r.Range(1, 6), r.Range(1, 8)
	}
	return o
}

// TestGenRenderParse: every generated document, rendered under a random
// layout, is accepted by the library parser, has the shape of the generated
// tree, and (outside the D6 hazard class) the library's Loc equals our spans.
func TestGenRenderParse(t *testing.T) {
	const seeds = 2000
	var nD6, nCmp, nBlock, nBlockDev int
	for seed := uint64(1); seed <= seeds; seed++ {
		r := core.NewRNG(seed).Derive(0xd0c)
		doc := Gen(r.Derive(1), optsFor(r.Derive(2)))
		var lay *Layout
		if seed%5 == 0 {
			lay = Compact()
		} else {
			lay = RandomLayout(r.Derive(3))
		}
		text, info := RenderInfo(doc, lay)

		// determinism
		if seed%50 == 0 {
			r2 := core.NewRNG(seed).Derive(0xd0c)
			doc2 := Gen(r2.Derive(1), optsFor(r2.Derive(2)))
			var lay2 *Layout
			if seed%5 == 0 {
				lay2 = Compact()
			} else {
				lay2 = RandomLayout(r2.Derive(3))
			}
			if t2 := Render(doc2, lay2); t2 != text {
				t.Fatalf("seed %d: not deterministic", seed)
			}
		}

		checkSpans(t, seed, text, doc)
		if t.Failed() {
			t.Fatalf("seed %d text:\n%s", seed, text)
		}
		if info.NameAfterMultiByteIgnored {
			// the library mis-lexes a NAME after a multi-byte ignored run (D6);
			// only crash-freedom can be asked
			nD6++
			func() {
				defer func() {
					if p := recover(); p != nil {
						t.Fatalf("seed %d: library parser panicked: %v\n%q", seed, p, text)
					}
				}()
				parser.Parse(parser.ParseParams{Source: text})
			}()
			continue
		}
		got, err := parser.Parse(parser.ParseParams{Source: text, Options: parser.ParseOptions{NoSource: false}})
		if err != nil {
			t.Fatalf("seed %d: library parser rejects generated text: %v\n%q", seed, err, text)
		}
		nCmp++
		m := &matcher{text: text}
		m.doc(doc, got)
		nBlock += m.nBlock
		nBlockDev += m.nBlockDev
		if len(m.errs) > 0 {
			t.Fatalf("seed %d: tree/span mismatch:\n%s\ntext: %q", seed, strings.Join(m.errs, "\n"), text)
		}
	}
	t.Logf("documents compared with the library: %d, skipped (D6 hazard: NAME after multi-byte ignored run): %d, block strings: %d (library value deviates from the specification: %d)", nCmp, nD6, nBlock, nBlockDev)
}

func TestRenderValue(t *testing.T) {
	for seed := uint64(1); seed <= 2000; seed++ {
		r := core.NewRNG(seed).Derive(0x7a1)
		v := GenValue(r.Derive(1), r.Intn(5), seed%2 == 0)
		var lay *Layout
		if seed%4 == 0 {
			lay = Compact()
		} else {
			lay = RandomLayout(r.Derive(3))
			lay.BOM, lay.MultiByte = false, false
		}
		text := RenderValue(v, lay)
		got, err := parser.ParseValue(parser.ParseParams{Source: text})
		if err != nil {
			t.Fatalf("seed %d: library rejects value %q: %v", seed, text, err)
		}
		m := &matcher{text: text}
		m.value("v", v, got)
		if len(m.errs) > 0 {
			t.Fatalf("seed %d: value mismatch:\n%s\ntext: %q", seed, strings.Join(m.errs, "\n"), text)
		}
	}
}

func TestBlockRepresentable(t *testing.T) {
	cases := map[string]bool{
		"": true, "a": true, "  a": true, "a\nb": true, "a\n  b": false, "a\n  b\nc": true, " a\nb": true,
		"\na": false, "a\n": false, " ": false, "a\rb": false, "a\x07": false, "a\tb": true, "a\n\nb": true,
		"a\n \n  b": false, `x"`: true, `x\`: true, `"""`: true, "  a\"": true, "a\n\t\nb": true,
	}
	keys := make([]string, 0, len(cases))
	for k := range cases {
		keys = append(keys, k)
	}
	for _, k := range keys {
		if got := BlockRepresentable(k); got != cases[k] {
			t.Errorf("BlockRepresentable(%q) = %v, want %v", k, got, cases[k])
		}
		if !cases[k] {
			continue
		}
		for i := 0; i < 40; i++ {
			lay := RandomLayout(core.NewRNG(uint64(i)))
			if i == 0 {
				lay = Compact()
			}
			src := writeBlock(k, lay, i%3)
			if !strings.HasPrefix(src, `"""`) || !strings.HasSuffix(src, `"""`) || len(src) < 6 {
				t.Fatalf("bad block literal %q", src)
			}
			raw := strings.ReplaceAll(src[3:len(src)-3], `\"""`, `"""`)
			if got := BlockStringValue(raw); got != k {
				t.Errorf("block literal %q has value %q, want %q", src, got, k)
			}
		}
	}
}

// ---------------------------------------------------------------------------

// checkSpans verifies that every node has a non-empty span inside its
// parent's, that siblings are ordered, and a few lexical facts.
func checkSpans(t *testing.T, seed uint64, text string, root nast.Node) {
	var walk func(n nast.Node, lo, hi int, path string)
	walk = func(n nast.Node, lo, hi int, path string) {
		sp := n.Pos()
		if sp.Start < lo || sp.End > hi || sp.End <= sp.Start {
			t.Errorf("seed %d: %s (%s): span [%d,%d) not inside [%d,%d)", seed, path, n.Kind(), sp.Start, sp.End, lo, hi)
			return
		}
		src := text[sp.Start:sp.End]
		switch v := n.(type) {
		case *nast.Name:
			if src != v.Value || !nameRe.MatchString(src) {
				t.Errorf("seed %d: %s: name %q spans %q", seed, path, v.Value, src)
			}
		case *nast.IntValue:
			if src != v.Raw {
				t.Errorf("seed %d: %s: int %q spans %q", seed, path, v.Raw, src)
			}
		case *nast.FloatValue:
			if src != v.Raw {
				t.Errorf("seed %d: %s: float %q spans %q", seed, path, v.Raw, src)
			}
		case *nast.EnumValue:
			if src != v.Value || src == "true" || src == "false" || src == "null" {
				t.Errorf("seed %d: %s: enum %q spans %q", seed, path, v.Value, src)
			}
		case *nast.StringValue:
			if v.Block != strings.HasPrefix(src, `"""`) && !(src == `""` && !v.Block) {
				t.Errorf("seed %d: %s: Block=%v but text %q", seed, path, v.Block, src)
			}
			if !strings.HasPrefix(src, `"`) || !strings.HasSuffix(src, `"`) {
				t.Errorf("seed %d: %s: string spans %q", seed, path, src)
			}
		case *nast.Variable:
			if src[0] != '$' {
				t.Errorf("seed %d: %s: variable spans %q", seed, path, src)
			}
		case *nast.Directive:
			if src[0] != '@' {
				t.Errorf("seed %d: %s: directive spans %q", seed, path, src)
			}
		case *nast.SelectionSet:
			if src[0] != '{' || src[len(src)-1] != '}' {
				t.Errorf("seed %d: %s: selection set spans %q", seed, path, src)
			}
		}
		if c := src[0]; c == ' ' || c == '\t' || c == '\n' || c == '\r' || c == ',' || c == '#' {
			t.Errorf("seed %d: %s: span starts on an ignored character: %q", seed, path, src)
		}
		if c := src[len(src)-1]; c == ' ' || c == '\t' || c == '\n' || c == '\r' || c == ',' {
			t.Errorf("seed %d: %s: span ends on an ignored character: %q", seed, path, src)
		}
		prev := sp.Start
		for i, c := range nast.Children(n) {
			walk(c, prev, sp.End, fmt.Sprintf("%s/%d", path, i))
			prev = c.Pos().End
		}
	}
	walk(root, 0, len(text), "")
}

// matcher walks the neutral tree and the library AST in parallel.
type matcher struct {
	text      string
	errs      []string
	nBlock    int
	nBlockDev int
}

func (m *matcher) errf(format string, a ...interface{}) {
	if len(m.errs) < 10 {
		m.errs = append(m.errs, fmt.Sprintf(format, a...))
	}
}

func (m *matcher) loc(path string, n nast.Node, l *ast.Location) {
	if l == nil {
		m.errf("%s: library Loc is nil", path)
		return
	}
	sp := n.Pos()
	if l.Start != sp.Start || l.End != sp.End {
		m.errf("%s (%s): span [%d,%d) %q but library Loc [%d,%d) %q", path, n.Kind(), sp.Start, sp.End, m.text[sp.Start:sp.End], l.Start, l.End, safeSlice(m.text, l.Start, l.End))
	}
}

func safeSlice(s string, a, b int) string {
	if a < 0 || b > len(s) || a > b {
		return "<out of range>"
	}
	return s[a:b]
}

func (m *matcher) name(path string, n *nast.Name, a *ast.Name) {
	if (n == nil) != (a == nil) {
		m.errf("%s: name presence differs", path)
		return
	}
	if n == nil {
		return
	}
	if n.Value != a.Value {
		m.errf("%s: name %q vs %q", path, n.Value, a.Value)
	}
	m.loc(path, n, a.Loc)
}

func (m *matcher) doc(d *nast.Document, a *ast.Document) {
	if a.Loc.Start != d.Span.Start {
		m.errf("document start %d vs %d", d.Span.Start, a.Loc.Start)
	}
	if a.Loc.End != len(m.text) { // library: EOF position (see Render's comment)
		m.errf("library document end %d, text length %d", a.Loc.End, len(m.text))
	}
	if len(d.Defs) != len(a.Definitions) {
		m.errf("definitions: %d vs %d", len(d.Defs), len(a.Definitions))
		return
	}
	for i, def := range d.Defs {
		m.def(fmt.Sprintf("def[%d]", i), def, a.Definitions[i])
	}
}

func (m *matcher) def(path string, n nast.Node, a ast.Node) {
	if n.Kind() != a.GetKind() {
		m.errf("%s: kind %s vs %s", path, n.Kind(), a.GetKind())
		return
	}
	m.loc(path, n, a.GetLoc())
	switch v := n.(type) {
	case *nast.Operation:
		o := a.(*ast.OperationDefinition)
		if v.Op != o.Operation {
			m.errf("%s: operation %q vs %q", path, v.Op, o.Operation)
		}
		m.name(path+".name", v.Name, o.Name)
		if len(v.Vars) != len(o.VariableDefinitions) {
			m.errf("%s: vars %d vs %d", path, len(v.Vars), len(o.VariableDefinitions))
			return
		}
		for i, vd := range v.Vars {
			p := fmt.Sprintf("%s.var[%d]", path, i)
			ov := o.VariableDefinitions[i]
			m.loc(p, vd, ov.Loc)
			m.value(p+".variable", vd.Var, ov.Variable)
			m.typ(p+".type", vd.Type, ov.Type)
			if (vd.Default == nil) != (ov.DefaultValue == nil) {
				m.errf("%s: default presence", p)
			} else if vd.Default != nil {
				m.value(p+".default", vd.Default, ov.DefaultValue)
			}
		}
		m.directives(path, v.Directives, o.Directives)
		m.selset(path+".sel", v.Sel, o.SelectionSet)
	case *nast.Fragment:
		o := a.(*ast.FragmentDefinition)
		m.name(path+".name", v.Name, o.Name)
		m.typ(path+".on", v.TypeCond, o.TypeCondition)
		m.directives(path, v.Directives, o.Directives)
		m.selset(path+".sel", v.Sel, o.SelectionSet)
	case *nast.SchemaDef:
		o := a.(*ast.SchemaDefinition)
		m.directives(path, v.Directives, o.Directives)
		if len(v.OpTypes) != len(o.OperationTypes) {
			m.errf("%s: optypes %d vs %d", path, len(v.OpTypes), len(o.OperationTypes))
			return
		}
		for i, ot := range v.OpTypes {
			p := fmt.Sprintf("%s.op[%d]", path, i)
			m.loc(p, ot, o.OperationTypes[i].Loc)
			if ot.Op != o.OperationTypes[i].Operation {
				m.errf("%s: %q vs %q", p, ot.Op, o.OperationTypes[i].Operation)
			}
			m.typ(p+".type", ot.Type, o.OperationTypes[i].Type)
		}
	case *nast.ScalarDef:
		o := a.(*ast.ScalarDefinition)
		m.desc(path, v.Desc, o.Description)
		m.name(path+".name", v.Name, o.Name)
		m.directives(path, v.Directives, o.Directives)
	case *nast.ObjectDef:
		m.objectDef(path, v, a.(*ast.ObjectDefinition))
	case *nast.InterfaceDef:
		o := a.(*ast.InterfaceDefinition)
		m.desc(path, v.Desc, o.Description)
		m.name(path+".name", v.Name, o.Name)
		m.directives(path, v.Directives, o.Directives)
		m.fieldDefs(path, v.Fields, o.Fields)
	case *nast.UnionDef:
		o := a.(*ast.UnionDefinition)
		m.desc(path, v.Desc, o.Description)
		m.name(path+".name", v.Name, o.Name)
		m.directives(path, v.Directives, o.Directives)
		if len(v.Types) != len(o.Types) {
			m.errf("%s: union members %d vs %d", path, len(v.Types), len(o.Types))
			return
		}
		for i, ty := range v.Types {
			m.typ(fmt.Sprintf("%s.member[%d]", path, i), ty, o.Types[i])
		}
	case *nast.EnumDef:
		o := a.(*ast.EnumDefinition)
		m.desc(path, v.Desc, o.Description)
		m.name(path+".name", v.Name, o.Name)
		m.directives(path, v.Directives, o.Directives)
		if len(v.Values) != len(o.Values) {
			m.errf("%s: enum values %d vs %d", path, len(v.Values), len(o.Values))
			return
		}
		for i, ev := range v.Values {
			p := fmt.Sprintf("%s.value[%d]", path, i)
			m.loc(p, ev, o.Values[i].Loc)
			m.desc(p, ev.Desc, o.Values[i].Description)
			m.name(p+".name", ev.Name, o.Values[i].Name)
			m.directives(p, ev.Directives, o.Values[i].Directives)
		}
	case *nast.InputObjectDef:
		o := a.(*ast.InputObjectDefinition)
		m.desc(path, v.Desc, o.Description)
		m.name(path+".name", v.Name, o.Name)
		m.directives(path, v.Directives, o.Directives)
		m.inputValues(path+".field", v.Fields, o.Fields)
	case *nast.TypeExtension:
		o := a.(*ast.TypeExtensionDefinition)
		m.loc(path+".def", v.Def, o.Definition.Loc)
		m.objectDef(path+".def", v.Def, o.Definition)
	case *nast.DirectiveDef:
		o := a.(*ast.DirectiveDefinition)
		m.desc(path, v.Desc, o.Description)
		m.name(path+".name", v.Name, o.Name)
		m.inputValues(path+".arg", v.Args, o.Arguments)
		if len(v.Locations) != len(o.Locations) {
			m.errf("%s: locations %d vs %d", path, len(v.Locations), len(o.Locations))
			return
		}
		for i, l := range v.Locations {
			m.name(fmt.Sprintf("%s.loc[%d]", path, i), l, o.Locations[i])
		}
	default:
		m.errf("%s: unhandled kind %s", path, n.Kind())
	}
}

func (m *matcher) objectDef(path string, v *nast.ObjectDef, o *ast.ObjectDefinition) {
	m.desc(path, v.Desc, o.Description)
	m.name(path+".name", v.Name, o.Name)
	if len(v.Interfaces) != len(o.Interfaces) {
		m.errf("%s: interfaces %d vs %d", path, len(v.Interfaces), len(o.Interfaces))
		return
	}
	for i, it := range v.Interfaces {
		m.typ(fmt.Sprintf("%s.iface[%d]", path, i), it, o.Interfaces[i])
	}
	m.directives(path, v.Directives, o.Directives)
	m.fieldDefs(path, v.Fields, o.Fields)
}

func (m *matcher) fieldDefs(path string, fs []*nast.FieldDef, as []*ast.FieldDefinition) {
	if len(fs) != len(as) {
		m.errf("%s: fields %d vs %d", path, len(fs), len(as))
		return
	}
	for i, f := range fs {
		p := fmt.Sprintf("%s.field[%d]", path, i)
		m.loc(p, f, as[i].Loc)
		m.desc(p, f.Desc, as[i].Description)
		m.name(p+".name", f.Name, as[i].Name)
		m.inputValues(p+".arg", f.Args, as[i].Arguments)
		m.typ(p+".type", f.Type, as[i].Type)
		m.directives(p, f.Directives, as[i].Directives)
	}
}

func (m *matcher) inputValues(path string, vs []*nast.InputValueDef, as []*ast.InputValueDefinition) {
	if len(vs) != len(as) {
		m.errf("%s: input values %d vs %d", path, len(vs), len(as))
		return
	}
	for i, v := range vs {
		p := fmt.Sprintf("%s[%d]", path, i)
		m.loc(p, v, as[i].Loc)
		m.desc(p, v.Desc, as[i].Description)
		m.name(p+".name", v.Name, as[i].Name)
		m.typ(p+".type", v.Type, as[i].Type)
		if (v.Default == nil) != (as[i].DefaultValue == nil) {
			m.errf("%s: default presence", p)
		} else if v.Default != nil {
			m.value(p+".default", v.Default, as[i].DefaultValue)
		}
		m.directives(p, v.Directives, as[i].Directives)
	}
}

func (m *matcher) desc(path string, d *nast.StringValue, a *ast.StringValue) {
	if (d == nil) != (a == nil) {
		m.errf("%s: description presence differs", path)
		return
	}
	if d != nil {
		m.value(path+".desc", d, a)
	}
}

func (m *matcher) directives(path string, ds []*nast.Directive, as []*ast.Directive) {
	if len(ds) != len(as) {
		m.errf("%s: directives %d vs %d", path, len(ds), len(as))
		return
	}
	for i, d := range ds {
		p := fmt.Sprintf("%s.dir[%d]", path, i)
		m.loc(p, d, as[i].Loc)
		m.name(p+".name", d.Name, as[i].Name)
		m.args(p, d.Args, as[i].Arguments)
	}
}

func (m *matcher) args(path string, xs []*nast.Argument, as []*ast.Argument) {
	if len(xs) != len(as) {
		m.errf("%s: arguments %d vs %d", path, len(xs), len(as))
		return
	}
	for i, x := range xs {
		p := fmt.Sprintf("%s.arg[%d]", path, i)
		m.loc(p, x, as[i].Loc)
		m.name(p+".name", x.Name, as[i].Name)
		m.value(p+".value", x.Value, as[i].Value)
	}
}

func (m *matcher) selset(path string, s *nast.SelectionSet, a *ast.SelectionSet) {
	if (s == nil) != (a == nil) {
		m.errf("%s: selection set presence differs", path)
		return
	}
	if s == nil {
		return
	}
	m.loc(path, s, a.Loc)
	if len(s.Items) != len(a.Selections) {
		m.errf("%s: selections %d vs %d", path, len(s.Items), len(a.Selections))
		return
	}
	for i, it := range s.Items {
		p := fmt.Sprintf("%s[%d]", path, i)
		an := a.Selections[i].(ast.Node)
		if it.Kind() != an.GetKind() {
			m.errf("%s: kind %s vs %s", p, it.Kind(), an.GetKind())
			continue
		}
		m.loc(p, it, an.GetLoc())
		switch v := it.(type) {
		case *nast.Field:
			o := an.(*ast.Field)
			m.name(p+".alias", v.Alias, o.Alias)
			m.name(p+".name", v.Name, o.Name)
			m.args(p, v.Args, o.Arguments)
			m.directives(p, v.Directives, o.Directives)
			m.selset(p+".sel", v.Sel, o.SelectionSet)
		case *nast.FragmentSpread:
			o := an.(*ast.FragmentSpread)
			m.name(p+".name", v.Name, o.Name)
			m.directives(p, v.Directives, o.Directives)
		case *nast.InlineFragment:
			o := an.(*ast.InlineFragment)
			if (v.TypeCond == nil) != (o.TypeCondition == nil) {
				m.errf("%s: type condition presence", p)
			} else if v.TypeCond != nil {
				m.typ(p+".on", v.TypeCond, o.TypeCondition)
			}
			m.directives(p, v.Directives, o.Directives)
			m.selset(p+".sel", v.Sel, o.SelectionSet)
		}
	}
}

func (m *matcher) typ(path string, n nast.Node, a ast.Type) {
	if a == nil {
		m.errf("%s: library type is nil", path)
		return
	}
	if n.Kind() != a.GetKind() {
		m.errf("%s: type kind %s vs %s", path, n.Kind(), a.GetKind())
		return
	}
	m.loc(path, n, a.GetLoc())
	switch v := n.(type) {
	case *nast.Named:
		m.name(path+".name", v.Name, a.(*ast.Named).Name)
	case *nast.List:
		m.typ(path+".of", v.Of, a.(*ast.List).Type)
	case *nast.NonNull:
		m.typ(path+".of", v.Of, a.(*ast.NonNull).Type)
	}
}

func (m *matcher) value(path string, n nast.Node, a ast.Value) {
	if n.Kind() != a.GetKind() {
		m.errf("%s: value kind %s vs %s", path, n.Kind(), a.GetKind())
		return
	}
	m.loc(path, n, a.GetLoc())
	switch v := n.(type) {
	case *nast.Variable:
		m.name(path+".name", v.Name, a.(*ast.Variable).Name)
	case *nast.IntValue:
		if v.Raw != a.(*ast.IntValue).Value {
			m.errf("%s: int %q vs %q", path, v.Raw, a.(*ast.IntValue).Value)
		}
	case *nast.FloatValue:
		if v.Raw != a.(*ast.FloatValue).Value {
			m.errf("%s: float %q vs %q", path, v.Raw, a.(*ast.FloatValue).Value)
		}
	case *nast.StringValue:
		got := a.(*ast.StringValue).Value
		if v.Block {
			m.nBlock++
		}
		if v.Value != got {
			src := m.text[v.Span.Start:v.Span.End]
			if v.Block && len(src) >= 6 {
				// our own reading of the literal, by the specification
				raw := strings.ReplaceAll(src[3:len(src)-3], `\"""`, `"""`)
				if BlockStringValue(raw) == v.Value {
					// the renderer is right by the specification; the library's
					// blockStringValue departs from it. Tolerated only inside the
					// two known input classes of that lexer defect.
					m.nBlockDev++
					if fl, sb := LibraryBlockDeviation(raw); !fl && !sb {
						m.errf("%s: block string %q: specification value %q, library value %q (outside the known deviation classes)", path, src, v.Value, got)
					}
					return
				}
			}
			m.errf("%s: string value %q vs library %q (source %q)", path, v.Value, got, src)
		}
	case *nast.BooleanValue:
		if v.Value != a.(*ast.BooleanValue).Value {
			m.errf("%s: boolean differs", path)
		}
	case *nast.EnumValue:
		if v.Value != a.(*ast.EnumValue).Value {
			m.errf("%s: enum %q vs %q", path, v.Value, a.(*ast.EnumValue).Value)
		}
	case *nast.ListValue:
		o := a.(*ast.ListValue)
		if len(v.Items) != len(o.Values) {
			m.errf("%s: list %d vs %d", path, len(v.Items), len(o.Values))
			return
		}
		for i, it := range v.Items {
			m.value(fmt.Sprintf("%s[%d]", path, i), it, o.Values[i])
		}
	case *nast.ObjectValue:
		o := a.(*ast.ObjectValue)
		if len(v.Fields) != len(o.Fields) {
			m.errf("%s: object %d vs %d", path, len(v.Fields), len(o.Fields))
			return
		}
		for i, f := range v.Fields {
			p := fmt.Sprintf("%s{%d}", path, i)
			m.loc(p, f, o.Fields[i].Loc)
			m.name(p+".name", f.Name, o.Fields[i].Name)
			m.value(p+".value", f.Value, o.Fields[i].Value)
		}
	}
}
