// Package recfam is a small-scope document family: one fragment spread at
// several nesting levels of a self-referential type, in every order with
// same-key fields (merged occurrences reached through, and spreading, the
// same fragment).
package recfam

import (
	"strings"

	"verif/internal/model"
)

var Alphabet = []string{
	"name", "...F", "child { ...F }", "child { name }", "child { ...G }", "...G", "kids { ...F }",
	"child { child { ...F } }", "... on Node { ...F }", "n2: child { ...F }", "child { tag ...F }",
}

var fragmentSets = []string{
	"fragment F on Node { name child { name tag } }\nfragment G on Node { tag child { ...F } }",
	"fragment F on Node { child { child { name } } kids { name } }\nfragment G on Node { child { ...F tag } }",
}

func Model() *model.Schema {
	N := model.Named
	m := &model.Schema{Query: "Q", Types: []*model.TypeDef{
		{Kind: model.Object, Name: "Node", Fields: []*model.FieldDef{{Name: "name", Type: N("String")}, {Name: "tag", Type: N("String")},
			{Name: "child", Type: N("Node")}, {Name: "kids", Type: model.ListOf(N("Node"))}}},
		{Kind: model.Object, Name: "Q", Fields: []*model.FieldDef{{Name: "node", Type: N("Node")}}},
	}}
	m.Reindex()
	return m
}

// Count is the number of selection sequences of length L.
func Count(L int) int {
	c := 1
	for i := 0; i < L; i++ {
		c *= len(Alphabet)
	}
	return c
}

// Texts returns the documents (one per fragment set that the body uses) of
// the k-th selection sequence of length L.
func Texts(L, k int) []string {
	var sels []string
	x := k
	for i := 0; i < L; i++ {
		sels = append(sels, Alphabet[x%len(Alphabet)])
		x /= len(Alphabet)
	}
	body := strings.Join(sels, " ")
	usesG := strings.Contains(body, "...G")
	usesF := strings.Contains(body, "...F") || usesG
	var out []string
	for fv, frags := range fragmentSets {
		if !usesF && fv == 1 {
			continue
		}
		text := "{ node { " + body + " } }"
		parts := strings.Split(frags, "\n")
		if usesF {
			text += "\n" + parts[0]
		}
		if usesG {
			text += "\n" + parts[1]
		}
		out = append(out, text)
	}
	return out
}
