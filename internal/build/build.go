// Package build turns a schema model into a real graphql.Schema whose every
// callback (resolvers, type resolvers, isTypeOf, scalar functions) is
// instrumented: it appends to an event log and takes its behaviour from the
// shared pure outcome functions of package values.
package build

import (
	"context"
	"errors"
	"fmt"
	"math"
	"strconv"
	"strings"
	"sync"
	"sync/atomic"

	"github.com/graphql-go/graphql"
	"github.com/graphql-go/graphql/gqlerrors"
	"github.com/graphql-go/graphql/language/ast"

	"verif/internal/core"
	"verif/internal/model"
	"verif/internal/ref/coerce"
	"verif/internal/values"
)

// Event is one entry of the global event log.
type Event struct {
	Seq  int
	Kind string // "resolve" "resolve-end" "thunk" "thunk-end" "resolveType" "isTypeOf" "parseValue" "parseLiteral" "serialize"
	Path string
	// resolve
	Field      string
	ParentType string
	ReturnType string
	Args       map[string]interface{} // deep copy at call time
	SourceID   string                 // Obj ID, "<root>" for the root value, or a description
	Outcome    values.Kind
	Params     *graphql.ResolveParams // retained for C20 (Info, Context)
	// resolveType / isTypeOf
	Abstract string
	ValueID  string
	Info     *graphql.ResolveInfo
	Ctx      context.Context
	Answer   string
	Counter  int // value of the side-effect counter seen (mutations)
}

// Log is a mutex-protected, sequence-numbered event log.
type Log struct {
	mu     sync.Mutex
	Events []Event
	seq    int
	// Counter is the "side effect" top-level mutation resolvers increment.
	Counter int
}

func (l *Log) add(e Event) int {
	l.mu.Lock()
	defer l.mu.Unlock()
	l.seq++
	e.Seq = l.seq
	l.Events = append(l.Events, e)
	return e.Seq
}
func (l *Log) Reset() {
	l.mu.Lock()
	l.Events = nil
	l.seq = 0
	l.Counter = 0
	l.mu.Unlock()
}
func (l *Log) Snapshot() []Event {
	l.mu.Lock()
	defer l.mu.Unlock()
	return append([]Event(nil), l.Events...)
}

// Env is a built schema with its model and log.
type Env struct {
	Model  *model.Schema
	Schema graphql.Schema
	Types  map[string]graphql.Type
	Log    *Log
	Seed   uint64 // value universe seed

	outcomes atomic.Pointer[values.Outcomes] // lock-free: a mutex here would add happens-before edges that hide library races
	// MutateArgs makes every resolver scribble on the args map it received
	// (to expose aliasing of plan-owned maps).
	MutateArgs bool
	// Gate, when set, is called at the start of every resolver (schedule control).
	Gate func(path string)
	// Quiet disables event logging (concurrency workloads log per goroutine instead).
	Quiet bool
	// MaxResolves bounds the resolver invocations of one request (0 = 200000):
	// beyond it every resolver fails, so a library defect that makes an
	// execution unbounded (e.g. a cyclic plan) ends as a reported mismatch
	// instead of exhausting memory.
	MaxResolves int64
	resolves    atomic.Int64
}

func (e *Env) SetOutcomes(o *values.Outcomes) { e.outcomes.Store(o); e.resolves.Store(0) }

// Runaway reports whether the last request exceeded MaxResolves.
func (e *Env) Runaway() bool { return e.resolves.Load() > e.maxResolves() }

func (e *Env) maxResolves() int64 {
	if e.MaxResolves > 0 {
		return e.MaxResolves
	}
	return 200000
}
func (e *Env) Outcomes() *values.Outcomes { return e.outcomes.Load() }

// PathString joins a response path with "/".
func PathString(p *graphql.ResponsePath) string {
	if p == nil {
		return ""
	}
	arr := p.AsArray()
	parts := make([]string, len(arr))
	for i, k := range arr {
		switch v := k.(type) {
		case string:
			parts[i] = v
		case int:
			parts[i] = strconv.Itoa(v)
		default:
			parts[i] = fmt.Sprintf("?%v", v)
		}
	}
	return strings.Join(parts, "/")
}

// ctxKey carries a per-request token through the context.
type ctxKey struct{}

func WithToken(ctx context.Context, token string) context.Context {
	return context.WithValue(ctx, ctxKey{}, token)
}
func Token(ctx context.Context) string {
	if ctx == nil {
		return "<nil-ctx>"
	}
	if s, ok := ctx.Value(ctxKey{}).(string); ok {
		return s
	}
	return ""
}

type panicStruct struct{ Msg string }

// DeepCopy copies JSON-like values (maps, slices) so later mutation is visible.
func DeepCopy(v interface{}) interface{} {
	switch x := v.(type) {
	case map[string]interface{}:
		m := make(map[string]interface{}, len(x))
		for k, vv := range x {
			m[k] = DeepCopy(vv)
		}
		return m
	case []interface{}:
		s := make([]interface{}, len(x))
		for i, vv := range x {
			s[i] = DeepCopy(vv)
		}
		return s
	}
	return v
}

func sourceID(src interface{}) string {
	switch s := src.(type) {
	case *values.Obj:
		if s == nil {
			return "<nil-obj>"
		}
		return s.ID
	case nil:
		return "<root>"
	case map[string]interface{}:
		if tok, ok := s["__root"].(string); ok {
			return "<root:" + tok + ">"
		}
		return "<root>"
	}
	return fmt.Sprintf("<%T>", src)
}

// resolver returns the instrumented resolve function of one object field.
func (e *Env) resolver(typeName string, fd *model.FieldDef) graphql.FieldResolveFn {
	return func(p graphql.ResolveParams) (interface{}, error) {
		if e.resolves.Add(1) > e.maxResolves() {
			return nil, errors.New("harness: runaway execution (more resolver invocations than any document of this size can need)")
		}
		path := PathString(p.Info.Path)
		o := e.Outcomes()
		kind := o.At(path)
		if !e.Quiet {
			pc := p
			ev := Event{Kind: "resolve", Path: path, Field: fd.Name, ParentType: typeName, Args: DeepCopy(p.Args).(map[string]interface{}),
				SourceID: sourceID(p.Source), Outcome: kind, Params: &pc, Ctx: p.Context}
			if p.Info.ReturnType != nil {
				ev.ReturnType = p.Info.ReturnType.String()
			}
			if e.Model.Mutation == typeName {
				e.Log.mu.Lock()
				ev.Counter = e.Log.Counter
				e.Log.Counter++
				e.Log.mu.Unlock()
			}
			e.Log.add(ev)
			defer e.Log.add(Event{Kind: "resolve-end", Path: path})
		}
		if e.Gate != nil {
			e.Gate(path)
		}
		if e.MutateArgs && p.Args != nil {
			p.Args["__scribble"] = path
			for k := range p.Args {
				if k != "__scribble" {
					p.Args[k] = "scribbled:" + path
				}
			}
		}
		return e.produce(fd.Type, path, kind, o)
	}
}

// subscriber returns the instrumented Subscribe function of a subscription
// root field: it logs a "subscribe" event (with the argument map it received)
// and answers with a one-shot payload that becomes the root value of the
// single response event.
func (e *Env) subscriber(typeName string, fd *model.FieldDef) graphql.FieldResolveFn {
	return func(p graphql.ResolveParams) (interface{}, error) {
		path := PathString(p.Info.Path)
		if !e.Quiet {
			pc := p
			var args map[string]interface{}
			if p.Args != nil {
				args = DeepCopy(p.Args).(map[string]interface{})
			}
			e.Log.add(Event{Kind: "subscribe", Path: path, Field: fd.Name, ParentType: typeName, Args: args, SourceID: sourceID(p.Source), Params: &pc, Ctx: p.Context})
		}
		return map[string]interface{}{"__root": "subscription-event"}, nil
	}
}

func (e *Env) thunk(path string, f func() (interface{}, error)) func() (interface{}, error) {
	return func() (interface{}, error) {
		if !e.Quiet {
			e.Log.add(Event{Kind: "thunk", Path: path})
			defer e.Log.add(Event{Kind: "thunk-end", Path: path})
		}
		return f()
	}
}

// errorValue is the error of a failing outcome: a plain error, or (with
// Outcomes.ErrorForms) an error value that already looks like a GraphQL error
// of some other response - the field error reported for it must still carry
// this field's path and message.
func errorValue(path string, o *values.Outcomes) error {
	msg := "E:" + path
	if o == nil || !o.ErrorForms {
		return errors.New(msg)
	}
	if core.HashString("errform\x00"+path)%2 == 1 {
		return gqlerrors.FormattedError{Message: msg, Path: []interface{}{"remote", "items", 7, "id"}}
	}
	return errors.New(msg)
}

// produce implements every outcome kind for a field of type t at path.
func (e *Env) produce(t *model.TypeRef, path string, kind values.Kind, o *values.Outcomes) (interface{}, error) {
	s := e.Model
	nat := func() interface{} { return values.Natural(s, e.Seed, t, path, o) }
	switch kind {
	case values.Value, values.BadRuntimeType, values.NilRuntimeType, values.IsTypeOfFalse:
		return nat(), nil
	case values.Nil:
		return nil, nil
	case values.Error:
		return nil, errorValue(path, o)
	case values.ValueError:
		v := nat()
		if v == nil {
			v = "raw-value"
		}
		return v, errors.New("E:" + path)
	case values.PanicError:
		panic(errors.New("P:" + path))
	case values.PanicString:
		panic("P:" + path)
	case values.PanicStruct:
		panic(panicStruct{Msg: "P:" + path})
	case values.ThunkValue:
		return e.thunk(path, func() (interface{}, error) { return nat(), nil }), nil
	case values.ThunkNil:
		return e.thunk(path, func() (interface{}, error) { return nil, nil }), nil
	case values.ThunkError:
		return e.thunk(path, func() (interface{}, error) { return nil, errorValue(path, o) }), nil
	case values.ThunkPanic:
		return e.thunk(path, func() (interface{}, error) { panic(errors.New("P:" + path)) }), nil
	case values.ThunkThunk:
		return e.thunk(path, func() (interface{}, error) {
			return e.thunk(path, func() (interface{}, error) { return nat(), nil }), nil
		}), nil
	case values.TypedNil:
		var p *values.Obj
		base := s.Type(t.Base())
		if base != nil && (base.Kind == model.Scalar || base.Kind == model.Enum) && !isListType(t) {
			var sp *string
			return sp, nil
		}
		return p, nil
	case values.WrongKind:
		if isListType(t) {
			return 12345, nil // not iterable
		}
		base := s.Type(t.Base())
		if base != nil && (base.Kind == model.Scalar || base.Kind == model.Enum) {
			return map[string]interface{}{"not": "a leaf"}, nil
		}
		return "not-an-object", nil
	case values.NaN:
		return math.NaN(), nil
	case values.OutOfRange:
		return 1 << 40, nil
	case values.UnknownEnum:
		return "no-such-internal-value", nil
	case values.Inf:
		return math.Inf(1), nil
	case values.NumericString:
		return []string{"NaN", "Inf", "-Inf", "1e400", "9223372036854775808"}[int(core.HashString(path))%5], nil
	case values.SerializeToNil:
		return values.TagTypedNil, nil
	}
	return nat(), nil
}

func isListType(t *model.TypeRef) bool {
	if t.Kind == "nonnull" {
		t = t.Of
	}
	return t.Kind == "list"
}

func valueID(v interface{}) string {
	if o, ok := v.(*values.Obj); ok && o != nil {
		return o.ID
	}
	return fmt.Sprintf("<%T>", v)
}

// Build constructs the schema. Every call creates fresh type objects (a
// "cold" schema: nothing lazily initialised yet).
func Build(m *model.Schema, seed uint64) (*Env, error) {
	e := &Env{Model: m, Types: map[string]graphql.Type{}, Log: &Log{}, Seed: seed}
	e.Types["Int"] = graphql.Int
	e.Types["Float"] = graphql.Float
	e.Types["String"] = graphql.String
	e.Types["Boolean"] = graphql.Boolean
	e.Types["ID"] = graphql.ID

	var ref func(t *model.TypeRef) graphql.Type
	ref = func(t *model.TypeRef) graphql.Type {
		switch t.Kind {
		case "list":
			return graphql.NewList(ref(t.Of))
		case "nonnull":
			return graphql.NewNonNull(ref(t.Of))
		}
		return e.Types[t.Name]
	}
	argConfig := func(defs []*model.InputDef) graphql.FieldConfigArgument {
		if len(defs) == 0 {
			return nil
		}
		out := graphql.FieldConfigArgument{}
		for _, a := range defs {
			ac := &graphql.ArgumentConfig{Type: ref(a.Type), Description: a.Desc}
			if a.HasDefault {
				ac.DefaultValue = DeepCopy(a.Default)
			}
			out[a.Name] = ac
		}
		return out
	}
	fieldsOf := func(td *model.TypeDef, withResolvers bool) graphql.Fields {
		out := graphql.Fields{}
		for _, f := range td.Fields {
			gf := &graphql.Field{Type: ref(f.Type), Args: argConfig(f.Args), Description: f.Desc}
			if f.Deprecation != nil {
				gf.DeprecationReason = *f.Deprecation
				if *f.Deprecation == "" {
					gf.DeprecationReason = "No longer supported"
				}
			}
			if withResolvers {
				gf.Resolve = e.resolver(td.Name, f)
				if td.Name == m.Subscription && m.Subscription != "" {
					gf.Subscribe = e.subscriber(td.Name, f)
				}
			}
			out[f.Name] = gf
		}
		return out
	}

	// pass 1: leaf-ish types (scalars, enums), then input objects in order
	for _, td := range m.Types {
		td := td
		switch td.Kind {
		case model.Scalar:
			e.Types[td.Name] = graphql.NewScalar(graphql.ScalarConfig{
				Name: td.Name, Description: td.Desc,
				Serialize: func(v interface{}) interface{} {
					if !e.Quiet {
						e.Log.add(Event{Kind: "serialize", Abstract: td.Name, Answer: fmt.Sprint(v)})
					}
					if s, ok := v.(string); ok {
						if s == values.TagTypedNil {
							var typedNil *string
							return typedNil
						}
						return values.TagSerializePrefix + s
					}
					return nil
				},
				ParseValue: func(v interface{}) interface{} {
					if !e.Quiet {
						e.Log.add(Event{Kind: "parseValue", Abstract: td.Name, Answer: fmt.Sprint(v)})
					}
					if s, ok := v.(string); ok {
						return coerce.TagPrefix + s
					}
					return nil
				},
				ParseLiteral: func(v ast.Value) interface{} {
					if !e.Quiet {
						e.Log.add(Event{Kind: "parseLiteral", Abstract: td.Name})
					}
					if s, ok := v.(*ast.StringValue); ok {
						return coerce.TagPrefix + s.Value
					}
					return nil
				},
			})
		case model.Enum:
			vals := graphql.EnumValueConfigMap{}
			for _, v := range td.Values {
				vc := &graphql.EnumValueConfig{Value: v.Internal, Description: v.Desc}
				if v.Deprecation != nil {
					vc.DeprecationReason = *v.Deprecation
				}
				vals[v.Name] = vc
			}
			e.Types[td.Name] = graphql.NewEnum(graphql.EnumConfig{Name: td.Name, Description: td.Desc, Values: vals})
		}
	}
	for _, td := range m.Types {
		td := td
		if td.Kind != model.InputObject {
			continue
		}
		mk := func() graphql.InputObjectConfigFieldMap {
			out := graphql.InputObjectConfigFieldMap{}
			for _, f := range td.InputFields {
				fc := &graphql.InputObjectFieldConfig{Type: ref(f.Type), Description: f.Desc}
				if f.HasDefault {
					fc.DefaultValue = DeepCopy(f.Default)
				}
				out[f.Name] = fc
			}
			return out
		}
		cfg := graphql.InputObjectConfig{Name: td.Name, Description: td.Desc}
		if td.ThunkFields {
			cfg.Fields = (graphql.InputObjectConfigFieldMapThunk)(mk)
		} else {
			cfg.Fields = mk()
		}
		e.Types[td.Name] = graphql.NewInputObject(cfg)
	}
	// pass 2: composite types; thunks everywhere a forward reference is needed
	resolveType := func(abstract string) graphql.ResolveTypeFn {
		return func(p graphql.ResolveTypeParams) *graphql.Object {
			path := PathString(p.Info.Path)
			kind := e.Outcomes().At(fieldPathOf(path))
			var ans *graphql.Object
			o, _ := p.Value.(*values.Obj)
			switch {
			case kind == values.NilRuntimeType:
				ans = nil
			case kind == values.BadRuntimeType:
				ans = e.notPossible(abstract)
			case o != nil:
				ans, _ = e.Types[o.Type].(*graphql.Object)
			}
			if !e.Quiet {
				info := p.Info
				name := "<nil>"
				if ans != nil {
					name = ans.Name()
				}
				e.Log.add(Event{Kind: "resolveType", Path: path, Abstract: abstract, ValueID: valueID(p.Value), Info: &info, Ctx: p.Context, Answer: name})
			}
			return ans
		}
	}
	for _, td := range m.Types {
		td := td
		switch td.Kind {
		case model.Interface:
			cfg := graphql.InterfaceConfig{Name: td.Name, Description: td.Desc}
			if td.ThunkFields {
				cfg.Fields = (graphql.FieldsThunk)(func() graphql.Fields { return fieldsOf(td, false) })
			} else {
				// forward references need thunks; literal maps only when all
				// referenced types exist already — decided below by a second pass
				cfg.Fields = (graphql.FieldsThunk)(func() graphql.Fields { return fieldsOf(td, false) })
			}
			if !td.NoResolveType {
				cfg.ResolveType = resolveType(td.Name)
			}
			e.Types[td.Name] = graphql.NewInterface(cfg)
		}
	}
	for _, td := range m.Types {
		td := td
		if td.Kind != model.Object {
			continue
		}
		cfg := graphql.ObjectConfig{Name: td.Name, Description: td.Desc}
		cfg.Fields = (graphql.FieldsThunk)(func() graphql.Fields { return fieldsOf(td, true) })
		ifaces := func() []*graphql.Interface {
			var out []*graphql.Interface
			for _, n := range td.Interfaces {
				out = append(out, e.Types[n].(*graphql.Interface))
			}
			return out
		}
		if len(td.Interfaces) > 0 {
			if td.ThunkInterfaces {
				cfg.Interfaces = (graphql.InterfacesThunk)(ifaces)
			} else {
				cfg.Interfaces = ifaces()
			}
		}
		if td.UseIsTypeOf {
			cfg.IsTypeOf = func(p graphql.IsTypeOfParams) bool {
				path := PathString(p.Info.Path)
				o, _ := p.Value.(*values.Obj)
				ans := o != nil && o.Type == td.Name
				if e.Outcomes().At(fieldPathOf(path)) == values.IsTypeOfFalse {
					ans = false
				}
				if !e.Quiet {
					info := p.Info
					e.Log.add(Event{Kind: "isTypeOf", Path: path, Abstract: td.Name, ValueID: valueID(p.Value), Info: &info, Ctx: p.Context, Answer: strconv.FormatBool(ans)})
				}
				return ans
			}
		}
		e.Types[td.Name] = graphql.NewObject(cfg)
	}
	for _, td := range m.Types {
		td := td
		if td.Kind != model.Union {
			continue
		}
		members := func() []*graphql.Object {
			var out []*graphql.Object
			for _, n := range td.Members {
				out = append(out, e.Types[n].(*graphql.Object))
			}
			return out
		}
		cfg := graphql.UnionConfig{Name: td.Name, Description: td.Desc}
		if td.ThunkMembers {
			cfg.Types = (graphql.UnionTypesThunk)(members)
		} else {
			cfg.Types = members()
		}
		if !td.NoResolveType {
			cfg.ResolveType = resolveType(td.Name)
		}
		e.Types[td.Name] = graphql.NewUnion(cfg)
	}
	sc := graphql.SchemaConfig{}
	if q, ok := e.Types[m.Query].(*graphql.Object); ok {
		sc.Query = q
	}
	if m.Mutation != "" {
		sc.Mutation, _ = e.Types[m.Mutation].(*graphql.Object)
	}
	if m.Subscription != "" {
		sc.Subscription, _ = e.Types[m.Subscription].(*graphql.Object)
	}
	for _, n := range m.Extra {
		sc.Types = append(sc.Types, e.Types[n])
	}
	if len(m.Directives) > 0 {
		sc.Directives = append(sc.Directives, graphql.SpecifiedDirectives...)
		for _, d := range m.Directives {
			sc.Directives = append(sc.Directives, graphql.NewDirective(graphql.DirectiveConfig{
				Name: d.Name, Description: d.Desc, Locations: d.Locations, Args: argConfig(d.Args)}))
		}
	}
	schema, err := graphql.NewSchema(sc)
	if err != nil {
		return nil, err
	}
	e.Schema = schema
	return e, nil
}

// fieldPathOf strips trailing list indices: the outcome that steers type
// resolution of list elements is looked up at the element's own path, so
// nothing is stripped — kept as a function for clarity.
func fieldPathOf(path string) string { return path }

// notPossible returns an object type that is not a possible type of abstract.
func (e *Env) notPossible(abstract string) *graphql.Object {
	for _, td := range e.Model.Types {
		if td.Kind == model.Object && !e.Model.IsPossible(abstract, td.Name) {
			if o, ok := e.Types[td.Name].(*graphql.Object); ok {
				return o
			}
		}
	}
	return nil
}
