// Package model is the ground-truth description of a generated schema.
// The real graphql.Schema is built FROM it (internal/build) and the reference
// models read IT, never the built schema. Nothing here imports graphql-go.
package model

import (
	"fmt"
	"sort"
	"strings"
)

// TypeRef is a (possibly wrapped) reference to a named type.
type TypeRef struct {
	Kind string   `json:"k"`           // "named" | "list" | "nonnull"
	Name string   `json:"n,omitempty"` // for named
	Of   *TypeRef `json:"of,omitempty"`
}

func Named(n string) *TypeRef     { return &TypeRef{Kind: "named", Name: n} }
func ListOf(t *TypeRef) *TypeRef  { return &TypeRef{Kind: "list", Of: t} }
func NonNull(t *TypeRef) *TypeRef { return &TypeRef{Kind: "nonnull", Of: t} }

func (t *TypeRef) String() string {
	switch t.Kind {
	case "list":
		return "[" + t.Of.String() + "]"
	case "nonnull":
		return t.Of.String() + "!"
	}
	return t.Name
}
func (t *TypeRef) IsNonNull() bool { return t.Kind == "nonnull" }
func (t *TypeRef) IsList() bool    { return t.Kind == "list" }

// Nullable strips one non-null wrapper.
func (t *TypeRef) Nullable() *TypeRef {
	if t.Kind == "nonnull" {
		return t.Of
	}
	return t
}

// Base is the innermost named type.
func (t *TypeRef) Base() string {
	for t.Kind != "named" {
		t = t.Of
	}
	return t.Name
}
func (t *TypeRef) Equal(o *TypeRef) bool {
	if t == nil || o == nil {
		return t == o
	}
	if t.Kind != o.Kind {
		return false
	}
	if t.Kind == "named" {
		return t.Name == o.Name
	}
	return t.Of.Equal(o.Of)
}

const (
	Scalar      = "SCALAR"
	Object      = "OBJECT"
	Interface   = "INTERFACE"
	Union       = "UNION"
	Enum        = "ENUM"
	InputObject = "INPUT_OBJECT"
)

// Schema is the model of one generated schema.
type Schema struct {
	Types        []*TypeDef      `json:"types"` // user types in declaration order (built-in scalars not listed)
	Query        string          `json:"query"`
	Mutation     string          `json:"mutation,omitempty"`
	Subscription string          `json:"subscription,omitempty"`
	Directives   []*DirectiveDef `json:"directives,omitempty"` // custom directives (skip/include/deprecated are implied)
	Extra        []string        `json:"extra,omitempty"`      // names passed through SchemaConfig.Types

	byName map[string]*TypeDef
}

type DirectiveDef struct {
	Name      string      `json:"name"`
	Desc      string      `json:"desc,omitempty"`
	Locations []string    `json:"locations"`
	Args      []*InputDef `json:"args,omitempty"`
}

type TypeDef struct {
	Kind        string      `json:"kind"`
	Name        string      `json:"name"`
	Desc        string      `json:"desc,omitempty"`
	Fields      []*FieldDef `json:"fields,omitempty"`     // OBJECT, INTERFACE (declaration order)
	Interfaces  []string    `json:"interfaces,omitempty"` // OBJECT
	Members     []string    `json:"members,omitempty"`    // UNION
	Values      []*EnumVal  `json:"values,omitempty"`     // ENUM
	InputFields []*InputDef `json:"inputFields,omitempty"`
	// construction choices (do not change meaning)
	ThunkFields     bool `json:"thunkFields,omitempty"`
	ThunkInterfaces bool `json:"thunkInterfaces,omitempty"`
	ThunkMembers    bool `json:"thunkMembers,omitempty"`
	UseIsTypeOf     bool `json:"useIsTypeOf,omitempty"` // OBJECT: provide IsTypeOf; abstract types then may omit ResolveType
	NoResolveType   bool `json:"noResolveType,omitempty"`
}

type FieldDef struct {
	Name        string      `json:"name"`
	Desc        string      `json:"desc,omitempty"`
	Type        *TypeRef    `json:"type"`
	Args        []*InputDef `json:"args,omitempty"`
	Deprecation *string     `json:"deprecation,omitempty"`
}

// InputDef is an argument or an input-object field.
type InputDef struct {
	Name       string      `json:"name"`
	Desc       string      `json:"desc,omitempty"`
	Type       *TypeRef    `json:"type"`
	HasDefault bool        `json:"hasDefault,omitempty"`
	Default    interface{} `json:"default,omitempty"` // INTERNAL (coerced) Go value: int, float64, string, bool, []interface{}, map[string]interface{}, enum internal value
}

type EnumVal struct {
	Name        string      `json:"name"`
	Desc        string      `json:"desc,omitempty"`
	Internal    interface{} `json:"internal"` // the Go value resolvers see / return; comparable
	Deprecation *string     `json:"deprecation,omitempty"`
}

var builtinScalars = map[string]bool{"Int": true, "Float": true, "String": true, "Boolean": true, "ID": true}

func IsBuiltinScalar(n string) bool { return builtinScalars[n] }

func (s *Schema) index() {
	if s.byName != nil && len(s.byName) == len(s.Types) {
		return
	}
	s.byName = map[string]*TypeDef{}
	for _, t := range s.Types {
		s.byName[t.Name] = t
	}
}

// Reindex must be called after Types was modified.
func (s *Schema) Reindex() { s.byName = nil; s.index() }

// Type returns the user type, a synthetic SCALAR def for built-in scalars, or nil.
func (s *Schema) Type(name string) *TypeDef {
	s.index()
	if t, ok := s.byName[name]; ok {
		return t
	}
	if builtinScalars[name] {
		return &TypeDef{Kind: Scalar, Name: name}
	}
	return nil
}

func (s *Schema) KindOf(name string) string {
	if t := s.Type(name); t != nil {
		return t.Kind
	}
	return ""
}

func (t *TypeDef) Field(name string) *FieldDef {
	for _, f := range t.Fields {
		if f.Name == name {
			return f
		}
	}
	return nil
}
func (t *TypeDef) InputField(name string) *InputDef {
	for _, f := range t.InputFields {
		if f.Name == name {
			return f
		}
	}
	return nil
}
func (f *FieldDef) Arg(name string) *InputDef {
	for _, a := range f.Args {
		if a.Name == name {
			return a
		}
	}
	return nil
}
func (t *TypeDef) EnumValue(name string) *EnumVal {
	for _, v := range t.Values {
		if v.Name == name {
			return v
		}
	}
	return nil
}

// PossibleTypes returns the object type names an abstract (or object) type can be at runtime, sorted.
func (s *Schema) PossibleTypes(name string) []string {
	t := s.Type(name)
	if t == nil {
		return nil
	}
	var out []string
	switch t.Kind {
	case Object:
		return []string{name}
	case Union:
		out = append(out, t.Members...)
	case Interface:
		for _, o := range s.Types {
			if o.Kind == Object {
				for _, i := range o.Interfaces {
					if i == name {
						out = append(out, o.Name)
						break
					}
				}
			}
		}
	}
	sort.Strings(out)
	return out
}

func (s *Schema) IsPossible(abstract, obj string) bool {
	for _, p := range s.PossibleTypes(abstract) {
		if p == obj {
			return true
		}
	}
	return false
}

func (s *Schema) IsComposite(name string) bool {
	k := s.KindOf(name)
	return k == Object || k == Interface || k == Union
}
func (s *Schema) IsLeaf(name string) bool {
	k := s.KindOf(name)
	return k == Scalar || k == Enum
}
func (s *Schema) IsInput(name string) bool {
	k := s.KindOf(name)
	return k == Scalar || k == Enum || k == InputObject
}

// Root returns the root type name for an operation kind.
func (s *Schema) Root(op string) string {
	switch op {
	case "query":
		return s.Query
	case "mutation":
		return s.Mutation
	case "subscription":
		return s.Subscription
	}
	return ""
}

// SDL renders the model as schema text (for samples and hashes; not parsed by anything).
func (s *Schema) SDL() string {
	var b strings.Builder
	for _, t := range s.Types {
		switch t.Kind {
		case Scalar:
			fmt.Fprintf(&b, "scalar %s\n", t.Name)
		case Object, Interface:
			kw := "type"
			if t.Kind == Interface {
				kw = "interface"
			}
			fmt.Fprintf(&b, "%s %s", kw, t.Name)
			if len(t.Interfaces) > 0 {
				fmt.Fprintf(&b, " implements %s", strings.Join(t.Interfaces, " & "))
			}
			b.WriteString(" {")
			for _, f := range t.Fields {
				b.WriteString(" " + f.Name)
				if len(f.Args) > 0 {
					b.WriteString("(")
					for i, a := range f.Args {
						if i > 0 {
							b.WriteString(", ")
						}
						fmt.Fprintf(&b, "%s: %s", a.Name, a.Type)
						if a.HasDefault {
							fmt.Fprintf(&b, " = %v", a.Default)
						}
					}
					b.WriteString(")")
				}
				fmt.Fprintf(&b, ": %s", f.Type)
			}
			b.WriteString(" }\n")
		case Union:
			fmt.Fprintf(&b, "union %s = %s\n", t.Name, strings.Join(t.Members, " | "))
		case Enum:
			fmt.Fprintf(&b, "enum %s {", t.Name)
			for _, v := range t.Values {
				fmt.Fprintf(&b, " %s(%v)", v.Name, v.Internal)
			}
			b.WriteString(" }\n")
		case InputObject:
			fmt.Fprintf(&b, "input %s {", t.Name)
			for _, f := range t.InputFields {
				fmt.Fprintf(&b, " %s: %s", f.Name, f.Type)
				if f.HasDefault {
					fmt.Fprintf(&b, " = %v", f.Default)
				}
			}
			b.WriteString(" }\n")
		}
	}
	fmt.Fprintf(&b, "schema { query: %s", s.Query)
	if s.Mutation != "" {
		fmt.Fprintf(&b, " mutation: %s", s.Mutation)
	}
	if s.Subscription != "" {
		fmt.Fprintf(&b, " subscription: %s", s.Subscription)
	}
	b.WriteString(" }\n")
	return b.String()
}
