// Package harness runs one request through the library's entry points with
// an instrumented schema and returns the result together with the event log.
package harness

import (
	"context"
	"fmt"
	"reflect"
	"sort"
	"strings"

	"github.com/graphql-go/graphql"
	"github.com/graphql-go/graphql/language/ast"
	"github.com/graphql-go/graphql/language/parser"
	"github.com/graphql-go/graphql/language/source"

	"verif/internal/build"
	"verif/internal/mon/respcmp"
	"verif/internal/ref/exec"
	"verif/internal/values"
)

// Parse parses request text with the library parser.
func Parse(text string) (*ast.Document, error) {
	return parser.Parse(parser.ParseParams{Source: source.NewSource(&source.Source{Body: []byte(text), Name: "GraphQL request"})})
}

// Run is the outcome of one library execution.
type Run struct {
	Entry  string
	Result *graphql.Result
	Events []build.Event
}

func begin(env *build.Env, o *values.Outcomes) {
	env.SetOutcomes(o)
	env.Log.Reset()
}

// Do runs graphql.Do.
func Do(env *build.Env, text, opName string, vars map[string]interface{}, o *values.Outcomes, ctx context.Context) *Run {
	begin(env, o)
	res := graphql.Do(graphql.Params{Schema: env.Schema, RequestString: text, OperationName: opName, VariableValues: vars, Context: ctx})
	return &Run{Entry: "Do", Result: res, Events: env.Log.Snapshot()}
}

// Subscribe runs graphql.Subscribe and drains the result channel (the
// instrumented Subscribe functions answer with a one-shot payload, so the
// channel closes after one result).
func Subscribe(env *build.Env, text, opName string, vars map[string]interface{}, o *values.Outcomes, ctx context.Context) (*Run, []*graphql.Result) {
	begin(env, o)
	var all []*graphql.Result
	for r := range graphql.Subscribe(graphql.Params{Schema: env.Schema, RequestString: text, OperationName: opName, VariableValues: vars, Context: ctx}) {
		all = append(all, r)
		if len(all) > 16 {
			break
		}
	}
	run := &Run{Entry: "Subscribe", Events: env.Log.Snapshot()}
	if len(all) > 0 {
		run.Result = all[0]
	}
	return run, all
}

// Execute runs graphql.Execute on a parsed document.
func Execute(env *build.Env, doc *ast.Document, opName string, vars map[string]interface{}, o *values.Outcomes, ctx context.Context) *Run {
	begin(env, o)
	res := graphql.Execute(graphql.ExecuteParams{Schema: env.Schema, AST: doc, OperationName: opName, Args: vars, Context: ctx})
	return &Run{Entry: "Execute", Result: res, Events: env.Log.Snapshot()}
}

// ExecutePlan runs a prepared plan.
func ExecutePlan(env *build.Env, plan *graphql.Plan, vars map[string]interface{}, o *values.Outcomes, ctx context.Context, root interface{}) *Run {
	begin(env, o)
	res := graphql.ExecutePlan(plan, graphql.ExecuteParams{Schema: env.Schema, Args: vars, Context: ctx, Root: root})
	return &Run{Entry: "ExecutePlan", Result: res, Events: env.Log.Snapshot()}
}

// ViaCache serves the request the way PlanCache's documentation describes:
// cache.Get, then ExecutePlan with the caller's variables merged with the
// synthetic ones. Errors of Get become a result without data.
func ViaCache(env *build.Env, cache *graphql.PlanCache, text, opName string, vars map[string]interface{}, o *values.Outcomes, ctx context.Context) *Run {
	begin(env, o)
	pr := cache.Get(&env.Schema, text, opName)
	if len(pr.Errors) > 0 || pr.Plan == nil {
		return &Run{Entry: "PlanCache.Get", Result: &graphql.Result{Errors: pr.Errors}, Events: env.Log.Snapshot()}
	}
	args := map[string]interface{}{}
	for k, v := range vars {
		args[k] = v
	}
	for k, v := range pr.SynthArgs {
		args[k] = v
	}
	res := graphql.ExecutePlan(pr.Plan, graphql.ExecuteParams{Schema: env.Schema, Args: args, Context: ctx})
	return &Run{Entry: "PlanCache.Get+ExecutePlan", Result: res, Events: env.Log.Snapshot()}
}

// Resolves filters the resolve events.
func Resolves(evs []build.Event) []build.Event {
	var out []build.Event
	for _, e := range evs {
		if e.Kind == "resolve" {
			out = append(out, e)
		}
	}
	return out
}

// CanonArgs renders an argument map canonically with Go types visible
// (int vs float64 matter for coercion).
func CanonArgs(v interface{}) string {
	var b strings.Builder
	canon(&b, v)
	return b.String()
}

func canon(b *strings.Builder, v interface{}) {
	switch x := v.(type) {
	case nil:
		b.WriteString("null")
	case map[string]interface{}:
		keys := make([]string, 0, len(x))
		for k := range x {
			keys = append(keys, k)
		}
		sort.Strings(keys)
		b.WriteString("{")
		for i, k := range keys {
			if i > 0 {
				b.WriteString(",")
			}
			b.WriteString(k + ":")
			canon(b, x[k])
		}
		b.WriteString("}")
	case []interface{}:
		b.WriteString("[")
		for i, it := range x {
			if i > 0 {
				b.WriteString(",")
			}
			canon(b, it)
		}
		b.WriteString("]")
	case string:
		fmt.Fprintf(b, "%q", x)
	case int:
		fmt.Fprintf(b, "int(%d)", x)
	case float64:
		if x == 0 {
			x = 0 // the sign of a zero is not part of any property checked here
		}
		fmt.Fprintf(b, "float(%v)", x)
	case bool:
		fmt.Fprintf(b, "%v", x)
	default:
		rv := reflect.ValueOf(v)
		if rv.Kind() == reflect.Slice {
			b.WriteString("[")
			for i := 0; i < rv.Len(); i++ {
				if i > 0 {
					b.WriteString(",")
				}
				canon(b, rv.Index(i).Interface())
			}
			b.WriteString("]")
			return
		}
		fmt.Fprintf(b, "%T(%v)", v, v)
	}
}

// CanonVars renders variable values, dropping nil-valued keys (absent ≡ null).
func CanonVars(m map[string]interface{}) string {
	c := map[string]interface{}{}
	for k, v := range m {
		if v != nil {
			c[k] = v
		}
	}
	return CanonArgs(c)
}

// CompareInvocations checks the resolver log against the expected invocations:
// at most one call per path; exactly one for required ones; nothing unexpected;
// args, field, parent type, source as predicted.
func CompareInvocations(exp *exec.Expect, evs []build.Event, checkArgs bool) []respcmp.Mismatch {
	var out []respcmp.Mismatch
	if exp.RequestError {
		if n := len(Resolves(evs)); n > 0 {
			out = append(out, respcmp.Mismatch{Class: "resolver-ran-on-request-error", Msg: fmt.Sprintf("%d resolver invocations although the request must be refused (%s)", n, exp.Reason)})
		}
		return out
	}
	seen := map[string][]build.Event{}
	for _, e := range Resolves(evs) {
		seen[e.Path] = append(seen[e.Path], e)
	}
	wild := len(exp.Wild) > 0
	byPath := map[string]*exec.Invocation{}
	for _, inv := range exp.Invocations {
		byPath[inv.Path] = inv
		got := seen[inv.Path]
		if len(got) > 1 {
			out = append(out, respcmp.Mismatch{Class: "invoked-twice", Msg: fmt.Sprintf("resolver for %q invoked %d times", inv.Path, len(got))})
		}
		if len(got) == 0 {
			if inv.Required && !wild {
				out = append(out, respcmp.Mismatch{Class: "not-invoked", Msg: fmt.Sprintf("resolver for %q (%s.%s) never invoked", inv.Path, inv.ParentType, inv.Field)})
			}
			continue
		}
		g := got[0]
		if g.Field != inv.Field || g.ParentType != inv.ParentType {
			out = append(out, respcmp.Mismatch{Class: "wrong-field", Msg: fmt.Sprintf("at %q expected %s.%s, resolver of %s.%s ran", inv.Path, inv.ParentType, inv.Field, g.ParentType, g.Field)})
		}
		if checkArgs {
			if a, b := CanonArgs(inv.Args), CanonArgs(g.Args); a != b {
				out = append(out, respcmp.Mismatch{Class: "args", Msg: fmt.Sprintf("at %q (%s.%s) expected args %s, resolver received %s", inv.Path, inv.ParentType, inv.Field, a, b)})
			}
		}
		if g.SourceID != inv.SourceID && !(strings.HasPrefix(g.SourceID, "<root") && inv.SourceID == "<root>") {
			out = append(out, respcmp.Mismatch{Class: "source", Msg: fmt.Sprintf("at %q expected source %s, got %s", inv.Path, inv.SourceID, g.SourceID)})
		}
	}
	paths := make([]string, 0, len(seen))
	for p := range seen {
		paths = append(paths, p)
	}
	sort.Strings(paths)
	for _, p := range paths {
		if _, ok := byPath[p]; !ok && !wild {
			out = append(out, respcmp.Mismatch{Class: "unexpected-invocation", Msg: fmt.Sprintf("resolver invoked at %q (%s.%s) where no field is selected", p, seen[p][0].ParentType, seen[p][0].Field)})
		}
	}
	return out
}
