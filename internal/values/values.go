// Package values is the value universe shared by the instrumented resolvers
// (internal/build) and the reference executor (internal/ref/exec): both call
// the same PURE functions of (seed, response path); neither calls the other.
// Nothing here imports graphql-go.
package values

import (
	"fmt"
	"math"
	"strconv"
	"strings"

	"verif/internal/core"
	"verif/internal/model"
)

// Obj is every object value handed to the library. ID is the response path
// (joined with "/") of the field or list element that produced it, so a
// resolver's Source names the parent that produced it.
type Obj struct {
	Type string // runtime object type name
	ID   string
}

func (o *Obj) String() string { return "Obj(" + o.Type + "@" + o.ID + ")" }

// Kind is an outcome kind of one resolver invocation (or list element).
type Kind int

const (
	Value Kind = iota
	Nil
	Error
	ValueError // value together with an error
	PanicError // panic(error)
	PanicString
	PanicStruct
	ThunkValue
	ThunkNil
	ThunkError
	ThunkPanic
	// adversarial kinds (C04)
	TypedNil       // typed nil pointer
	WrongKind      // scalar where list/object expected, list/map where leaf expected
	NaN            // float NaN for numeric leaves
	OutOfRange     // integer outside 32 bits for Int
	UnknownEnum    // value that is no internal enum value
	BadRuntimeType // abstract: resolves to an object type that is not possible
	NilRuntimeType // abstract: resolveType yields nil
	IsTypeOfFalse  // object with IsTypeOf: says no
	ThunkThunk     // thunk returning a thunk
	Inf            // float +Inf for numeric leaves
	NumericString  // a string that parses as NaN / Inf / a huge number
	SerializeToNil // a value the (custom) scalar serialises to a typed nil pointer
	NumKinds
)

var kindNames = [...]string{"value", "nil", "error", "value+error", "panic(error)", "panic(string)", "panic(struct)",
	"thunk→value", "thunk→nil", "thunk→error", "thunk→panic", "typed-nil", "wrong-kind", "NaN", "out-of-range", "unknown-enum",
	"bad-runtime-type", "nil-runtime-type", "isTypeOf=false", "thunk→thunk", "+Inf", "numeric-string", "serialize→typed-nil"}

func (k Kind) String() string {
	if int(k) < len(kindNames) {
		return kindNames[k]
	}
	return "kind" + strconv.Itoa(int(k))
}

// IsThunk reports whether the resolver returns a deferred function.
func (k Kind) IsThunk() bool {
	return k == ThunkValue || k == ThunkNil || k == ThunkError || k == ThunkPanic || k == ThunkThunk
}

// Fails reports whether the invocation is a field error by itself.
func (k Kind) Fails() bool {
	switch k {
	case Error, ValueError, PanicError, PanicString, PanicStruct, ThunkError, ThunkPanic:
		return true
	}
	return false
}

// Outcomes assigns an outcome to every response path.
type Outcomes struct {
	Seed     uint64          `json:"seed"`
	Density  int             `json:"density"` // percent of paths that get a non-Value kind from Kinds
	Kinds    []Kind          `json:"kinds"`
	Explicit map[string]Kind `json:"explicit,omitempty"`
	// ErrorForms: the error values of failing outcomes take several Go forms
	// (a plain error, or a gqlerrors.FormattedError carrying a path of its own -
	// say the forwarded error entry of an upstream service), chosen by the
	// response path. An already located *gqlerrors.Error is not used: passing its
	// path through is the reference implementation's documented behaviour. The message is the same in every form.
	ErrorForms bool `json:"error_forms,omitempty"`
}

func (o *Outcomes) At(path string) Kind {
	if o == nil {
		return Value
	}
	if k, ok := o.Explicit[path]; ok {
		return k
	}
	if o.Density > 0 && len(o.Kinds) > 0 {
		h := core.NewRNG(o.Seed).Derive(core.HashString(path), 0x0c)
		if h.Intn(100) < o.Density {
			return o.Kinds[h.Intn(len(o.Kinds))]
		}
	}
	return Value
}

func (o *Outcomes) Describe() string {
	if o == nil {
		return "all-value"
	}
	var b strings.Builder
	fmt.Fprintf(&b, "seed=%d density=%d kinds=%v", o.Seed, o.Density, o.Kinds)
	keys := make([]string, 0, len(o.Explicit))
	for k := range o.Explicit {
		keys = append(keys, k)
	}
	sortStrings(keys)
	for _, k := range keys {
		fmt.Fprintf(&b, " %s=%s", k, o.Explicit[k])
	}
	return b.String()
}

func sortStrings(a []string) {
	for i := 1; i < len(a); i++ {
		for j := i; j > 0 && a[j] < a[j-1]; j-- {
			a[j], a[j-1] = a[j-1], a[j]
		}
	}
}

func h(seed uint64, path string, salt uint64) *core.RNG {
	return core.NewRNG(seed).Derive(core.HashString(path), salt)
}

// ListLen is the length of the list produced at path.
func ListLen(seed uint64, path string) int { return h(seed, path, 1).Intn(4) }

// RuntimeType is the object type an abstract-typed value at path resolves to.
func RuntimeType(s *model.Schema, seed uint64, abstract, path string) string {
	p := s.PossibleTypes(abstract)
	if len(p) == 0 {
		return ""
	}
	return p[h(seed, path, 2).Intn(len(p))]
}

// LeafInternal is the Go value a resolver returns for a leaf of named type
// at path; LeafSerialized is what must appear in the response for it.
func LeafInternal(s *model.Schema, seed uint64, name, path string) interface{} {
	r := h(seed, path, 3)
	td := s.Type(name)
	if td != nil && td.Kind == model.Enum {
		return td.Values[r.Intn(len(td.Values))].Internal
	}
	switch name {
	case "Int":
		return r.Intn(2001) - 1000
	case "Float":
		return float64(r.Intn(4001)-2000) / 8
	case "String":
		return "s" + strconv.FormatUint(r.U64()%100000, 36)
	case "Boolean":
		return r.Bool()
	case "ID":
		return "id" + strconv.Itoa(r.Intn(1000))
	case "Tag":
		return "t" + strconv.Itoa(r.Intn(1000))
	}
	return nil
}

// TagSerializePrefix is what the custom scalar Tag prepends on output.
const TagSerializePrefix = "ser:"

// TagTypedNil is the value the custom scalar Tag serialises to a typed nil
// pointer (a nullish value that is not the untyped nil).
const TagTypedNil = "please-serialize-to-typed-nil"

func LeafSerialized(s *model.Schema, seed uint64, name, path string) interface{} {
	v := LeafInternal(s, seed, name, path)
	td := s.Type(name)
	if td != nil && td.Kind == model.Enum {
		for _, ev := range td.Values {
			if ev.Internal == v {
				return ev.Name
			}
		}
		return nil
	}
	if name == "Tag" {
		return TagSerializePrefix + v.(string)
	}
	return v
}

// Natural builds the well-typed Go value a resolver returns for type t at path.
// elemKind decides per list element (at path/i) whether it is nil.
func Natural(s *model.Schema, seed uint64, t *model.TypeRef, path string, o *Outcomes) interface{} {
	switch t.Kind {
	case "nonnull":
		return Natural(s, seed, t.Of, path, o)
	case "list":
		n := ListLen(seed, path)
		out := make([]interface{}, n)
		for i := 0; i < n; i++ {
			ep := path + "/" + strconv.Itoa(i)
			out[i] = Element(s, seed, t.Of, ep, o)
		}
		return out
	}
	td := s.Type(t.Name)
	if td == nil {
		return nil
	}
	switch td.Kind {
	case model.Object:
		return &Obj{Type: t.Name, ID: path}
	case model.Interface, model.Union:
		return &Obj{Type: RuntimeType(s, seed, t.Name, path), ID: path}
	}
	return LeafInternal(s, seed, t.Name, path)
}

// Element is the value of one list element at its own path; the outcome table
// may make it nil or a thunk.
func Element(s *model.Schema, seed uint64, t *model.TypeRef, path string, o *Outcomes) interface{} {
	switch k := o.At(path); k {
	case Nil, TypedNil:
		return nil
	case ThunkValue:
		return func() (interface{}, error) { return Natural(s, seed, t, path, o), nil }
	case ThunkNil:
		return func() (interface{}, error) { return nil, nil }
	case ThunkError:
		return func() (interface{}, error) { return nil, fmt.Errorf("E:%s", path) }
	}
	return Natural(s, seed, t, path, o)
}

// ElementKind normalises the outcome kinds that are meaningful for a list element.
func ElementKind(o *Outcomes, path string) Kind {
	switch k := o.At(path); k {
	case Nil, TypedNil:
		return Nil
	case ThunkValue, ThunkNil, ThunkError:
		return k
	}
	return Value
}

var _ = math.NaN
