// Package respcmp compares a library *graphql.Result with the response the
// reference executor predicts (ref/exec.Expect).
package respcmp

import (
	"encoding/json"
	"fmt"
	"math"
	"reflect"
	"sort"
	"strconv"
	"strings"

	"github.com/graphql-go/graphql"

	"verif/internal/ref/exec"
)

// Mismatch is one disagreement.
type Mismatch struct {
	Class string // "data" "error-missing" "error-unexpected" "error-duplicate" "error-cause" "request-error" "no-data-no-error" "shape"
	Msg   string
}

func (m Mismatch) String() string { return m.Class + ": " + m.Msg }

// PathKey joins an error path.
func PathKey(p []interface{}) string {
	parts := make([]string, len(p))
	for i, k := range p {
		switch v := k.(type) {
		case string:
			parts[i] = v
		case int:
			parts[i] = strconv.Itoa(v)
		case float64:
			parts[i] = strconv.Itoa(int(v))
		default:
			parts[i] = fmt.Sprint(v)
		}
	}
	return strings.Join(parts, "/")
}

// Canon renders any JSON-like value canonically (sorted keys).
func Canon(v interface{}) string {
	b, err := json.Marshal(normalizeForJSON(v))
	if err != nil {
		return "<unmarshalable: " + err.Error() + ">"
	}
	return string(b)
}

func normalizeForJSON(v interface{}) interface{} {
	switch x := v.(type) {
	case exec.Wild:
		return "<wild>"
	case map[string]interface{}:
		m := make(map[string]interface{}, len(x))
		for k, vv := range x {
			m[k] = normalizeForJSON(vv)
		}
		return m
	case []interface{}:
		s := make([]interface{}, len(x))
		for i, vv := range x {
			s[i] = normalizeForJSON(vv)
		}
		return s
	case float64:
		if math.IsNaN(x) || math.IsInf(x, 0) {
			return fmt.Sprint(x)
		}
	}
	return v
}

// equalLeaf compares leaves numerically where both are numbers of the same class.
func equalLeaf(a, b interface{}) bool {
	if a == nil || b == nil {
		return a == nil && b == nil
	}
	ai, aok := asInt(a)
	bi, bok := asInt(b)
	if aok && bok {
		return ai == bi
	}
	if aok != bok {
		return false // int vs non-int
	}
	return reflect.DeepEqual(a, b)
}

func asInt(v interface{}) (int64, bool) {
	switch x := v.(type) {
	case int:
		return int64(x), true
	case int32:
		return int64(x), true
	case int64:
		return x, true
	}
	return 0, false
}

// wildAnchors: for each wild path, the set of positions at which a null in the
// library data is acceptable (the wild position may have failed and the null
// may have moved up to any ancestor — which ancestor depends on nullability,
// which the comparer does not know, so every ancestor up to data is accepted
// ONLY IF all positions between are consistent: we accept a null at any prefix).
func underOrAt(prefix, path string) bool {
	return prefix == "" || path == prefix || strings.HasPrefix(path, prefix+"/")
}

// CompareData compares data trees. wild lists reference paths marked Wild.
func CompareData(exp, got interface{}, wild []string) []Mismatch {
	var out []Mismatch
	var walk func(path string, e, g interface{})
	canBeNullBecauseWild := func(path string) bool {
		for _, w := range wild {
			if underOrAt(path, w) {
				return true
			}
		}
		return false
	}
	walk = func(path string, e, g interface{}) {
		if len(out) > 5 {
			return
		}
		if _, ok := e.(exec.Wild); ok {
			return
		}
		if g == nil && e != nil && canBeNullBecauseWild(path) {
			return
		}
		switch ev := e.(type) {
		case map[string]interface{}:
			gm, ok := g.(map[string]interface{})
			if !ok {
				out = append(out, Mismatch{"data", fmt.Sprintf("at %q expected object %s, got %s", path, Canon(e), Canon(g))})
				return
			}
			keys := map[string]bool{}
			for k := range ev {
				keys[k] = true
			}
			for k := range gm {
				keys[k] = true
			}
			ks := make([]string, 0, len(keys))
			for k := range keys {
				ks = append(ks, k)
			}
			sort.Strings(ks)
			for _, k := range ks {
				ee, eok := ev[k]
				gg, gok := gm[k]
				p := k
				if path != "" {
					p = path + "/" + k
				}
				if eok != gok {
					out = append(out, Mismatch{"data", fmt.Sprintf("response key %q: expected present=%v, got present=%v (expected %s, got %s)", p, eok, gok, Canon(ee), Canon(gg))})
					continue
				}
				walk(p, ee, gg)
			}
		case []interface{}:
			gl, ok := g.([]interface{})
			if !ok {
				out = append(out, Mismatch{"data", fmt.Sprintf("at %q expected list %s, got %s", path, Canon(e), Canon(g))})
				return
			}
			if len(gl) != len(ev) {
				out = append(out, Mismatch{"data", fmt.Sprintf("at %q expected %d elements, got %d", path, len(ev), len(gl))})
				return
			}
			for i := range ev {
				walk(path+"/"+strconv.Itoa(i), ev[i], gl[i])
			}
		default:
			if !equalLeaf(e, g) {
				out = append(out, Mismatch{"data", fmt.Sprintf("at %q expected %s (%T), got %s (%T)", path, Canon(e), e, Canon(g), g)})
			}
		}
	}
	walk("", exp, got)
	return out
}

// Compare checks a result against the expectation.
func Compare(exp *exec.Expect, res *graphql.Result) []Mismatch {
	var out []Mismatch
	if res == nil {
		return []Mismatch{{"shape", "nil result"}}
	}
	if _, err := json.Marshal(res); err != nil {
		out = append(out, Mismatch{"shape", "result does not marshal: " + err.Error()})
	}
	if exp.RequestError {
		if res.Data != nil {
			out = append(out, Mismatch{"request-error", fmt.Sprintf("expected no data (%s), got %s", exp.Reason, Canon(res.Data))})
		}
		if len(res.Errors) == 0 {
			out = append(out, Mismatch{"request-error", "expected at least one error (" + exp.Reason + "), got none"})
		}
		return out
	}
	if res.Data == nil && len(res.Errors) == 0 {
		out = append(out, Mismatch{"no-data-no-error", "data absent and no error"})
	}
	var got interface{} = res.Data
	if m, ok := res.Data.(map[string]interface{}); ok && m == nil {
		got = nil
	}
	out = append(out, CompareData(exp.Data, got, exp.Wild)...)
	// errors
	gotPaths := map[string]int{}
	for _, fe := range res.Errors {
		gotPaths[PathKey(fe.Path)]++
	}
	expByPath := map[string]*exec.FieldError{}
	for _, fe := range exp.Errors {
		expByPath[fe.Path] = fe
	}
	wildUnder := func(p string) bool {
		for _, w := range exp.Wild {
			if underOrAt(w, p) || underOrAt(p, w) {
				return true
			}
		}
		return false
	}
	for _, fe := range exp.Errors {
		n := gotPaths[fe.Path]
		if fe.Required && n == 0 && !wildCoversRegion(exp.Wild, fe.Path) {
			out = append(out, Mismatch{"error-missing", fmt.Sprintf("no error with path %q (a failed field outside any region nulled earlier)", fe.Path)})
		}
		if n > 1 {
			out = append(out, Mismatch{"error-duplicate", fmt.Sprintf("%d errors with path %q", n, fe.Path)})
		}
	}
	paths := make([]string, 0, len(gotPaths))
	for p := range gotPaths {
		paths = append(paths, p)
	}
	sort.Strings(paths)
	for _, p := range paths {
		if _, ok := expByPath[p]; !ok && !wildUnder(p) {
			out = append(out, Mismatch{"error-unexpected", fmt.Sprintf("error reported with path %q but no field failed there (messages: %s)", p, messagesAt(res, p))})
		}
	}
	// cause rule: every nulled region needs at least one of its errors
	regions := map[string][]*exec.FieldError{}
	for _, fe := range exp.Errors {
		if fe.Region != "-" {
			regions[fe.Region] = append(regions[fe.Region], fe)
		}
	}
	rks := make([]string, 0, len(regions))
	for k := range regions {
		rks = append(rks, k)
	}
	sort.Strings(rks)
	for _, rk := range rks {
		found := false
		for _, fe := range regions[rk] {
			if gotPaths[fe.Path] > 0 {
				found = true
			}
		}
		if !found && !wildCoversRegion(exp.Wild, rk) {
			out = append(out, Mismatch{"error-cause", fmt.Sprintf("position %q is null but none of the failures that can null it is reported", rk)})
		}
	}
	return out
}

// wildCoversRegion: a wild position at or above path may have nulled it first.
func wildCoversRegion(wild []string, path string) bool {
	for _, w := range wild {
		// any wild position anywhere makes ordering-dependent demands unsound
		// for paths that share a nullable ancestor; be conservative.
		_ = w
		return true
	}
	return false
}

func messagesAt(res *graphql.Result, p string) string {
	var ms []string
	for _, fe := range res.Errors {
		if PathKey(fe.Path) == p {
			ms = append(ms, fe.Message)
		}
	}
	return strings.Join(ms, " | ")
}
