package gorou

import (
	"os"
	"path/filepath"
	"strings"
	"testing"
)

const sample = `goroutine 1 [running]:
main.main()
	/tmp/x/main.go:136 +0x14b6

goroutine 18 [chan send, 2 minutes]:
github.com/graphql-go/graphql.ExecuteSubscription.func2()
	/repo/subscription.go:220 +0x5c5
created by github.com/graphql-go/graphql.ExecuteSubscription in goroutine 1
	/repo/subscription.go:92 +0x1a5

goroutine 19 [select, locked to thread]:
github.com/graphql-go/graphql.ExecutePlan(0xc000010000, {{0x0, 0x0}, {0x1, 0x2}})
	/repo/plan.go:696 +0x2b0
github.com/graphql-go/graphql.(*Plan).foo(...)
	/repo/plan.go:12
verif/internal/props/c16.(*run).call(0xc0000a0000)
	/verif/internal/props/c16/run.go:10 +0x20
created by verif/internal/props/c16.start in goroutine 1
	/verif/internal/props/c16/run.go:5 +0x11
`

func TestParse(t *testing.T) {
	gs := Parse(sample)
	if len(gs) != 3 {
		t.Fatalf("want 3 goroutines, got %d", len(gs))
	}
	if gs[1].ID != 18 || gs[1].State != "chan send" || len(gs[1].Extra) != 1 || len(gs[1].Frames) != 1 {
		t.Fatalf("g18 parsed wrong: %+v", gs[1])
	}
	if gs[1].Frames[0].Func != "github.com/graphql-go/graphql.ExecuteSubscription.func2" || gs[1].Frames[0].File != "/repo/subscription.go" || gs[1].Frames[0].Line != 220 {
		t.Fatalf("frame parsed wrong: %+v", gs[1].Frames[0])
	}
	if gs[1].CreatedBy == nil || gs[1].CreatedBy.Func != "github.com/graphql-go/graphql.ExecuteSubscription" {
		t.Fatalf("created by parsed wrong: %+v", gs[1].CreatedBy)
	}
	if gs[2].State != "select" || len(gs[2].Frames) != 3 || gs[2].Frames[1].Func != "github.com/graphql-go/graphql.(*Plan).foo" {
		t.Fatalf("g19 parsed wrong: %+v", gs[2])
	}
	hits := Query{Files: []string{"subscription.go"}}.Find(gs)
	if len(hits) != 1 || hits[0].G.ID != 18 || !hits[0].G.Parked() {
		t.Fatalf("query subscription.go: %+v", hits)
	}
	hits = Query{FuncContains: []string{"ExecutePlan"}}.Find(gs)
	if len(hits) != 1 || hits[0].G.ID != 19 {
		t.Fatalf("query ExecutePlan: %+v", hits)
	}
	hits = Query{}.Find(gs)
	if len(hits) != 2 {
		t.Fatalf("query lib: %+v", hits)
	}
}

func TestLive(t *testing.T) {
	ch := make(chan int)
	go func() { ch <- 1 }()
	q := Query{FuncPrefix: "verif/internal/mon/gorou.", FuncContains: []string{"TestLive.func"}}
	s := q.Stable(3, 200)
	if !s.Stable || len(s.Hits) != 1 || s.Hits[0].G.State != "chan send" {
		t.Fatalf("live sample: %+v", s)
	}
	<-ch
	gone, s := q.WaitGone(3, 200)
	if !gone {
		t.Fatalf("goroutine should be gone: %+v", s)
	}
	if CurID() == 0 || !strings.Contains(Text(), "TestLive") {
		t.Fatal("CurID/Text")
	}
}

const raceSample = `some earlier output
==================
WARNING: DATA RACE
Read at 0x00c00011e078 by goroutine 7:
  github.com/graphql-go/graphql.ExecutePlan.func2()
      /repo/plan.go:692 +0x3e
  main.main.gowrap1()
      /tmp/x/main.go:16 +0x17

Previous write at 0x00c00011e078 by goroutine 8:
  encoding/json.Marshal()
      /usr/lib/go/src/encoding/json/encode.go:11 +0x50
  verif/internal/props/c16.(*run).marshal()
      /verif/internal/props/c16/run.go:17 +0x17

Goroutine 7 (running) created at:
  github.com/graphql-go/graphql.ExecutePlan()
      /repo/plan.go:646 +0x124
==================
tail
==================
WARNING: DATA RACE
Read at 0x1 by goroutine 9:
  main.w()
`

func TestRaceLog(t *testing.T) {
	dir := t.TempDir()
	l := OpenRaceLog(dir, 3)
	if got := l.Poll(); got != nil {
		t.Fatal("no file yet")
	}
	if err := os.WriteFile(filepath.Join(dir, "child_3.err"), []byte(raceSample), 0o644); err != nil {
		t.Fatal(err)
	}
	reps := l.Poll()
	if len(reps) != 1 {
		t.Fatalf("want 1 complete report, got %d", len(reps))
	}
	if reps[0].HarnessOnly || reps[0].Sig != "ExecutePlan.func2|harness:c16.(*run).marshal" {
		t.Fatalf("sig: %q harnessOnly=%v", reps[0].Sig, reps[0].HarnessOnly)
	}
	if reps := l.Poll(); len(reps) != 0 {
		t.Fatalf("incomplete report must not be returned: %d", len(reps))
	}
	f, _ := os.OpenFile(filepath.Join(dir, "child_3.err"), os.O_APPEND|os.O_WRONLY, 0o644)
	f.WriteString("      /tmp/x.go:1 +0x1\n\nPrevious write at 0x1 by goroutine 10:\n  main.w()\n      /tmp/x.go:1 +0x1\n==================\n")
	f.Close()
	reps = l.Poll()
	if len(reps) != 1 || !reps[0].HarnessOnly || reps[0].Sig != "main.w|main.w" {
		t.Fatalf("second report: %+v", reps)
	}
}
