package gorou

import (
	"fmt"
	"os"
	"path/filepath"
	"sort"
	"strings"
)

// RaceLog lets a child process that runs from the -race binary pick up the
// race detector's reports about itself. The detector prints a report to
// stderr at the moment it sees the race and lets the process continue (exit
// status 66 only at process exit); the driver redirects a child's stderr to
// <outDir>/child_<batch>.err, so the child can read that file back after each
// case and attribute new reports to the case that just ran.
type RaceLog struct {
	path string
	off  int64
}

// OpenRaceLog returns the log of the calling child (outDir and batch as given
// to the child by the driver). Reports already in the file are skipped.
func OpenRaceLog(outDir string, batch int) *RaceLog {
	l := &RaceLog{path: filepath.Join(outDir, fmt.Sprintf("child_%d.err", batch))}
	if st, err := os.Stat(l.path); err == nil {
		l.off = st.Size()
	}
	return l
}

// RaceReport is one "WARNING: DATA RACE" block.
type RaceReport struct {
	Text string
	// Sig is "funcA|funcB": the first library frame of each of the two
	// conflicting accesses, library prefix stripped; for an access without a
	// library frame the first harness frame ("harness:pkg.func"), else its
	// first frame; sorted.
	Sig string
	// HarnessOnly: neither access stack contains a library frame.
	HarnessOnly bool
}

const raceDelim = "=================="

// Poll returns the complete reports written since the last call.
func (l *RaceLog) Poll() []RaceReport {
	st, err := os.Stat(l.path)
	if err != nil || st.Size() <= l.off {
		return nil
	}
	f, err := os.Open(l.path)
	if err != nil {
		return nil
	}
	defer f.Close()
	buf := make([]byte, st.Size()-l.off)
	n, _ := f.ReadAt(buf, l.off)
	text := string(buf[:n])
	var out []RaceReport
	consumed := 0
	for {
		i := strings.Index(text[consumed:], raceDelim+"\nWARNING: DATA RACE")
		if i < 0 {
			// nothing (more) that starts a report: everything read is consumed,
			// except a possibly partial delimiter at the very end
			if n-consumed > len(raceDelim)+20 {
				consumed = n - len(raceDelim) - 20
			}
			break
		}
		start := consumed + i
		body := start + len(raceDelim) + 1
		j := strings.Index(text[body:], raceDelim)
		if j < 0 {
			consumed = start // incomplete report: read it again next time
			break
		}
		block := text[body : body+j]
		out = append(out, parseRace(block))
		consumed = body + j + len(raceDelim)
	}
	l.off += int64(consumed)
	return out
}

func parseRace(block string) RaceReport {
	r := RaceReport{Text: block}
	// sections are separated by blank lines; the first two are the accesses
	secs := strings.Split(block, "\n\n")
	var sigs []string
	lib := false
	for _, sec := range secs {
		lines := strings.Split(strings.TrimSpace(sec), "\n")
		if len(lines) == 0 {
			continue
		}
		head := lines[0]
		if strings.HasPrefix(head, "WARNING: DATA RACE") && len(lines) > 1 {
			lines = lines[1:]
			head = lines[0]
		}
		if !(strings.Contains(head, " by goroutine ") || strings.Contains(head, " by main goroutine")) {
			continue
		}
		first, firstLib, firstHarness := "", "", ""
		for _, ln := range lines[1:] {
			if strings.HasPrefix(ln, "      ") || strings.TrimSpace(ln) == "" {
				continue // file:line
			}
			fn := strings.TrimSpace(ln)
			if k := strings.LastIndex(fn, "("); k > 0 {
				fn = fn[:k]
			}
			if first == "" {
				first = fn
			}
			if firstHarness == "" && strings.HasPrefix(fn, "verif/") {
				firstHarness = "harness:" + fn[strings.LastIndex(fn, "/")+1:]
			}
			if strings.HasPrefix(fn, LibPrefix) {
				firstLib = ShortFunc(fn)
				break
			}
		}
		if firstLib != "" {
			lib = true
			sigs = append(sigs, firstLib)
		} else if firstHarness != "" {
			sigs = append(sigs, firstHarness)
		} else {
			sigs = append(sigs, first)
		}
		if len(sigs) == 2 {
			break
		}
	}
	sort.Strings(sigs)
	r.Sig = strings.Join(sigs, "|")
	r.HarnessOnly = !lib
	return r
}
