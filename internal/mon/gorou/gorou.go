// Package gorou is the goroutine inspector shared by the C15 and C16 monitors
// (DESIGN.md section 3.11, "goroutine counting noise"): it parses the text the
// runtime prints for all goroutines (runtime.Stack(all), the same text as
// pprof.Lookup("goroutine").WriteTo(w, 2)) into goroutines {id, state, frames}
// and answers questions of the form "is there a goroutine with a frame inside
// the library (optionally in a given file / function), and in which state",
// sampled until the answer is stable.
//
// Nothing in here is a verdict. Sleeps between samples only let goroutines
// settle; the callers decide on the *state predicate* of stable samples
// (e.g. "parked in chan send with no receiver"), never on elapsed time.
package gorou

import (
	"runtime"
	"sort"
	"strconv"
	"strings"
	"time"
)

// LibPrefix is the function-name prefix of every frame of the library under test.
const LibPrefix = "github.com/graphql-go/graphql."

// Frame is one stack frame. Func has the argument list stripped
// ("github.com/graphql-go/graphql.ExecuteSubscription.func2").
type Frame struct {
	Func string
	File string
	Line int
}

// G is one goroutine of a dump.
type G struct {
	ID int64
	// State is the wait reason / status the runtime prints first inside the
	// brackets: "running", "runnable", "chan send", "chan receive", "select",
	// "sync.Mutex.Lock", "semacquire", "sleep", "IO wait", "syscall", ...
	State string
	// Extra are the remaining bracket items ("2 minutes", "locked to thread").
	Extra []string
	// Frames are innermost first; the "created by" line is not among them.
	Frames    []Frame
	CreatedBy *Frame
}

// Parked reports whether the goroutine is blocked (not running, runnable or in
// a system call) according to the dump.
func (g *G) Parked() bool {
	switch g.State {
	case "running", "runnable", "syscall", "":
		return false
	}
	return true
}

// Dump returns all goroutines of the process, parsed.
func Dump() []G { return Parse(Text()) }

// Text returns the raw dump of all goroutines.
func Text() string {
	n := 64 << 10
	for {
		buf := make([]byte, n)
		m := runtime.Stack(buf, true)
		if m < n {
			return string(buf[:m])
		}
		n *= 2
	}
}

// Parse parses the text format of runtime.Stack(all) / pprof debug=2.
func Parse(text string) []G {
	var out []G
	var cur *G
	var pendingFunc string
	var pendingCreated bool
	havePending := false
	flush := func() {
		if cur != nil {
			out = append(out, *cur)
			cur = nil
		}
		havePending = false
	}
	for _, line := range strings.Split(text, "\n") {
		if strings.HasPrefix(line, "goroutine ") && strings.HasSuffix(line, "]:") {
			flush()
			g := parseHeader(line)
			cur = &g
			continue
		}
		if cur == nil {
			continue
		}
		if line == "" {
			flush()
			continue
		}
		if line[0] == '\t' {
			if !havePending {
				continue
			}
			file, ln := parseFileLine(line[1:])
			fr := Frame{Func: pendingFunc, File: file, Line: ln}
			if pendingCreated {
				f := fr
				cur.CreatedBy = &f
			} else {
				cur.Frames = append(cur.Frames, fr)
			}
			havePending = false
			continue
		}
		// a function line
		if strings.HasPrefix(line, "created by ") {
			fn := strings.TrimPrefix(line, "created by ")
			if i := strings.Index(fn, " in goroutine "); i >= 0 {
				fn = fn[:i]
			}
			pendingFunc, pendingCreated, havePending = fn, true, true
			continue
		}
		if strings.HasPrefix(line, "...") { // "...N frames elided..."
			continue
		}
		fn := line
		if strings.HasSuffix(fn, ")") {
			if i := strings.LastIndex(fn, "("); i > 0 {
				fn = fn[:i]
			}
		}
		pendingFunc, pendingCreated, havePending = fn, false, true
	}
	flush()
	return out
}

func parseHeader(line string) G {
	// goroutine 18 [chan send, 2 minutes, locked to thread]:
	var g G
	rest := strings.TrimPrefix(line, "goroutine ")
	sp := strings.IndexByte(rest, ' ')
	if sp < 0 {
		return g
	}
	g.ID, _ = strconv.ParseInt(rest[:sp], 10, 64)
	rest = rest[sp+1:]
	lb := strings.IndexByte(rest, '[')
	rb := strings.LastIndexByte(rest, ']')
	if lb < 0 || rb < lb {
		return g
	}
	items := strings.Split(rest[lb+1:rb], ", ")
	g.State = items[0]
	if len(items) > 1 {
		g.Extra = items[1:]
	}
	return g
}

func parseFileLine(s string) (string, int) {
	// /repo/subscription.go:220 +0x5c5
	if i := strings.IndexByte(s, ' '); i >= 0 {
		s = s[:i]
	}
	i := strings.LastIndexByte(s, ':')
	if i < 0 {
		return s, 0
	}
	n, _ := strconv.Atoi(s[i+1:])
	return s[:i], n
}

// Query selects goroutines by their frames.
type Query struct {
	// FuncPrefix: a frame's function must start with this (default LibPrefix).
	FuncPrefix string
	// FuncContains: if non-empty, the frame's function (after the prefix) must
	// contain one of these substrings.
	FuncContains []string
	// Files: if non-empty, the frame's file must end in "/"+one of these.
	Files []string
	// Any: every goroutine matches (its innermost frame is reported); used
	// for whole-process quiescence checks.
	Any bool
	// Exclude: goroutine ids that are never reported (goroutines already
	// attributed to an earlier case, or the sampling goroutine itself).
	Exclude map[int64]bool
}

// CurID returns the id of the calling goroutine.
func CurID() int64 {
	var buf [64]byte
	n := runtime.Stack(buf[:], false)
	s := strings.TrimPrefix(string(buf[:n]), "goroutine ")
	if i := strings.IndexByte(s, ' '); i > 0 {
		id, _ := strconv.ParseInt(s[:i], 10, 64)
		return id
	}
	return 0
}

// Hit is a goroutine selected by a query.
type Hit struct {
	G G
	// Frame is the innermost frame that satisfied the query.
	Frame Frame
	// Top is the innermost frame of the goroutine (where it is parked).
	Top Frame
}

func (q Query) matchFrame(f Frame) bool {
	if q.Any {
		return true
	}
	p := q.FuncPrefix
	if p == "" {
		p = LibPrefix
	}
	if !strings.HasPrefix(f.Func, p) {
		return false
	}
	if len(q.FuncContains) > 0 {
		ok := false
		rest := f.Func[len(p):]
		for _, s := range q.FuncContains {
			if strings.Contains(rest, s) {
				ok = true
				break
			}
		}
		if !ok {
			return false
		}
	}
	if len(q.Files) > 0 {
		ok := false
		for _, s := range q.Files {
			if f.File == s || strings.HasSuffix(f.File, "/"+s) {
				ok = true
				break
			}
		}
		if !ok {
			return false
		}
	}
	return true
}

// Find returns the goroutines of a dump that have a matching frame, ordered by id.
func (q Query) Find(gs []G) []Hit {
	var hits []Hit
	for _, g := range gs {
		if q.Exclude != nil && q.Exclude[g.ID] {
			continue
		}
		for _, f := range g.Frames {
			if q.matchFrame(f) {
				h := Hit{G: g, Frame: f}
				if len(g.Frames) > 0 {
					h.Top = g.Frames[0]
				}
				hits = append(hits, h)
				break
			}
		}
	}
	sort.Slice(hits, func(i, j int) bool { return hits[i].G.ID < hits[j].G.ID })
	return hits
}

// Signature is the comparable summary of a sample: id, state and the matched
// frame's function and line of every hit.
func Signature(hits []Hit) string {
	var b strings.Builder
	for _, h := range hits {
		b.WriteString(strconv.FormatInt(h.G.ID, 10))
		b.WriteByte('|')
		b.WriteString(h.G.State)
		b.WriteByte('|')
		b.WriteString(h.Frame.Func)
		b.WriteByte(':')
		b.WriteString(strconv.Itoa(h.Frame.Line))
		b.WriteByte(';')
	}
	return b.String()
}

// Sampling is the outcome of Stable.
type Sampling struct {
	Hits    []Hit // the last sample
	Stable  bool  // the last N samples were identical
	Samples int   // how many dumps were taken
}

// AllParked reports whether every hit of the last sample is blocked.
func (s Sampling) AllParked() bool {
	for i := range s.Hits {
		if !s.Hits[i].G.Parked() {
			return false
		}
	}
	return true
}

// States returns the sorted distinct "state@func" strings of the hits.
func (s Sampling) States() []string {
	m := map[string]bool{}
	for _, h := range s.Hits {
		m[h.G.State+"@"+ShortFunc(h.Frame.Func)] = true
	}
	out := make([]string, 0, len(m))
	for k := range m {
		out = append(out, k)
	}
	sort.Strings(out)
	return out
}

// ShortFunc strips the library prefix from a function name.
func ShortFunc(fn string) string { return strings.TrimPrefix(fn, LibPrefix) }

// Stable samples the process until n consecutive samples have the same
// signature AND every selected goroutine is parked (a sample that contains a
// running or runnable match is never counted as settled), or until an empty
// sample is seen (nothing matches: settled at once, because goroutines that
// match a library query are only ever started by calls the caller has already
// seen return), or until max samples were taken. Between samples the caller's
// goroutine yields and, after the first few, sleeps for a short, growing
// interval - only to let other goroutines run; the number of samples or the
// time they took never decides anything.
func (q Query) Stable(n, max int) Sampling {
	if n < 1 {
		n = 1
	}
	var last string
	run := 0
	var s Sampling
	for s.Samples < max {
		hits := q.Find(Dump())
		s.Samples++
		s.Hits = hits
		if len(hits) == 0 {
			s.Stable = true
			return s
		}
		sig := Signature(hits)
		parked := true
		for i := range hits {
			if !hits[i].G.Parked() {
				parked = false
				break
			}
		}
		if parked && sig == last {
			run++
		} else if parked {
			run = 1
		} else {
			run = 0
		}
		last = sig
		if run >= n {
			s.Stable = true
			return s
		}
		pause(s.Samples)
	}
	return s
}

// WaitGone samples until no goroutine matches (returns true) or until the
// matching goroutines are parked and unchanged for n consecutive samples
// (returns false with the stable sample) or max samples were taken (returns
// false, Stable=false).
func (q Query) WaitGone(n, max int) (bool, Sampling) {
	s := q.Stable(n, max)
	return len(s.Hits) == 0, s
}

// Pause yields and, from the second call on (k counts calls), sleeps for a
// short, growing interval. It is exported for callers that run their own
// sampling loops; it only lets goroutines settle.
func Pause(k int) { pause(k) }

func pause(k int) {
	runtime.Gosched()
	switch {
	case k <= 1:
	case k <= 6:
		time.Sleep(100 * time.Microsecond)
	case k <= 20:
		time.Sleep(500 * time.Microsecond)
	case k <= 60:
		time.Sleep(2 * time.Millisecond)
	default:
		time.Sleep(10 * time.Millisecond)
	}
}

// TerminalState reports whether a goroutine state is a wait that only another
// goroutine can end (channel, select, sync) - as opposed to running, runnable,
// sleeping, waiting for I/O or in a system call.
func TerminalState(st string) bool {
	switch st {
	case "chan send", "chan receive", "select", "semacquire", "sync.Mutex.Lock", "sync.RWMutex.RLock", "sync.RWMutex.Lock", "sync.Cond.Wait", "sync.WaitGroup.Wait",
		"chan send (nil chan)", "chan receive (nil chan)", "select (no cases)":
		return true
	}
	return false
}

// Quiescent is the whole-process deadlock predicate used by the schedule
// controllers of C15 and C16: it reports ok when every goroutine that has a
// library frame or a frame of the harness package (function prefix
// harnessPrefix), other than the excluded ids (the controller itself,
// goroutines already attributed to earlier cases), is parked in a terminal
// wait, and the set is unchanged over n spaced samples. When the controller -
// the only goroutine that could still open a gate - is itself waiting, such a
// state can never change. lib holds the library goroutines (Frame = innermost
// library frame), mine the harness-only ones.
func Quiescent(exclude map[int64]bool, harnessPrefix string, n, max int) (lib, mine []Hit, samples int, ok bool) {
	all := Query{Any: true, Exclude: exclude}
	s := all.Stable(n, max)
	if !s.Stable {
		return nil, nil, s.Samples, false
	}
	for _, h := range s.Hits {
		isLib, isMine := false, false
		var libFrame Frame
		for _, f := range h.G.Frames {
			if !isLib && strings.HasPrefix(f.Func, LibPrefix) {
				isLib, libFrame = true, f
			}
			if harnessPrefix != "" && strings.HasPrefix(f.Func, harnessPrefix) {
				isMine = true
			}
		}
		if !isLib && !isMine {
			continue
		}
		if !TerminalState(h.G.State) {
			return nil, nil, s.Samples, false
		}
		if isLib {
			h.Frame = libFrame
			lib = append(lib, h)
		} else {
			mine = append(mine, h)
		}
	}
	return lib, mine, s.Samples, true
}

// HasFrame reports whether the goroutine has a frame whose function contains sub.
func (g *G) HasFrame(sub string) bool {
	for _, f := range g.Frames {
		if strings.Contains(f.Func, sub) {
			return true
		}
	}
	return false
}

// Describe renders hits for violation details.
func Describe(hits []Hit) []string {
	var out []string
	for _, h := range hits {
		file := h.Frame.File
		if i := strings.LastIndexByte(file, '/'); i >= 0 {
			file = file[i+1:]
		}
		out = append(out, "g"+strconv.FormatInt(h.G.ID, 10)+" ["+h.G.State+"] "+ShortFunc(h.Frame.Func)+" ("+file+":"+strconv.Itoa(h.Frame.Line)+")")
	}
	return out
}
