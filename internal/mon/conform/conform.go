// Package conform is the intrinsic response-conformance monitor of C04: it
// walks a response's data against schema model + document + variables and
// needs no model of resolver values. It reads neutral trees and the schema
// model only.
package conform

import (
	"fmt"
	"math"
	"reflect"
	"sort"
	"strconv"

	"verif/internal/model"
	"verif/internal/nast"
	"verif/internal/ref/coerce"
	"verif/internal/values"
)

// Problem is one conformance violation.
type Problem struct {
	Class string
	Msg   string
}

func (p Problem) String() string { return p.Class + ": " + p.Msg }

type walker struct {
	s     *model.Schema
	frags map[string]*nast.Fragment
	vars  map[string]interface{}
	out   []Problem
	// runtime returns the runtime type the harness's value universe assigns
	// at a path, or "" when unknown (then any possible type is tried).
	runtime func(abstract, path string) string
}

func (w *walker) add(class, format string, a ...interface{}) {
	if len(w.out) < 8 {
		w.out = append(w.out, Problem{class, fmt.Sprintf(format, a...)})
	}
}

// Check validates data (Result.Data) for the selected operation.
func Check(s *model.Schema, doc *nast.Document, op *nast.Operation, vars map[string]interface{}, data interface{}, runtime func(abstract, path string) string) []Problem {
	w := &walker{s: s, frags: map[string]*nast.Fragment{}, vars: vars, runtime: runtime}
	for _, d := range doc.Defs {
		if f, ok := d.(*nast.Fragment); ok {
			w.frags[f.Name.Value] = f
		}
	}
	if data == nil {
		return nil
	}
	m, ok := data.(map[string]interface{})
	if !ok {
		return []Problem{{"shape", fmt.Sprintf("data is %T, not an object", data)}}
	}
	if m == nil {
		return nil
	}
	root := s.Root(op.Op)
	w.object(root, []*nast.SelectionSet{op.Sel}, m, "")
	return w.out
}

func (w *walker) include(ds []*nast.Directive) bool {
	for _, d := range ds {
		if d.Name.Value != "skip" && d.Name.Value != "include" {
			continue
		}
		var val interface{}
		for _, a := range d.Args {
			if a.Name.Value == "if" {
				val = coerce.Literal(w.s, model.NonNull(model.Named("Boolean")), a.Value, w.vars)
			}
		}
		b, _ := val.(bool)
		if (d.Name.Value == "skip" && b) || (d.Name.Value == "include" && !b) {
			return false
		}
	}
	return true
}

type sel struct {
	key    string
	fields []*nast.Field
}

func (w *walker) collect(objType string, ss *nast.SelectionSet, visited map[string]bool, acc *[]*sel) {
	if ss == nil {
		return
	}
	applies := func(c *nast.Named) bool {
		return c == nil || c.Name.Value == objType || w.s.IsPossible(c.Name.Value, objType)
	}
	for _, it := range ss.Items {
		switch v := it.(type) {
		case *nast.Field:
			if !w.include(v.Directives) {
				continue
			}
			key := v.Name.Value
			if v.Alias != nil {
				key = v.Alias.Value
			}
			var g *sel
			for _, x := range *acc {
				if x.key == key {
					g = x
				}
			}
			if g == nil {
				g = &sel{key: key}
				*acc = append(*acc, g)
			}
			g.fields = append(g.fields, v)
		case *nast.FragmentSpread:
			if !w.include(v.Directives) || visited[v.Name.Value] {
				continue
			}
			visited[v.Name.Value] = true
			if f := w.frags[v.Name.Value]; f != nil && applies(f.TypeCond) {
				w.collect(objType, f.Sel, visited, acc)
			}
		case *nast.InlineFragment:
			if w.include(v.Directives) && applies(v.TypeCond) {
				w.collect(objType, v.Sel, visited, acc)
			}
		}
	}
}

func (w *walker) object(objType string, sets []*nast.SelectionSet, m map[string]interface{}, path string) {
	var acc []*sel
	visited := map[string]bool{}
	for _, ss := range sets {
		w.collect(objType, ss, visited, &acc)
	}
	allowed := map[string]*sel{}
	for _, g := range acc {
		allowed[g.key] = g
	}
	keys := make([]string, 0, len(m))
	for k := range m {
		keys = append(keys, k)
	}
	sort.Strings(keys)
	td := w.s.Type(objType)
	for _, k := range keys {
		p := k
		if path != "" {
			p = path + "/" + k
		}
		g, ok := allowed[k]
		if !ok {
			w.add("unselected-key", "response key %q is not selected for runtime type %s", p, objType)
			continue
		}
		name := g.fields[0].Name.Value
		if name == "__typename" {
			if m[k] != objType {
				w.add("typename", "__typename at %q is %v, runtime type is %s", p, m[k], objType)
			}
			continue
		}
		fd := td.Field(name)
		if fd == nil {
			w.add("unknown-field", "response key %q for a field %s.%s that does not exist", p, objType, name)
			continue
		}
		w.value(fd.Type, g.fields, m[k], p)
	}
}

func (w *walker) value(t *model.TypeRef, fields []*nast.Field, v interface{}, path string) {
	if rv := reflect.ValueOf(v); rv.IsValid() && rv.Kind() == reflect.Func {
		w.add("func-in-data", "a function value is left in data at %q", path)
		return
	}
	if t.Kind == "nonnull" {
		if v == nil {
			w.add("null-in-nonnull", "non-null position %q (%s) is null", path, t)
			return
		}
		w.value(t.Of, fields, v, path)
		return
	}
	if v == nil {
		return
	}
	if t.Kind == "list" {
		l, ok := v.([]interface{})
		if !ok {
			w.add("list-shape", "list position %q holds %T", path, v)
			return
		}
		for i, it := range l {
			w.value(t.Of, fields, it, path+"/"+strconv.Itoa(i))
		}
		return
	}
	td := w.s.Type(t.Name)
	if td == nil {
		return
	}
	switch td.Kind {
	case model.Scalar:
		w.scalar(t.Name, v, path)
	case model.Enum:
		s, ok := v.(string)
		if !ok || td.EnumValue(s) == nil {
			w.add("leaf", "enum position %q (%s) holds %v (%T), not one of the value names", path, t.Name, v, v)
		}
	case model.Object, model.Interface, model.Union:
		m, ok := v.(map[string]interface{})
		if !ok {
			w.add("object-shape", "object position %q holds %T", path, v)
			return
		}
		var sets []*nast.SelectionSet
		for _, f := range fields {
			if f.Sel != nil {
				sets = append(sets, f.Sel)
			}
		}
		if td.Kind == model.Object {
			w.object(t.Name, sets, m, path)
			return
		}
		rt := ""
		if w.runtime != nil {
			rt = w.runtime(t.Name, path)
		}
		if rt != "" {
			w.object(rt, sets, m, path)
			return
		}
		// unknown runtime type: some possible type must conform
		var best []Problem
		for _, pt := range w.s.PossibleTypes(t.Name) {
			sub := &walker{s: w.s, frags: w.frags, vars: w.vars, runtime: w.runtime}
			sub.object(pt, sets, m, path)
			if len(sub.out) == 0 {
				return
			}
			if best == nil || len(sub.out) < len(best) {
				best = sub.out
			}
		}
		for _, p := range best {
			w.add(p.Class, "%s (under every possible type of %s)", p.Msg, t.Name)
		}
	}
}

func (w *walker) scalar(name string, v interface{}, path string) {
	bad := func() { w.add("leaf", "%s position %q holds %v (%T): not a legal serialisation", name, path, v, v) }
	switch name {
	case "Int":
		switch x := v.(type) {
		case int:
			if x < math.MinInt32 || x > math.MaxInt32 {
				bad()
			}
		case int32, int16, int8:
		case int64:
			if x < math.MinInt32 || x > math.MaxInt32 {
				bad()
			}
		default:
			bad()
		}
	case "Float":
		switch x := v.(type) {
		case float64:
			if math.IsNaN(x) || math.IsInf(x, 0) {
				bad()
			}
		case float32:
			if math.IsNaN(float64(x)) || math.IsInf(float64(x), 0) {
				bad()
			}
		default:
			bad()
		}
	case "String", "ID":
		if _, ok := v.(string); !ok {
			bad()
		}
	case "Boolean":
		if _, ok := v.(bool); !ok {
			bad()
		}
	case "Tag":
		s, ok := v.(string)
		if !ok || len(s) < len(values.TagSerializePrefix) || s[:len(values.TagSerializePrefix)] != values.TagSerializePrefix {
			bad()
		}
	}
}
