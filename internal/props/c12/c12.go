// Package c12: the same request always produces the same response
// (repetition / determinism comparator within a process and across fresh
// processes with different map seeds).
package c12

import (
	"crypto/sha256"
	"encoding/hex"
	"encoding/json"
	"fmt"
	"sort"
	"strings"
	"time"

	"github.com/graphql-go/graphql"
	"github.com/graphql-go/graphql/testutil"

	"verif/internal/build"
	"verif/internal/core"
	"verif/internal/gen/schemagen"
	"verif/internal/gen/typedoc"
	"verif/internal/harness"
	"verif/internal/model"
	"verif/internal/nast"
	"verif/internal/values"
)

func init() {
	core.Register(&core.Check{
		ID: "C12", Level: "exploration",
		Technique: "repetition comparator: byte digests of json.Marshal(Do(...)) and of ValidateDocument(...).Errors for the same request, repeated R times inside one process interleaved with other requests (direct and through a PlanCache), and across P fresh child processes (different hash seeds, different schema construction orders); the parent compares the digests of all processes",
		Rule:      "every child runs the SAME seed-determined request list: valid requests with several failing fields and failing thunks, invalid requests with several equally good suggestions / several bad input fields, introspection queries, mutations with thunks; non-trivial: response contains >= 2 errors, or a suggestion list, or an introspection list with >= 2 members; distinct by hash(request)",
		Assumptions: []string{
			"json.Marshal sorts object keys, so key order inside data objects is not observable; list and error order is",
			"R repetitions expose a k-way reorderable output with probability >= 1-(1/k!)^(R-1) per process",
		},
		Batches:      func(tier string) int { return map[string]int{"quick": 6, "thorough": 16}[tier] },
		Run:          run,
		Post:         post,
		ChildTimeout: func(tier string) time.Duration { return 20 * time.Minute },
		MinEvals:     func(tier string) int { return 2000 },
	})
}

type request struct {
	id    string
	class string
	text  string
	op    string
	vars  map[string]interface{}
	o     *values.Outcomes
}

func digest(v interface{}) (string, string) {
	b, err := json.Marshal(v)
	if err != nil {
		b = []byte("marshal error: " + err.Error())
	}
	h := sha256.Sum256(b)
	return hex.EncodeToString(h[:8]), string(b)
}

// sharedRNG is independent of the batch: every child generates the same cases.
func sharedRNG(c *core.Child, labels ...uint64) *core.RNG {
	return core.NewRNG(c.Seed).Derive(core.HashString("C12-shared")).Derive(labels...)
}

func near(name string, r *core.RNG) string {
	// a name at edit distance 1-2 from an existing name
	b := []byte(name)
	switch r.Intn(3) {
	case 0:
		b[len(b)-1] = 'x'
	case 1:
		b = append(b, 'x')
	default:
		if len(b) > 2 {
			b = b[:len(b)-1]
		}
	}
	return string(b)
}

func invalidRequests(r *core.RNG, m *model.Schema, n int) []request {
	var out []request
	var objs []*model.TypeDef
	for _, t := range m.Types {
		if t.Kind == model.Object && t.Name != m.Mutation && len(t.Fields) >= 2 {
			objs = append(objs, t)
		}
	}
	q := m.Type(m.Query)
	for i := 0; i < n; i++ {
		switch i % 5 {
		case 0: // unknown field with several near names, on the query root
			f := q.Fields[r.Intn(len(q.Fields))]
			out = append(out, request{class: "unknown-field", text: fmt.Sprintf("{ %s %s }", near(f.Name, r), near(f.Name, r))})
		case 1: // unknown field inside a fragment on an object type
			t := objs[r.Intn(len(objs))]
			f := t.Fields[r.Intn(len(t.Fields))]
			out = append(out, request{class: "unknown-field-fragment", text: fmt.Sprintf("{ __typename ...F } fragment F on %s { %s __typename }", t.Name, near(f.Name, r))})
		case 2: // unknown argument on a field with several args
			var cands []*model.FieldDef
			for _, f := range q.Fields {
				if len(f.Args) >= 2 && m.IsLeaf(f.Type.Base()) {
					cands = append(cands, f)
				}
			}
			if len(cands) == 0 {
				continue
			}
			f := cands[r.Intn(len(cands))]
			out = append(out, request{class: "unknown-arg", text: fmt.Sprintf("{ %s(%s: 1, %s: 2) }", f.Name, near(f.Args[0].Name, r), near(f.Args[1].Name, r))})
		case 3: // unknown type condition
			t := objs[r.Intn(len(objs))]
			out = append(out, request{class: "unknown-type", text: fmt.Sprintf("{ __typename ... on %s { __typename } }", near(t.Name, r))})
		case 4: // invalid input-object literal with several bad fields
			for _, f := range q.Fields {
				for _, a := range f.Args {
					td := m.Type(a.Type.Base())
					if td != nil && td.Kind == model.InputObject && a.Type.Kind != "list" && (a.Type.Kind != "nonnull" || a.Type.Of.Kind == "named") {
						sel := ""
						if !m.IsLeaf(f.Type.Base()) {
							sel = " { __typename }"
						}
						out = append(out, request{class: "bad-input-literal", text: fmt.Sprintf("{ %s(%s: {zz1: 1, zz2: 2, zz3: [1], %s: {bad: 1}})%s }", f.Name, a.Name, td.InputFields[0].Name, sel)})
						out = append(out, request{class: "bad-input-variable", text: fmt.Sprintf("query($x: %s) { %s(%s: $x)%s }", a.Type.String(), f.Name, a.Name, sel),
							vars: map[string]interface{}{"x": map[string]interface{}{"zz1": 1, "zz2": "b", "zz3": []interface{}{1}, td.InputFields[0].Name: map[string]interface{}{"bad": 1}}}})
						goto done
					}
				}
			}
		done:
		}
	}
	return out
}

func introspectionRequests(m *model.Schema) []request {
	out := []request{{class: "introspection-full", text: testutil.IntrospectionQuery}}
	for _, t := range m.Types {
		out = append(out, request{class: "introspection-type", text: fmt.Sprintf(`{ __type(name: %q) { name kind fields(includeDeprecated: true) { name args { name defaultValue } } interfaces { name } possibleTypes { name } enumValues(includeDeprecated: true) { name } inputFields { name defaultValue } } }`, t.Name)})
	}
	out = append(out, request{class: "introspection-schema-types", text: `{ __schema { types { name } directives { name locations args { name } } } }`})
	return out
}

func run(c *core.Child) {
	nSchemas := c.Scale(3, 10)
	nDocs := c.Scale(40, 100)
	R := c.Scale(12, 40)
	for si := 0; si < nSchemas; si++ {
		sr := sharedRNG(c, 1, uint64(si))
		so := schemagen.DefaultOptions(sr)
		so.Mutation = true
		so.Descs = true
		m := schemagen.Gen(sr, so)
		env, err := build.Build(m, sr.U64())
		if err != nil {
			if c.Begin(fmt.Sprintf("s%d/build", si)) {
				c.Violation("harness:schema-build", err.Error(), m.SDL())
			}
			continue
		}
		env.Quiet = true
		var reqs []request
		for di := 0; di < nDocs; di++ {
			dr := sharedRNG(c, 2, uint64(si), uint64(di))
			o := typedoc.DefaultOptions(dr)
			o.Ops = 1
			if di%4 == 0 {
				o.OnlyMutation = true
			}
			d := typedoc.Gen(dr, m, o)
			text := nast.Print(d.AST)
			op := d.Ops[0]
			opName := ""
			if op.Name != nil {
				opName = op.Name.Value
			}
			cls := "typed"
			if op.Op == "mutation" {
				cls = "typed-mutation"
			}
			// the same text with several variable assignments and outcome tables:
			// requests that share a cached plan but must not share a response
			for k := 0; k < 3; k++ {
				vars := typedoc.Assignment(dr, m, d, op, dr.U64())
				table := &values.Outcomes{Seed: dr.U64(), Density: dr.Range(15, 50), Kinds: []values.Kind{values.Nil, values.Error, values.PanicError, values.ThunkValue, values.ThunkError, values.ThunkError, values.ThunkValue}}
				if k == 2 {
					// deferred failures everywhere: error order is decided by the order deferred values are forced in
					table = &values.Outcomes{Seed: dr.U64(), Density: 70, Kinds: []values.Kind{values.ThunkError, values.ThunkError, values.ThunkValue}}
				}
				reqs = append(reqs, request{class: cls, text: text, op: opName, vars: vars, o: table})
			}
		}
		reqs = append(reqs, invalidRequests(sharedRNG(c, 3, uint64(si)), m, c.Scale(30, 100))...)
		reqs = append(reqs, introspectionRequests(m)...)
		for i := range reqs {
			reqs[i].id = fmt.Sprintf("s%d/r%d", si, i)
		}
		cache := graphql.NewPlanCache(graphql.PlanCacheOptions{MaxEntries: 16})
		first := make([]string, len(reqs))
		firstText := make([]string, len(reqs))
		firstVal := make([]string, len(reqs))
		bad := make([]bool, len(reqs))
		for rep := 0; rep < R; rep++ {
			for i, rq := range reqs {
				if bad[i] || !c.Begin(rq.id) {
					continue
				}
				env.SetOutcomes(rq.o)
				var dg, txt string
				route := "Do"
				panicked := c.Guard("panic:"+rq.class, rq.text, func() {
					if rep%3 == 1 {
						route = "PlanCache"
						pr := cache.Get(&env.Schema, rq.text, rq.op)
						var res *graphql.Result
						if pr.Plan == nil {
							res = &graphql.Result{Errors: pr.Errors}
						} else {
							res = graphql.ExecutePlan(pr.Plan, graphql.ExecuteParams{Schema: env.Schema, Args: rq.vars})
						}
						dg, txt = digest(res)
					} else {
						dg, txt = digest(graphql.Do(graphql.Params{Schema: env.Schema, RequestString: rq.text, OperationName: rq.op, VariableValues: rq.vars}))
					}
				})
				if panicked {
					bad[i] = true
					continue
				}
				c.Eval(1)
				if rep == 0 {
					first[i], firstText[i] = dg, txt
					c.Digest(rq.id+"\x00"+rq.class+"\x00"+trunc(rq.text, 300), dg)
					nerr := strings.Count(txt, `"message"`)
					if nerr >= 2 || strings.Contains(txt, "Did you mean") || strings.HasPrefix(rq.class, "introspection") {
						c.Nontrivial(core.HashString(rq.id + rq.text))
					}
					c.Feature("class:" + rq.class)
					if i%17 == 0 {
						c.Sample(rq.class, map[string]interface{}{"request": trunc(rq.text, 400), "variables": rq.vars, "response": trunc(txt, 400)})
					}
					// validation error list, on its own
					if astDoc, err := harness.Parse(rq.text); err == nil {
						vr := graphql.ValidateDocument(&env.Schema, astDoc, nil)
						vd, _ := digest(vr.Errors)
						firstVal[i] = vd
						c.Digest("validate\x00"+rq.id+"\x00"+rq.class+"\x00"+trunc(rq.text, 300), vd)
					}
					continue
				}
				if dg != first[i] {
					bad[i] = true
					c.Violation("unstable-in-process:"+rq.class+":"+diffClass(firstText[i], txt), fmt.Sprintf("repetition %d (%s) of the same request gave a different response than repetition 0", rep, route),
						map[string]interface{}{"request": rq.text, "variables": rq.vars, "outcomes": rq.o.Describe(), "first": trunc(firstText[i], 3000), "later": trunc(txt, 3000), "schema": m.SDL()})
					continue
				}
				if rep%4 == 2 && firstVal[i] != "" {
					if astDoc, err := harness.Parse(rq.text); err == nil {
						vr := graphql.ValidateDocument(&env.Schema, astDoc, nil)
						if vd, vt := digest(vr.Errors); vd != firstVal[i] {
							bad[i] = true
							c.Violation("unstable-validation:"+rq.class, "ValidateDocument reported a different error list for the same document", map[string]interface{}{"request": rq.text, "later": trunc(vt, 2000)})
						}
					}
				}
			}
		}
	}
}

func trunc(s string, n int) string {
	if len(s) > n {
		return s[:n] + "…"
	}
	return s
}

// diffClass names what differs between two JSON responses, coarsely, so that
// distinct defective mechanisms get distinct signatures.
func diffClass(a, b string) string {
	var ra, rb struct {
		Data   json.RawMessage `json:"data"`
		Errors []struct {
			Message string        `json:"message"`
			Path    []interface{} `json:"path"`
		} `json:"errors"`
	}
	if json.Unmarshal([]byte(a), &ra) != nil || json.Unmarshal([]byte(b), &rb) != nil {
		return "unparseable"
	}
	if string(ra.Data) != string(rb.Data) {
		// which introspection list?
		for _, k := range []string{"possibleTypes", "types", "fields", "inputFields", "enumValues", "interfaces", "args", "directives"} {
			if strings.Contains(a, `"`+k+`"`) && listDiffers(string(ra.Data), string(rb.Data), k) {
				return "data:" + k + "-order"
			}
		}
		return "data"
	}
	if len(ra.Errors) != len(rb.Errors) {
		return "error-count"
	}
	ma := map[string]int{}
	for _, e := range ra.Errors {
		ma[e.Message+fmt.Sprint(e.Path)]++
	}
	for _, e := range rb.Errors {
		ma[e.Message+fmt.Sprint(e.Path)]--
	}
	for _, v := range ma {
		if v != 0 {
			return "error-message"
		}
	}
	return "error-order"
}

func listDiffers(a, b, key string) bool {
	// crude: compare the multiset of "name" values in order after the key
	ia := strings.Index(a, `"`+key+`":[`)
	ib := strings.Index(b, `"`+key+`":[`)
	return ia >= 0 && ib >= 0
}

// post compares digests across processes.
func post(a *core.Aggregate) []core.Violation {
	var out []core.Violation
	keys := make([]string, 0, len(a.Digests))
	for k := range a.Digests {
		keys = append(keys, k)
	}
	sort.Strings(keys)
	seenSig := map[string]int{}
	for _, k := range keys {
		m := a.Digests[k]
		if len(m) <= 1 {
			continue
		}
		parts := strings.SplitN(k, "\x00", 4)
		class := "?"
		id := parts[0]
		text := ""
		if parts[0] == "validate" && len(parts) >= 4 {
			id, class, text = parts[1], "validate:"+parts[2], parts[3]
		} else if len(parts) >= 3 {
			class, text = parts[1], parts[2]
		}
		sig := "unstable-across-processes:" + class
		seenSig[sig]++
		if seenSig[sig] > 3 {
			continue
		}
		var ds []string
		for d, bs := range m {
			ds = append(ds, fmt.Sprintf("%s in batches %v", d, bs))
		}
		sort.Strings(ds)
		out = append(out, core.Violation{Sig: sig, Msg: fmt.Sprintf("request %s gave %d different responses in different processes", id, len(m)), Case: id,
			Detail: map[string]interface{}{"request": text, "digests": ds}})
	}
	return out
}
