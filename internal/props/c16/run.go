package c16

import (
	"context"
	"encoding/json"
	"errors"
	"fmt"
	"runtime/debug"
	"sort"
	"strings"
	"sync"
	"time"

	"github.com/graphql-go/graphql"
	"github.com/graphql-go/graphql/language/ast"
	"github.com/graphql-go/graphql/language/parser"
	"github.com/graphql-go/graphql/language/source"

	"verif/internal/core"
	"verif/internal/mon/gorou"
)

// watchdog bounds every wait of the controller; firing without an observable
// terminal state is INCONCLUSIVE.
const watchdog = 20 * time.Second

const harnessPrefix = "verif/internal/props/c16."

type gate struct {
	ch   chan struct{}
	once sync.Once
}

func newGate() *gate               { return &gate{ch: make(chan struct{})} }
func (g *gate) open()              { g.once.Do(func() { close(g.ch) }) }
func (g *gate) C() <-chan struct{} { return g.ch }

type ev struct {
	Kind string `json:"k"`
	Site string `json:"s,omitempty"`
}

// run is the execution of one schedule (or of one baseline request).
type run struct {
	c *core.Child
	s *sched
	d *doc

	script  map[string]string // baseline runs: site -> error message it must return
	held    map[string]*gate  // read-only once the call has started
	entered map[string]*gate  // read-only map; one gate per site of the document

	mu        sync.Mutex
	log       []ev
	outcomes  map[string]string
	cancelled bool
	extN      int
	extRes    []*graphql.Result

	ctx      context.Context
	cancelFn context.CancelFunc

	res        *graphql.Result
	panicVal   interface{}
	panicStack string
	returned   *gate

	bad  bool
	self int64
}

var (
	leaked    = map[int64]bool{}
	nInconcl  int
	astCache  = map[string]*ast.Document{}
	planCache = map[string]*graphql.Plan{}
	baseCache = map[string]string{}
)

func (r *run) logEv(kind, site string) {
	r.mu.Lock()
	r.log = append(r.log, ev{kind, site})
	r.mu.Unlock()
}

func (r *run) setOutcome(site, o string) {
	r.mu.Lock()
	r.outcomes[site] = o
	r.mu.Unlock()
}

func (r *run) extFinish(res *graphql.Result) {
	r.mu.Lock()
	r.extN++
	r.extRes = append(r.extRes, res)
	r.log = append(r.log, ev{"ext-exec-finish", ""})
	r.mu.Unlock()
}

// enter is called by every instrumented site.
func (r *run) enter(site string, ctx context.Context) error {
	r.logEv("entered", site)
	if g := r.entered[site]; g != nil {
		g.open()
	}
	if msg, ok := r.script[site]; ok {
		r.setOutcome(site, "err:"+msg)
		return errors.New(msg)
	}
	if r.s != nil && r.s.Class == "own-ctx-error" && site == r.d.Sites[r.s.K] {
		// the request is NOT cancelled: this resolver's own downstream call ran
		// into its own deadline / was cancelled, and it reports that error
		var err error
		if r.s.K%2 == 0 {
			err = fmt.Errorf("downstream call: %w", context.DeadlineExceeded)
		} else {
			err = fmt.Errorf("downstream call: %w", context.Canceled)
		}
		r.setOutcome(site, "err:"+err.Error())
		return err
	}
	observe := r.s != nil && r.s.Observe && ctx != nil
	if g := r.held[site]; g != nil {
		if observe {
			select {
			case <-g.C():
			case <-ctx.Done():
			}
		} else {
			<-g.C()
		}
		r.logEv("passed", site)
	}
	if observe {
		if err := ctx.Err(); err != nil {
			r.setOutcome(site, "err:"+err.Error())
			return err
		}
	}
	r.setOutcome(site, "ok")
	return nil
}

func parseDoc(text string) *ast.Document {
	if d, ok := astCache[text]; ok {
		return d
	}
	d, err := parser.Parse(parser.ParseParams{Source: source.NewSource(&source.Source{Body: []byte(text), Name: "GraphQL request"})})
	if err != nil {
		panic("c16 harness: document does not parse: " + err.Error())
	}
	astCache[text] = d
	return d
}

func schemaFor(ext bool) *graphql.Schema {
	if ext {
		return &schemaExt
	}
	return &schemaPlain
}

// invoke performs the library call of the schedule.
func (r *run) invoke(entry string, ext bool, ctx context.Context) *graphql.Result {
	schema := schemaFor(ext)
	root := map[string]interface{}{rootKey: r}
	switch entry {
	case "Do":
		return graphql.Do(graphql.Params{Schema: *schema, RequestString: r.d.Text, RootObject: root, VariableValues: r.d.Vars, Context: ctx})
	case "Execute":
		return graphql.Execute(graphql.ExecuteParams{Schema: *schema, Root: root, AST: parseDoc(r.d.Text), Args: r.d.Vars, Context: ctx})
	default:
		key := fmt.Sprintf("%s|%v", r.d.Name, ext)
		plan := planCache[key]
		if plan == nil {
			var err error
			plan, err = graphql.PlanQuery(schema, parseDoc(r.d.Text), "")
			if err != nil {
				panic("c16 harness: PlanQuery: " + err.Error())
			}
			planCache[key] = plan
		}
		return graphql.ExecutePlan(plan, graphql.ExecuteParams{Schema: *schema, Root: root, Args: r.d.Vars, Context: ctx})
	}
}

func (r *run) caller() {
	defer r.returned.open()
	defer func() {
		if p := recover(); p != nil {
			r.panicVal = p
			r.panicStack = string(debug.Stack())
		}
	}()
	res := r.invoke(r.s.Entry, r.s.Ext, r.ctx)
	r.logEv("returned", "")
	r.res = res
}

func (r *run) detail(extra map[string]interface{}) map[string]interface{} {
	r.mu.Lock()
	lg := make([]ev, len(r.log))
	copy(lg, r.log)
	oc := map[string]string{}
	for k, v := range r.outcomes {
		oc[k] = v
	}
	r.mu.Unlock()
	d := map[string]interface{}{"schedule": r.s.String(), "document": r.d.Text, "sites": r.d.Sites, "log": lg, "site_outcomes": oc}
	for k, v := range extra {
		d[k] = v
	}
	return d
}

func (r *run) violation(sig, msg string, extra map[string]interface{}) {
	r.bad = true
	r.c.Violation(sig, msg+" ["+r.s.String()+"]", r.detail(extra))
}

func (r *run) inconclusive(msg string) {
	r.bad = true
	nInconcl++
	r.c.Inconclusive(msg + " [" + r.s.String() + "]")
}

func (r *run) cancel() {
	r.mu.Lock()
	r.cancelled = true
	r.log = append(r.log, ev{"cancel", ""}) // logged BEFORE the context is cancelled
	r.mu.Unlock()
	r.cancelFn()
}

func (r *run) openGates() {
	r.logEv("gates-opened", "")
	keys := make([]string, 0, len(r.held))
	for k := range r.held {
		keys = append(keys, k)
	}
	sort.Strings(keys)
	for _, k := range keys {
		r.held[k].open()
	}
}

// deadlocked: every library / harness goroutine other than the controller is
// parked in a channel, select or sync wait over three spaced samples, and the
// context is done. Nothing can then make the call return before the harness
// opens a gate - which it only does after the call returned.
func (r *run) deadlocked(what string) (sig, msg string, extra map[string]interface{}, ok bool) {
	if what == "call-returned" && r.ctx.Err() == nil {
		return "", "", nil, false // the deadline timer is still pending: not a terminal state
	}
	ex := map[int64]bool{r.self: true}
	for id := range leaked {
		ex[id] = true
	}
	lib, mine, samples, ok := gorou.Quiescent(ex, harnessPrefix, 3, 12)
	if !ok {
		return "", "", nil, false
	}
	extra = map[string]interface{}{"waiting_for": what, "library_goroutines": gorou.Describe(lib), "harness_goroutines": gorou.Describe(mine), "samples": samples}
	if what == "call-returned" {
		for _, h := range lib {
			if h.G.HasFrame(harnessPrefix + "(*run).caller") {
				return "not-prompt:" + h.G.State + "@" + gorou.ShortFunc(h.Frame.Func),
					"the context is done and the call has not returned: the caller is parked inside the library while the resolver it waits for is held at a gate that opens only after the call returns (stable over 3 samples)", extra, true
			}
		}
	}
	if len(lib) == 0 {
		return "stuck:no-library-goroutine:" + what, "every goroutine is parked and the harness still waits for " + what, extra, true
	}
	h := lib[0]
	return "stuck:" + h.G.State + "@" + gorou.ShortFunc(h.Frame.Func) + ":" + strings.SplitN(what, "(", 2)[0], "every goroutine is parked and the harness still waits for " + what, extra, true
}

func (r *run) await(sig <-chan struct{}, what string) bool {
	select {
	case <-sig:
		return true
	default:
	}
	wd := time.NewTimer(watchdog)
	defer wd.Stop()
	tick := 500 * time.Microsecond
	for {
		t := time.NewTimer(tick)
		select {
		case <-sig:
			t.Stop()
			return true
		case <-wd.C:
			t.Stop()
			if !r.bad {
				r.inconclusive("watchdog fired while waiting for " + what + "; no terminal state observable")
			}
			return false
		case <-t.C:
		}
		if tick < 200*time.Millisecond {
			tick *= 2
		}
		if tick < 16*time.Millisecond {
			continue
		}
		if vs, msg, extra, ok := r.deadlocked(what); ok {
			select {
			case <-sig:
				return true
			default:
			}
			if !r.bad {
				r.violation(vs, msg, extra)
			}
			return false
		}
	}
}

// baseline returns the canonical response of the same request executed
// without cancellation, all gates open, with the given sites returning the
// given errors (the outcomes observed in the monitored run).
func baseline(c *core.Child, d *doc, ext bool, script map[string]string) string {
	keys := make([]string, 0, len(script))
	for k := range script {
		keys = append(keys, k+"="+script[k])
	}
	sort.Strings(keys)
	key := fmt.Sprintf("%s|%v|%s", d.Name, ext, strings.Join(keys, ";"))
	if b, ok := baseCache[key]; ok {
		return b
	}
	br := &run{c: c, d: d, script: script, outcomes: map[string]string{}, returned: newGate()}
	prev := cur.Load()
	cur.Store(br)
	res := br.invoke("Do", ext, context.Background())
	cur.Store(prev)
	c.Feature("baseline-executions") // not counted as evaluations: how many are needed depends on the interleavings seen
	b := canonResult(res)
	baseCache[key] = b
	return b
}

type shape struct {
	Data   interface{} `json:"data"`
	Errors []struct {
		Message   string        `json:"message"`
		Path      []interface{} `json:"path"`
		Locations []interface{} `json:"locations"`
	} `json:"errors"`
	Extensions map[string]interface{} `json:"extensions"`
}

func (r *run) ctxMessage() string {
	if r.s.Ctx == "cancel" {
		return context.Canceled.Error()
	}
	return context.DeadlineExceeded.Error()
}

func runOne(c *core.Child, s *sched) {
	d := docByName(s.Doc)
	r := &run{c: c, s: s, d: d, held: map[string]*gate{}, entered: map[string]*gate{}, outcomes: map[string]string{}, returned: newGate(), self: gorou.CurID()}
	for _, site := range d.Sites {
		r.entered[site] = newGate()
	}
	switch s.Class {
	case "pre-held":
		r.held[d.Sites[0]] = newGate()
	case "held", "timeout", "race":
		r.held[d.Sites[s.K]] = newGate()
	}
	switch s.Ctx {
	case "deadline-past":
		r.ctx, r.cancelFn = context.WithDeadline(context.Background(), time.Now().Add(-time.Hour))
	case "timeout":
		r.ctx, r.cancelFn = context.WithTimeout(context.Background(), 3*time.Millisecond)
	default:
		r.ctx, r.cancelFn = context.WithCancel(context.Background())
	}
	defer r.cancelFn()
	if strings.HasPrefix(s.Class, "pre-") && s.Ctx == "cancel" {
		r.cancel()
	}
	cur.Store(r)
	c.Eval(1)
	go r.caller()

	heldSite := ""
	switch s.Class {
	case "timeout":
		heldSite = d.Sites[s.K]
	case "held":
		heldSite = d.Sites[s.K]
		if r.await(r.entered[heldSite].C(), "entered("+heldSite+")") {
			r.cancel()
		}
	case "race":
		heldSite = d.Sites[s.K]
		if r.await(r.entered[heldSite].C(), "entered("+heldSite+")") {
			start := make(chan struct{})
			var wg sync.WaitGroup
			wg.Add(2)
			go func() { defer wg.Done(); <-start; r.cancel() }()
			go func() { defer wg.Done(); <-start; r.held[heldSite].open() }()
			close(start)
			wg.Wait()
		}
	}
	// Promptness is logical: no gate has been opened yet (except in the racing
	// class); the call must return now.
	prompt := r.await(r.returned.C(), "call-returned")
	var m1 string
	if prompt {
		m1 = canonResult(r.res)
	}
	r.openGates()
	if !prompt && !r.await(r.returned.C(), "call-returned-after-gates-opened") {
		// the call never returned: its goroutine stays behind; nothing more to read
		for _, h := range (gorou.Query{Any: true}).Find(gorou.Dump()) {
			if h.G.HasFrame(harnessPrefix + "(*run).caller") {
				leaked[h.G.ID] = true
			}
		}
		return
	}
	// deliberately concurrent with the background execution that now resumes:
	// a write of the library to the returned Result shows up as a race report
	// (the check runs from the -race binary) or as a changed encoding
	m1b := canonResult(r.res)
	gone, samp := gorou.Query{Exclude: leaked}.WaitGone(3, 600)
	m2 := canonResult(r.res)

	c.Feature("class:" + s.Class)
	c.Feature("entry:" + s.Entry)
	c.Feature("doc:" + s.Doc)
	c.Feature("ctx:" + s.Ctx)
	if s.Observe {
		c.Feature("resolvers:observe-ctx")
	} else {
		c.Feature("resolvers:ignore-ctx")
	}
	if s.Ext {
		c.Feature("extension:registered")
	}
	if heldSite != "" || s.Class == "pre-held" {
		hs := heldSite
		if hs == "" {
			hs = d.Sites[0]
		}
		switch {
		case hs == "$v":
			c.Feature("held-at:variable-coercion")
		case strings.HasSuffix(hs, "!"):
			c.Feature("held-at:thunk")
		case strings.Contains(hs, "."):
			c.Feature("held-at:nested-resolver")
		default:
			c.Feature("held-at:top-level-resolver")
		}
	}

	if r.panicVal != nil {
		r.violation("panic:"+core.PanicSite(r.panicStack), fmt.Sprintf("the call panicked: %v", r.panicVal), map[string]interface{}{"stack": r.panicStack})
	}
	if !gone {
		for _, h := range samp.Hits {
			leaked[h.G.ID] = true
		}
		if !r.bad {
			extra := map[string]interface{}{"library_goroutines": gorou.Describe(samp.Hits), "samples": samp.Samples}
			if samp.Stable {
				h := samp.Hits[0]
				r.violation("leak:exec-goroutine:"+h.G.State+"@"+gorou.ShortFunc(h.Frame.Func), "all gates are open and the call has returned, but a goroutine of the library stays parked (stable over 3 samples)", extra)
			} else {
				r.inconclusive("library goroutines still running after the gates were opened: " + strings.Join(samp.States(), ","))
			}
		}
	}
	if r.bad || !prompt {
		return
	}
	r.verdict(m1, m1b, m2)
	if !r.bad {
		c.Nontrivial(core.HashString(s.String()))
		c.Sample(s.Class, map[string]interface{}{"schedule": s.String(), "document": d.Text, "result": m1, "log": r.detail(nil)["log"]})
	}
}

func (r *run) verdict(m1, m1b, m2 string) {
	s, c := r.s, r.c
	if m1 != m1b || m1 != m2 {
		r.violation("result-mutated-after-return", "the Result handed to the caller changed after the call returned (background execution wrote to it)", map[string]interface{}{"at_return": m1, "while_background_ran": m1b, "after_background_finished": m2})
		return
	}
	r.mu.Lock()
	lg := make([]ev, len(r.log))
	copy(lg, r.log)
	script := map[string]string{}
	for site, o := range r.outcomes {
		if strings.HasPrefix(o, "err:") {
			script[site] = strings.TrimPrefix(o, "err:")
		}
	}
	extN, extRes := r.extN, r.extRes
	r.mu.Unlock()
	retIdx, cancelIdx, after := -1, -1, 0
	for i, e := range lg {
		switch e.Kind {
		case "returned":
			retIdx = i
		case "cancel":
			if cancelIdx < 0 {
				cancelIdx = i
			}
		case "entered":
			if retIdx >= 0 {
				after++
			}
		}
	}
	if after > 0 {
		c.FeatureN("background:resolver-entered-after-return", int64(after))
	}
	ctxDoneBeforeReturn := s.Ctx != "cancel" || (cancelIdx >= 0 && cancelIdx < retIdx)

	var sh shape
	json.Unmarshal([]byte(m1), &sh)
	ctxMsg := r.ctxMessage()
	isCancelShape := sh.Data == nil && len(sh.Errors) == 1 && sh.Errors[0].Message == ctxMsg && len(sh.Errors[0].Path) == 0
	if isCancelShape {
		if !ctxDoneBeforeReturn {
			r.violation("spurious-context-error", "the call returned the context error although the context was not done before it returned", map[string]interface{}{"result": m1})
			return
		}
		c.Feature("outcome:context-error")
		if s.Class == "race" {
			c.Feature("race:cancellation-won")
		}
		if s.Class == "pre-open" {
			c.Feature("pre-cancelled:context-error")
		}
	} else {
		exp := baseline(c, r.d, s.Ext, script)
		if m1 != exp {
			allCtx := len(sh.Errors) > 0
			for _, e := range sh.Errors {
				if e.Message != ctxMsg || len(e.Path) != 0 {
					allCtx = false
				}
			}
			sig := "result:neither-full-response-nor-context-error"
			switch {
			case sh.Data == nil && allCtx:
				sig = fmt.Sprintf("cancelled-shape:errors=%d", len(sh.Errors))
			case sh.Data != nil && allCtx:
				sig = "cancelled-shape:has-data"
			case sh.Data != nil:
				sig = "result:partial-or-wrong-response"
			}
			r.violation(sig, "the result is neither the complete normal response (for the outcomes the resolvers actually produced) nor exactly {data: null, errors: [context error]}",
				map[string]interface{}{"result": m1, "normal_response": exp, "context_error": ctxMsg})
			return
		}
		c.Feature("outcome:full-response")
		if s.Class == "race" {
			c.Feature("race:completion-won")
		}
		if len(script) > 0 {
			c.Feature("outcome:full-response-with-resolver-observed-ctx-errors")
		}
		if s.Class == "pre-open" {
			c.Feature("pre-cancelled:full-response")
		}
		if (s.Class == "held" || s.Class == "timeout" || s.Class == "pre-held") && !s.Observe {
			// cannot happen physically (the held resolver has not produced its value)
			r.violation("full-response-while-resolver-held", "a complete response was returned although a resolver of the request was still held at its gate", map[string]interface{}{"result": m1})
			return
		}
	}
	if s.Ext {
		if extN != 1 {
			r.violation(fmt.Sprintf("ext-finish:count=%d", extN), "the extension's execution finish function must be called exactly once", nil)
			return
		}
		if extRes[0] != r.res {
			r.violation("ext-finish:other-result", "the extension's execution finish function received a Result other than the one returned to the caller", nil)
			return
		}
		c.Feature("extension:finish-called-once-with-returned-result")
		if sh.Extensions["c16ext"] == "present" {
			c.Feature("extension:result-entry-present")
		} else {
			c.DontCare("extension-result-entry-absent")
		}
	}
}
