// Package c16 is the runtime monitor for property C16: when the request
// context is cancelled or its deadline passes, the call returns promptly with
// exactly the context's error and no data, or - when execution finished first -
// with the complete normal response; never anything in between. See README.md.
package c16

import (
	"fmt"
	"time"

	"verif/internal/core"
	"verif/internal/mon/gorou"
)

func init() {
	core.Register(&core.Check{
		ID:    "C16",
		Level: "fault_enumeration",
		Race:  true,
		Technique: "fault-injection monitor under the race detector: every resolver / thunk / ParseValue of hand-built documents is an instrumented gate site; " +
			"cancellation (cancel, past deadline, short deadline) is injected at every site and racing with completion; the oracle compares the returned Result with the " +
			"uncancelled baseline or the exact context-error shape, decides promptness logically (the call must return while the gate is still closed; goroutine-dump deadlock " +
			"predicate otherwise), checks that the background execution finishes once gates open, that the returned Result is never written afterwards and that the " +
			"extension's finish function sees the returned Result exactly once",
		Rule: "case = one schedule (document, entry point Do/Execute/PlanQuery+ExecutePlan, extension on/off, resolvers ignore/observe ctx, class nocancel/pre-open/pre-held/held/timeout/race, " +
			"held site k, context kind); distinct = hash of the schedule description string (racing repetitions of one description count once); non-trivial = the library call was made, " +
			"returned, its background execution was observed to finish and the result oracle was applied",
		Assumptions: []string{
			"the normal response is the library's own response to the same request without cancellation, with every resolver returning what it returned in the monitored run (resolvers that observe the context return ctx.Err(); those outcomes are replayed in the baseline)",
			"promptness is decided logically: the held gate is opened by the harness only after the call returned; a watchdog without the deadlock predicate is INCONCLUSIVE",
			"deadline expiry is a wall-clock event, the verdict is not: the call must return while the gate is closed, whenever the deadline fires",
			"an 'extensions' entry in a cancelled result is not an error and not data: don't-care",
			"race-detector reports are read back from the child's own stderr after each case (the driver ignores exit status 66 of a child that finished)",
		},
		Batches: func(tier string) int {
			if tier == "thorough" {
				return 16
			}
			return 8
		},
		Run:          runBatch,
		ChildTimeout: func(tier string) time.Duration { return 20 * time.Minute },
		MinEvals: func(tier string) int {
			if tier == "thorough" {
				return 100000
			}
			return 3000
		},
	})
}

func pollRaces(c *core.Child, rl *gorou.RaceLog) {
	for _, rep := range rl.Poll() {
		txt := rep.Text
		if len(txt) > 6000 {
			txt = txt[:6000]
		}
		if rep.HarnessOnly {
			c.Violation("harness-race:"+rep.Sig, "data race between two harness accesses (harness bug, not a library violation)", map[string]interface{}{"report": txt})
		} else {
			c.Violation("race:"+rep.Sig, "the race detector reported a data race involving library code (background execution vs. the caller)", map[string]interface{}{"report": txt})
		}
	}
}

func stopBatch(c *core.Child) bool {
	if nInconcl >= 5 {
		c.Inconclusive("batch stopped after 5 inconclusive schedules")
		return true
	}
	return c.Violations() >= 60
}

func runBatch(c *core.Child) {
	rl := gorou.OpenRaceLog(c.OutDir, c.Batch)
	if raceEnabled {
		c.Feature("race-detector:on")
	} else {
		c.Feature("race-detector:off")
	}
	list := enumerated()
	reps := c.Scale(1, 50)
	n := 0
	for rep := 0; rep < reps; rep++ {
		// the seed decides the order in which this repetition visits the
		// schedules (and with it which schedules follow each other in a child)
		order := core.NewRNG(c.Seed).Derive(core.HashString("C16/order"), uint64(rep)).Perm(len(list))
		for _, idx := range order {
			n++
			if n%c.NBatches != c.Batch {
				continue
			}
			id := fmt.Sprintf("e/%d/%d", rep, idx)
			if !c.Begin(id) {
				continue
			}
			runOne(c, &list[idx])
			pollRaces(c, rl)
			if stopBatch(c) {
				return
			}
		}
	}
	nrace := c.Scale(200, 2000)
	for di, d := range docs {
		for i := 0; i < nrace; i++ {
			n++
			if n%c.NBatches != c.Batch {
				continue
			}
			id := fmt.Sprintf("x/%d/%d", di, i)
			if !c.Begin(id) {
				continue
			}
			s := raceSched(d, i)
			runOne(c, &s)
			pollRaces(c, rl)
			if stopBatch(c) {
				return
			}
		}
	}
}
