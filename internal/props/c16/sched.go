package c16

import "fmt"

// sched is one cancellation schedule.
type sched struct {
	Doc     string
	Entry   string // Do | Execute | Plan (PlanQuery once + ExecutePlan)
	Ext     bool   // schema with a registered, well-behaved Extension
	Observe bool   // resolvers observe the context (return ctx.Err() once it is done) instead of ignoring it
	// Class:
	//   nocancel  no cancellation before the call returned (sanity: must equal the baseline)
	//   own-ctx-error  no cancellation; site K returns an error wrapping context.DeadlineExceeded / context.Canceled of its own (must equal the baseline with that error)
	//   pre-open  context already done before the call, no gate held        (either outcome is legal)
	//   pre-held  context already done before the call, first site held     (must return while it is held)
	//   held      site K held; cancel once entered(K) is logged             (must return while it is held)
	//   timeout   site K held, short deadline, nobody cancels               (must return while it is held)
	//   race      last site held; once entered, cancel and gate release are issued from two goroutines (either outcome)
	Class string
	K     int    // index into the document's sites
	Ctx   string // cancel | deadline-past | timeout
}

func (s *sched) String() string {
	b := func(v bool) string {
		if v {
			return "1"
		}
		return "0"
	}
	return fmt.Sprintf("%s doc=%s class=%s k=%d ctx=%s observe=%s ext=%s", s.Entry, s.Doc, s.Class, s.K, s.Ctx, b(s.Observe), b(s.Ext))
}

var entries = []string{"Do", "Execute", "Plan"}

func docByName(n string) *doc {
	for _, d := range docs {
		if d.Name == n {
			return d
		}
	}
	return docs[0]
}

// enumerated is the fixed list of non-racing schedules: for every document,
// entry point and extension setting, cancellation before the call (cancelled
// context, deadline in the past), at every gate site (variable coercion, every
// resolver, nested and list resolvers, the thunk after the last resolver), by
// cancel and by deadline expiry, with resolvers ignoring and observing the context.
func enumerated() []sched {
	var out []sched
	for _, d := range docs {
		for _, e := range entries {
			for _, ext := range []bool{false, true} {
				base := sched{Doc: d.Name, Entry: e, Ext: ext}
				s := base
				s.Class, s.Ctx = "nocancel", "cancel"
				out = append(out, s)
				for _, ck := range []string{"cancel", "deadline-past"} {
					s = base
					s.Class, s.Ctx = "pre-open", ck
					out = append(out, s)
					for _, ob := range []bool{false, true} {
						s = base
						s.Class, s.Ctx, s.Observe = "pre-held", ck, ob
						out = append(out, s)
					}
				}
				for k := range d.Sites {
					// no cancellation at all; site k fails with an error that wraps a
					// context error of its own: the full response, that error included
					s = base
					s.Class, s.Ctx, s.K = "own-ctx-error", "cancel", k
					out = append(out, s)
					for _, ob := range []bool{false, true} {
						s = base
						s.Class, s.Ctx, s.K, s.Observe = "held", "cancel", k, ob
						out = append(out, s)
						s.Class, s.Ctx = "timeout", "timeout"
						out = append(out, s)
					}
				}
			}
		}
	}
	return out
}

// raceSched is the i-th racing repetition for a document.
func raceSched(d *doc, i int) sched {
	return sched{Doc: d.Name, Entry: entries[i%3], Ext: (i/3)%2 == 1, Observe: (i/6)%2 == 1, Class: "race", K: len(d.Sites) - 1, Ctx: "cancel"}
}
