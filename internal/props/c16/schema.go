package c16

import (
	"bytes"
	"context"
	"encoding/json"
	"errors"
	"fmt"
	"strings"
	"sync/atomic"

	"github.com/graphql-go/graphql"
	"github.com/graphql-go/graphql/gqlerrors"
	"github.com/graphql-go/graphql/language/ast"
)

// doc is one document of the workload together with its gate sites, listed in
// the order in which an uncancelled execution reaches them. A site is named by
// the response path of the resolver invocation ("o.x", "l.1.v"); "<path>!" is
// the forcing of the thunk that resolver returned; "$v" is the custom scalar's
// ParseValue during variable coercion.
type doc struct {
	Name  string
	Text  string
	Vars  map[string]interface{}
	Sites []string
}

var docs = []*doc{
	{Name: "r1", Text: `{ r1 }`, Sites: []string{"r1"}},
	{Name: "r2", Text: `{ r1 r2 }`, Sites: []string{"r1", "r2"}},
	{Name: "r3", Text: `{ r1 r2 r3 }`, Sites: []string{"r1", "r2", "r3"}},
	{Name: "r5", Text: `{ r1 r2 r3 r4 r5 }`, Sites: []string{"r1", "r2", "r3", "r4", "r5"}},
	{Name: "r8", Text: `{ r1 r2 r3 r4 r5 r6 r7 r8 }`, Sites: []string{"r1", "r2", "r3", "r4", "r5", "r6", "r7", "r8"}},
	{Name: "nest", Text: `{ r1 o { x y } r2 }`, Sites: []string{"r1", "o", "o.x", "o.y", "r2"}},
	{Name: "list", Text: `{ l { v } r1 }`, Sites: []string{"l", "l.0.v", "l.1.v", "r1"}},
	{Name: "thunk", Text: `{ r1 t r2 }`, Sites: []string{"r1", "t", "r2", "t!"}},
	{Name: "var", Text: `query Q($v: Gated!) { g(a: $v) r1 }`, Vars: map[string]interface{}{"v": "val"}, Sites: []string{"$v", "g", "r1"}},
	{Name: "mut", Text: `mutation { m1 mt m2 }`, Sites: []string{"m1", "mt", "mt!", "m2"}},
	{Name: "err", Text: `{ r1 e r2 }`, Sites: []string{"r1", "e", "r2"}},
	{Name: "nn", Text: `{ r1 nn }`, Sites: []string{"r1", "nn"}},
}

// cur is the schedule being executed. Resolvers find their run through the
// root value; ParseValue and the extension have no such parameter and use cur
// (schedules of one child run strictly one after the other, and a schedule ends
// only after every goroutine of the library is gone).
var cur atomic.Pointer[run]

const rootKey = "c16run"

func runOf(p graphql.ResolveParams) *run {
	if m, ok := p.Info.RootValue.(map[string]interface{}); ok {
		if r, ok := m[rootKey].(*run); ok {
			return r
		}
	}
	return cur.Load()
}

func pathOf(p graphql.ResolveParams) string {
	var parts []string
	for _, e := range p.Info.Path.AsArray() {
		parts = append(parts, fmt.Sprint(e))
	}
	return strings.Join(parts, ".")
}

// gated builds an instrumented resolver: log entered(site), wait at the site's
// gate if the schedule holds it, then produce val.
func gated(val func(p graphql.ResolveParams) (interface{}, error)) graphql.FieldResolveFn {
	return func(p graphql.ResolveParams) (interface{}, error) {
		r := runOf(p)
		if r == nil {
			return nil, errors.New("c16: no run")
		}
		if err := r.enter(pathOf(p), p.Context); err != nil {
			return nil, err
		}
		return val(p)
	}
}

func constant(v interface{}) func(graphql.ResolveParams) (interface{}, error) {
	return func(graphql.ResolveParams) (interface{}, error) { return v, nil }
}

type item struct{ I int }

// extension is the well-behaved Extension of the "ext" schema.
type extension struct{}

func (extension) Init(ctx context.Context, p *graphql.Params) context.Context { return ctx }
func (extension) Name() string                                                { return "c16ext" }
func (extension) ParseDidStart(ctx context.Context) (context.Context, graphql.ParseFinishFunc) {
	return ctx, func(error) {}
}
func (extension) ValidationDidStart(ctx context.Context) (context.Context, graphql.ValidationFinishFunc) {
	return ctx, func([]gqlerrors.FormattedError) {}
}
func (extension) ExecutionDidStart(ctx context.Context) (context.Context, graphql.ExecutionFinishFunc) {
	r := cur.Load()
	if r != nil {
		r.logEv("ext-exec-start", "")
	}
	return ctx, func(res *graphql.Result) {
		if r != nil {
			r.extFinish(res)
		}
	}
}
func (extension) ResolveFieldDidStart(ctx context.Context, i *graphql.ResolveInfo) (context.Context, graphql.ResolveFieldFinishFunc) {
	return ctx, func(interface{}, error) {}
}
func (extension) HasResult() bool                       { return true }
func (extension) GetResult(context.Context) interface{} { return "present" }

var schemaPlain, schemaExt graphql.Schema

func buildSchema(withExt bool) graphql.Schema {
	gatedScalar := graphql.NewScalar(graphql.ScalarConfig{
		Name:      "Gated",
		Serialize: func(v interface{}) interface{} { return v },
		ParseValue: func(v interface{}) interface{} {
			if r := cur.Load(); r != nil {
				r.enter("$v", nil)
			}
			return v
		},
		ParseLiteral: func(v ast.Value) interface{} {
			if s, ok := v.(*ast.StringValue); ok {
				return s.Value
			}
			return nil
		},
	})
	obj := graphql.NewObject(graphql.ObjectConfig{Name: "O", Fields: graphql.Fields{
		"x": &graphql.Field{Type: graphql.String, Resolve: gated(constant("X"))},
		"y": &graphql.Field{Type: graphql.String, Resolve: gated(constant("Y"))},
	}})
	itemT := graphql.NewObject(graphql.ObjectConfig{Name: "Item", Fields: graphql.Fields{
		"v": &graphql.Field{Type: graphql.String, Resolve: gated(func(p graphql.ResolveParams) (interface{}, error) {
			return fmt.Sprintf("V%d", p.Source.(*item).I), nil
		})},
	}})
	thunkField := func(val string) *graphql.Field {
		return &graphql.Field{Type: graphql.String, Resolve: gated(func(p graphql.ResolveParams) (interface{}, error) {
			r := runOf(p)
			site := pathOf(p) + "!"
			ctx := p.Context
			return func() (interface{}, error) {
				if err := r.enter(site, ctx); err != nil {
					return nil, err
				}
				return val, nil
			}, nil
		})}
	}
	qf := graphql.Fields{
		"o": &graphql.Field{Type: obj, Resolve: gated(constant(map[string]interface{}{}))},
		"l": &graphql.Field{Type: graphql.NewList(itemT), Resolve: gated(constant([]interface{}{&item{0}, &item{1}}))},
		"t": thunkField("T"),
		"g": &graphql.Field{Type: graphql.String, Args: graphql.FieldConfigArgument{"a": &graphql.ArgumentConfig{Type: gatedScalar}},
			Resolve: gated(func(p graphql.ResolveParams) (interface{}, error) { return fmt.Sprintf("G:%v", p.Args["a"]), nil })},
		"e":  &graphql.Field{Type: graphql.String, Resolve: gated(func(graphql.ResolveParams) (interface{}, error) { return nil, errors.New("boom") })},
		"nn": &graphql.Field{Type: graphql.NewNonNull(graphql.String), Resolve: gated(constant(nil))},
	}
	for i := 1; i <= 8; i++ {
		qf[fmt.Sprintf("r%d", i)] = &graphql.Field{Type: graphql.String, Resolve: gated(constant(fmt.Sprintf("R%d", i)))}
	}
	mf := graphql.Fields{
		"m1": &graphql.Field{Type: graphql.String, Resolve: gated(constant("M1"))},
		"m2": &graphql.Field{Type: graphql.String, Resolve: gated(constant("M2"))},
		"mt": thunkField("MT"),
	}
	cfg := graphql.SchemaConfig{
		Query:    graphql.NewObject(graphql.ObjectConfig{Name: "Query", Fields: qf}),
		Mutation: graphql.NewObject(graphql.ObjectConfig{Name: "Mutation", Fields: mf}),
	}
	if withExt {
		cfg.Extensions = []graphql.Extension{extension{}}
	}
	s, err := graphql.NewSchema(cfg)
	if err != nil {
		panic("c16: schema: " + err.Error())
	}
	return s
}

func init() {
	schemaPlain = buildSchema(false)
	schemaExt = buildSchema(true)
}

// canon re-encodes JSON with sorted keys.
func canon(b []byte) string {
	dec := json.NewDecoder(bytes.NewReader(b))
	dec.UseNumber()
	var v interface{}
	if err := dec.Decode(&v); err != nil {
		return "!" + string(b)
	}
	out, err := json.Marshal(v)
	if err != nil {
		return "!" + string(b)
	}
	return string(out)
}

func canonResult(r *graphql.Result) string {
	if r == nil {
		return "<nil *Result>"
	}
	b, err := json.Marshal(r)
	if err != nil {
		return "<unmarshalable: " + err.Error() + ">"
	}
	return canon(b)
}
