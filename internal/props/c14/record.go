package c14

import (
	"fmt"
	"sort"
	"strings"

	"github.com/graphql-go/graphql"
	"github.com/graphql-go/graphql/language/ast"
	"github.com/graphql-go/graphql/language/visitor"

	"verif/internal/core"
	"verif/internal/ref/walk"
)

// obs is one call the library made to an instrumented visitor function.
type obs struct {
	walk.Event               // Phase, Node, Kind, Key, Parent, Path (copy), Ancestors (copy)
	Fn         string        // tag of the function that was called
	Ret        walk.Action   // what the policy answered
	TI         *tsnap        // TypeInfo getters sampled inside the call (type tracking only)
	PathLeave  []interface{} // copy of Path on leave (don't-care, kept for the evidence)
}

// recorder instruments one visitor.
type recorder struct {
	idx    int
	policy walk.Policy
	evs    []obs
	ti     *graphql.TypeInfo
	sch    *builtSchema
	bad    []string // calls whose Node was not an ast.Node
}

func actionString(a walk.Action) string {
	switch a {
	case walk.Skip:
		return visitor.ActionSkip
	case walk.Break:
		return visitor.ActionBreak
	}
	return visitor.ActionNoChange
}

func (r *recorder) fn(tag string, ph walk.Phase) visitor.VisitFunc {
	return func(p visitor.VisitFuncParams) (string, interface{}) {
		n, ok := p.Node.(ast.Node)
		if !ok || n == nil {
			r.bad = append(r.bad, fmt.Sprintf("%s %s: Node is %T", tag, ph, p.Node))
			return visitor.ActionNoChange, nil
		}
		o := obs{Fn: tag}
		o.Phase, o.Node, o.Kind, o.Key, o.Parent = ph, n, n.GetKind(), p.Key, p.Parent
		if isNilNode(o.Parent) {
			o.Parent = nil
		}
		o.Ancestors = make([]ast.Node, len(p.Ancestors))
		for i, a := range p.Ancestors {
			if !isNilNode(a) {
				o.Ancestors[i] = a
			}
		}
		pc := append([]interface{}{}, p.Path...)
		if ph == walk.Enter {
			o.Path = pc
		} else {
			o.PathLeave = pc
		}
		if r.ti != nil {
			o.TI = sampleTI(r.ti, r.sch)
		}
		if r.policy != nil {
			o.Ret = r.policy(n, ph, r.idx)
		}
		if r.evs == nil {
			r.evs = make([]obs, 0, 256)
		}
		r.evs = append(r.evs, o)
		return actionString(o.Ret), nil
	}
}

// ---------------------------------------------------------------------------
// visitor forms

// kindSpec says which members of KindFuncMap[kind] are set. An entry with
// nothing set is still an entry (it masks the generic functions).
type kindSpec struct{ Kind, Enter, Leave bool }

// formSpec describes which functions a VisitorOptions value carries.
type formSpec struct {
	Name     string
	KFM      map[string]kindSpec
	GenEnter bool
	GenLeave bool
	EKM      map[string]bool
	LKM      map[string]bool
}

// pick is MY reading of the precedence documented above visitor.GetVisitFn
// ("KindFuncMap{Kind > {Leave, Enter}} > {Leave, Enter} > {EnterKindMap,
// LeaveKindMap}"): it returns the tag of the function that must be called for
// (kind, phase), "" when the visitor has none.
func (f *formSpec) pick(kind string, ph walk.Phase) string {
	if ks, ok := f.KFM[kind]; ok {
		if ph == walk.Enter {
			if ks.Kind {
				return "K:" + kind
			}
			if ks.Enter {
				return "KE:" + kind
			}
			return ""
		}
		if ks.Leave {
			return "KL:" + kind
		}
		return ""
	}
	if ph == walk.Enter {
		if f.GenEnter {
			return "GE"
		}
		if f.EKM[kind] {
			return "EM:" + kind
		}
		return ""
	}
	if f.GenLeave {
		return "GL"
	}
	if f.LKM[kind] {
		return "LM:" + kind
	}
	return ""
}

func (f *formSpec) visible(kind string, ph walk.Phase) bool { return f.pick(kind, ph) != "" }

// describe is a canonical text of the form (for hashing and reports).
func (f *formSpec) describe() string {
	if f.Name != "mixed" {
		return f.Name
	}
	var b strings.Builder
	b.WriteString("mixed{")
	if f.GenEnter {
		b.WriteString("GE ")
	}
	if f.GenLeave {
		b.WriteString("GL ")
	}
	for _, k := range sortedKeys(f.KFM) {
		ks := f.KFM[k]
		fmt.Fprintf(&b, "%s:", k)
		if ks.Kind {
			b.WriteByte('K')
		}
		if ks.Enter {
			b.WriteByte('E')
		}
		if ks.Leave {
			b.WriteByte('L')
		}
		b.WriteByte(' ')
	}
	b.WriteString("em=" + strings.Join(sortedSet(f.EKM), ",") + " lm=" + strings.Join(sortedSet(f.LKM), ","))
	b.WriteString("}")
	return b.String()
}

func sortedKeys(m map[string]kindSpec) []string {
	var ks []string
	for k := range m {
		ks = append(ks, k)
	}
	sort.Strings(ks)
	return ks
}

func sortedSet(m map[string]bool) []string {
	var ks []string
	for k, v := range m {
		if v {
			ks = append(ks, k)
		}
	}
	sort.Strings(ks)
	return ks
}

var allKinds = walk.KindNames()

// pureForm returns one of the four documented visitor forms over all kinds.
func pureForm(name string) *formSpec {
	f := &formSpec{Name: name}
	switch name {
	case "kind": // KindFuncMap[kind].Kind
		f.KFM = map[string]kindSpec{}
		for _, k := range allKinds {
			f.KFM[k] = kindSpec{Kind: true}
		}
	case "kind-enter-leave": // KindFuncMap[kind].Enter / .Leave
		f.KFM = map[string]kindSpec{}
		for _, k := range allKinds {
			f.KFM[k] = kindSpec{Enter: true, Leave: true}
		}
	case "generic": // Enter / Leave
		f.GenEnter, f.GenLeave = true, true
	case "kindmap": // EnterKindMap / LeaveKindMap
		f.EKM, f.LKM = map[string]bool{}, map[string]bool{}
		for _, k := range allKinds {
			f.EKM[k], f.LKM[k] = true, true
		}
	default:
		panic("unknown form " + name)
	}
	return f
}

var pureForms = []string{"kind", "kind-enter-leave", "generic", "kindmap"}

// mixedForm draws a visitor that combines the forms, to exercise precedence.
func mixedForm(r *core.RNG) *formSpec {
	f := &formSpec{Name: "mixed", KFM: map[string]kindSpec{}, EKM: map[string]bool{}, LKM: map[string]bool{}}
	f.GenEnter, f.GenLeave = r.Chance(50), r.Chance(50)
	pK, pM := r.Range(10, 60), r.Range(20, 90)
	for _, k := range allKinds {
		if r.Chance(pK) {
			f.KFM[k] = kindSpec{Kind: r.Chance(40), Enter: r.Chance(50), Leave: r.Chance(50)}
		}
		if r.Chance(pM) {
			f.EKM[k] = true
		}
		if r.Chance(pM) {
			f.LKM[k] = true
		}
	}
	return f
}

// options builds the VisitorOptions value described by f, every function
// instrumented by rec.
func (f *formSpec) options(rec *recorder) *visitor.VisitorOptions {
	o := &visitor.VisitorOptions{}
	if f.KFM != nil {
		o.KindFuncMap = map[string]visitor.NamedVisitFuncs{}
		for k, ks := range f.KFM {
			var n visitor.NamedVisitFuncs
			if ks.Kind {
				n.Kind = rec.fn("K:"+k, walk.Enter)
			}
			if ks.Enter {
				n.Enter = rec.fn("KE:"+k, walk.Enter)
			}
			if ks.Leave {
				n.Leave = rec.fn("KL:"+k, walk.Leave)
			}
			o.KindFuncMap[k] = n
		}
	}
	if f.GenEnter {
		o.Enter = rec.fn("GE", walk.Enter)
	}
	if f.GenLeave {
		o.Leave = rec.fn("GL", walk.Leave)
	}
	if f.EKM != nil {
		o.EnterKindMap = map[string]visitor.VisitFunc{}
		for k, v := range f.EKM {
			if v {
				o.EnterKindMap[k] = rec.fn("EM:"+k, walk.Enter)
			}
		}
	}
	if f.LKM != nil {
		o.LeaveKindMap = map[string]visitor.VisitFunc{}
		for k, v := range f.LKM {
			if v {
				o.LeaveKindMap[k] = rec.fn("LM:"+k, walk.Leave)
			}
		}
	}
	return o
}

// ---------------------------------------------------------------------------
// policies

// policy assigns an action to (node, phase) pairs; everything else continues.
type policy struct {
	acts map[ast.Node][2]walk.Action
	desc string // canonical: "<ordinal><E|L>:<S|B>,..." in document order
}

func (p *policy) at(n ast.Node, ph walk.Phase) walk.Action {
	if p == nil || p.acts == nil {
		return walk.Continue
	}
	return p.acts[n][ph]
}

func (p *policy) hasAction() bool { return p != nil && len(p.acts) > 0 }

func (p *policy) hasSkipOnLeave() bool {
	if p == nil {
		return false
	}
	for _, a := range p.acts {
		if a[walk.Leave] == walk.Skip {
			return true
		}
	}
	return false
}

// withoutEnterSkips is the same policy with every skip-on-enter turned into
// continue (used by the D19 predicate).
func (p *policy) withoutEnterSkips() *policy {
	q := &policy{acts: map[ast.Node][2]walk.Action{}, desc: p.desc + "|noskip"}
	for n, a := range p.acts {
		if a[walk.Enter] == walk.Skip {
			a[walk.Enter] = walk.Continue
		}
		if a != [2]walk.Action{} {
			q.acts[n] = a
		}
	}
	return q
}

func policyFn(ps []*policy) walk.Policy {
	return func(n ast.Node, ph walk.Phase, idx int) walk.Action {
		if idx < 0 || idx >= len(ps) {
			return walk.Continue
		}
		return ps[idx].at(n, ph)
	}
}

// singlePolicy puts one action at one (node, phase) position.
func singlePolicy(nodes []ast.Node, ord int, ph walk.Phase, a walk.Action) *policy {
	p := &policy{acts: map[ast.Node][2]walk.Action{}}
	var v [2]walk.Action
	v[ph] = a
	p.acts[nodes[ord]] = v
	p.desc = fmt.Sprintf("%d%s:%s", ord, phLetter(ph), actLetter(a))
	return p
}

func phLetter(ph walk.Phase) string {
	if ph == walk.Enter {
		return "E"
	}
	return "L"
}

func actLetter(a walk.Action) string { return [...]string{"C", "S", "B"}[a] }

// randomPolicy draws skip/break with the given density (per mille) over all
// (node, phase) pairs; about one action in seven is a break (traversals that end early exercise less).
func randomPolicy(r *core.RNG, nodes []ast.Node, perMille int) *policy {
	p := &policy{acts: map[ast.Node][2]walk.Action{}}
	var parts []string
	for i, n := range nodes {
		var v [2]walk.Action
		for ph := walk.Enter; ph <= walk.Leave; ph++ {
			if r.Intn(1000) < perMille {
				a := walk.Skip
				if r.Chance(15) {
					a = walk.Break
				}
				v[ph] = a
				parts = append(parts, fmt.Sprintf("%d%s:%s", i, phLetter(ph), actLetter(a)))
			}
		}
		if v != [2]walk.Action{} {
			p.acts[n] = v
		}
	}
	p.desc = strings.Join(parts, ",")
	return p
}
