package c14

import (
	"fmt"
	"reflect"
	"strings"

	"github.com/graphql-go/graphql"
)

// The schema MODEL: plain data from which both the library schema and the
// reference type environment (typeenv.go) are derived. Types are written in
// GraphQL notation ("[In!]!").

type mArg struct{ Name, Type string }

type mField struct {
	Name, Type string
	Args       []mArg
}

type mType struct {
	Name, Kind string // OBJECT INTERFACE UNION ENUM INPUT
	Fields     []mField
	Members    []string // UNION
	Interfaces []string // OBJECT
	Values     []string // ENUM
}

type mDir struct {
	Name string
	Args []mArg
}

type mSchema struct {
	Name                          string
	Query, Mutation, Subscription string
	Types                         []mType
	Dirs                          []mDir // complete list, including skip/include when allowed
	DefaultDirs                   bool   // build without SchemaConfig.Directives (library supplies the specified ones)
}

var specifiedDirs = []mDir{
	{"include", []mArg{{"if", "Boolean!"}}},
	{"skip", []mArg{{"if", "Boolean!"}}},
	{"deprecated", []mArg{{"reason", "String"}}},
}

var nodeFields = []mField{{"id", "ID!", nil}, {"name", "String", []mArg{{"upper", "Boolean"}}}}

var modelSchemas = []*mSchema{
	{
		Name: "S1", Query: "Query", Mutation: "Mutation",
		Types: []mType{
			{Name: "Query", Kind: "OBJECT", Fields: []mField{
				{"o", "O", nil},
				{"f", "Int", []mArg{{"a", "Int"}, {"b", "[In!]"}}},
				{"node", "Node", []mArg{{"id", "ID!"}}},
				{"search", "[SearchResult!]!", []mArg{{"text", "String"}, {"kinds", "[Kind!]"}}},
				{"list", "[[O!]]!", nil},
				{"e", "Kind", []mArg{{"e", "Kind"}, {"m", "[[Int]]"}}},
			}},
			{Name: "Mutation", Kind: "OBJECT", Fields: []mField{
				{"set", "O", []mArg{{"in", "In!"}, {"flags", "[Boolean]"}}},
			}},
			{Name: "Node", Kind: "INTERFACE", Fields: nodeFields},
			{Name: "O", Kind: "OBJECT", Interfaces: []string{"Node"}, Fields: append(append([]mField{}, nodeFields...),
				mField{"s", "String", nil}, mField{"self", "O", nil},
				mField{"kids", "[O]", []mArg{{"first", "Int"}, {"filter", "In"}}},
				mField{"u", "SearchResult", nil})},
			{Name: "P", Kind: "OBJECT", Interfaces: []string{"Node"}, Fields: append(append([]mField{}, nodeFields...),
				mField{"p", "Float", []mArg{{"in", "[In]"}}})},
			{Name: "SearchResult", Kind: "UNION", Members: []string{"O", "P"}},
			{Name: "Kind", Kind: "ENUM", Values: []string{"A", "B", "C"}},
			{Name: "In", Kind: "INPUT", Fields: []mField{
				{"r", "String!", nil}, {"n", "Int", nil}, {"nested", "In", nil}, {"list", "[In!]", nil},
				{"k", "Kind", nil}, {"m", "[[Int]]", nil}}},
		},
		Dirs: append([]mDir{{"custom", []mArg{{"level", "Int"}, {"in", "In"}, {"tags", "[String!]"}, {"a", "String"}}}}, specifiedDirs[:2]...),
	},
	{
		Name: "S2", Query: "Root", Subscription: "Sub",
		Types: []mType{
			{Name: "Root", Kind: "OBJECT", Fields: []mField{
				{"animal", "Animal", []mArg{{"where", "Where"}, {"id", "ID"}}},
				{"animals", "[Animal!]!", []mArg{{"where", "[Where!]!"}, {"first", "Int"}}},
				{"pet", "Pet", nil},
				{"count", "Int!", []mArg{{"of", "Species!"}}},
				{"dog", "Dog", nil},
			}},
			{Name: "Sub", Kind: "OBJECT", Fields: []mField{{"born", "Animal", []mArg{{"species", "[Species]"}}}}},
			{Name: "Animal", Kind: "INTERFACE", Fields: []mField{{"name", "String!", nil}, {"mother", "Animal", nil},
				{"friends", "[Animal]", []mArg{{"where", "Where"}}}}},
			{Name: "Dog", Kind: "OBJECT", Interfaces: []string{"Animal"}, Fields: []mField{{"name", "String!", nil}, {"mother", "Animal", nil},
				{"friends", "[Animal]", []mArg{{"where", "Where"}}}, {"barks", "Boolean", []mArg{{"loud", "Boolean"}}}, {"owner", "Human", nil}}},
			{Name: "Cat", Kind: "OBJECT", Interfaces: []string{"Animal"}, Fields: []mField{{"name", "String!", nil}, {"mother", "Animal", nil},
				{"friends", "[Animal]", []mArg{{"where", "Where"}}}, {"lives", "Int", nil}}},
			{Name: "Human", Kind: "OBJECT", Fields: []mField{{"name", "String", nil}, {"pets", "[Pet!]", []mArg{{"where", "Where"}}}}},
			{Name: "Pet", Kind: "UNION", Members: []string{"Dog", "Cat"}},
			{Name: "Species", Kind: "ENUM", Values: []string{"DOG", "CAT", "OTHER"}},
			{Name: "Where", Kind: "INPUT", Fields: []mField{
				{"and", "[Where!]", nil}, {"not", "Where", nil}, {"species", "Species", nil}, {"name", "NameFilter", nil}, {"ids", "[ID!]!", nil}}},
			{Name: "NameFilter", Kind: "INPUT", Fields: []mField{{"eq", "String", nil}, {"in", "[String]", nil}, {"deep", "[[NameFilter!]!]", nil}}},
		},
		Dirs: append([]mDir{{"where", []mArg{{"where", "Where"}, {"first", "[Int!]"}}}, {"plain", nil}}, specifiedDirs[:2]...),
	},
	{
		Name: "S3", Query: "Q", DefaultDirs: true,
		Types: []mType{
			{Name: "Q", Kind: "OBJECT", Fields: []mField{
				{"a", "String", []mArg{{"if", "Boolean"}, {"reason", "String"}}},
				{"b", "[Int!]", []mArg{{"xs", "[Int!]"}}},
				{"q", "Q!", nil},
			}},
		},
		Dirs: specifiedDirs,
	},
}

func (s *mSchema) typ(name string) *mType {
	for i := range s.Types {
		if s.Types[i].Name == name {
			return &s.Types[i]
		}
	}
	return nil
}

func (s *mSchema) dir(name string) *mDir {
	for i := range s.Dirs {
		if s.Dirs[i].Name == name {
			return &s.Dirs[i]
		}
	}
	return nil
}

var builtinScalars = map[string]bool{"Int": true, "Float": true, "String": true, "Boolean": true, "ID": true}

// referenced tells whether a built-in scalar is part of the schema: a
// built-in scalar no field, argument or input field refers to is not
// (GraphQL specification, section 3.5 "Scalars"); String and Boolean always
// are, through the introspection types.
func (s *mSchema) referenced(scalar string) bool {
	if scalar == "String" || scalar == "Boolean" {
		return true
	}
	for _, t := range s.Types {
		for _, f := range t.Fields {
			if namedOf(f.Type) == scalar {
				return true
			}
			for _, a := range f.Args {
				if namedOf(a.Type) == scalar {
					return true
				}
			}
		}
	}
	return false
}

// typeKind is "" for a name the schema does not define.
func (s *mSchema) typeKind(name string) string {
	if builtinScalars[name] {
		if s.referenced(name) {
			return "SCALAR"
		}
		return ""
	}
	if t := s.typ(name); t != nil {
		return t.Kind
	}
	return ""
}

// notation helpers on "[X!]!" strings
func nullableOf(t string) string { return strings.TrimSuffix(t, "!") }
func namedOf(t string) string    { return strings.Trim(t, "[]!") }
func elemOf(t string) (string, bool) {
	t = nullableOf(t)
	if strings.HasPrefix(t, "[") && strings.HasSuffix(t, "]") {
		return t[1 : len(t)-1], true
	}
	return "", false
}

// ---------------------------------------------------------------------------
// building the library schema from the model

type builtSchema struct {
	model  *mSchema
	schema graphql.Schema
	named  map[string]graphql.Type
}

func (b *builtSchema) resolve(t string) graphql.Type {
	if strings.HasSuffix(t, "!") {
		return graphql.NewNonNull(b.resolve(t[:len(t)-1]))
	}
	if e, ok := elemOf(t); ok {
		return graphql.NewList(b.resolve(e))
	}
	switch t {
	case "Int":
		return graphql.Int
	case "Float":
		return graphql.Float
	case "String":
		return graphql.String
	case "Boolean":
		return graphql.Boolean
	case "ID":
		return graphql.ID
	}
	n := b.named[t]
	if n == nil {
		panic("model refers to unknown type " + t)
	}
	return n
}

func (b *builtSchema) args(as []mArg) graphql.FieldConfigArgument {
	if len(as) == 0 {
		return nil
	}
	m := graphql.FieldConfigArgument{}
	for _, a := range as {
		m[a.Name] = &graphql.ArgumentConfig{Type: b.resolve(a.Type)}
	}
	return m
}

func (b *builtSchema) fields(fs []mField) graphql.FieldsThunk {
	return func() graphql.Fields {
		m := graphql.Fields{}
		for _, f := range fs {
			m[f.Name] = &graphql.Field{Type: b.resolve(f.Type), Args: b.args(f.Args)}
		}
		return m
	}
}

func buildSchema(m *mSchema) (*builtSchema, error) {
	b := &builtSchema{model: m, named: map[string]graphql.Type{}}
	// interfaces, enums, inputs first; objects; unions last (they need objects)
	for _, t := range m.Types {
		t := t
		switch t.Kind {
		case "INTERFACE":
			b.named[t.Name] = graphql.NewInterface(graphql.InterfaceConfig{Name: t.Name, Fields: b.fields(t.Fields),
				ResolveType: func(p graphql.ResolveTypeParams) *graphql.Object { return nil }})
		case "ENUM":
			vs := graphql.EnumValueConfigMap{}
			for i, v := range t.Values {
				vs[v] = &graphql.EnumValueConfig{Value: i}
			}
			b.named[t.Name] = graphql.NewEnum(graphql.EnumConfig{Name: t.Name, Values: vs})
		case "INPUT":
			b.named[t.Name] = graphql.NewInputObject(graphql.InputObjectConfig{Name: t.Name,
				Fields: graphql.InputObjectConfigFieldMapThunk(func() graphql.InputObjectConfigFieldMap {
					fm := graphql.InputObjectConfigFieldMap{}
					for _, f := range t.Fields {
						fm[f.Name] = &graphql.InputObjectFieldConfig{Type: b.resolve(f.Type)}
					}
					return fm
				})})
		}
	}
	for _, t := range m.Types {
		t := t
		if t.Kind != "OBJECT" {
			continue
		}
		b.named[t.Name] = graphql.NewObject(graphql.ObjectConfig{Name: t.Name, Fields: b.fields(t.Fields),
			Interfaces: graphql.InterfacesThunk(func() []*graphql.Interface {
				var is []*graphql.Interface
				for _, i := range t.Interfaces {
					is = append(is, b.named[i].(*graphql.Interface))
				}
				return is
			}),
			IsTypeOf: func(p graphql.IsTypeOfParams) bool { return false }})
	}
	for _, t := range m.Types {
		if t.Kind != "UNION" {
			continue
		}
		var os []*graphql.Object
		for _, n := range t.Members {
			os = append(os, b.named[n].(*graphql.Object))
		}
		b.named[t.Name] = graphql.NewUnion(graphql.UnionConfig{Name: t.Name, Types: os,
			ResolveType: func(p graphql.ResolveTypeParams) *graphql.Object { return nil }})
	}
	cfg := graphql.SchemaConfig{}
	obj := func(n string) *graphql.Object {
		if n == "" {
			return nil
		}
		return b.named[n].(*graphql.Object)
	}
	cfg.Query, cfg.Mutation, cfg.Subscription = obj(m.Query), obj(m.Mutation), obj(m.Subscription)
	for _, t := range m.Types {
		cfg.Types = append(cfg.Types, b.named[t.Name])
	}
	if !m.DefaultDirs {
		for _, d := range m.Dirs {
			cfg.Directives = append(cfg.Directives, graphql.NewDirective(graphql.DirectiveConfig{Name: d.Name,
				Locations: []string{graphql.DirectiveLocationQuery, graphql.DirectiveLocationMutation, graphql.DirectiveLocationSubscription,
					graphql.DirectiveLocationField, graphql.DirectiveLocationFragmentDefinition, graphql.DirectiveLocationFragmentSpread,
					graphql.DirectiveLocationInlineFragment},
				Args: b.args(d.Args)}))
		}
	}
	s, err := graphql.NewSchema(cfg)
	if err != nil {
		return nil, fmt.Errorf("schema %s: %v", m.Name, err)
	}
	b.schema = s
	// the model's idea of which names the schema defines must agree with the library's
	for _, n := range []string{"Int", "Float", "String", "Boolean", "ID", "Nope"} {
		if (s.Type(n) != nil) != (m.typeKind(n) != "") {
			return nil, fmt.Errorf("schema %s: model and library disagree on whether type %s is defined", m.Name, n)
		}
	}
	for _, t := range m.Types {
		if s.Type(t.Name) != b.named[t.Name] {
			return nil, fmt.Errorf("schema %s: type %s is not the object the schema was built from", m.Name, t.Name)
		}
	}
	return b, nil
}

// ---------------------------------------------------------------------------
// rendering what the library reports

// tsnap is what type tracking reports at one visitor call.
type tsnap struct {
	Type, ParentType, InputType string // GraphQL notation, "" when none
	FieldDef                    string // "name:type"
	Directive                   string // name
	Argument                    string // "name:type"
	typedNil                    bool   // some getter returned a non-nil interface holding a nil pointer
}

func (s *tsnap) String() string {
	return fmt.Sprintf("type=%q parentType=%q inputType=%q fieldDef=%q directive=%q argument=%q", s.Type, s.ParentType, s.InputType, s.FieldDef, s.Directive, s.Argument)
}

// typeString renders a library type by MY OWN structural recursion (not
// Type.String()); named types defined by the model must be the very objects
// the schema was built from.
func (b *builtSchema) typeString(t graphql.Type, typedNil *bool) string {
	if t == nil {
		return ""
	}
	if v := reflect.ValueOf(t); v.Kind() == reflect.Ptr && v.IsNil() {
		*typedNil = true
		return ""
	}
	switch t := t.(type) {
	case *graphql.List:
		return "[" + b.typeString(t.OfType, typedNil) + "]"
	case *graphql.NonNull:
		return b.typeString(t.OfType, typedNil) + "!"
	}
	name := t.Name()
	if own, ok := b.named[name]; ok && own != t {
		return name + "(foreign object)"
	}
	return name
}

func sampleTI(ti *graphql.TypeInfo, b *builtSchema) *tsnap {
	s := &tsnap{}
	if t := ti.Type(); t != nil {
		s.Type = b.typeString(t, &s.typedNil)
	}
	if t := ti.ParentType(); t != nil {
		s.ParentType = b.typeString(t.(graphql.Type), &s.typedNil)
	}
	if t := ti.InputType(); t != nil {
		s.InputType = b.typeString(t, &s.typedNil)
	}
	if fd := ti.FieldDef(); fd != nil {
		s.FieldDef = fd.Name + ":" + b.typeString(fd.Type, &s.typedNil)
	}
	if d := ti.Directive(); d != nil {
		s.Directive = d.Name
	}
	if a := ti.Argument(); a != nil {
		s.Argument = a.Name() + ":" + b.typeString(a.Type, &s.typedNil)
	}
	return s
}
