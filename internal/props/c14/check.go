// Package c14 is the runtime monitor for property C14: AST traversal visits
// every node once, in order, honouring skip and break (see README.md).
package c14

import (
	"fmt"
	"os"
	"path/filepath"
	"runtime/debug"
	"strings"
	"time"

	"github.com/graphql-go/graphql"
	"github.com/graphql-go/graphql/language/ast"
	"github.com/graphql-go/graphql/language/parser"
	"github.com/graphql-go/graphql/language/visitor"

	"verif/internal/core"
	"verif/internal/gen/gramdoc"
	"verif/internal/ref/walk"
)

func init() {
	core.Register(&core.Check{
		ID: "C14", Level: "exploration",
		Technique: "differential runtime monitor: every VisitFuncParams the real visitor (Visit, VisitInParallel, VisitWithTypeInfo, all GetVisitFn forms) " +
			"delivers to instrumented callbacks is compared with the event sequence of an independent recursive reference walk under the same " +
			"skip/break policy; convention-free laws (path locates the node, ancestors are the enclosing nodes, leave repeats enter) are checked on " +
			"every event; TypeInfo getters are compared with an independent type environment over a schema model; the AST is deep-dumped before/after",
		Rule: "case = (document text, traversal mode, visitor form(s), policy); documents: the two kitchen-sink files, a local random text generator " +
			"(executable + type-system), gen/gramdoc when available, type-aware documents over 3 hand-built schemas; policies: all-continue, a single " +
			"skip/break at every (node, phase) of small trees, random with density 1-10%, 1-5 parallel visitors, TypeInfo-wrapped visitors. " +
			"Non-trivial: tree has >= 10 nodes and (the policy holds >= 1 skip/break, or >= 2 parallel visitors, or type tracking is on); " +
			"distinct by hash(document text + mode + forms + policy description)",
		Assumptions: []string{
			"ASTs are those the library parser produces (no nil elements inside slices, no shared nodes)",
			"callbacks request no edits (ActionUpdate is outside this check)",
			"the reference child table follows the library's key table on one triaged point: Description is not a child (checked separately with a custom key map)",
			"skip on leave is outside the property's statement: the suffix after such an answer is don't-care",
			"mixed visitor forms follow the precedence documented above GetVisitFn",
		},
		Batches: func(tier string) int {
			if tier == "thorough" {
				return 16
			}
			return 8
		},
		Run:          run,
		ChildTimeout: func(tier string) time.Duration { return 90 * time.Minute }, // generous: thorough is ~5 CPU-minutes per child on an idle machine
		MinEvals: func(tier string) int {
			if tier == "thorough" {
				return 1000000
			}
			return 30000
		},
	})
}

const (
	sigSkipRoot  = "defect:skip-on-root-panics"
	sigD19       = "defect:typeinfo-not-left-on-skip"
	sigUnkDirArg = "defect:typeinfo-unknown-directive-arg-typed-by-field"
	sigTypedNil  = "defect:typeinfo-typed-nil-for-missing-root-type"
)

type runner struct {
	c        *core.Child
	schemas  []*builtSchema
	reported map[string]int // violations per signature (defect classes are capped)
	tree     int
	pcase    int
	snap     string
	snapHash uint64
	tr       *tree
}

func repoDir() string {
	if d := os.Getenv("VERIF_REPO"); d != "" {
		return d
	}
	return "/repo"
}

func run(c *core.Child) {
	debug.SetGCPercent(800) // small live heap, many short-lived event records
	x := &runner{c: c, reported: map[string]int{}}
	for _, m := range modelSchemas {
		b, err := buildSchema(m)
		if err != nil {
			c.Violation("harness:schema", err.Error(), nil)
			return
		}
		x.schemas = append(x.schemas, b)
	}
	if c.Batch == 0 && c.Begin("table") {
		x.reconcile()
	}
	n := c.Scale(375, 9375)
	for t := 0; t < n; t++ {
		if c.Only != "" && !strings.HasPrefix(c.Only, fmt.Sprintf("t/%d/", t)) {
			continue
		}
		if tr := x.makeTree(t); tr != nil {
			x.runTree(t, tr)
		}
	}
}

// expectedTableDiffs are the triaged differences between the reference child
// table and visitor.QueryDocumentKeys (README "Child table reconciliation").
var expectedTableDiffs = map[string]bool{
	"FragmentDefinition.VariableDefinitions: child in the reference table only": true,
}

func init() {
	for _, k := range []string{"DirectiveDefinition", "EnumDefinition", "EnumValueDefinition", "FieldDefinition", "InputObjectDefinition",
		"InputValueDefinition", "InterfaceDefinition", "ObjectDefinition", "ScalarDefinition", "UnionDefinition"} {
		expectedTableDiffs[k+".Description: child in the reference table only"] = true
	}
}

func (x *runner) reconcile() {
	lib := map[string][]string{}
	for k, v := range visitor.QueryDocumentKeys {
		lib[k] = v
	}
	for _, d := range walk.Reconcile(lib) {
		if expectedTableDiffs[d] {
			x.c.Feature("table-diff-triaged")
			continue
		}
		x.c.Violation("table", "untriaged difference between the reference child table and QueryDocumentKeys: "+d, d)
	}
}

// ---------------------------------------------------------------------------
// workload

func gramdocText(r *core.RNG, typeSystem bool) (text string, ok bool) {
	defer func() {
		if recover() != nil {
			text, ok = "", false
		}
	}()
	doc := gramdoc.Gen(r, gramdoc.Options{Executable: !typeSystem, TypeSystem: typeSystem, MaxDepth: r.Range(2, 6), MaxWidth: r.Range(2, 4), MaxDefs: r.Range(1, 4)})
	return gramdoc.Render(doc, gramdoc.Compact()), true
}

func (x *runner) makeTree(t int) *tree {
	c := x.c
	r := c.RNG(uint64(t))
	var text, source string
	var sch *builtSchema
	switch {
	case t < 2:
		name := []string{"kitchen-sink.graphql", "schema-kitchen-sink.graphql"}[t]
		b, err := os.ReadFile(filepath.Join(repoDir(), name))
		if err != nil {
			c.Inconclusive("cannot read " + name + ": " + err.Error())
			return nil
		}
		text, source, sch = string(b), "kitchen-sink", x.schemas[0]
	default:
		switch k := r.Intn(100); {
		case k < 30:
			text, source = localDoc(r, false), "local-exec"
		case k < 42:
			text, source = localDoc(r, true), "local-typesystem"
		case k < 67:
			ts := r.Chance(35)
			if g, ok := gramdocText(r.Derive(1), ts); ok {
				text, source = g, "gramdoc"
			} else {
				c.Feature("gramdoc-unavailable")
				text, source = localDoc(r.Derive(2), ts), "local-exec"
				if ts {
					source = "local-typesystem"
				}
			}
		default:
			sch = x.schemas[r.Intn(len(x.schemas))]
			text, source = typedDoc(r, sch.model), "typed:"+sch.model.Name
		}
	}
	var doc *ast.Document
	var err error
	if c.Guard("panic", map[string]interface{}{"text": text, "at": "parse"}, func() {
		doc, err = parser.Parse(parser.ParseParams{Source: text})
	}) {
		return nil
	}
	if err != nil || doc == nil {
		c.Feature("parse-error:" + source)
		c.Sample("parse-error:"+source, map[string]interface{}{"text": clip(text, 300), "error": fmt.Sprint(err)})
		return nil
	}
	tr := newTree(text, source, doc)
	c.Feature("tree:" + source)
	c.MaxExtra("max_nodes", float64(len(tr.nodes)))
	c.AddExtra("nodes", float64(len(tr.nodes)))
	seen := map[string]bool{}
	for _, n := range tr.nodes {
		if k := n.GetKind(); !seen[k] {
			seen[k] = true
			c.Feature("kind:" + k)
		}
	}
	if sch != nil {
		tr.sch = sch
		tc := computeTypes(sch.model, doc)
		tr.types, tr.dcTypes, tr.unkDirOf, tr.noRoot = tc.out, tc.dc, tc.unkDirOf, tc.noRoot
	}
	return tr
}

func clip(s string, n int) string {
	if len(s) > n {
		return s[:n] + "..."
	}
	return s
}

// begin opens the next case of the current tree; false when it is not to run.
func (x *runner) begin() bool {
	id := fmt.Sprintf("t/%d/p/%d", x.tree, x.pcase)
	x.pcase++
	return x.c.Begin(id)
}

// report files a violation; defect classes are capped per child so that they
// cannot crowd other signatures out of the driver's record limit.
func (x *runner) report(m *mismatch, extra map[string]interface{}) {
	if m == nil {
		return
	}
	x.reported[m.sig]++
	if strings.HasPrefix(m.sig, "defect:") {
		x.c.Feature("hit:" + m.sig)
		if x.reported[m.sig] > 3 {
			return
		}
	}
	d := map[string]interface{}{"text": clip(x.tr.text, 4000), "source": x.tr.source}
	for k, v := range m.detail {
		d[k] = v
	}
	for k, v := range extra {
		d[k] = v
	}
	x.c.Violation(m.sig, m.msg, d)
}

// guard runs a traversal under c.Guard. When the visitor answers skip on
// enter of the ROOT node the traversal is run under a recover of its own so
// that the known panic of that case (README, defect 1) gets its precise
// signature; every other panic goes through c.Guard ("panic:<site>").
func (x *runner) guard(what map[string]interface{}, f *formSpec, pol *policy, fn func()) (panicked bool) {
	root := x.tr.root
	if !(pol.at(root, walk.Enter) == walk.Skip && f.visible(root.GetKind(), walk.Enter)) {
		return x.c.Guard("panic", what, fn)
	}
	defer func() {
		if r := recover(); r != nil {
			panicked = true
			st := string(debug.Stack())
			site := core.PanicSite(st)
			m := &mismatch{"panic:" + site, fmt.Sprintf("panic escaped: %v", r), map[string]interface{}{"panic": fmt.Sprint(r), "stack": clip(st, 3000)}}
			if site == "/language/visitor.Visit" {
				m.sig = sigSkipRoot
				m.msg = fmt.Sprintf("skip answered on enter of the root node makes Visit panic instead of ending the traversal: %v", r)
			}
			x.report(m, what)
		}
	}()
	fn()
	return false
}

func (x *runner) nontrivial(mode string, forms []*formSpec, pols []*policy, typed bool) {
	any := false
	var parts []string
	for i := range forms {
		parts = append(parts, forms[i].describe()+"~"+pols[i].desc)
		any = any || pols[i].hasAction()
	}
	if len(x.tr.nodes) >= 10 && (any || len(forms) >= 2 || typed) {
		x.c.Nontrivial(core.HashString(x.tr.text + "\x00" + mode + "\x00" + strings.Join(parts, "\x00")))
	}
}

func (x *runner) countActions(p *policy) {
	if p == nil {
		return
	}
	for _, a := range p.acts {
		for ph := walk.Enter; ph <= walk.Leave; ph++ {
			if a[ph] != walk.Continue {
				x.c.Feature("action:" + a[ph].String() + "-on-" + ph.String())
			}
		}
	}
}

func (x *runner) checkUntouched(what map[string]interface{}) {
	if snapshotHash(x.tr.root) == x.snapHash {
		return
	}
	after := snapshot(x.tr.root)
	i, a, b := firstDiff(x.snap, after)
	x.report(&mismatch{"mutated-tree", fmt.Sprintf("a traversal that requested no edits changed the AST (dump differs at byte %d)", i),
		map[string]interface{}{"before": a, "after": b}}, what)
	x.snap, x.snapHash = after, snapshotHash(x.tr.root)
}

func (x *runner) runTree(t int, tr *tree) {
	c := x.c
	x.tree, x.pcase, x.tr = t, 0, tr
	x.snap, x.snapHash = snapshot(tr.root), snapshotHash(tr.root)
	rt := c.RNG(uint64(t), 77)
	nn := len(tr.nodes)

	// big trees get a reduced set of cases (cost is nodes x cases)
	big := nn > 250
	if big {
		c.Feature("big-tree-reduced-cases")
	}
	nB, nC := 3, 2
	if big {
		nB, nC = 1, 1
	}

	// A. all-continue in the four documented forms and one mixed form
	for i, name := range pureForms {
		if big && i != t%len(pureForms) {
			x.pcase++
			continue
		}
		x.single(pureForm(name), &policy{}, false)
	}
	x.single(mixedForm(rt.Derive(1)), &policy{}, false)
	if tr.hasDesc {
		c.DontCare("description-not-a-child")
		x.single(pureForm("generic"), &policy{}, true)
		x.single(pureForm("kindmap"), randomPolicy(rt.Derive(2), tr.nodes, rt.Range(10, 100)), true)
	} else {
		x.pcase += 2
	}

	// B. random policies, density 1-10 %
	for i := 0; i < nB; i++ {
		r := rt.Derive(3, uint64(i))
		x.single(x.randomForm(r), randomPolicy(r, tr.nodes, r.Range(10, 100)), false)
	}

	// C. parallel visitors with independent policies
	for i := 0; i < nC; i++ {
		r := rt.Derive(4, uint64(i))
		k := r.Range(1, 5)
		if big {
			k = r.Range(2, 3)
		}
		var forms []*formSpec
		var pols []*policy
		for v := 0; v < k; v++ {
			forms = append(forms, x.randomForm(r))
			if r.Chance(25) {
				pols = append(pols, &policy{})
			} else {
				pols = append(pols, randomPolicy(r, tr.nodes, r.Range(10, 100)))
			}
		}
		x.parallel(forms, pols)
	}

	// D. one skip / one break at (node, phase) positions: every position of
	// small trees (one tree in four), two random positions otherwise
	withLeave := []string{"kind-enter-leave", "generic", "kindmap"}
	enumerate := nn <= 40 && t%4 == 0
	if enumerate {
		c.Feature("enumerated-tree")
		for ord := 0; ord < nn; ord++ {
			for ph := walk.Enter; ph <= walk.Leave; ph++ {
				for _, a := range []walk.Action{walk.Skip, walk.Break} {
					form := pureForms[(ord+int(a))%len(pureForms)]
					if ph == walk.Leave {
						form = withLeave[(ord+int(a))%len(withLeave)]
					}
					x.single(pureForm(form), singlePolicy(tr.nodes, ord, ph, a), false)
				}
			}
		}
	} else {
		for i := 0; i < 2; i++ {
			r := rt.Derive(5, uint64(i))
			ph := walk.Phase(r.Intn(2))
			form := pureForms[r.Intn(len(pureForms))]
			if ph == walk.Leave {
				form = withLeave[r.Intn(len(withLeave))]
			}
			x.single(pureForm(form), singlePolicy(tr.nodes, r.Intn(nn), ph, walk.Action(1+r.Intn(2))), false)
		}
	}

	// E. type tracking
	if tr.sch == nil {
		return
	}
	x.typed(pureForm("generic"), &policy{})
	if !big {
		x.typed(pureForm("kind"), &policy{})
	} else {
		x.pcase++
	}
	for i := 0; i < nC; i++ {
		r := rt.Derive(6, uint64(i))
		x.typed(x.randomForm(r), randomPolicy(r, tr.nodes, r.Range(10, 100)))
	}
	{
		r := rt.Derive(7)
		k := r.Range(1, 4)
		var forms []*formSpec
		var pols []*policy
		for v := 0; v < k; v++ {
			forms = append(forms, x.randomForm(r))
			pols = append(pols, randomPolicy(r, tr.nodes, r.Range(0, 100)))
		}
		x.typedParallel(forms, pols)
	}
	if enumerate {
		for ord := 0; ord < nn; ord++ {
			x.typed(pureForm(pureForms[ord%len(pureForms)]), singlePolicy(tr.nodes, ord, walk.Enter, walk.Skip))
		}
	}
}

func (x *runner) randomForm(r *core.RNG) *formSpec {
	if r.Chance(30) {
		return mixedForm(r)
	}
	return pureForm(pureForms[r.Intn(len(pureForms))])
}

// descKeyMap is the library's key table plus Description as first child of
// the definitions that carry one (Visit's keyMap parameter).
func descKeyMap() visitor.KeyMap {
	km := visitor.KeyMap{}
	for k, v := range visitor.QueryDocumentKeys {
		km[k] = append([]string{}, v...)
	}
	for d := range expectedTableDiffs {
		if i := strings.Index(d, ".Description:"); i > 0 {
			km[d[:i]] = append([]string{"Description"}, km[d[:i]]...)
		}
	}
	return km
}

// checkSeq compares one observed sequence with the reference and applies the laws.
func (x *runner) checkSeq(f *formSpec, exp []walk.Event, got []obs, seqSig string, wo *walk.Options, what map[string]interface{}) (ok bool) {
	c := x.c
	limit := firstSkipOnLeave(got)
	if limit >= 0 {
		c.DontCare("skip-on-leave")
		if x.tr.compareSeq(f, exp, got, -1, seqSig) == nil {
			c.Feature("skip-on-leave:observed-no-effect")
		} else {
			c.Feature("skip-on-leave:observed-other")
		}
	}
	for i := range got {
		if got[i].Phase == walk.Leave {
			c.DontCare("path-on-leave")
			break
		}
	}
	ok = true
	if m := x.tr.compareSeq(f, exp, got, limit, seqSig); m != nil {
		x.report(m, what)
		ok = false
	}
	if m := x.tr.laws(got); m != nil {
		x.report(m, what)
		ok = false
	}
	return ok
}

func (x *runner) single(f *formSpec, pol *policy, withDesc bool) {
	if !x.begin() {
		return
	}
	c, tr := x.c, x.tr
	what := map[string]interface{}{"mode": "single", "form": f.describe(), "policy": pol.desc}
	var km visitor.KeyMap
	if withDesc {
		km = descKeyMap()
		what["mode"] = "single+description-keymap"
	}
	pf := policyFn([]*policy{pol})
	rec := &recorder{policy: pf}
	var res interface{}
	if x.guard(what, f, pol, func() { res = visitor.Visit(tr.root, f.options(rec), km) }) {
		c.Eval(1)
		return
	}
	c.Eval(1)
	c.Feature("mode:" + what["mode"].(string))
	c.Feature("form:" + f.Name)
	x.countActions(pol)
	x.nontrivial(what["mode"].(string), []*formSpec{f}, []*policy{pol}, false)
	if res != nil {
		c.Feature("visit-result-non-nil")
	}
	wo := &walk.Options{Descriptions: withDesc, Visible: f.visible}
	exp := walk.Walk(tr.root, pf, 0, wo)
	if len(rec.bad) > 0 {
		x.report(&mismatch{"seq:" + f.Name, "callback received something that is not an ast.Node: " + rec.bad[0], nil}, what)
	}
	x.checkSeq(f, exp, rec.evs, "seq:"+f.Name, wo, what)
	x.checkUntouched(what)
	if pol.hasAction() {
		c.Sample("single", map[string]interface{}{"text": clip(tr.text, 200), "form": f.Name, "policy": clip(pol.desc, 100), "events": len(rec.evs)})
	}
}

func (x *runner) parallel(forms []*formSpec, pols []*policy) {
	if !x.begin() {
		return
	}
	c, tr := x.c, x.tr
	k := len(forms)
	var fd, pd []string
	for i := range forms {
		fd = append(fd, forms[i].describe())
		pd = append(pd, pols[i].desc)
	}
	what := map[string]interface{}{"mode": "parallel", "forms": fd, "policies": pd}
	pf := policyFn(pols)
	recs := make([]*recorder, k)
	opts := make([]*visitor.VisitorOptions, k)
	for i := range forms {
		recs[i] = &recorder{idx: i, policy: pf}
		opts[i] = forms[i].options(recs[i])
	}
	if c.Guard("panic", what, func() { visitor.Visit(tr.root, visitor.VisitInParallel(opts...), nil) }) {
		return
	}
	c.Eval(1)
	c.Feature(fmt.Sprintf("mode:parallel-%d", k))
	x.nontrivial("parallel", forms, pols, false)
	for i := range forms {
		x.countActions(pols[i])
		w := map[string]interface{}{"visitor": i}
		for kk, v := range what {
			w[kk] = v
		}
		wo := &walk.Options{Visible: forms[i].visible}
		exp := walk.Walk(tr.root, pf, i, wo)
		alone := &recorder{idx: i, policy: pf}
		if x.guard(w, forms[i], pols[i], func() { visitor.Visit(tr.root, forms[i].options(alone), nil) }) {
			c.Eval(1)
			continue
		}
		c.Eval(1)
		x.checkSeq(forms[i], exp, alone.evs, "seq:"+forms[i].Name, wo, w)
		// "Several visitors run in parallel each observe the event sequence
		// they would observe alone" holds for EVERY policy, also one that
		// answers skip on leave: whatever that answer does alone (it has no
		// effect), it must do in parallel. (Correction by the lead: the first
		// version stopped this comparison at the first skip-on-leave, which hid
		// a seeded change that silences a parallel visitor after such an answer.)
		if m := tr.sameObserved(alone.evs, recs[i].evs, -1); m != nil {
			x.report(m, w)
		}
		x.checkSeq(forms[i], exp, recs[i].evs, "parallel", wo, w)
	}
	x.checkUntouched(what)
	c.Sample("parallel", map[string]interface{}{"text": clip(tr.text, 200), "visitors": k, "policies": clip(strings.Join(pd, " | "), 160)})
}

// ---------------------------------------------------------------------------
// type tracking

// trackedKinds are the kinds for which TypeInfo.Enter pushes state (used only
// to make the D19 signature precise).
var trackedKinds = map[string]bool{"SelectionSet": true, "Field": true, "Directive": true, "OperationDefinition": true, "InlineFragment": true,
	"FragmentDefinition": true, "VariableDefinition": true, "Argument": true, "ListValue": true, "ObjectField": true}

type typeMismatch struct {
	index int
	class string // "unknown-directive-arg" | "other"
	msg   string
}

func (x *runner) typeMismatches(got []obs) []typeMismatch {
	var out []typeMismatch
	tr := x.tr
	for i := range got {
		g := &got[i]
		exp := tr.types[g.Node]
		if exp == nil || g.TI == nil {
			out = append(out, typeMismatch{i, "other", "no type sample / unknown node"})
			continue
		}
		if g.TI.typedNil {
			// a getter returned a non-nil interface that holds a nil pointer:
			// not a type. Known class: operations whose root type the schema lacks.
			class := "other"
			if tr.noRoot[g.Node] && (exp.Type == "" || exp.ParentType == "") {
				class = "typed-nil-root"
			}
			out = append(out, typeMismatch{i, class, fmt.Sprintf("at index %d (%s %s): Type()/ParentType() returned a non-nil interface holding a nil pointer (observed, nil normalised: %s)", i, g.Phase, tr.nodeName(g.Node), g.TI)})
		}
		var attrs []string
		add := func(name, e, o string) {
			if e != o {
				attrs = append(attrs, fmt.Sprintf("%s expected %q observed %q", name, e, o))
			}
		}
		add("Type", exp.Type, g.TI.Type)
		add("ParentType", exp.ParentType, g.TI.ParentType)
		add("FieldDef", exp.FieldDef, g.TI.FieldDef)
		add("Directive", exp.Directive, g.TI.Directive)
		nOuter := len(attrs)
		if tr.dcTypes[g.Node] {
			x.c.DontCare("typeinfo:variable-of-unknown-or-output-type")
		} else {
			add("InputType", exp.InputType, g.TI.InputType)
			add("Argument", exp.Argument, g.TI.Argument)
		}
		if len(attrs) == 0 {
			continue
		}
		class := "other"
		if nOuter == 0 && tr.unkDirOf[g.Node] && exp.Argument == "" && g.TI.Argument != "" {
			class = "unknown-directive-arg"
		}
		out = append(out, typeMismatch{i, class, fmt.Sprintf("at index %d (%s %s): %s", i, g.Phase, tr.nodeName(g.Node), strings.Join(attrs, "; "))})
	}
	return out
}

// reportTypeDefects files the precisely signed type-tracking defect classes.
func (x *runner) reportTypeDefects(ms []typeMismatch, what map[string]interface{}) {
	if u := firstOf(ms, "unknown-directive-arg"); u != nil {
		x.report(&mismatch{sigUnkDirArg, "argument of a directive the schema does not define is typed by the enclosing field's argument of the same name: " + u.msg, nil}, what)
	}
	if u := firstOf(ms, "typed-nil-root"); u != nil {
		x.report(&mismatch{sigTypedNil, "operation whose root type the schema does not have: " + u.msg, nil}, what)
	}
}

func firstOf(ms []typeMismatch, class string) *typeMismatch {
	for i := range ms {
		if ms[i].class == class {
			return &ms[i]
		}
	}
	return nil
}

func (x *runner) runTyped(f *formSpec, pol *policy, what map[string]interface{}) (*recorder, bool) {
	tr := x.tr
	ti := graphql.NewTypeInfo(&graphql.TypeInfoConfig{Schema: &tr.sch.schema})
	rec := &recorder{policy: policyFn([]*policy{pol}), ti: ti, sch: tr.sch}
	if x.guard(what, f, pol, func() { visitor.Visit(tr.root, visitor.VisitWithTypeInfo(ti, f.options(rec)), nil) }) {
		x.c.Eval(1)
		return nil, false
	}
	x.c.Eval(1)
	return rec, true
}

func (x *runner) typed(f *formSpec, pol *policy) {
	if !x.begin() {
		return
	}
	c, tr := x.c, x.tr
	what := map[string]interface{}{"mode": "typeinfo", "schema": tr.sch.model.Name, "form": f.describe(), "policy": pol.desc}
	rec, ok := x.runTyped(f, pol, what)
	if !ok {
		return
	}
	c.Feature("mode:typeinfo")
	c.Feature("form:" + f.Name)
	x.countActions(pol)
	x.nontrivial("typeinfo:"+tr.sch.model.Name, []*formSpec{f}, []*policy{pol}, true)
	pf := policyFn([]*policy{pol})
	wo := &walk.Options{Visible: f.visible}
	x.checkSeq(f, walk.Walk(tr.root, pf, 0, wo), rec.evs, "seq:"+f.Name, wo, what)
	ms := x.typeMismatches(rec.evs)
	c.FeatureN("typeinfo-samples", int64(len(rec.evs)))
	x.reportTypeDefects(ms, what)
	if o := firstOf(ms, "other"); o != nil {
		sig := "typeinfo"
		// D19 predicate: a skip was answered on enter of a node TypeInfo tracks
		// before the mismatch, and the same case with skips turned into
		// continue shows no mismatch.
		skipped := ""
		for j := 0; j < o.index && j < len(rec.evs); j++ {
			if e := &rec.evs[j]; e.Phase == walk.Enter && e.Ret == walk.Skip && trackedKinds[e.Kind] {
				skipped = tr.nodeName(e.Node)
				break
			}
		}
		if skipped != "" {
			if rec2, ok := x.runTyped(f, pol.withoutEnterSkips(), what); ok && firstOf(x.typeMismatches(rec2.evs), "other") == nil {
				sig = sigD19
				what["first_skipped_tracked_node"] = skipped
			}
		}
		x.report(&mismatch{sig, "type tracking reports other types than apply: " + o.msg, nil}, what)
	}
	x.checkUntouched(what)
	if pol.hasAction() {
		c.Sample("typeinfo", map[string]interface{}{"text": clip(tr.text, 200), "schema": tr.sch.model.Name, "policy": clip(pol.desc, 100)})
	}
}

// typedParallel is the arrangement the validator uses:
// VisitWithTypeInfo(ti, VisitInParallel(v...)).
func (x *runner) typedParallel(forms []*formSpec, pols []*policy) {
	if !x.begin() {
		return
	}
	c, tr := x.c, x.tr
	var fd, pd []string
	for i := range forms {
		fd = append(fd, forms[i].describe())
		pd = append(pd, pols[i].desc)
	}
	what := map[string]interface{}{"mode": "typeinfo(parallel)", "schema": tr.sch.model.Name, "forms": fd, "policies": pd}
	ti := graphql.NewTypeInfo(&graphql.TypeInfoConfig{Schema: &tr.sch.schema})
	pf := policyFn(pols)
	recs := make([]*recorder, len(forms))
	opts := make([]*visitor.VisitorOptions, len(forms))
	for i := range forms {
		recs[i] = &recorder{idx: i, policy: pf, ti: ti, sch: tr.sch}
		opts[i] = forms[i].options(recs[i])
	}
	if c.Guard("panic", what, func() {
		visitor.Visit(tr.root, visitor.VisitWithTypeInfo(ti, visitor.VisitInParallel(opts...)), nil)
	}) {
		return
	}
	c.Eval(1)
	c.Feature(fmt.Sprintf("mode:typeinfo(parallel-%d)", len(forms)))
	x.nontrivial("typeinfo(parallel):"+tr.sch.model.Name, forms, pols, true)
	for i := range forms {
		x.countActions(pols[i])
		w := map[string]interface{}{"visitor": i}
		for kk, v := range what {
			w[kk] = v
		}
		wo := &walk.Options{Visible: forms[i].visible}
		x.checkSeq(forms[i], walk.Walk(tr.root, pf, i, wo), recs[i].evs, "parallel", wo, w)
		ms := x.typeMismatches(recs[i].evs)
		c.FeatureN("typeinfo-samples", int64(len(recs[i].evs)))
		x.reportTypeDefects(ms, w)
		if o := firstOf(ms, "other"); o != nil {
			x.report(&mismatch{"typeinfo", "type tracking reports other types than apply: " + o.msg, nil}, w)
		}
	}
	x.checkUntouched(what)
}
