package c14

import (
	"reflect"
	"strconv"
	"strings"

	"github.com/graphql-go/graphql/language/ast"
	"github.com/graphql-go/graphql/language/source"
)

// snapshot is a deep dump of an AST: every field of every struct reachable
// from root (including the fields the visitor never looks at: Loc,
// Description, Operation, ...), with the address of every pointer, so that
// both a changed value and a replaced node show up. Generic over reflection
// so that it cannot share a blind spot with the reference's child table.
func snapshot(root ast.Node) string {
	var b strings.Builder
	dumpValue(&b, reflect.ValueOf(root), 0)
	return b.String()
}

// snapshotHash is the FNV-1a hash of snapshot(root) computed without
// building the text (the per-case check; the text is rebuilt on a mismatch).
func snapshotHash(root ast.Node) uint64 {
	h := hashSink(14695981039346656037)
	dumpValue(&h, reflect.ValueOf(root), 0)
	return uint64(h)
}

type sink interface {
	WriteString(string) (int, error)
	WriteByte(byte) error
}

type hashSink uint64

func (h *hashSink) WriteString(s string) (int, error) {
	x := uint64(*h)
	for i := 0; i < len(s); i++ {
		x ^= uint64(s[i])
		x *= 1099511628211
	}
	*h = hashSink(x)
	return len(s), nil
}

func (h *hashSink) WriteByte(c byte) error {
	*h = hashSink((uint64(*h) ^ uint64(c)) * 1099511628211)
	return nil
}

var sourceType = reflect.TypeOf((*source.Source)(nil))

func dumpValue(b sink, v reflect.Value, depth int) {
	if depth > 200 {
		b.WriteString("<deep>")
		return
	}
	if !v.IsValid() {
		b.WriteString("<invalid>")
		return
	}
	var num [24]byte
	switch v.Kind() {
	case reflect.Interface:
		if v.IsNil() {
			b.WriteString("nil")
			return
		}
		dumpValue(b, v.Elem(), depth)
	case reflect.Ptr:
		if v.IsNil() {
			b.WriteString("nil")
			return
		}
		b.WriteByte('&')
		b.WriteString(string(strconv.AppendUint(num[:0], uint64(v.Pointer()), 16)))
		if v.Type() == sourceType {
			return // identity only: the source text is not part of the tree
		}
		dumpValue(b, v.Elem(), depth+1)
	case reflect.Struct:
		t := v.Type()
		b.WriteString(t.Name())
		b.WriteByte('{')
		for i := 0; i < v.NumField(); i++ {
			if i > 0 {
				b.WriteByte(' ')
			}
			b.WriteString(t.Field(i).Name)
			b.WriteByte(':')
			dumpValue(b, v.Field(i), depth+1)
		}
		b.WriteByte('}')
	case reflect.Slice:
		if v.IsNil() {
			b.WriteString("nil[]")
			return
		}
		b.WriteByte('[')
		b.WriteString(string(strconv.AppendInt(num[:0], int64(v.Len()), 10)))
		b.WriteByte(':')
		for i := 0; i < v.Len(); i++ {
			if i > 0 {
				b.WriteByte(' ')
			}
			dumpValue(b, v.Index(i), depth+1)
		}
		b.WriteByte(']')
	case reflect.String:
		b.WriteString(strconv.Quote(v.String()))
	case reflect.Bool:
		b.WriteString(strconv.FormatBool(v.Bool()))
	case reflect.Int, reflect.Int64, reflect.Int32:
		b.WriteString(string(strconv.AppendInt(num[:0], v.Int(), 10)))
	default:
		b.WriteString("<" + v.Kind().String() + ">")
	}
}

// firstDiff returns a short window around the first differing byte.
func firstDiff(a, b string) (int, string, string) {
	n := len(a)
	if len(b) < n {
		n = len(b)
	}
	i := 0
	for i < n && a[i] == b[i] {
		i++
	}
	lo := i - 60
	if lo < 0 {
		lo = 0
	}
	cut := func(s string) string {
		hi := i + 60
		if hi > len(s) {
			hi = len(s)
		}
		if lo > len(s) {
			return ""
		}
		return s[lo:hi]
	}
	return i, cut(a), cut(b)
}
