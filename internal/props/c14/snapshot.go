package c14

import (
	"fmt"
	"reflect"
	"strings"

	"github.com/graphql-go/graphql/language/ast"
	"github.com/graphql-go/graphql/language/source"
)

// snapshot is a deep dump of an AST: every field of every struct reachable
// from root (including the fields the visitor never looks at: Loc,
// Description, Operation, ...), with the address of every pointer, so that
// both a changed value and a replaced node show up. Generic over reflection
// so that it cannot share a blind spot with the reference's child table.
func snapshot(root ast.Node) string {
	var b strings.Builder
	dumpValue(&b, reflect.ValueOf(root), 0)
	return b.String()
}

var sourceType = reflect.TypeOf((*source.Source)(nil))

func dumpValue(b *strings.Builder, v reflect.Value, depth int) {
	if depth > 200 {
		b.WriteString("<deep>")
		return
	}
	if !v.IsValid() {
		b.WriteString("<invalid>")
		return
	}
	switch v.Kind() {
	case reflect.Interface:
		if v.IsNil() {
			b.WriteString("nil")
			return
		}
		dumpValue(b, v.Elem(), depth)
	case reflect.Ptr:
		if v.IsNil() {
			b.WriteString("nil")
			return
		}
		fmt.Fprintf(b, "&%x", v.Pointer())
		if v.Type() == sourceType {
			return // identity only: the source text is not part of the tree
		}
		dumpValue(b, v.Elem(), depth+1)
	case reflect.Struct:
		b.WriteString(v.Type().Name())
		b.WriteByte('{')
		for i := 0; i < v.NumField(); i++ {
			if i > 0 {
				b.WriteByte(' ')
			}
			b.WriteString(v.Type().Field(i).Name)
			b.WriteByte(':')
			dumpValue(b, v.Field(i), depth+1)
		}
		b.WriteByte('}')
	case reflect.Slice:
		if v.IsNil() {
			b.WriteString("nil[]")
			return
		}
		fmt.Fprintf(b, "[%d:", v.Len())
		for i := 0; i < v.Len(); i++ {
			if i > 0 {
				b.WriteByte(' ')
			}
			dumpValue(b, v.Index(i), depth+1)
		}
		b.WriteByte(']')
	case reflect.String:
		fmt.Fprintf(b, "%q", v.String())
	case reflect.Bool:
		fmt.Fprintf(b, "%v", v.Bool())
	case reflect.Int, reflect.Int64, reflect.Int32:
		fmt.Fprintf(b, "%d", v.Int())
	default:
		fmt.Fprintf(b, "<%s>", v.Kind())
	}
}

// firstDiff returns a short window around the first differing byte.
func firstDiff(a, b string) (int, string, string) {
	n := len(a)
	if len(b) < n {
		n = len(b)
	}
	i := 0
	for i < n && a[i] == b[i] {
		i++
	}
	lo := i - 60
	if lo < 0 {
		lo = 0
	}
	cut := func(s string) string {
		hi := i + 60
		if hi > len(s) {
			hi = len(s)
		}
		if lo > len(s) {
			return ""
		}
		return s[lo:hi]
	}
	return i, cut(a), cut(b)
}
