package c14

import (
	"strings"

	"github.com/graphql-go/graphql/language/ast"

	"verif/internal/ref/walk"
)

// The reference type environment: a plain recursive descent over the document
// that carries, by value, the schema types that apply at each position. It is
// computed from the schema MODEL (schemas.go), never from the library schema.
//
// What "applies" (from the GraphQL specification, sections 5.3-5.8, and the
// getter documentation in type_info.go):
//
//	Type        operation -> its root type; field -> the type of the field
//	            definition; inline fragment / fragment definition -> the type
//	            condition (inherited when an inline fragment has none);
//	            inherited by everything below until the next such node
//	ParentType  selection set -> the named composite type of Type; inherited
//	FieldDef    field -> its definition in ParentType (with the meta fields
//	            __typename, and __schema/__type on the query root); inherited
//	Directive   directive -> the schema's directive of that name; only inside
//	            the directive
//	Argument    argument -> the definition of that argument in the enclosing
//	            DIRECTIVE when the argument belongs to a directive, otherwise
//	            in the enclosing field; only inside the argument
//	InputType   variable definition -> the declared type; argument -> the
//	            argument's type; list value -> the item type of the list type
//	            expected there (the library reports the ITEM type at the
//	            ListValue node itself: convention, as in graphql-js); object
//	            field -> the type of that input field (the expected type may be
//	            wrapped in lists: a single value coerces to a list of one);
//	            inherited below; none outside these
//
// A nil/absent schema element gives "" and is inherited as such.
type tenv struct {
	typ, parent, input, fieldDef, directive, argument string
	fieldArgs                                         []mArg // arguments of the enclosing field definition
	dirArgs                                           []mArg
	inDirective                                       bool // inside a Directive node (known or not)
	dcInput                                           bool // InputType is don't-care below (see README)
	noRoot                                            bool // inside an operation whose root type the schema does not have
}

type typeComputer struct {
	s        *mSchema
	out      map[ast.Node]*tsnap
	dc       map[ast.Node]bool // InputType/Argument not compared at this node
	unkDirOf map[ast.Node]bool // node is (inside) an argument of a directive the schema does not define
	noRoot   map[ast.Node]bool // node is inside an operation whose root type the schema does not have
}

func computeTypes(s *mSchema, root ast.Node) *typeComputer {
	c := &typeComputer{s: s, out: map[ast.Node]*tsnap{}, dc: map[ast.Node]bool{}, unkDirOf: map[ast.Node]bool{}, noRoot: map[ast.Node]bool{}}
	c.visit(root, tenv{}, false)
	return c
}

func (c *typeComputer) composite(name string) bool {
	if strings.HasPrefix(name, "__") {
		return true // introspection object types (only __typename is generated below them)
	}
	switch c.s.typeKind(name) {
	case "OBJECT", "INTERFACE", "UNION":
		return true
	}
	return false
}

func (c *typeComputer) fieldDef(parent, name string) *mField {
	if parent == "" {
		return nil
	}
	if name == "__typename" {
		return &mField{Name: "__typename", Type: "String!"}
	}
	if parent == c.s.Query {
		if name == "__schema" {
			return &mField{Name: "__schema", Type: "__Schema!"}
		}
		if name == "__type" {
			return &mField{Name: "__type", Type: "__Type", Args: []mArg{{"name", "String!"}}}
		}
	}
	t := c.s.typ(parent)
	if t == nil || (t.Kind != "OBJECT" && t.Kind != "INTERFACE") {
		return nil
	}
	for i := range t.Fields {
		if t.Fields[i].Name == name {
			return &t.Fields[i]
		}
	}
	return nil
}

// typeFromAST renders a type reference; ok is false when its named type is
// not defined by the schema.
func (c *typeComputer) typeFromAST(t ast.Type) (s string, named string, ok bool) {
	switch t := t.(type) {
	case *ast.Named:
		if t.Name == nil {
			return "", "", false
		}
		n := t.Name.Value
		return n, n, c.s.typeKind(n) != ""
	case *ast.List:
		in, n, ok := c.typeFromAST(t.Type)
		return "[" + in + "]", n, ok
	case *ast.NonNull:
		in, n, ok := c.typeFromAST(t.Type)
		return in + "!", n, ok
	}
	return "", "", false
}

func nameOf(n *ast.Name) string {
	if n == nil {
		return ""
	}
	return n.Value
}

func findArg(as []mArg, name string) *mArg {
	for i := range as {
		if as[i].Name == name {
			return &as[i]
		}
	}
	return nil
}

func (c *typeComputer) visit(n ast.Node, e tenv, unkDir bool) {
	switch n := n.(type) {
	case *ast.OperationDefinition:
		switch n.Operation {
		case ast.OperationTypeQuery:
			e.typ = c.s.Query
		case ast.OperationTypeMutation:
			e.typ = c.s.Mutation
		case ast.OperationTypeSubscription:
			e.typ = c.s.Subscription
		}
		e.noRoot = e.typ == ""
	case *ast.SelectionSet:
		e.parent = ""
		if nm := namedOf(e.typ); nm != "" && c.composite(nm) {
			e.parent = nm
		}
	case *ast.Field:
		fd := c.fieldDef(e.parent, nameOf(n.Name))
		e.fieldDef, e.typ, e.fieldArgs = "", "", nil
		if fd != nil {
			e.fieldDef, e.typ, e.fieldArgs = fd.Name+":"+fd.Type, fd.Type, fd.Args
		}
	case *ast.InlineFragment:
		if n.TypeCondition != nil {
			e.typ = ""
			if nm := nameOf(n.TypeCondition.Name); c.s.typeKind(nm) != "" {
				e.typ = nm
			}
		} else {
			// Correction (lead): without a type condition the fragment applies
			// to the NAMED type of the enclosing position (spec: the type in
			// scope of a selection set is always a named composite type); the
			// first version mirrored the library, which pushed the wrapped type.
			e.typ = strings.Trim(e.typ, "[]!")
		}
	case *ast.FragmentDefinition:
		e.typ = ""
		if n.TypeCondition != nil {
			if nm := nameOf(n.TypeCondition.Name); c.s.typeKind(nm) != "" {
				e.typ = nm
			}
		}
	case *ast.Directive:
		e.inDirective, e.directive, e.dirArgs = true, "", nil
		if d := c.s.dir(nameOf(n.Name)); d != nil {
			e.directive, e.dirArgs = d.Name, d.Args
		}
	case *ast.VariableDefinition:
		s, named, ok := c.typeFromAST(n.Type)
		e.input = ""
		switch k := c.s.typeKind(named); {
		case !ok:
			// unknown named type: nothing applies; when it is wrapped the library
			// reports a wrapper around nothing - don't-care
			e.dcInput = s != named
		case k == "OBJECT" || k == "INTERFACE" || k == "UNION":
			e.dcInput = true // an output type declared for a variable: invalid, open
		default:
			e.input = s
		}
	case *ast.Argument:
		var a *mArg
		if e.inDirective {
			a = findArg(e.dirArgs, nameOf(n.Name))
			unkDir = e.directive == ""
		} else {
			a = findArg(e.fieldArgs, nameOf(n.Name))
		}
		e.argument, e.input = "", ""
		if a != nil {
			e.argument, e.input = a.Name+":"+a.Type, a.Type
		}
	case *ast.ListValue:
		it, ok := elemOf(e.input)
		if !ok {
			it = ""
		}
		e.input = it
	case *ast.ObjectField:
		ft := ""
		if t := c.s.typ(namedOf(e.input)); t != nil && t.Kind == "INPUT" {
			for _, f := range t.Fields {
				if f.Name == nameOf(n.Name) {
					ft = f.Type
				}
			}
		}
		e.input = ft
	}
	c.out[n] = &tsnap{Type: e.typ, ParentType: e.parent, InputType: e.input, FieldDef: e.fieldDef, Directive: e.directive, Argument: e.argument}
	if e.dcInput {
		c.dc[n] = true
	}
	if unkDir {
		c.unkDirOf[n] = true
	}
	if e.noRoot {
		c.noRoot[n] = true
	}
	// Directive and Argument are single slots in the library that are cleared
	// on leave; here they simply do not extend beyond the node because the
	// environment is passed by value.
	below := e
	for _, ch := range walk.Children(n, nil) {
		if !ch.IsList {
			if ch.Node != nil {
				c.visit(ch.Node, below, unkDir)
			}
			continue
		}
		for _, x := range ch.List {
			c.visit(x, below, unkDir)
		}
	}
}
