package c14

import (
	"fmt"
	"strings"

	"verif/internal/core"
)

// Type-aware document generator over a schema model: mostly valid documents
// (so that the type tracking has something to report at every level) with a
// controlled share of unknown fields, arguments, directives, types and
// mis-shaped values (where tracking must report "nothing applies").

type typedGen struct {
	r *core.RNG
	s *mSchema
	b strings.Builder
}

func (g *typedGen) w(s string) { g.b.WriteString(s) }

func (g *typedGen) composites() []string {
	var out []string
	for _, t := range g.s.Types {
		if t.Kind == "OBJECT" || t.Kind == "INTERFACE" || t.Kind == "UNION" {
			out = append(out, t.Name)
		}
	}
	return out
}

func (g *typedGen) inputTypes() []string {
	out := []string{"Int", "String", "Boolean", "ID", "Float", "[Int!]", "[[Int]]", "String!"}
	for _, t := range g.s.Types {
		if t.Kind == "INPUT" || t.Kind == "ENUM" {
			out = append(out, t.Name, "["+t.Name+"!]", t.Name+"!")
		}
	}
	return out
}

func (g *typedGen) scalarLiteral(name string) string {
	switch name {
	case "Int":
		return fmt.Sprint(g.r.Range(-3, 99))
	case "Float":
		return fmt.Sprintf("%d.5", g.r.Intn(9))
	case "Boolean":
		return []string{"true", "false"}[g.r.Intn(2)]
	case "ID":
		return []string{`"id1"`, "7"}[g.r.Intn(2)]
	}
	return []string{`"s"`, `""`, `"a b"`}[g.r.Intn(3)]
}

func (g *typedGen) anyValue(depth int) {
	switch k := g.r.Intn(6); {
	case k == 0 && depth > 0:
		g.w("[")
		for i, n := 0, g.r.Intn(3); i < n; i++ {
			g.anyValue(depth - 1)
			g.w(" ")
		}
		g.w("]")
	case k == 1 && depth > 0:
		g.w("{")
		for i, n := 0, g.r.Intn(3); i < n; i++ {
			g.w([]string{"r", "n", "zz", "where", "eq"}[g.r.Intn(5)] + ": ")
			g.anyValue(depth - 1)
			g.w(" ")
		}
		g.w("}")
	case k == 2:
		g.w("ENUMISH")
	default:
		g.w(g.scalarLiteral([]string{"Int", "String", "Boolean", "Float"}[g.r.Intn(4)]))
	}
}

// value writes a literal for the type t (GraphQL notation; "" = unknown).
func (g *typedGen) value(t string, depth int, isConst bool) {
	if !isConst && g.r.Chance(12) {
		g.w(fmt.Sprintf("$v%d", g.r.Intn(3)))
		return
	}
	if t == "" || g.r.Chance(8) {
		g.anyValue(depth)
		return
	}
	if el, ok := elemOf(t); ok {
		if g.r.Chance(15) || depth <= 0 {
			g.value(el, depth-1, isConst) // a single value where a list is expected
			return
		}
		g.w("[")
		for i, n := 0, g.r.Intn(4); i < n; i++ {
			g.value(el, depth-1, isConst)
			g.w([]string{" ", ", "}[g.r.Intn(2)])
		}
		g.w("]")
		return
	}
	name := namedOf(t)
	mt := g.s.typ(name)
	switch {
	case mt != nil && mt.Kind == "ENUM":
		g.w(mt.Values[g.r.Intn(len(mt.Values))])
	case mt != nil && mt.Kind == "INPUT":
		g.w("{")
		for _, f := range mt.Fields {
			if depth <= 0 && namedOf(f.Type) == name {
				continue
			}
			if g.r.Chance(45) {
				g.w(f.Name + ": ")
				g.value(f.Type, depth-1, isConst)
				g.w(" ")
			}
		}
		if g.r.Chance(10) {
			g.w("zz: ")
			g.anyValue(1)
		}
		g.w("}")
	default:
		g.w(g.scalarLiteral(name))
	}
}

func (g *typedGen) arguments(declared []mArg, extra []mArg) {
	var parts []string
	emit := func(a mArg, ty string) {
		sub := &typedGen{r: g.r, s: g.s}
		sub.value(ty, 3, false)
		parts = append(parts, a.Name+": "+sub.b.String())
	}
	for _, a := range declared {
		if g.r.Chance(60) {
			emit(a, a.Type)
		}
	}
	// arguments the owner does not define (names of the enclosing field's
	// arguments included: an argument of a directive must not be typed by the field)
	for _, a := range extra {
		if g.r.Chance(25) {
			emit(a, a.Type)
		}
	}
	if g.r.Chance(8) {
		emit(mArg{Name: "zz"}, "")
	}
	if len(parts) > 0 {
		g.w("(" + strings.Join(parts, ", ") + ")")
	}
}

func (g *typedGen) directives(fieldArgs []mArg) {
	for g.r.Chance(22) {
		if g.r.Chance(75) && len(g.s.Dirs) > 0 {
			d := g.s.Dirs[g.r.Intn(len(g.s.Dirs))]
			g.w(" @" + d.Name)
			g.arguments(d.Args, nil)
		} else {
			g.w(" @" + []string{"unknown", "nope"}[g.r.Intn(2)])
			g.arguments(nil, append([]mArg{{"if", "Boolean!"}}, fieldArgs...))
		}
	}
}

func (g *typedGen) selectionSet(parent string, depth int, enclosingArgs []mArg) {
	g.w("{ ")
	mt := g.s.typ(parent)
	for i, n := 0, g.r.Range(1, 4); i < n; i++ {
		switch k := g.r.Intn(20); {
		case k < 13: // field
			var f *mField
			switch {
			case mt != nil && len(mt.Fields) > 0 && !g.r.Chance(10):
				f = &mt.Fields[g.r.Intn(len(mt.Fields))]
			case g.r.Chance(40):
				f = &mField{Name: "__typename", Type: "String!"}
			case parent == g.s.Query && g.r.Chance(30):
				if g.r.Bool() {
					f = &mField{Name: "__schema", Type: "__Schema!"}
				} else {
					f = &mField{Name: "__type", Type: "__Type", Args: []mArg{{"name", "String!"}}}
				}
			default:
				f = &mField{Name: []string{"nope", "zz", "name"}[g.r.Intn(3)]}
			}
			if g.r.Chance(20) {
				g.w([]string{"al", "x", "name"}[g.r.Intn(3)] + ": ")
			}
			g.w(f.Name)
			g.arguments(f.Args, nil)
			g.directives(f.Args)
			nm := namedOf(f.Type)
			isComp := false
			if t := g.s.typ(nm); t != nil && (t.Kind == "OBJECT" || t.Kind == "INTERFACE" || t.Kind == "UNION") {
				isComp = true
			}
			switch {
			case strings.HasPrefix(nm, "__") && nm != "__typename" && f.Type != "String!":
				g.w(" { __typename }")
			case isComp && depth > 1:
				g.w(" ")
				g.selectionSet(nm, depth-1, f.Args)
			case isComp:
				g.w(" { __typename }")
			case g.r.Chance(5) && depth > 1:
				g.w(" ")
				g.selectionSet(nm, depth-1, f.Args) // selection on a leaf / unknown field
			}
		case k < 15: // fragment spread
			g.w(fmt.Sprintf("...F%d", g.r.Intn(3)))
			g.directives(enclosingArgs)
		default: // inline fragment
			g.w("...")
			cond := parent
			if g.r.Chance(70) {
				cs := g.composites()
				switch {
				case g.r.Chance(8):
					cond = "Nope"
				case mt != nil && mt.Kind == "UNION" && g.r.Chance(70):
					cond = mt.Members[g.r.Intn(len(mt.Members))]
				default:
					cond = cs[g.r.Intn(len(cs))]
				}
				g.w(" on " + cond)
			}
			g.directives(enclosingArgs)
			g.w(" ")
			if depth > 1 {
				g.selectionSet(cond, depth-1, enclosingArgs)
			} else {
				g.w("{ __typename }")
			}
		}
		g.w([]string{" ", ", ", "\n"}[g.r.Intn(3)])
	}
	g.w("}")
}

// typedDoc returns the text of a random document over the model s.
func typedDoc(r *core.RNG, s *mSchema) string {
	var parts []string
	for i, n := 0, r.Range(1, 3); i < n; i++ {
		g := &typedGen{r: r.Derive(uint64(i)), s: s}
		depth := g.r.Range(2, 5)
		if g.r.Chance(70) || i == 0 {
			op, root := "query", s.Query
			switch k := g.r.Intn(10); {
			case k == 0:
				op, root = "mutation", s.Mutation
			case k == 1:
				op, root = "subscription", s.Subscription
			}
			if op == "query" && g.r.Chance(25) {
				g.selectionSet(root, depth, nil)
			} else {
				g.w(op)
				if g.r.Chance(60) {
					g.w(fmt.Sprintf(" Op%d", i))
				}
				if g.r.Chance(55) {
					g.w("(")
					its := g.inputTypes()
					for v, nv := 0, g.r.Range(1, 3); v < nv; v++ {
						ty := its[g.r.Intn(len(its))]
						switch k := g.r.Intn(25); {
						case k == 0:
							ty = "Nope"
						case k == 1:
							ty = "[Nope!]"
						case k == 2:
							ty = g.composites()[0] // an output type: invalid, don't-care
						}
						g.w(fmt.Sprintf("$v%d: %s", v, ty))
						if g.r.Chance(45) {
							g.w(" = ")
							g.value(ty, 3, true)
						}
						g.w(" ")
					}
					g.w(")")
				}
				g.directives(nil)
				g.w(" ")
				g.selectionSet(root, depth, nil)
			}
		} else {
			cs := g.composites()
			cond := cs[g.r.Intn(len(cs))]
			if g.r.Chance(6) {
				cond = "Nope"
			}
			g.w(fmt.Sprintf("fragment F%d on %s", g.r.Intn(3), cond))
			g.directives(nil)
			g.w(" ")
			g.selectionSet(cond, depth, nil)
		}
		parts = append(parts, g.b.String())
	}
	return strings.Join(parts, "\n")
}
