package c14

import (
	"fmt"
	"strings"

	"verif/internal/core"
)

// A small local generator of document TEXT (type-unaware): random executable
// documents and a few type-system definitions, nesting depth <= 6. It exists
// so that C14 does not depend on gen/gramdoc being finished; gramdoc documents
// are used in addition when that package works.

type tgen struct {
	r *core.RNG
	b strings.Builder
}

var genNames = []string{"a", "b", "c", "id", "name", "user", "friends", "x1", "_y", "on", "query", "type", "true_", "node", "edges", "Foo", "Bar", "T"}

func (g *tgen) name() string { return genNames[g.r.Intn(len(genNames))] }
func (g *tgen) w(s string)   { g.b.WriteString(s) }

func (g *tgen) value(depth int, isConst bool) {
	k := g.r.Intn(10)
	if depth <= 0 && k >= 8 {
		k = g.r.Intn(8)
	}
	switch k {
	case 0:
		if isConst {
			g.w("null0")
		} else {
			g.w("$" + g.name())
		}
	case 1:
		g.w(fmt.Sprint(g.r.Range(-5, 1000)))
	case 2:
		g.w(fmt.Sprintf("%d.%de%d", g.r.Intn(10), g.r.Intn(100), g.r.Range(-3, 3)))
	case 3:
		g.w(`"` + []string{"", "s", "a b", `q\"q`, `é\n`, "#no comment"}[g.r.Intn(6)] + `"`)
	case 4:
		g.w([]string{"true", "false"}[g.r.Intn(2)])
	case 5, 6, 7:
		g.w([]string{"RED", "GREEN", "nulL", "E_1"}[g.r.Intn(4)])
	case 8:
		g.w("[")
		for i, n := 0, g.r.Intn(4); i < n; i++ {
			g.value(depth-1, isConst)
			g.w([]string{" ", ", "}[g.r.Intn(2)])
		}
		g.w("]")
	case 9:
		g.w("{")
		for i, n := 0, g.r.Intn(4); i < n; i++ {
			g.w(g.name() + ": ")
			g.value(depth-1, isConst)
			g.w(" ")
		}
		g.w("}")
	}
}

func (g *tgen) arguments(depth int, isConst bool) {
	if !g.r.Chance(40) {
		return
	}
	g.w("(")
	for i, n := 0, g.r.Range(1, 3); i < n; i++ {
		g.w(g.name() + ": ")
		g.value(depth, isConst)
		g.w(" ")
	}
	g.w(")")
}

func (g *tgen) directives(depth int, isConst bool) {
	for g.r.Chance(25) {
		g.w(" @" + g.name())
		g.arguments(depth, isConst)
	}
}

func (g *tgen) typeRef(depth int) {
	switch {
	case depth > 0 && g.r.Chance(30):
		g.w("[")
		g.typeRef(depth - 1)
		g.w("]")
	default:
		g.w([]string{"Int", "String", "Foo", "Bar", "T"}[g.r.Intn(5)])
	}
	if g.r.Chance(30) {
		g.w("!")
	}
}

func (g *tgen) selectionSet(depth int) {
	g.w("{ ")
	for i, n := 0, g.r.Range(1, 4); i < n; i++ {
		switch k := g.r.Intn(10); {
		case k < 7:
			if g.r.Chance(20) {
				g.w(g.name() + ": ")
			}
			g.w(g.name())
			g.arguments(2, false)
			g.directives(2, false)
			if depth > 1 && g.r.Chance(45) {
				g.w(" ")
				g.selectionSet(depth - 1)
			}
		case k < 8:
			g.w("..." + []string{"F1", "F2", "Frag"}[g.r.Intn(3)])
			g.directives(2, false)
		default:
			g.w("...")
			if g.r.Chance(60) {
				g.w(" on " + []string{"Foo", "Bar", "T"}[g.r.Intn(3)])
			}
			g.directives(2, false)
			if depth > 1 {
				g.w(" ")
				g.selectionSet(depth - 1)
			} else {
				g.w(" { " + g.name() + " }")
			}
		}
		g.w([]string{" ", ", ", "\n"}[g.r.Intn(3)])
	}
	g.w("}")
}

func (g *tgen) executableDef(depth int) {
	switch k := g.r.Intn(10); {
	case k < 2:
		g.selectionSet(depth)
	case k < 7:
		g.w([]string{"query", "mutation", "subscription"}[g.r.Intn(3)])
		if g.r.Chance(70) {
			g.w(" " + g.name())
		}
		if g.r.Chance(50) {
			g.w("(")
			for i, n := 0, g.r.Range(1, 3); i < n; i++ {
				g.w("$" + g.name() + ": ")
				g.typeRef(2)
				if g.r.Chance(40) {
					g.w(" = ")
					g.value(2, true)
				}
				g.w(" ")
			}
			g.w(")")
		}
		g.directives(2, false)
		g.w(" ")
		g.selectionSet(depth)
	default:
		g.w("fragment " + []string{"F1", "F2", "Frag"}[g.r.Intn(3)] + " on " + []string{"Foo", "Bar", "T"}[g.r.Intn(3)])
		g.directives(2, false)
		g.w(" ")
		g.selectionSet(depth)
	}
}

func (g *tgen) description() {
	if g.r.Chance(25) {
		g.w(`"` + []string{"doc", "", "two words"}[g.r.Intn(3)] + `" `)
	}
}

func (g *tgen) inputValueDefs(open, close string) {
	g.w(open)
	for i, n := 0, g.r.Range(1, 3); i < n; i++ {
		g.description()
		g.w(g.name() + ": ")
		g.typeRef(2)
		if g.r.Chance(30) {
			g.w(" = ")
			g.value(2, true)
		}
		g.directives(1, true)
		g.w(" ")
	}
	g.w(close)
}

func (g *tgen) fieldDefs() {
	g.w(" { ")
	for i, n := 0, g.r.Range(1, 4); i < n; i++ {
		g.description()
		g.w(g.name())
		if g.r.Chance(40) {
			g.inputValueDefs("(", ")")
		}
		g.w(": ")
		g.typeRef(2)
		g.directives(1, true)
		g.w(" ")
	}
	g.w("}")
}

func (g *tgen) typeSystemDef() {
	if g.r.Chance(85) {
		g.description()
	}
	switch g.r.Intn(9) {
	case 0:
		g.b.Reset() // schema definitions take no description in this edition
		g.w("schema")
		g.directives(1, true)
		g.w(" { query: Foo ")
		if g.r.Bool() {
			g.w("mutation: Bar ")
		}
		g.w("}")
	case 1:
		g.w("scalar " + g.name())
		g.directives(1, true)
	case 2:
		g.w("type " + g.name())
		if g.r.Chance(50) {
			g.w(" implements Foo")
			if g.r.Bool() {
				g.w(" & Bar")
			}
		}
		g.directives(1, true)
		g.fieldDefs()
	case 3:
		g.w("interface " + g.name())
		g.directives(1, true)
		g.fieldDefs()
	case 4:
		g.w("union " + g.name())
		g.directives(1, true)
		g.w(" = Foo | Bar")
		if g.r.Bool() {
			g.w(" | T")
		}
	case 5:
		g.w("enum " + g.name())
		g.directives(1, true)
		g.w(" { ")
		for i, n := 0, g.r.Range(1, 3); i < n; i++ {
			g.description()
			g.w([]string{"RED", "GREEN", "E_1"}[g.r.Intn(3)])
			g.directives(1, true)
			g.w(" ")
		}
		g.w("}")
	case 6:
		g.w("input " + g.name())
		g.directives(1, true)
		g.inputValueDefs(" { ", "}")
	case 7:
		g.b.Reset()
		g.w("extend type " + g.name())
		g.directives(1, true)
		g.fieldDefs()
	case 8:
		g.w("directive @" + g.name())
		if g.r.Bool() {
			g.inputValueDefs("(", ")")
		}
		g.w(" on FIELD")
		if g.r.Bool() {
			g.w(" | QUERY | ENUM_VALUE")
		}
	}
}

// localDoc returns the text of a random document. typeSystem selects
// type-system definitions (a few executable ones may be mixed in).
func localDoc(r *core.RNG, typeSystem bool) string {
	var parts []string
	for i, n := 0, r.Range(1, 4); i < n; i++ {
		g := &tgen{r: r.Derive(uint64(i))}
		if typeSystem && !r.Chance(15) {
			g.typeSystemDef()
		} else {
			g.executableDef(r.Range(1, 6))
		}
		parts = append(parts, g.b.String())
	}
	return strings.Join(parts, "\n")
}
