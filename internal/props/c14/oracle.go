package c14

import (
	"fmt"
	"reflect"
	"strings"

	"github.com/graphql-go/graphql/language/ast"

	"verif/internal/ref/walk"
)

// tree is a parsed document plus what the reference knows about it.
type tree struct {
	text     string
	source   string // workload class
	root     ast.Node
	nodes    []ast.Node                 // document order (reference, all-continue, library key table)
	ord      map[ast.Node]int           // node -> ordinal
	encl     map[ast.Node][]ast.Node    // node -> real enclosing nodes, outermost first
	path     map[ast.Node][]interface{} // node -> the one path from the root to it (checked with walk.Resolve)
	hasDesc  bool
	sch      *builtSchema // type-aware documents only
	types    map[ast.Node]*tsnap
	dcTypes  map[ast.Node]bool
	unkDirOf map[ast.Node]bool
	noRoot   map[ast.Node]bool
}

func newTree(text, source string, root ast.Node) *tree {
	t := &tree{text: text, source: source, root: root, ord: map[ast.Node]int{}, encl: map[ast.Node][]ast.Node{}, path: map[ast.Node][]interface{}{}}
	for _, e := range walk.Walk(root, nil, 0, nil) {
		if e.Phase == walk.Enter {
			t.ord[e.Node] = len(t.nodes)
			t.nodes = append(t.nodes, e.Node)
		}
	}
	withDesc := 0
	for _, e := range walk.Walk(root, nil, 0, &walk.Options{Descriptions: true}) {
		if e.Phase == walk.Enter {
			withDesc++
			t.encl[e.Node] = e.Enclosing
			// a tree has exactly one path to each node: following a path from
			// the root reaches the node iff it is that path
			if walk.Resolve(root, e.Path, &walk.Options{Descriptions: true}) != e.Node {
				panic("reference self-check: Resolve(Path) does not reach the node")
			}
			t.path[e.Node] = e.Path
		}
	}
	t.hasDesc = withDesc != len(t.nodes)
	return t
}

func (t *tree) nodeName(n ast.Node) string {
	if isNilNode(n) {
		return "nil"
	}
	if o, ok := t.ord[n]; ok {
		return fmt.Sprintf("%s#%d", n.GetKind(), o)
	}
	return fmt.Sprintf("%s#?%p", n.GetKind(), n)
}

func (t *tree) nodeList(ns []ast.Node) string {
	var s []string
	for _, n := range ns {
		s = append(s, t.nodeName(n))
	}
	return "[" + strings.Join(s, " ") + "]"
}

func (t *tree) eventString(e *walk.Event, fn string) string {
	s := fmt.Sprintf("%s %s key=%v parent=%s anc=%s", e.Phase, t.nodeName(e.Node), e.Key, t.nodeName(e.Parent), t.nodeList(e.Ancestors))
	if e.Phase == walk.Enter {
		s += fmt.Sprintf(" path=%v", e.Path)
	}
	if fn != "" {
		s += " fn=" + fn
	}
	return s
}

func isNilNode(n ast.Node) bool {
	if n == nil {
		return true
	}
	v := reflect.ValueOf(n)
	return v.Kind() == reflect.Ptr && v.IsNil()
}

// mismatch is a failed comparison.
type mismatch struct {
	sig, msg string
	detail   map[string]interface{}
}

func sameNodes(a, b []ast.Node) bool {
	if len(a) != len(b) {
		return false
	}
	for i := range a {
		if isNilNode(a[i]) != isNilNode(b[i]) || (!isNilNode(a[i]) && a[i] != b[i]) {
			return false
		}
	}
	return true
}

func samePath(a, b []interface{}) bool {
	if len(a) != len(b) {
		return false
	}
	for i := range a {
		if a[i] != b[i] {
			return false
		}
	}
	return true
}

// compareSeq checks an observed sequence against the reference's. limit < 0
// means compare everything; otherwise only the first limit events are
// compared (don't-care suffix).
func (t *tree) compareSeq(f *formSpec, exp []walk.Event, got []obs, limit int, seqSig string) *mismatch {
	n := len(exp)
	if len(got) > n {
		n = len(got)
	}
	for i := 0; i < n; i++ {
		if limit >= 0 && i >= limit {
			return nil
		}
		fail := func(sig, what string) *mismatch {
			es, gs := "<end of sequence>", "<end of sequence>"
			if i < len(exp) {
				es = t.eventString(&exp[i], f.pick(exp[i].Kind, exp[i].Phase))
			}
			if i < len(got) {
				gs = t.eventString(&got[i].Event, got[i].Fn)
			}
			d := map[string]interface{}{"index": i, "expected": es, "observed": gs, "expected_len": len(exp), "observed_len": len(got)}
			return &mismatch{sig, fmt.Sprintf("%s at index %d: expected %s, observed %s", what, i, es, gs), d}
		}
		if i >= len(exp) || i >= len(got) {
			return fail(seqSig, "event sequence differs")
		}
		e, g := &exp[i], &got[i]
		switch {
		case e.Phase != g.Phase || e.Node != g.Node || e.Kind != g.Kind:
			return fail(seqSig, "event sequence differs")
		case f.pick(e.Kind, e.Phase) != g.Fn:
			return fail(seqSig, "wrong visit function")
		case e.Key != g.Key:
			return fail("key", "key differs")
		case isNilNode(e.Parent) != isNilNode(g.Parent) || (!isNilNode(e.Parent) && e.Parent != g.Parent):
			return fail("parent", "parent differs")
		case e.Phase == walk.Enter && !samePath(e.Path, g.Path):
			return fail("path", "path differs")
		case !sameNodes(e.Ancestors, g.Ancestors):
			return fail("ancestors", "ancestors differ")
		}
	}
	return nil
}

// laws checks the clauses of the property that hold whatever convention the
// library chose for Parent/Ancestors/Key:
//
//	A  the non-nil entries of Ancestors followed by a non-nil Parent are
//	   exactly the nodes enclosing the node, outermost first; a non-nil
//	   Parent is the immediately enclosing node;
//	P  on enter, following Path from the root reaches the node;
//	K  on enter, Key is the last step of Path (nil for the root);
//	L  on leave, Key, Parent and Ancestors equal those passed on enter.
func (t *tree) laws(got []obs) *mismatch {
	entered := map[ast.Node]*obs{}
	for i := range got {
		g := &got[i]
		encl, known := t.encl[g.Node]
		var gs string
		var d map[string]interface{}
		lazy := func() {
			gs = t.eventString(&g.Event, g.Fn)
			d = map[string]interface{}{"index": i, "observed": gs}
		}
		if !known {
			lazy()
			return &mismatch{"ancestors", fmt.Sprintf("event for a node that is not part of the tree at index %d: %s", i, gs), d}
		}
		{
			var chain []ast.Node
			for _, a := range g.Ancestors {
				if !isNilNode(a) {
					chain = append(chain, a)
				}
			}
			if !isNilNode(g.Parent) {
				chain = append(chain, g.Parent)
				if len(encl) == 0 || encl[len(encl)-1] != g.Parent {
					lazy()
					d["enclosing"] = t.nodeList(encl)
					return &mismatch{"parent", fmt.Sprintf("law A: Parent is not the immediately enclosing node at index %d: %s (enclosing %s)", i, gs, t.nodeList(encl)), d}
				}
			}
			if !sameNodes(chain, encl) {
				lazy()
				d["enclosing"] = t.nodeList(encl)
				return &mismatch{"ancestors", fmt.Sprintf("law A: Ancestors+Parent are not the enclosing nodes at index %d: %s (enclosing %s)", i, gs, t.nodeList(encl)), d}
			}
		}
		if g.Phase == walk.Enter {
			if !samePath(g.Path, t.path[g.Node]) {
				lazy()
				r := walk.Resolve(t.root, g.Path, &walk.Options{Descriptions: true})
				d["path_leads_to"] = t.nodeName(r)
				return &mismatch{"path", fmt.Sprintf("law P: Path does not lead to the node at index %d: %s (leads to %s)", i, gs, t.nodeName(r)), d}
			}
			var last interface{}
			if len(g.Path) > 0 {
				last = g.Path[len(g.Path)-1]
			}
			if g.Key != last {
				lazy()
				return &mismatch{"key", fmt.Sprintf("law K: Key is not the last step of Path at index %d: %s", i, gs), d}
			}
			entered[g.Node] = g
			continue
		}
		e := entered[g.Node]
		if e == nil {
			continue // the form has no enter function for this kind
		}
		sig, what := "", ""
		switch {
		case e.Key != g.Key:
			sig, what = "key", "Key on leave differs from enter"
		case isNilNode(e.Parent) != isNilNode(g.Parent) || (!isNilNode(e.Parent) && e.Parent != g.Parent):
			sig, what = "parent", "Parent on leave differs from enter"
		case !sameNodes(e.Ancestors, g.Ancestors):
			sig, what = "ancestors", "Ancestors on leave differ from enter"
		}
		if sig != "" {
			lazy()
			d["enter"] = t.eventString(&e.Event, e.Fn)
			return &mismatch{sig, fmt.Sprintf("law L: %s at index %d: %s", what, i, gs), d}
		}
	}
	return nil
}

// firstSkipOnLeave is the index just after the first observed event that
// answered skip on leave (-1 when there is none): the property is silent on
// what that does, so what follows is don't-care.
func firstSkipOnLeave(got []obs) int {
	for i := range got {
		if got[i].Phase == walk.Leave && got[i].Ret == walk.Skip {
			return i + 1
		}
	}
	return -1
}

// sameObserved compares two observed sequences of the same visitor (alone
// and in parallel) completely.
func (t *tree) sameObserved(alone, par []obs, limit int) *mismatch {
	n := len(alone)
	if len(par) > n {
		n = len(par)
	}
	for i := 0; i < n; i++ {
		if limit >= 0 && i >= limit {
			return nil
		}
		if i < len(alone) && i < len(par) {
			a, p := &alone[i], &par[i]
			if a.Phase == p.Phase && a.Node == p.Node && a.Fn == p.Fn && a.Key == p.Key && isNilNode(a.Parent) == isNilNode(p.Parent) &&
				(isNilNode(a.Parent) || a.Parent == p.Parent) && samePath(a.Path, p.Path) && sameNodes(a.Ancestors, p.Ancestors) {
				continue
			}
		}
		as, ps := "<end of sequence>", "<end of sequence>"
		if i < len(alone) {
			as = t.eventString(&alone[i].Event, alone[i].Fn)
		}
		if i < len(par) {
			ps = t.eventString(&par[i].Event, par[i].Fn)
		}
		{
			return &mismatch{"parallel", fmt.Sprintf("visitor observes a different sequence in parallel than alone, index %d: alone %s, parallel %s", i, as, ps),
				map[string]interface{}{"index": i, "alone": as, "parallel": ps, "alone_len": len(alone), "parallel_len": len(par)}}
		}
	}
	return nil
}
