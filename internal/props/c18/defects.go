package c18

import (
	"bytes"
	"strings"

	"verif/internal/build"
	"verif/internal/ref/syntax"
)

const (
	sigD6            = "relax:name-after-multibyte-ignored-run"
	sigEmptyAtOpen   = "defect:empty-list-reported-at-opening-token"
	sigDescription   = "defect:misplaced-description-reported-at-description"
	sigLexemeRunes   = "defect:lexical-error-offset-counts-code-points"
	sigImplementsAmp = "defect:lexical-error-after-implements-ampersand-swallowed"
	sigOpTypeEager   = "defect:operation-type-consumed-before-checked"
)

// prevToken returns the token before the reference's offending token.
func prevToken(src []byte, e *syntax.Error) (syntax.Token, bool) {
	toks, _ := syntax.Tokens(src)
	i := e.TokIndex - 1
	if i < 0 || i >= len(toks) {
		return syntax.Token{}, false
	}
	return toks[i], true
}

// withinToken: the library's first location points into [start,end).
func withinToken(src []byte, r synResult, start, end int) bool {
	if len(r.lib) == 0 {
		return false
	}
	ok := map[lc]bool{}
	for o := start; o < end; o++ {
		acceptable(src, o, ok)
	}
	return ok[lc{r.lib[0].Line, r.lib[0].Column}]
}

// neutraliseLexeme replaces every multi-byte character of src[start:end) by `x`.
func neutraliseLexeme(src []byte, start, end int) []byte {
	out := append([]byte{}, src[:start]...)
	for i := start; i < end; {
		b := src[i]
		if b < 0x80 {
			out = append(out, b)
			i++
			continue
		}
		w := 1
		for i+w < end && src[i+w]&0xC0 == 0x80 {
			w++
		}
		out = append(out, 'x')
		i += w
	}
	return append(out, src[end:]...)
}

// classifySyntax attributes a syntax-location mismatch to a known defect
// class. Every class has an INPUT predicate (on the text and the reference's
// analysis of it) and a relaxation that mirrors the one defective mechanism;
// the mismatch is attributed only if it vanishes under the relaxation.
func (k *ck) classifySyntax(env *build.Env, src []byte, entry string, r synResult) string {
	return k.classifySyntaxDepth(env, src, entry, r, 0)
}

// explained: the relaxed text shows no mismatch, or only one that another
// class explains (classes combine: the neutralised input is re-analysed).
func (k *ck) explained(env *build.Env, n []byte, entry string, depth int) bool {
	r2 := k.judgeSyntax(env, n, entry)
	if r2.skipped != "" {
		return false
	}
	return r2.sig == "" || (depth < 3 && k.classifySyntaxDepth(env, n, entry, r2, depth+1) != "")
}

func (k *ck) classifySyntaxDepth(env *build.Env, src []byte, entry string, r synResult, depth int) string {
	e := r.refErr
	// (4) D6 first (the one class that is a recorded finding; the others are
	// repaired defects whose signatures only name a mismatch that came back):
	// a Name token or the malformed lexeme directly after an ignored run that
	// contains a multi-byte character. The library re-lexes the tail of such
	// a name, so where it stops is unrelated to the reference's token and may
	// coincide with any of the patterns below.
	if inD6Class(src) {
		n := neutralise(src)
		if !bytes.Equal(n, src) {
			if k.explained(env, n, entry, depth) {
				return sigD6
			}
		}
	}
	if r.sig == "syntax:location" && !e.Lexical && e.TokEnd > e.TokStart {
		if prev, ok := prevToken(src, e); ok {
			closing := string(src[e.TokStart:e.TokEnd])
			// (1) an empty `( )` / `{ }` list: the first token that cannot continue a
			// document is the closing one; the library points at the opening one
			if (closing == "}" && prev.Kind == "{") || (closing == ")" && prev.Kind == "(") {
				if withinToken(src, r, prev.Start, prev.End) {
					return sigEmptyAtOpen
				}
			}
			// (2) a description followed by a definition that takes none: the text stops
			// being a viable prefix at the keyword; the library points at the description
			if (prev.Kind == syntax.KString || prev.Kind == syntax.KBlockString) && strings.Contains(e.Msg, "description") {
				if withinToken(src, r, prev.Start, prev.End) {
					return sigDescription
				}
			}
		}
	}
	// (5) `schema { query1 ~`: the operation type of a schema definition is
	// consumed (which lexes the NEXT token) before its spelling is checked, so
	// a malformed lexeme right after the wrong name is reported instead of it
	if r.sig == "syntax:location" && !e.Lexical && strings.Contains(e.Msg, "operation type") {
		if _, lerr := syntax.Tokens(src); lerr != nil && lerr.TokIndex == e.TokIndex+1 {
			ok := map[lc]bool{}
			for o := lerr.TokStart; o < lerr.TokEnd; o++ {
				acceptable(src, o, ok)
			}
			acceptable(src, lerr.Pos, ok)
			if len(r.lib) > 0 && ok[lc{r.lib[0].Line, r.lib[0].Column}] {
				return sigOpTypeEager
			}
		}
	}
	// (6) `implements & ~`: the error of lexing the token after the optional
	// leading ampersand is dropped and the ampersand itself is blamed
	if r.sig == "syntax:location" && e.Lexical {
		toks, _ := syntax.Tokens(src)
		i := e.TokIndex
		if i >= 2 && i <= len(toks) && toks[i-1].Kind == "&" && toks[i-2].Kind == syntax.KName && toks[i-2].Value == "implements" {
			if withinToken(src, r, toks[i-1].Start, toks[i-1].End) {
				return sigImplementsAmp
			}
		}
	}
	// (3) a string / block string / comment lexeme with multi-byte characters
	// BEFORE the offending character: the library counts code points inside
	// the lexeme but converts the offset to line/column by the byte
	// positions of the line terminators
	if e.Lexical && e.TokStart < len(src) && (src[e.TokStart] == '"' || src[e.TokStart] == '#') {
		end := min(e.Pos, len(src))
		if end > e.TokStart && hasHighByte(src[e.TokStart:end]) {
			n := neutraliseLexeme(src, e.TokStart, end)
			if k.explained(env, n, entry, depth) {
				return sigLexemeRunes
			}
		}
	}
	return ""
}

func min(a, b int) int {
	if a < b {
		return a
	}
	return b
}
