// Package c18 is the runtime monitor of property C18: every location attached
// to an error is a 1-based line/column inside the request text, computed
// correctly for LF, CR and CRLF; syntax errors fall within the first
// offending token (or malformed lexeme), validation and field errors sit at
// the start of the offending node; field-error paths name the failed field
// and data is null at the path or at a prefix. See README.md.
package c18

import (
	"fmt"
	"os"
	"runtime/debug"
	"sort"
	"strconv"
	"strings"
	"time"

	"github.com/graphql-go/graphql"
	"github.com/graphql-go/graphql/gqlerrors"
	"github.com/graphql-go/graphql/language/ast"
	"github.com/graphql-go/graphql/language/location"

	"verif/internal/build"
	"verif/internal/core"
	"verif/internal/gen/gramdoc"
	"verif/internal/gen/invaliddoc"
	"verif/internal/gen/schemagen"
	"verif/internal/gen/typedoc"
	"verif/internal/harness"
	"verif/internal/mon/respcmp"
	"verif/internal/nast"
	"verif/internal/props/c02"
	"verif/internal/ref/exec"
	"verif/internal/ref/syntax"
	"verif/internal/ref/validate"
	"verif/internal/values"
)

func init() {
	core.Register(&core.Check{
		ID: "C18", Level: "exploration",
		Technique: "differential runtime monitor: locations and paths of the errors returned by parser.Parse, ValidateDocument and Do are compared with positions recomputed independently from byte spans (ref/syntax first-offending-token, ref/validate offending nodes, ref/exec failed-field paths) on documents re-rendered under random layouts (LF / CR / CRLF / mixed, indentation, comments, commas, multi-byte text)",
		Rule: "cases: (i) one syntax error injected at a token position of a rendered valid document (delete / replace / insert a token, truncate, unterminated or badly escaped string, illegal character, malformed number); (ii) rule-targeted invalid documents (invaliddoc) rendered under layouts, each rule with a reference offence run alone; (iii) valid typed documents rendered under layouts and executed with failing outcome tables. " +
			"A case is non-trivial when the library returned >= 1 error with a location and the text has >= 2 lines or a comment or a comma; distinct by hash(text + variables + outcome table)",
		Assumptions: []string{
			"the first offending token / malformed lexeme is the one ref/syntax (LL(1), lazy lexing) names; an EOF error is located right after the last character",
			"on lines containing non-ASCII characters a column is accepted under the byte reading or the code-point reading",
			"texts in the input class of the known lexer defect D6 (a NAME token or lexical error directly after an ignored run with a multi-byte character) are decided on the neutralised text (relax:name-after-multibyte-ignored-run)",
			"validation offending nodes are those of ref/validate (rule-specific tolerance: any spread on a cycle, either of two conflicting fields or equal names, the name or the construct it names)",
		},
		Batches:      func(tier string) int { return map[string]int{"quick": 8, "thorough": 16}[tier] },
		Run:          run,
		ChildTimeout: func(tier string) time.Duration { return 90 * time.Minute },
		MinEvals:     func(tier string) int { return map[string]int{"quick": 15000, "thorough": 500000}[tier] },
	})
}

type ck struct {
	c        *core.Child
	reported map[string]int
	caches   []*graphql.PlanCache // per schema: the plan-cache route of field errors
}

const perClassCap = 3

func (k *ck) violation(sig, msg string, d interface{}) {
	k.c.Feature("hit:" + sig)
	k.reported[sig]++
	if k.reported[sig] > perClassCap {
		return
	}
	k.c.Violation(sig, msg, d)
}

func run(c *core.Child) {
	k := &ck{c: c, reported: map[string]int{}}
	debug.SetGCPercent(400)
	only := os.Getenv("VERIF_C18_ONLY") // development aid: "syntax" | "validation" | "field"
	if only == "" || only == "syntax" {
		k.syntaxErrors()
	}
	if only == "" || only == "validation" {
		k.validationErrors()
	}
	if only == "" || only == "field" {
		k.fieldErrors()
	}
}

func quote(s string) string { return strconv.Quote(s) }

// ---- positions

type lc struct{ line, col int }

// lineHasNonASCII reports whether the line containing byte offset off has a
// byte >= 0x80.
func lineHasNonASCII(src []byte, off int) bool {
	if off > len(src) {
		off = len(src)
	}
	s := off
	for s > 0 && src[s-1] != '\n' && src[s-1] != '\r' {
		s--
	}
	e := off
	for e < len(src) && src[e] != '\n' && src[e] != '\r' {
		e++
	}
	for _, b := range src[s:e] {
		if b >= 0x80 {
			return true
		}
	}
	return false
}

// acceptable lists the (line, column) pairs that point at byte offset off:
// the byte column, and on a line with non-ASCII text also the code-point column.
func acceptable(src []byte, off int, into map[lc]bool) {
	l, cb, cr := syntax.LineCol(src, off)
	into[lc{l, cb}] = true
	if cr != cb && lineHasNonASCII(src, off) {
		into[lc{l, cr}] = true
	}
}

// inside checks "1-based and inside the text": the line exists and the
// column is at most one past the line's length (byte or code-point reading).
func inside(src []byte, l location.SourceLocation) (oneBased, in bool) {
	if l.Line < 1 || l.Column < 1 {
		return false, false
	}
	lines := syntax.SplitLines(string(src))
	if l.Line > len(lines) {
		return true, false
	}
	ln := lines[l.Line-1]
	if l.Column > len(ln)+1 {
		return true, false
	}
	return true, true
}

func nodeStarts(src []byte, nodes []nast.Node) map[lc]bool {
	out := map[lc]bool{}
	for _, n := range nodes {
		if n == nil || n.Pos() == nil {
			continue
		}
		acceptable(src, n.Pos().Start, out)
	}
	return out
}

func locs(ls []location.SourceLocation) string {
	var parts []string
	for _, l := range ls {
		parts = append(parts, fmt.Sprintf("%d:%d", l.Line, l.Column))
	}
	return strings.Join(parts, " ")
}

func keys(m map[lc]bool) string {
	var parts []string
	// deterministic: by line, column
	max := 0
	for k := range m {
		if k.line > max {
			max = k.line
		}
	}
	for l := 1; l <= max; l++ {
		cols := []int{}
		for k := range m {
			if k.line == l {
				cols = append(cols, k.col)
			}
		}
		for i := 1; i < len(cols); i++ {
			for j := i; j > 0 && cols[j] < cols[j-1]; j-- {
				cols[j], cols[j-1] = cols[j-1], cols[j]
			}
		}
		for _, c := range cols {
			parts = append(parts, fmt.Sprintf("%d:%d", l, c))
		}
	}
	if len(parts) > 12 {
		parts = append(parts[:12], "...")
	}
	return strings.Join(parts, " ")
}

func layoutNontrivial(text string) bool {
	return strings.ContainsAny(text, "\n\r#,")
}

// ---------------------------------------------------------------------------
// (i) syntax errors
// ---------------------------------------------------------------------------

var tokenAlphabet = []string{"{", "}", "(", ")", "[", "]", ":", "=", "@", "$", "!", "...", "|", "&", "x", "on", "fragment", "query", "type", "1", "1.5", `"s"`, `"""b"""`, "true"}

var lexicalJunk = []string{
	`"abc`, `"a\qb"`, `"\u12G4"`, `"\u00"`, `"tab	in"`, "\"a\x07b\"", `"""open`, `"""a\`,
	"?", "%", "~", "^", "\x07", "\x00", "é", " ", ".", "..", "01", "1.", "1e", "1.e1", "-", "-a", "1.2.", "\\", "'", "`", "*", "<", ";",
}

type synDetail struct {
	Text     string `json:"text"`
	Mutation string `json:"mutation"`
	Library  string `json:"library_location"`
	Message  string `json:"library_message,omitempty"`
	RefSpan  string `json:"reference_token_span"`
	RefPos   string `json:"reference_acceptable"`
	RefMsg   string `json:"reference_message"`
	Entry    string `json:"entry"`
}

// gap-aware helpers for the D6 class (reimplemented here: C03's are unexported)

func hasHighByte(b []byte) bool {
	for _, c := range b {
		if c >= 0x80 {
			return true
		}
	}
	return false
}

// inD6Class: some Name token, or the malformed lexeme, is immediately
// preceded by an ignored run that contains a multi-byte character.
func inD6Class(src []byte) bool {
	if !hasHighByte(src) {
		return false
	}
	toks, lerr := syntax.Tokens(src)
	prev := 0
	for _, t := range toks {
		if t.Kind == syntax.KName && t.Start >= prev && hasHighByte(src[prev:t.Start]) {
			return true
		}
		prev = t.End
	}
	if lerr != nil && lerr.TokStart >= prev && hasHighByte(src[prev:lerr.TokStart]) {
		return true
	}
	return false
}

// neutralise rewrites every ignored run: a multi-byte character inside a
// comment becomes `x`, a BOM outside comments becomes a blank. Tokens are untouched.
func neutralise(src []byte) []byte {
	toks, lerr := syntax.Tokens(src)
	type gap struct{ s, e int }
	var gaps []gap
	prev := 0
	for _, t := range toks {
		gaps = append(gaps, gap{prev, t.Start})
		prev = t.End
	}
	if lerr != nil && lerr.TokStart >= prev {
		gaps = append(gaps, gap{prev, lerr.TokStart})
	}
	out := make([]byte, 0, len(src))
	last := 0
	for _, g := range gaps {
		if g.s < last || g.e < g.s {
			continue
		}
		out = append(out, src[last:g.s]...)
		inComment := false
		for i := g.s; i < g.e; {
			b := src[i]
			switch {
			case b == '#':
				inComment = true
			case b == '\n' || b == '\r':
				inComment = false
			}
			if b < 0x80 {
				out = append(out, b)
				i++
				continue
			}
			w := 1
			for i+w < g.e && src[i+w]&0xC0 == 0x80 {
				w++
			}
			if inComment {
				out = append(out, 'x')
			} else {
				// a BOM between tokens: a blank keeps the neighbours apart
				out = append(out, ' ')
			}
			i += w
		}
		last = g.e
	}
	out = append(out, src[last:]...)
	return out
}

// syntaxVerdict compares the library's syntax-error location with the
// reference's first offending token. "" = fine.
type synResult struct {
	sig     string
	msg     string
	lib     []location.SourceLocation
	libMsg  string
	refErr  *syntax.Error
	accept  map[lc]bool
	skipped string // non-empty: not decided (class name)
	located bool
}

func formatErr(err error) gqlerrors.FormattedError {
	return gqlerrors.FormatError(err)
}

func (k *ck) judgeSyntax(env *build.Env, src []byte, entry string) synResult {
	c := k.c
	var res synResult
	if und, class := syntax.Undefined(src); und {
		res.skipped = "undefined-lexical-form:" + class
		return res
	}
	_, rerr := syntax.Parse(src)
	if rerr == nil {
		res.skipped = "still-valid"
		return res
	}
	res.refErr = rerr
	var ferr *gqlerrors.FormattedError
	panicked := false
	switch entry {
	case "Parse":
		panicked = c.Guard("panic", guardDetail("Parse", quote(string(src))), func() {
			_, err := harness.Parse(string(src))
			if err != nil {
				fe := formatErr(err)
				ferr = &fe
			}
		})
	case "Do":
		panicked = c.Guard("panic", guardDetail("Do", quote(string(src))), func() {
			r := graphql.Do(graphql.Params{Schema: env.Schema, RequestString: string(src)})
			// the response's first error is the syntax error when the library's parser rejects the text
			// (decided by calling the parser, not by the wording of the message)
			if _, perr := harness.Parse(string(src)); perr != nil && r != nil && len(r.Errors) > 0 {
				ferr = &r.Errors[0]
			}
		})
	}
	c.Eval(1)
	if panicked {
		res.skipped = "panicked"
		return res
	}
	if ferr == nil {
		res.skipped = "library-accepts" // accept/reject is C03's subject
		return res
	}
	res.lib = ferr.Locations
	res.libMsg = firstLine(ferr.Message)
	res.located = len(ferr.Locations) > 0
	res.accept = map[lc]bool{}
	if rerr.TokEnd <= rerr.TokStart {
		acceptable(src, rerr.TokStart, res.accept)
	} else {
		for o := rerr.TokStart; o < rerr.TokEnd; o++ {
			acceptable(src, o, res.accept)
		}
	}
	if rerr.Lexical {
		// "from the lexeme's first character to the offending character
		// inclusive": the offending character may be the end of input
		acceptable(src, rerr.Pos, res.accept)
	}
	if len(ferr.Locations) == 0 {
		res.sig, res.msg = "syntax:location", "syntax error without location"
		return res
	}
	for i, l := range ferr.Locations {
		one, in := inside(src, l)
		if !one {
			res.sig, res.msg = "syntax:not-1-based", fmt.Sprintf("location %d:%d is not 1-based", l.Line, l.Column)
			return res
		}
		if !in {
			res.sig, res.msg = "syntax:location", fmt.Sprintf("location %d:%d lies outside the text", l.Line, l.Column)
			return res
		}
		if i == 0 && !res.accept[lc{l.Line, l.Column}] {
			res.sig, res.msg = "syntax:location", fmt.Sprintf("location %d:%d is not within the first offending token (acceptable: %s)", l.Line, l.Column, keys(res.accept))
			return res
		}
	}
	return res
}

func firstLine(s string) string {
	if i := strings.IndexByte(s, '\n'); i >= 0 {
		return s[:i]
	}
	return s
}

// evalSyntax judges one erroneous text through both entry points.
func (k *ck) evalSyntax(env *build.Env, text, mutation string) {
	c := k.c
	src := []byte(text)
	for _, entry := range []string{"Parse", "Do"} {
		r := k.judgeSyntax(env, src, entry)
		if r.skipped != "" {
			if r.skipped == "still-valid" {
				c.Feature("syntax:mutation-still-valid")
			} else {
				c.DontCare(r.skipped)
			}
			return
		}
		if r.refErr.Lexical {
			c.Feature("syntax:lexical-error")
		} else if r.refErr.TokStart >= len(src) {
			c.Feature("syntax:eof-error")
		} else {
			c.Feature("syntax:token-error")
		}
		if r.located && layoutNontrivial(text) {
			c.Nontrivial(core.HashString("S\x00" + text))
		}
		if r.sig == "" {
			c.Feature("syntax:agreed")
			if entry == "Parse" {
				c.Sample("syntax", map[string]interface{}{"request": quote(text), "mutation": mutation, "first_offending_token": []int{r.refErr.TokStart, r.refErr.TokEnd}})
			}
			continue
		}
		sig := r.sig
		if cls := k.classifySyntax(env, src, entry, r); cls != "" {
			sig = cls
		}
		k.violation(sig, entry+": "+r.msg, synDetail{Text: quote(text), Mutation: mutation, Library: locs(r.lib), Message: r.libMsg,
			RefSpan: fmt.Sprintf("[%d,%d) lexical=%v", r.refErr.TokStart, r.refErr.TokEnd, r.refErr.Lexical), RefPos: keys(r.accept), RefMsg: r.refErr.Msg, Entry: entry})
		return
	}
}

// syntaxWitnesses: minimal texts for every syntax-location defect class
// found so far (and their well-behaved neighbours); judged like every other case.
var syntaxWitnesses = []string{
	"{ }", "{ a { } }", "query Q( ) { a }", "{ a( ) }", "schema { }", "{ a(", "{ a }}", "{",
	"\"d\" schema { query: Q }", "\"\"\"d\"\"\" extend type T { a: Int }", "\"d\" { a }", "\"d\" query { a }", "\"d\" fragment F on T { a }", "\"d\" type T { a: Int }",
	"schema { query1 ~ }", "schema { query1: Q }", "schema { quer: Q }", "schema { query1.5 }",
	"type T implements & ~ { a: Int }", "type T implements ~ { a: Int }", "type T implements & A & ~ { a: Int }",
	"{ a(s: \"\"\"\u00e9\r\n", "{ a(s: \"\"\"e\r\n", "{ a(s: \"\"\"\u00e9\n\n\u0007\"\"\") }", "{ a(s: \"\u00e9\\q\") }", "{ a(s: \"\u00e9\n\") }",
	"{ a #\u00e9\n bc ~ }", "\ufeffquery { a ~ }", "{ a #\u00e9\n ~ }", "{ a #\u00e9\n ( }",
	"{ a\r\n  b\r  c\n  ~ }", "{ a\r\n\r\n ) }", "{ a \"x", "{ a(b: 01) }", "{ a(b: 1.) }", "{ a .. }",
}

func (k *ck) syntaxWitnessCases(env *build.Env) {
	c := k.c
	if c.Batch != 0 {
		return
	}
	for i, text := range syntaxWitnesses {
		if !c.Begin(fmt.Sprintf("syn/witness/%d", i)) {
			continue
		}
		k.evalSyntax(env, text, "witness")
		c.Feature("syntax:witness")
	}
}

func (k *ck) syntaxErrors() {
	c := k.c
	nDocs := c.Scale(60, 1200)
	perDoc := c.Scale(24, 40)
	sr := c.RNG(10)
	m := schemagen.Gen(sr, schemagen.DefaultOptions(sr))
	env, err := build.Build(m, sr.U64())
	if err != nil {
		c.Violation("harness:schema-build", err.Error(), m.SDL())
		return
	}
	k.syntaxWitnessCases(env)
	for di := 0; di < nDocs; di++ {
		dr := c.RNG(11, uint64(di))
		var doc *nast.Document
		switch dr.Intn(3) {
		case 0:
			doc = typedoc.Gen(dr, m, typedoc.Options{MaxDepth: 2, MaxWidth: 3, Fragments: dr.Range(0, 2), Ops: dr.Range(1, 2), DirPct: 25, VarDirPct: 50, DupPct: 10, ArgVarPct: 30, Mutation: true, Typename: true}).AST
		case 1:
			doc = gramdoc.Gen(dr, gramdoc.Options{Executable: true, MaxDepth: 3, MaxWidth: 3, MaxDefs: 3, RichValues: dr.Chance(30)})
		default:
			doc = gramdoc.Gen(dr, gramdoc.Options{Executable: dr.Bool(), TypeSystem: true, MaxDepth: 3, MaxWidth: 3, MaxDefs: 3})
		}
		lay := gramdoc.RandomLayout(dr.Derive(1))
		text := gramdoc.Render(doc, lay)
		src := []byte(text)
		toks, lerr := syntax.Tokens(src)
		if lerr != nil || len(toks) < 2 {
			if c.Begin(fmt.Sprintf("syn/%d/base", di)) {
				c.Violation("harness:base-text", "rendered base document does not lex", quote(text))
			}
			continue
		}
		ntok := len(toks) - 1 // without EOF
		for j := 0; j < perDoc; j++ {
			id := fmt.Sprintf("syn/%d/%d", di, j)
			if !c.Begin(id) {
				continue
			}
			mr := c.RNG(12, uint64(di), uint64(j))
			// positions sweep the token stream: every position is hit when
			// perDoc >= ntok, otherwise a stride with a random offset
			p := (j*ntok/perDoc + mr.Intn(max(1, ntok/perDoc))) % ntok
			t := toks[p]
			var mutated, what string
			switch kind := mr.Intn(10); kind {
			case 0, 1:
				mutated, what = text[:t.Start]+text[t.End:], fmt.Sprintf("delete token %d", p)
			case 2, 3:
				a := tokenAlphabet[mr.Intn(len(tokenAlphabet))]
				mutated, what = text[:t.Start]+a+text[t.End:], fmt.Sprintf("replace token %d by %s", p, a)
			case 4, 5:
				a := tokenAlphabet[mr.Intn(len(tokenAlphabet))]
				mutated, what = text[:t.Start]+a+" "+text[t.Start:], fmt.Sprintf("insert %s before token %d", a, p)
			case 6:
				cut := t.Start
				if mr.Bool() && t.End-t.Start > 1 {
					cut = t.Start + 1 + mr.Intn(t.End-t.Start-1)
				}
				if mr.Chance(40) {
					cut = t.End
				}
				mutated, what = text[:cut], fmt.Sprintf("truncate at byte %d (token %d)", cut, p)
			default:
				jn := lexicalJunk[mr.Intn(len(lexicalJunk))]
				if mr.Chance(30) {
					mutated, what = text[:t.Start]+jn+text[t.End:], fmt.Sprintf("replace token %d by %q", p, jn)
				} else {
					mutated, what = text[:t.Start]+jn+" "+text[t.Start:], fmt.Sprintf("insert %q before token %d", jn, p)
				}
			}
			k.evalSyntax(env, mutated, what)
		}
	}
}

func max(a, b int) int {
	if a > b {
		return a
	}
	return b
}

// ---------------------------------------------------------------------------
// (ii) validation errors under layouts
// ---------------------------------------------------------------------------

type valDetail struct {
	Schema   string   `json:"schema"`
	Text     string   `json:"text"`
	Origin   string   `json:"origin"`
	Rule     string   `json:"rule"`
	Library  []string `json:"library_errors"`
	RefNodes string   `json:"reference_node_starts"`
}

func (k *ck) validationErrors() {
	c := k.c
	nSchemas := c.Scale(4, 30)
	nDocs := c.Scale(70, 250)
	nops := len(invaliddoc.Operators)
	for si := 0; si < nSchemas; si++ {
		sr := c.RNG(20, uint64(si))
		opts := schemagen.DefaultOptions(sr)
		opts.Descs = true
		m := schemagen.Gen(sr, opts)
		env, err := build.Build(m, sr.U64())
		if err != nil {
			continue
		}
		for di := 0; di < nDocs; di++ {
			id := fmt.Sprintf("val/s%d/d%d", si, di)
			if !c.Begin(id) {
				continue
			}
			dr := c.RNG(21, uint64(si), uint64(di))
			d := typedoc.Gen(dr, m, typedoc.Options{MaxDepth: dr.Range(2, 3), MaxWidth: dr.Range(2, 3), Fragments: dr.Range(0, 3), Ops: dr.Range(1, 2),
				DirPct: 25, VarDirPct: 60, DupPct: 25, ArgVarPct: 30, Mutation: true, Typename: true, CustomDirs: true})
			doc := d.AST
			origin := "typed"
			if v, _ := validate.Valid(validate.Decide(m, doc)); v || dr.Chance(50) {
				op := (di + si*11 + c.Batch*17) % nops
				var res *invaliddoc.Result
				var ok bool
				if dr.Chance(20) {
					res, ok = invaliddoc.ApplyTwo(dr.Derive(3), m, doc, op, dr.Intn(nops))
				} else {
					res, ok = invaliddoc.Apply(dr.Derive(3), m, doc, op)
				}
				if !ok {
					c.Feature("validation:no-site")
					continue
				}
				doc, origin = res.Doc, res.Operator
			}
			lay := gramdoc.RandomLayout(dr.Derive(4))
			text, info := gramdoc.RenderInfo(doc, lay)
			if info.NameAfterMultiByteIgnored {
				// the library mis-lexes such text (D6): re-render without multi-byte ignored runs
				c.DontCare("d6-class-layout-rerendered")
				lay = gramdoc.RandomLayout(dr.Derive(4))
				lay.MultiByte, lay.BOM = false, false
				text = gramdoc.Render(doc, lay)
			}
			k.evalValidation(env, doc, text, origin)
		}
	}
}

func libErrs(errs []gqlerrors.FormattedError) []string {
	var out []string
	for _, e := range errs {
		out = append(out, firstLine(e.Message)+" @ "+locs(e.Locations))
	}
	return out
}

func (k *ck) evalValidation(env *build.Env, doc *nast.Document, text, origin string) {
	c := k.c
	src := []byte(text)
	var astDoc *ast.Document
	var perr error
	if c.Guard("panic", guardDetail("Parse", quote(text)), func() { astDoc, perr = harness.Parse(text) }) {
		return
	}
	if perr != nil {
		k.violation("harness:noparse", "rendered document does not parse: "+firstLine(perr.Error()), quote(text))
		return
	}
	res := validate.Decide(env.Model, doc)
	any := false
	union := []nast.Node{}
	for _, rule := range validate.Rules {
		union = append(union, c02.AllNodes(res[rule].Offences)...)
	}
	for _, rule := range validate.Rules {
		rr := res[rule]
		if !rr.May || rr.Open {
			continue
		}
		var vr graphql.ValidationResult
		if c.Guard("panic", guardDetail(rule, quote(text)), func() {
			vr = graphql.ValidateDocument(&env.Schema, astDoc, []graphql.ValidationRuleFn{c02.RuleFns[rule]})
		}) {
			continue
		}
		c.Eval(1)
		if len(vr.Errors) == 0 {
			continue // accept/reject is C02's subject
		}
		any = true
		first := nodeStarts(src, firstOf(rr.Offences))
		all := nodeStarts(src, c02.AllNodes(rr.Offences))
		bad := ""
		for _, e := range vr.Errors {
			if len(e.Locations) == 0 {
				bad = "error without location: " + firstLine(e.Message)
				break
			}
			for i, l := range e.Locations {
				ok := all
				if i == 0 {
					ok = first
				}
				if one, in := inside(src, l); !one || !in {
					bad = fmt.Sprintf("location %d:%d of %q is not a 1-based position inside the text", l.Line, l.Column, firstLine(e.Message))
				} else if !ok[lc{l.Line, l.Column}] {
					bad = fmt.Sprintf("location #%d %d:%d of %q is not the start of an offending node", i+1, l.Line, l.Column, firstLine(e.Message))
				}
			}
			if bad != "" {
				break
			}
		}
		if bad != "" {
			k.violation("validation:location:"+rule, bad, valDetail{Schema: env.Model.SDL(), Text: quote(text), Origin: origin, Rule: rule, Library: libErrs(vr.Errors), RefNodes: keys(all)})
		} else {
			c.Feature("validation:agreed:" + rule)
			c.Sample("validation", map[string]interface{}{"request": quote(text), "rule": rule, "library_errors": libErrs(vr.Errors)})
		}
	}
	// Do: every location of every validation error is the start of some offending node of some rule
	open := false
	for _, rule := range validate.Rules {
		if res[rule].Open {
			open = true
		}
	}
	libValid := true
	c.Guard("panic", guardDetail("all-rules", quote(text)), func() { libValid = graphql.ValidateDocument(&env.Schema, astDoc, nil).IsValid })
	if _, invalid := validate.Valid(res); invalid && !open && !libValid {
		var r *graphql.Result
		if !c.Guard("panic", guardDetail("Do", quote(text)), func() { r = graphql.Do(graphql.Params{Schema: env.Schema, RequestString: text}) }) && r != nil {
			c.Eval(1)
			all := nodeStarts(src, union)
			for _, e := range r.Errors {
				bad := ""
				for _, l := range e.Locations {
					if !all[lc{l.Line, l.Column}] {
						bad = fmt.Sprintf("Do: location %d:%d of %q is not the start of an offending node of any rule", l.Line, l.Column, firstLine(e.Message))
					}
				}
				if len(e.Locations) == 0 {
					bad = "Do: validation error without location: " + firstLine(e.Message)
				}
				if bad != "" {
					// errors of rules the reference does not expect are C02's subject
					if k.explainedByC02(env, astDoc, res, e) {
						c.DontCare("do-error-of-a-rule-the-reference-passes")
						continue
					}
					k.violation("validation:location:Do", bad, valDetail{Schema: env.Model.SDL(), Text: quote(text), Origin: origin, Rule: "(all)", Library: libErrs(r.Errors), RefNodes: keys(all)})
					break
				}
			}
		}
	}
	if any && layoutNontrivial(text) {
		c.Nontrivial(core.HashString("V\x00" + env.Model.SDL() + "\x00" + text))
	}
}

// explainedByC02: the message belongs to a rule for which the reference has
// no offence at all (an accept/reject disagreement, reported by C02).
func (k *ck) explainedByC02(env *build.Env, astDoc *ast.Document, res map[string]validate.Result, e gqlerrors.FormattedError) bool {
	for _, rule := range validate.Rules {
		if res[rule].May {
			continue
		}
		vr := graphql.ValidateDocument(&env.Schema, astDoc, []graphql.ValidationRuleFn{c02.RuleFns[rule]})
		for _, x := range vr.Errors {
			if x.Message == e.Message {
				return true
			}
		}
	}
	return false
}

func firstOf(offs []validate.Offence) []nast.Node {
	var ns []nast.Node
	for _, o := range offs {
		ns = append(ns, o.Nodes...)
	}
	return ns
}

// ---------------------------------------------------------------------------
// (iii) field errors
// ---------------------------------------------------------------------------

var failKinds = []values.Kind{values.Nil, values.Error, values.ValueError, values.PanicError, values.PanicString, values.ThunkValue, values.ThunkError, values.ThunkNil}

type fieldDetail struct {
	Schema    string                 `json:"schema"`
	Text      string                 `json:"text"`
	Operation string                 `json:"operation"`
	Variables map[string]interface{} `json:"variables"`
	Outcomes  string                 `json:"outcomes"`
	Errors    []string               `json:"library_errors"`
	Expected  []string               `json:"expected_error_paths"`
	Data      string                 `json:"data"`
}

func (k *ck) fieldErrors() {
	c := k.c
	nSchemas := c.Scale(4, 30)
	nDocs := c.Scale(45, 200)
	for si := 0; si < nSchemas; si++ {
		sr := c.RNG(30, uint64(si))
		m := schemagen.Gen(sr, schemagen.DefaultOptions(sr))
		env, err := build.Build(m, sr.U64())
		if err != nil {
			continue
		}
		k.caches = []*graphql.PlanCache{graphql.NewPlanCache(graphql.PlanCacheOptions{MaxEntries: 64}), graphql.NewPlanCache(graphql.PlanCacheOptions{MaxEntries: 64, Normalize: true})}
		for di := 0; di < nDocs; di++ {
			id := fmt.Sprintf("fld/s%d/d%d", si, di)
			if !c.Begin(id) {
				continue
			}
			dr := c.RNG(31, uint64(si), uint64(di))
			d := typedoc.Gen(dr, m, typedoc.Options{MaxDepth: dr.Range(2, 4), MaxWidth: dr.Range(2, 4), Fragments: dr.Range(0, 3), Ops: dr.Range(1, 2),
				DirPct: 15, VarDirPct: 50, DupPct: 25, ArgVarPct: 25, Mutation: true, Typename: true})
			if v, _ := validate.Valid(validate.Decide(m, d.AST)); !v {
				c.Feature("field:generated-invalid")
				continue
			}
			lay := gramdoc.RandomLayout(dr.Derive(1))
			text, info := gramdoc.RenderInfo(d.AST, lay)
			if info.NameAfterMultiByteIgnored {
				c.DontCare("d6-class-layout-rerendered")
				lay = gramdoc.RandomLayout(dr.Derive(1))
				lay.MultiByte, lay.BOM = false, false
				text = gramdoc.Render(d.AST, lay)
			}
			astDoc, perr := harness.Parse(text)
			if perr != nil {
				k.violation("harness:noparse", "rendered document does not parse: "+firstLine(perr.Error()), quote(text))
				continue
			}
			if vr := graphql.ValidateDocument(&env.Schema, astDoc, nil); !vr.IsValid {
				c.Feature("field:library-finds-invalid") // C02's subject
				continue
			}
			for oi, op := range d.Ops {
				opName := ""
				if op.Name != nil {
					opName = op.Name.Value
				}
				for ti := 0; ti < c.Scale(3, 4); ti++ {
					ar := c.RNG(32, uint64(si), uint64(di), uint64(oi), uint64(ti))
					vars := typedoc.Assignment(ar, m, d, op, ar.U64())
					o := &values.Outcomes{Seed: ar.U64(), Density: ar.Range(8, 40), Kinds: failKinds, ErrorForms: true}
					k.evalField(env, d.AST, text, opName, vars, o)
				}
			}
		}
	}
}

func (k *ck) evalField(env *build.Env, doc *nast.Document, text, opName string, vars map[string]interface{}, o *values.Outcomes) {
	c := k.c
	src := []byte(text)
	exp := exec.Execute(env.Model, doc, opName, vars, o, env.Seed)
	if exp.VarStatus == 2 || exp.RequestError {
		c.Feature("field:request-error-or-lenient")
		return
	}
	var run *harness.Run
	if c.Guard("panic", guardDetail("Do", quote(text)), func() { run = harness.Do(env, text, opName, vars, o, nil) }) {
		return
	}
	c.Eval(1)
	r := run.Result
	if r == nil {
		return
	}
	mk := func() fieldDetail {
		d := fieldDetail{Schema: env.Model.SDL(), Text: quote(text), Operation: opName, Variables: vars, Outcomes: o.Describe(), Data: respcmp.Canon(r.Data)}
		for _, e := range r.Errors {
			d.Errors = append(d.Errors, fmt.Sprintf("%s path=%s @ %s", firstLine(e.Message), respcmp.PathKey(e.Path), locs(e.Locations)))
		}
		for _, fe := range exp.Errors {
			d.Expected = append(d.Expected, fmt.Sprintf("%s required=%v region=%q", fe.Path, fe.Required, fe.Region))
		}
		return d
	}
	if len(r.Errors) == 0 {
		c.Feature("field:no-error")
		if len(exp.Errors) > 0 && !exp.ThunkNonNullFailure {
			k.violation("field:path", "the reference expects field errors, the library reports none", mk())
		}
		return
	}
	// paths as sets (as respcmp does)
	if exp.ThunkNonNullFailure {
		c.DontCare("d3-class:thunk-failure-in-nonnull-position")
	} else {
		for _, mm := range respcmp.Compare(exp, r) {
			switch mm.Class {
			case "error-missing", "error-unexpected", "error-duplicate", "error-cause":
				k.violation("field:path", mm.String(), mk())
			default:
				c.Feature("field:other-mismatch:" + mm.Class) // data: C01's subject
			}
		}
	}
	invByPath := map[string]*exec.Invocation{}
	for _, inv := range exp.Invocations {
		invByPath[inv.Path] = inv
	}
	nontrivial := false
	for _, e := range r.Errors {
		if e.Path == nil {
			k.violation("field:path", "field error without path: "+firstLine(e.Message), mk())
			continue
		}
		p := respcmp.PathKey(e.Path)
		// the failed field: the path without trailing list indices
		parts := strings.Split(p, "/")
		for len(parts) > 0 {
			if _, err := strconv.Atoi(parts[len(parts)-1]); err != nil {
				break
			}
			parts = parts[:len(parts)-1]
		}
		inv := invByPath[strings.Join(parts, "/")]
		if inv == nil {
			if !exp.ThunkNonNullFailure && len(exp.Wild) == 0 {
				k.violation("field:path", fmt.Sprintf("error path %q does not name a field the operation executes", p), mk())
			}
			continue
		}
		var nodes []nast.Node
		for _, f := range inv.Fields {
			nodes = append(nodes, f)
		}
		// occurrences excluded by @skip/@include are still occurrences of the field in the text
		starts := nodeStarts(src, nodes)
		if len(e.Locations) == 0 {
			k.violation("field:location", fmt.Sprintf("field error at %q has no location", p), mk())
		}
		for _, l := range e.Locations {
			if one, in := inside(src, l); !one || !in {
				k.violation("field:location", fmt.Sprintf("location %d:%d of the error at %q is not a 1-based position inside the text", l.Line, l.Column, p), mk())
			} else if !starts[lc{l.Line, l.Column}] {
				k.violation("field:location", fmt.Sprintf("location %d:%d of the error at %q is not the start of an occurrence of the field (occurrences: %s)", l.Line, l.Column, p, keys(starts)), mk())
			} else {
				nontrivial = true
			}
		}
		// intrinsic clause: data is null at the path or at a prefix
		if !nullAlong(r.Data, e.Path) {
			k.violation("field:data-not-null-at-path", fmt.Sprintf("data is not null at %q nor at any prefix", p), mk())
		} else {
			c.Feature("field:null-at-path-or-prefix")
		}
	}
	k.cacheRoute(env, text, opName, vars, o, r)
	if nontrivial {
		c.Feature("field:located")
		if layoutNontrivial(text) {
			c.Nontrivial(core.HashString("F\x00" + text + "\x00" + opName + "\x00" + harness.CanonArgs(vars) + "\x00" + o.Describe()))
		}
	}
}

// errorSet renders the errors of a result as a sorted list of
// message / path / locations strings.
func errorSet(r *graphql.Result, withLocations bool) []string {
	var out []string
	if r == nil {
		return out
	}
	for _, e := range r.Errors {
		s := fmt.Sprintf("%s path=%s", firstLine(e.Message), respcmp.PathKey(e.Path))
		if withLocations {
			s += " @ " + locs(e.Locations)
		}
		out = append(out, s)
	}
	sort.Strings(out)
	return out
}

// sigNormalizedLocations: known finding. A normalising cache keys entries by
// the document's shape, so a hit serves the plan (and AST) of the text that
// created the entry, and the locations of field errors are positions in THAT
// text, not in the current request's.
const sigNormalizedLocations = "finding:normalized-hit-reports-locations-of-the-entry's-first-text"

// cacheRoute: the same request through a shared PlanCache (both modes),
// right after the same text with some ignored text in front of it went
// through the same cache. Paths and locations of the reported errors must be
// those of graphql.Do for the respective text: a cached plan (or cached
// validation verdict) must never carry positions of another request's text.
func (k *ck) cacheRoute(env *build.Env, text, opName string, vars map[string]interface{}, o *values.Outcomes, viaDo *graphql.Result) {
	c := k.c
	pr := core.NewRNG(core.HashString("pfx\x00" + text))
	prefix := []string{"\n", "  ", "\n\n    ", "# c\n", ",,\t", " \n # x\n  "}[pr.Intn(6)]
	shifted := prefix + text
	var doShifted *harness.Run
	if c.Guard("panic", guardDetail("Do", quote(shifted)), func() { doShifted = harness.Do(env, shifted, opName, vars, o, nil) }) {
		return
	}
	via := func(cache *graphql.PlanCache, t string) *graphql.Result {
		var res *graphql.Result
		c.Guard("panic", guardDetail("PlanCache.Get+ExecutePlan", quote(t)), func() {
			g := cache.Get(&env.Schema, t, opName)
			if g.Plan == nil {
				res = &graphql.Result{Errors: g.Errors}
				return
			}
			args := map[string]interface{}{}
			for k, v := range vars {
				args[k] = v
			}
			for k, v := range g.SynthArgs {
				args[k] = v
			}
			res = harness.ExecutePlan(env, g.Plan, args, o, nil, nil).Result
		})
		return res
	}
	for ci, cache := range k.caches {
		order := []string{shifted, text}
		if pr.Bool() {
			order = []string{text, shifted}
		}
		for _, t := range order {
			ref := viaDo
			if t == shifted {
				ref = doShifted.Result
			}
			res := via(cache, t)
			want, got := errorSet(ref, true), errorSet(res, true)
			c.Eval(1)
			c.Feature("field:plan-cache-route")
			if ci == 1 && strings.Join(got, "\n") != strings.Join(want, "\n") && strings.Join(errorSet(res, false), "\n") == strings.Join(errorSet(ref, false), "\n") {
				// messages and paths agree, only the locations differ, on the normalising cache
				k.violation(sigNormalizedLocations, fmt.Sprintf("normalising cache: %v, Do: %v", got, want), map[string]interface{}{"text": quote(t), "other_text_through_same_cache": quote(order[0])})
				continue
			}
			if strings.Join(got, "\n") != strings.Join(want, "\n") {
				k.violation("field:plan-cache-route", fmt.Sprintf("errors reported through PlanCache %d differ from those of Do for the same text: cache %v, Do %v", ci, got, want),
					map[string]interface{}{"schema": env.Model.SDL(), "text": quote(t), "other_text_through_same_cache": quote(order[0]), "operation": opName, "variables": vars, "outcomes": o.Describe()})
			}
		}
	}
}

// nullAlong walks data along path and reports whether it meets null at the
// path or at one of its prefixes (data itself being null is the empty prefix).
func nullAlong(data interface{}, path []interface{}) bool {
	cur := data
	if isNil(cur) {
		return true
	}
	for _, seg := range path {
		switch x := cur.(type) {
		case map[string]interface{}:
			key, ok := seg.(string)
			if !ok {
				return false
			}
			v, present := x[key]
			if !present {
				return false
			}
			cur = v
		case []interface{}:
			idx, ok := seg.(int)
			if !ok || idx < 0 || idx >= len(x) {
				return false
			}
			cur = x[idx]
		default:
			return false
		}
		if isNil(cur) {
			return true
		}
	}
	return false
}

func isNil(v interface{}) bool {
	if v == nil {
		return true
	}
	if m, ok := v.(map[string]interface{}); ok && m == nil {
		return true
	}
	return false
}

func guardDetail(call string, text interface{}) map[string]interface{} {
	return map[string]interface{}{"call": call, "text": text}
}
