// Package c10: introspection describes the schema exactly (differential
// monitor against ref/introspect, which reads the schema MODEL only).
package c10

import (
	"fmt"
	"sort"
	"strings"
	"time"

	"github.com/graphql-go/graphql"
	"github.com/graphql-go/graphql/testutil"

	"verif/internal/build"
	"verif/internal/core"
	"verif/internal/gen/schemagen"
	"verif/internal/gen/typedoc"
	"verif/internal/harness"
	"verif/internal/model"
	"verif/internal/mon/respcmp"
	"verif/internal/nast"
	"verif/internal/ref/exec"
	"verif/internal/ref/introspect"
	"verif/internal/ref/syntax"
)

func init() {
	core.Register(&core.Check{
		ID: "C10", Level: "exploration",
		Technique: "differential runtime monitor: real graphql.Do of full, deep, per-type and random partial introspection documents on generated schemas (built in one go, and extended through AppendType in every order), compared with an independent evaluator of the same documents over the schema MODEL (type-set closure, built-in introspection table from the specification, default-value clause by parse + coerce)",
		Rule: "cases = (generated schema model incl. standalone supplied types, introspection document, variables[, AppendType order]); " +
			"a case is non-trivial when the schema has an interface with >= 2 implementers in the type set or a union, and >= 1 default value or deprecation; distinct by hash(model SDL + document + variables + history order)",
		Assumptions: []string{
			"the expected description is computed from the model the schema was built from (internal/build is a faithful builder: it passes descriptions, defaults and deprecation reasons through; an empty field deprecation reason is built as \"No longer supported\")",
			"the built-in introspection types follow the October 2016 text plus the edition's additions (type-system directive locations; deprecated __Directive.onOperation/onFragment/onField; @deprecated) - structure only, never description text",
			"list order is not part of the description: every list is compared as a multiset",
			"defaults of custom scalars are not compared (a scalar's parse function has no inverse in general)",
		},
		Batches:      func(tier string) int { return map[string]int{"quick": 8, "thorough": 16}[tier] },
		Run:          run,
		ChildTimeout: func(tier string) time.Duration { return 30 * time.Minute },
		MinEvals: func(tier string) int {
			if tier == "thorough" {
				return 200000
			}
			return 4000
		},
	})
}

type caseDetail struct {
	SDL        string                 `json:"schema"`
	Extra      []string               `json:"supplied_types,omitempty"`
	History    []string               `json:"append_order,omitempty"`
	Query      string                 `json:"query"`
	Vars       map[string]interface{} `json:"variables,omitempty"`
	Mismatches []introspect.Mismatch  `json:"mismatches,omitempty"`
	Count      int                    `json:"count"`
	Errors     []string               `json:"errors,omitempty"`
}

// schemaFacts summarises what makes a schema (non-)trivial and feeds the histogram.
type schemaFacts struct {
	abstract bool // interface with >= 2 implementers, or a union
	marked   bool // >= 1 default or deprecation
	feats    []string
}

func depthOf(t *model.TypeRef) int {
	d := 0
	for t.Kind != "named" {
		d++
		t = t.Of
	}
	return d
}

func facts(u *introspect.Universe) schemaFacts {
	var f schemaFacts
	seen := map[string]bool{}
	add := func(s string) {
		if !seen[s] {
			seen[s] = true
			f.feats = append(f.feats, s)
		}
	}
	maxDepth := 0
	input := func(d *model.InputDef) {
		if x := depthOf(d.Type); x > maxDepth {
			maxDepth = x
		}
		if d.HasDefault {
			f.marked = true
			add("default:" + introspect.ClassOf(u.Model, d.Type, d.Default))
		}
	}
	for _, n := range u.Names {
		ti := u.Type(n)
		if ti.Builtin {
			continue
		}
		td := ti.Def
		switch td.Kind {
		case model.Union:
			f.abstract = true
			add("union")
			if td.ThunkMembers {
				add("thunk:members")
			}
		case model.Interface:
			if len(u.PossibleTypes(n)) >= 2 {
				f.abstract = true
				add("interface>=2-implementers")
			}
		case model.Object:
			if td.ThunkInterfaces && len(td.Interfaces) > 0 {
				add("thunk:interfaces")
			}
		}
		if td.ThunkFields {
			add("thunk:fields")
		}
		if td.Desc != "" {
			add("description")
		}
		for _, fd := range td.Fields {
			if x := depthOf(fd.Type); x > maxDepth {
				maxDepth = x
			}
			if fd.Deprecation != nil {
				f.marked = true
				if *fd.Deprecation == "" {
					add("deprecated-field:empty-reason")
				} else {
					add("deprecated-field")
				}
			}
			for _, a := range fd.Args {
				input(a)
			}
		}
		for _, a := range td.InputFields {
			input(a)
		}
		for _, v := range td.Values {
			if v.Deprecation != nil {
				f.marked = true
				add("deprecated-enum-value")
			}
			if s, ok := v.Internal.(string); !ok || s != v.Name {
				add("enum:non-name-internal")
			}
		}
	}
	for _, d := range u.Directives {
		if !d.Builtin {
			add("custom-directive")
			for _, a := range d.Def.Args {
				input(a)
			}
		}
	}
	add(fmt.Sprintf("wrap-depth:%d", maxDepth))
	return f
}

type runner struct {
	// via, when set, answers a request instead of graphql.Do (retained plan / plan cache routes of the histories)
	via func(text string, vars map[string]interface{}) *graphql.Result
	c     *core.Child
	m     *model.Schema
	facts schemaFacts
	// defectSeen counts, per child, the reports of each confirmed defect
	// class: only the first few become violation records (the child keeps at
	// most 40 records, which must stay available for unexplained mismatches);
	// every hit is counted in the feature histogram.
	defectSeen map[string]int
}

// check runs one document through Do and compares with the expectation.
// sigPrefix is "" or "history:".
func (rn *runner) check(env *build.Env, u *introspect.Universe, text string, vars map[string]interface{}, sigPrefix string, order []string, kind string) {
	c := rn.c
	det := func() *caseDetail {
		return &caseDetail{SDL: u.Model.SDL(), Extra: u.Model.Extra, History: order, Query: text, Vars: vars}
	}
	doc, perr := syntax.Parse([]byte(text))
	if perr != nil {
		c.Violation("harness:query-noparse", "generated introspection document rejected by the reference parser: "+perr.Msg, det())
		return
	}
	exp, err := introspect.Eval(u, doc, "", vars)
	if err != nil {
		c.Violation("harness:reference", "reference cannot evaluate the generated document: "+err.Error(), det())
		return
	}
	var res *graphql.Result
	if c.Guard(sigPrefix+"panic:Do", det(), func() {
		if rn.via != nil {
			res = rn.via(text, vars)
		} else {
			res = graphql.Do(graphql.Params{Schema: env.Schema, RequestString: text, VariableValues: vars})
		}
	}) {
		return
	}
	c.Eval(1)
	c.Feature("query:" + kind)
	if res == nil {
		c.Violation(sigPrefix+"response:nil", "Do returned nil", det())
		return
	}
	if len(res.Errors) > 0 {
		d := det()
		for _, e := range res.Errors {
			d.Errors = append(d.Errors, e.Message)
		}
		c.Violation(sigPrefix+"response:errors", "introspection request answered with errors: "+d.Errors[0], d)
		return
	}
	got, nerr := introspect.Normalize(res.Data)
	if nerr != nil {
		c.Violation(sigPrefix+"response:marshal", "data does not marshal: "+nerr.Error(), det())
		return
	}
	rep := introspect.Compare(u, exp, got)
	classes := make([]string, 0, len(rep.DontCare))
	for k := range rep.DontCare {
		classes = append(classes, k)
	}
	sort.Strings(classes)
	for _, k := range classes {
		for i := 0; i < rep.DontCare[k]; i++ {
			c.DontCare(k)
		}
	}
	c.FeatureN("leaves-compared", int64(rep.Leaves))
	c.FeatureN("default-values-judged", int64(rep.Defaults))
	if rn.facts.abstract && rn.facts.marked {
		c.Nontrivial(core.HashString(u.Model.SDL() + "\x00" + strings.Join(u.Model.Extra, ",") + "\x00" + text + "\x00" + harness.CanonArgs(vars) + "\x00" + strings.Join(order, ">")))
	}
	all := append(append([]introspect.Mismatch{}, rep.Defects...), rep.Mismatches...)
	if len(all) == 0 {
		return
	}
	// one violation per signature, with the first few witnesses
	bySig := map[string][]introspect.Mismatch{}
	var sigs []string
	for _, mm := range all {
		if _, ok := bySig[mm.Sig]; !ok {
			sigs = append(sigs, mm.Sig)
		}
		bySig[mm.Sig] = append(bySig[mm.Sig], mm)
	}
	sort.Strings(sigs)
	for _, s := range sigs {
		ms := bySig[s]
		d := det()
		d.Count = len(ms)
		d.Mismatches = ms
		if len(d.Mismatches) > 5 {
			d.Mismatches = d.Mismatches[:5]
		}
		sig := sigPrefix + s
		if strings.HasPrefix(s, "defect:") { // a confirmed conversion defect is the same defect in every history
			sig = s
			c.FeatureN("hit:"+s, int64(len(ms)))
			rn.defectSeen[s]++
			if rn.defectSeen[s] > 2 {
				continue
			}
		}
		c.Violation(sig, fmt.Sprintf("%s (%d such mismatches in this answer) at %s", ms[0].Msg, len(ms), ms[0].Path), d)
	}
}

var inclForms = []string{"", "(includeDeprecated: true)", "(includeDeprecated: false)"}

func run(c *core.Child) {
	nSchemas := c.Scale(25, 625)
	defectSeen := map[string]int{}
	if c.Batch == 0 {
		handmade(c)
	}
	for si := 0; si < nSchemas; si++ {
		sr := c.RNG(1, uint64(si))
		o := schemagen.DefaultOptions(sr)
		o.Descs = si%2 == 0
		o.WrapDepth = []int{2, 3, 4, 4}[si%4]
		o.Mutation = si%3 != 0
		m := schemagen.Gen(sr, o)
		standalone := extend(sr, m)
		seed := sr.U64()
		u := introspect.New(m)
		rn := &runner{c: c, m: m, facts: facts(u), defectSeen: defectSeen}
		env, err := build.Build(m, seed)
		if err != nil {
			if c.Begin(fmt.Sprintf("s%d/build", si)) {
				c.Violation("harness:schema-build", "generated schema model rejected by NewSchema: "+err.Error(), m.SDL())
			}
			continue
		}
		counted := false
		begin := func(id string) bool {
			if !c.Begin(id) {
				return false
			}
			if !counted {
				counted = true
				c.Feature("schemas")
				for _, f := range rn.facts.feats {
					c.Feature("schema:" + f)
				}
				if rn.facts.abstract && rn.facts.marked {
					c.Feature("schemas-nontrivial")
				}
			}
			return true
		}
		// (1) the library's own full introspection query
		if begin(fmt.Sprintf("s%d/full", si)) {
			rn.check(env, u, testutil.IntrospectionQuery, nil, "", nil, "full")
			c.Sample("full", map[string]interface{}{"schema": m.SDL(), "types": u.Names})
		}
		// (2) deeper ofType chains; includeDeprecated absent / true / false by turns (every form also occurs in (3) and (4))
		if incl := inclForms[si%3]; begin(fmt.Sprintf("s%d/deep", si)) {
			rn.check(env, u, deepQuery(incl, 10), nil, "", nil, "deep"+incl)
		}
		// (3) __type(name:) for every type of the set, types of the model outside it, unknown names
		tr := c.RNG(2, uint64(si))
		names := append([]string{}, u.Names...)
		for _, td := range m.Types {
			if !u.Has(td.Name) {
				names = append(names, td.Name)
			}
		}
		names = append(names, unknownNames...)
		for ti, n := range names {
			if begin(fmt.Sprintf("s%d/type/%d", si, ti)) {
				text, vars := typeQuery(n, tr.Derive(uint64(ti)).Chance(30), inclForms[tr.Derive(uint64(ti), 1).Intn(3)])
				kind := "type"
				if !u.Has(n) {
					kind = "type-unknown"
				}
				rn.check(env, u, text, vars, "", nil, kind)
			}
		}
		// (4) random partial selections
		nPart := c.Scale(8, 8)
		for k := 0; k < nPart; k++ {
			if begin(fmt.Sprintf("s%d/part/%d", si, k)) {
				g := newQGen(c.RNG(3, uint64(si), uint64(k)), u)
				text, vars := g.partial()
				rn.check(env, u, text, vars, "", nil, "partial")
				c.Sample("partial", map[string]interface{}{"query": text, "variables": vars})
			}
		}
		// (5) a supplied type left out: implementers / standalone types belong to the schema only when reachable or supplied
		if begin(fmt.Sprintf("s%d/unsupplied", si)) {
			ur := c.RNG(4, uint64(si))
			drop := map[string]bool{standalone[ur.Intn(len(standalone))]: true}
			m2 := withExtra(m, without(m.Extra, drop))
			rn.variant(m2, seed, "unsupplied")
		}
		// (6) histories
		rn.histories(si, seed, standalone, begin)
		// (7) __typename names the runtime object type
		rn.typenames(si, env, begin)
	}
}

// variant builds another model in one go and checks the deep query and the type list.
func (rn *runner) variant(m2 *model.Schema, seed uint64, kind string) {
	c := rn.c
	env, err := build.Build(m2, seed)
	if err != nil {
		c.Violation("harness:schema-build", "variant model rejected by NewSchema: "+err.Error(), m2.SDL())
		return
	}
	u := introspect.New(m2)
	rn.check(env, u, deepQuery("(includeDeprecated: true)", 10), nil, "", nil, kind)
}

const lightQuery = `{ __schema { types { name kind possibleTypes { name } interfaces { name } } } }`

// mediumQuery: what appending types can disturb (type set, kinds, possible types, interfaces, members of
// every type with deprecation and defaults, directives), without descriptions and deep type references.
const mediumQuery = `{ __schema { queryType { name } mutationType { name } subscriptionType { name }
  types { kind name
    fields(includeDeprecated: true) { name isDeprecated args { name defaultValue } type { kind name } }
    inputFields { name defaultValue }
    interfaces { name } possibleTypes { name kind }
    enumValues(includeDeprecated: true) { name isDeprecated } }
  directives { name locations args { name defaultValue } } } }`

func permutations(n int) [][]int {
	var out [][]int
	var rec func(cur []int, used []bool)
	rec = func(cur []int, used []bool) {
		if len(cur) == n {
			out = append(out, append([]int(nil), cur...))
			return
		}
		for i := 0; i < n; i++ {
			if !used[i] {
				used[i] = true
				rec(append(cur, i), used)
				used[i] = false
			}
		}
	}
	rec(nil, make([]bool, n))
	return out
}

// histories: build the schema with a subset of the supplied types held back,
// pass those through AppendType in every order; after every step the schema
// must describe exactly the model with the types supplied so far, and at the
// end the full model.
func (rn *runner) histories(si int, seed uint64, standalone []string, begin func(string) bool) {
	c := rn.c
	m := rn.m
	hr := c.RNG(5, uint64(si))
	// the held-back set: a random non-empty subset of the standalone types, plus sometimes a generated extra type
	var held []string
	for _, n := range standalone {
		if hr.Chance(50) {
			held = append(held, n)
		}
	}
	if len(held) == 0 {
		held = append(held, standalone[hr.Intn(len(standalone))])
	}
	var generated []string
	for _, n := range m.Extra {
		isStandalone := false
		for _, s := range standalone {
			if s == n {
				isStandalone = true
			}
		}
		if !isStandalone {
			generated = append(generated, n)
		}
	}
	if len(generated) > 0 && len(held) < 4 && hr.Chance(50) {
		held = append(held, generated[hr.Intn(len(generated))])
	}
	if len(held) > 4 {
		held = held[:4]
	}
	perms := permutations(len(held))
	maxOrders := c.Scale(24, 6)
	if len(perms) > maxOrders {
		// sampled: a random subset of the orders
		idx := hr.Perm(len(perms))[:maxOrders]
		sort.Ints(idx)
		var sel [][]int
		for _, i := range idx {
			sel = append(sel, perms[i])
		}
		perms = sel
	}
	dropped := map[string]bool{}
	for _, h := range held {
		dropped[h] = true
	}
	initial := without(m.Extra, dropped)
	uFull := introspect.New(m)
	for pi, perm := range perms {
		if !begin(fmt.Sprintf("s%d/hist/%d", si, pi)) {
			continue
		}
		var order []string
		for _, i := range perm {
			order = append(order, held[i])
		}
		c.Feature(fmt.Sprintf("history:appended-%d", len(order)))
		m0 := withExtra(m, initial)
		env, err := build.Build(m0, seed)
		if err != nil {
			c.Violation("harness:schema-build", "history base model rejected by NewSchema: "+err.Error(), m0.SDL())
			continue
		}
		if pi == 0 {
			rn.check(env, introspect.New(m0), lightQuery, nil, "history:", []string{}, "history-base")
		}
		// retained plans: a plan prepared (PlanQuery) and a cache entry made
		// (PlanCache.Get) BEFORE the types are appended; executed afterwards they
		// are still introspection requests against the schema as it is then
		var retained *graphql.Plan
		var cache *graphql.PlanCache
		if pi%2 == 0 {
			if doc, perr := harness.Parse(mediumQuery); perr == nil {
				retained, _ = graphql.PlanQuery(&env.Schema, doc, "")
			}
			cache = graphql.NewPlanCache(graphql.PlanCacheOptions{Normalize: pi%4 == 0})
			cache.Get(&env.Schema, mediumQuery, "")
		}
		supplied := append([]string{}, initial...)
		ok := true
		for step, n := range order {
			var aerr error
			if c.Guard("history:panic:AppendType", map[string]interface{}{"schema": m0.SDL(), "order": order, "step": step}, func() {
				aerr = env.Schema.AppendType(env.Types[n])
			}) {
				ok = false
				break
			}
			if aerr != nil {
				c.Violation("history:append-error", fmt.Sprintf("AppendType(%s) failed: %v", n, aerr), map[string]interface{}{"schema": m0.SDL(), "order": order, "step": step})
				ok = false
				break
			}
			supplied = append(supplied, n)
			if step < len(order)-1 {
				rn.check(env, introspect.New(withExtra(m, supplied)), lightQuery, nil, "history:", order[:step+1], "history-step")
			}
		}
		if !ok {
			continue
		}
		// appending a type twice must change nothing
		if pi%3 == 0 {
			if aerr := env.Schema.AppendType(env.Types[order[0]]); aerr != nil {
				c.Violation("history:append-error", fmt.Sprintf("second AppendType(%s) failed: %v", order[0], aerr), map[string]interface{}{"schema": m0.SDL(), "order": order})
				continue
			}
			c.Feature("history:re-append")
		}
		if retained != nil {
			rn.via = func(text string, vars map[string]interface{}) *graphql.Result {
				return graphql.ExecutePlan(retained, graphql.ExecuteParams{Schema: env.Schema, Args: vars})
			}
			rn.check(env, uFull, mediumQuery, nil, "history:retained-plan:", order, "history-final-retained-plan")
			rn.via = func(text string, vars map[string]interface{}) *graphql.Result {
				pr := cache.Get(&env.Schema, text, "")
				if pr.Plan == nil {
					return &graphql.Result{Errors: pr.Errors}
				}
				return graphql.ExecutePlan(pr.Plan, graphql.ExecuteParams{Schema: env.Schema, Args: pr.SynthArgs})
			}
			rn.check(env, uFull, mediumQuery, nil, "history:plan-cache:", order, "history-final-plan-cache")
			rn.via = nil
		}
		switch {
		case pi == 0:
			rn.check(env, uFull, testutil.IntrospectionQuery, nil, "history:", order, "history-final-full")
		case pi == 1:
			rn.check(env, uFull, deepQuery("(includeDeprecated: true)", 10), nil, "history:", order, "history-final-deep")
		default:
			rn.check(env, uFull, mediumQuery, nil, "history:", order, "history-final")
		}
	}
}

// typenames: light workload for "__typename always names the runtime object type".
func (rn *runner) typenames(si int, env *build.Env, begin func(string) bool) {
	c := rn.c
	m := rn.m
	run1 := func(text string, d *nast.Document, opName string, vars map[string]interface{}) {
		exp := exec.Execute(m, d, opName, vars, nil, env.Seed)
		if exp.VarStatus == 2 {
			c.DontCare("lenient-variable-coercion")
			return
		}
		var r *harness.Run
		if c.Guard("panic:Do", text, func() { r = harness.Do(env, text, opName, vars, nil, nil) }) {
			return
		}
		c.Eval(1)
		c.Feature("query:typename")
		if len(exp.TypeResolutions) > 0 {
			c.Feature("typename:under-abstract")
		}
		ms := respcmp.Compare(exp, r.Result)
		if len(ms) == 0 {
			if rn.facts.abstract && rn.facts.marked {
				c.Nontrivial(core.HashString(m.SDL() + "\x00tn\x00" + text + "\x00" + opName + "\x00" + harness.CanonArgs(vars)))
			}
			return
		}
		var msgs []string
		for _, mm := range ms {
			msgs = append(msgs, mm.String())
		}
		c.Violation("typename", "document with __typename: "+strings.Join(msgs, "; "), map[string]interface{}{
			"schema": m.SDL(), "document": text, "operation": opName, "variables": vars,
			"expected_data": respcmp.Canon(exp.Data), "got": respcmp.Canon(r.Result)})
	}
	// (a) fixed form: every root field of composite type, __typename at top and under every possible type
	if begin(fmt.Sprintf("s%d/tn/roots", si)) {
		q := m.Type(m.Query)
		var parts []string
		for _, f := range q.Fields {
			if !m.IsComposite(f.Type.Base()) {
				continue
			}
			required := false
			for _, a := range f.Args {
				if a.Type.Kind == "nonnull" && !a.HasDefault {
					required = true
				}
			}
			if required {
				continue
			}
			sel := "__typename"
			for _, p := range m.PossibleTypes(f.Type.Base()) {
				sel += " ... on " + p + " { tn: __typename }"
			}
			parts = append(parts, f.Name+" { "+sel+" }")
		}
		if len(parts) > 0 {
			text := "{ __typename " + strings.Join(parts, " ") + " }"
			if d, perr := syntax.Parse([]byte(text)); perr == nil {
				run1(text, d, "", nil)
			}
		}
	}
	// (b) type-directed documents that mention __typename
	nDocs := c.Scale(6, 6)
	for k := 0; k < nDocs; k++ {
		if !begin(fmt.Sprintf("s%d/tn/%d", si, k)) {
			continue
		}
		dr := c.RNG(6, uint64(si), uint64(k))
		opts := typedoc.DefaultOptions(dr)
		opts.Typename = true
		opts.Mutation = false
		d := typedoc.Gen(dr, m, opts)
		text := nast.Print(d.AST)
		if !strings.Contains(text, "__typename") {
			c.Feature("typename:doc-without")
			continue
		}
		astDoc, perr := harness.Parse(text)
		if perr != nil {
			continue
		}
		if vr := graphql.ValidateDocument(&env.Schema, astDoc, nil); !vr.IsValid {
			c.Feature("typename:doc-invalid")
			continue
		}
		for oi, op := range d.Ops {
			opName := ""
			if op.Name != nil {
				opName = op.Name.Value
			}
			if opName == "" && len(d.Ops) > 1 {
				continue
			}
			ar := c.RNG(7, uint64(si), uint64(k), uint64(oi))
			vars := typedoc.Assignment(ar, m, d, op, ar.U64())
			run1(text, d.AST, opName, vars)
		}
	}
}
