package c10

import (
	"os"
	"runtime/pprof"
	"testing"

	"verif/internal/core"
)

func TestProfChild(t *testing.T) {
	dir := "/tmp/intro/prof"
	os.MkdirAll(dir, 0o755)
	f, _ := os.Create(dir + "/cpu.prof")
	pprof.StartCPUProfile(f)
	core.RunChild("C10", "quick", 1, 0, 8, "", dir)
	pprof.StopCPUProfile()
	f.Close()
}
