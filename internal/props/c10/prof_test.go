package c10

import (
	"testing"
	"time"
	"fmt"

	"github.com/graphql-go/graphql"
	"github.com/graphql-go/graphql/testutil"

	"verif/internal/build"
	"verif/internal/core"
	"verif/internal/gen/schemagen"
	"verif/internal/ref/introspect"
	"verif/internal/ref/syntax"
)

func TestProf(t *testing.T) {
	sr := core.NewRNG(5)
	o := schemagen.DefaultOptions(sr)
	o.Descs = true
	o.WrapDepth = 4
	m := schemagen.Gen(sr, o)
	extend(sr, m)
	u := introspect.New(m)
	t0 := time.Now()
	var env *build.Env
	for i := 0; i < 20; i++ {
		env, _ = build.Build(m, 1)
	}
	fmt.Println("build", time.Since(t0)/20, len(u.Names))
	for _, q := range []string{testutil.IntrospectionQuery, deepQuery("", 10), lightQuery} {
		t0 = time.Now()
		var res *graphql.Result
		for i := 0; i < 20; i++ {
			res = graphql.Do(graphql.Params{Schema: env.Schema, RequestString: q})
		}
		fmt.Println("do", time.Since(t0)/20)
		t0 = time.Now()
		doc, _ := syntax.Parse([]byte(q))
		var rep *introspect.Report
		for i := 0; i < 20; i++ {
			exp, err := introspect.Eval(u, doc, "", nil)
			if err != nil { t.Fatal(err) }
			got, _ := introspect.Normalize(res.Data)
			rep = introspect.Compare(u, exp, got)
		}
		fmt.Println("ref", time.Since(t0)/20, len(rep.Mismatches), rep.Leaves)
	}
}
