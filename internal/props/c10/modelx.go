package c10

import (
	"strings"
	"verif/internal/core"
	"verif/internal/gen/schemagen"
	"verif/internal/model"
)

// extend post-processes a generated model (schemagen is not ours to edit):
// it adds STANDALONE types, i.e. types no root reaches, which belong to the
// schema only because they are supplied (SchemaConfig.Types or AppendType):
//
//	XE   enum with non-name internal values, one deprecated value
//	XIn  input object with defaults of every input kind (enum, list of enum,
//	     int, float, string with escapes, boolean, ID, nested input object)
//	X0   an extra implementer of the first interface; its own field carries
//	     arguments with enum / input-object / list defaults and is deprecated
//	     with an EMPTY reason
//	X1   a second extra implementer (of the last interface, and of XI)
//	XI   a standalone interface only X1 implements
//	XD, XDIn (60%) argument types of a custom directive @xdir that nothing else references
//
// These are appended to m.Extra; the names are returned.
func extend(r *core.RNG, m *model.Schema) []string {
	str := func(s string) *string { return &s }
	kind := r.Intn(4)
	internal := func(i int, name string) interface{} {
		switch kind {
		case 0:
			return name
		case 1:
			return i
		case 2:
			return "x-" + name[len(name)-1:] + "!"
		}
		return float64(i) + 0.25
	}
	xe := &model.TypeDef{Kind: model.Enum, Name: "XE", Desc: "standalone enum"}
	for i, n := range []string{"XE_A", "XE_B", "XE_C"} {
		ev := &model.EnumVal{Name: n, Internal: internal(i, n)}
		if i == 1 {
			ev.Deprecation = str("XE_B is old")
			ev.Desc = "deprecated value"
		}
		xe.Values = append(xe.Values, ev)
	}
	m.Types = append(m.Types, xe)
	m.Reindex()

	xin := &model.TypeDef{Kind: model.InputObject, Name: "XIn", Desc: "standalone input", ThunkFields: r.Bool()}
	xin.InputFields = []*model.InputDef{
		{Name: "e", Type: model.Named("XE"), HasDefault: true, Default: xe.Values[r.Intn(3)].Internal},
		{Name: "le", Type: model.ListOf(model.NonNull(model.Named("XE"))), HasDefault: true, Default: []interface{}{xe.Values[0].Internal, xe.Values[2].Internal}},
		{Name: "n", Type: model.Named("Int"), HasDefault: true, Default: 7},
		{Name: "x", Type: model.Named("Float"), HasDefault: true, Default: []float64{2.5, 3, 1e21, 1e-7, -0.5}[r.Intn(5)]},
		{Name: "xint", Type: model.Named("Float"), HasDefault: true, Default: []int{4, 0, -12}[r.Intn(3)], Desc: "a Go int as the default of a Float"},
		{Name: "lone", Type: model.ListOf(model.Named("Int")), HasDefault: true, Default: 5, Desc: "a single value as the default of a list (list of one)"},
		{Name: "s", Type: model.Named("String"), HasDefault: true, Default: []string{"q\"uo\\te", "tab\there\nnl", "", "ünï ☃", "bell\u0007"}[r.Intn(5)]},
		{Name: "b", Type: model.Named("Boolean"), HasDefault: true, Default: r.Bool()},
		{Name: "id", Type: model.Named("ID"), HasDefault: true, Default: "id-9"},
		{Name: "ll", Type: model.ListOf(model.ListOf(model.Named("Int"))), HasDefault: true, Default: []interface{}{[]interface{}{1, 2}, []interface{}{}, []interface{}{3}}},
		{Name: "req", Type: model.NonNull(model.ListOf(model.NonNull(model.ListOf(model.NonNull(model.Named("XE"))))))},
		{Name: "none", Type: model.Named("String"), Desc: "no default"},
	}
	// a nested input object default, when the generated model has one
	for _, td := range m.Types {
		if td.Kind == model.InputObject && td.Name != "XIn" {
			t := model.Named(td.Name)
			if v := schemagen.InternalValue(r, m, t, 2); v != nil {
				xin.InputFields = append(xin.InputFields, &model.InputDef{Name: "nested", Type: t, HasDefault: true, Default: v})
			}
			break
		}
	}
	m.Types = append(m.Types, xin)
	m.Reindex()

	var ifaces []*model.TypeDef
	for _, td := range m.Types {
		if td.Kind == model.Interface {
			ifaces = append(ifaces, td)
		}
	}
	names := []string{"XE", "XIn"}
	mkImpl := func(name string, in *model.TypeDef, own *model.FieldDef) {
		td := &model.TypeDef{Kind: model.Object, Name: name, Desc: "standalone implementer", Interfaces: []string{in.Name},
			ThunkFields: r.Bool(), ThunkInterfaces: r.Bool(), UseIsTypeOf: true}
		for _, f := range in.Fields {
			td.Fields = append(td.Fields, &model.FieldDef{Name: f.Name, Type: f.Type, Args: f.Args, Desc: f.Desc})
		}
		td.Fields = append(td.Fields, own)
		m.Types = append(m.Types, td)
		names = append(names, name)
	}
	if len(ifaces) > 0 {
		// XIn has a required field: a default for it must provide `req`
		xinDefault := map[string]interface{}{"req": []interface{}{[]interface{}{xe.Values[1].Internal}}}
		for _, f := range xin.InputFields {
			if f.HasDefault {
				xinDefault[f.Name] = f.Default // fully coerced form carries the field defaults
			}
		}
		mkImpl("X0", ifaces[0], &model.FieldDef{Name: "x0_own", Type: model.ListOf(model.NonNull(model.Named("XE"))), Deprecation: str(""),
			Args: []*model.InputDef{
				{Name: "e", Type: model.Named("XE"), HasDefault: true, Default: xe.Values[2].Internal, Desc: "enum default"},
				{Name: "in", Type: model.Named("XIn"), HasDefault: true, Default: xinDefault},
				{Name: "lin", Type: model.ListOf(model.Named("XIn")), HasDefault: true, Default: []interface{}{xinDefault}},
				{Name: "plain", Type: model.NonNull(model.Named("Int"))},
			}})
		// XI: a standalone interface only X1 implements: supplied alone it has no possible types
		xiArgs := []*model.InputDef{{Name: "n", Type: model.Named("Int"), HasDefault: true, Default: -1}}
		m.Types = append(m.Types, &model.TypeDef{Kind: model.Interface, Name: "XI", Desc: "standalone interface", ThunkFields: r.Bool(), NoResolveType: true,
			Fields: []*model.FieldDef{{Name: "xi", Type: model.Named("String"), Args: xiArgs}}})
		names = append(names, "XI")
		mkImpl("X1", ifaces[len(ifaces)-1], &model.FieldDef{Name: "x1_own", Type: model.NonNull(model.Named("String")), Deprecation: str("use x0"),
			Args: []*model.InputDef{{Name: "l", Type: model.ListOf(model.Named("String")), HasDefault: true, Default: []interface{}{"a b", "c"}}}})
		x1 := m.Types[len(m.Types)-1]
		x1.Interfaces = append(x1.Interfaces, "XI")
		x1.Fields = append(x1.Fields, &model.FieldDef{Name: "xi", Type: model.NonNull(model.Named("String")), Args: xiArgs})
	}
	if len(ifaces) > 0 {
		// (added by the lead after a seeded change made AppendType rebuild the
		// implementation tables only for appended OBJECTS) XU: a standalone union
		// whose members X2, X3 implement the first interface and are reachable
		// ONLY through it: supplying / appending XU alone brings them in
		for _, n := range []string{"X2", "X3"} {
			mkImpl(n, ifaces[0], &model.FieldDef{Name: strings.ToLower(n) + "_own", Type: model.Named("Int")})
			names = names[:len(names)-1] // not supplied by themselves
		}
		m.Types = append(m.Types, &model.TypeDef{Kind: model.Union, Name: "XU", Desc: "standalone union bringing implementers", Members: []string{"X2", "X3"}, ThunkMembers: r.Bool()})
		names = append(names, "XU")
	}
	m.Extra = append(m.Extra, names...)
	// a subscription root (schemagen never makes one): only the roots clause and the type set look at it
	if r.Bool() {
		m.Subscription = "S"
		m.Types = append(m.Types, &model.TypeDef{Kind: model.Object, Name: "S", Desc: "subscription root", Fields: []*model.FieldDef{
			{Name: "s0", Type: model.Named("Int")},
			{Name: "s1", Type: model.ListOf(model.Named("XE")), Args: []*model.InputDef{{Name: "only", Type: model.Named("XE"), HasDefault: true, Default: xe.Values[0].Internal}}},
		}})
	}
	// a custom directive whose argument types NOTHING else references: they
	// belong to the schema only as "argument types of the directives"
	if r.Chance(60) {
		xd := &model.TypeDef{Kind: model.Enum, Name: "XD", Values: []*model.EnumVal{{Name: "XD_ON", Internal: 10}, {Name: "XD_OFF", Internal: 20}}}
		xdin := &model.TypeDef{Kind: model.InputObject, Name: "XDIn", InputFields: []*model.InputDef{
			{Name: "mode", Type: model.NonNull(model.Named("XD"))}, {Name: "w", Type: model.Named("Float"), HasDefault: true, Default: 1.5}}}
		m.Types = append(m.Types, xd, xdin)
		m.Directives = append(m.Directives, &model.DirectiveDef{Name: "xdir", Desc: "directive with private argument types",
			Locations: []string{"FIELD", "MUTATION", "FRAGMENT_DEFINITION"},
			Args: []*model.InputDef{
				{Name: "mode", Type: model.Named("XD"), HasDefault: true, Default: 20},
				{Name: "opts", Type: model.ListOf(model.NonNull(model.Named("XDIn"))), HasDefault: true, Default: []interface{}{map[string]interface{}{"mode": 10, "w": 1.5}}},
			}})
	}
	m.Reindex()
	return names
}

// withExtra returns a copy of the model that supplies exactly these extra types.
func withExtra(m *model.Schema, extra []string) *model.Schema {
	cp := *m
	cp.Extra = append([]string(nil), extra...)
	cp.Reindex()
	return &cp
}

func without(xs []string, drop map[string]bool) []string {
	var out []string
	for _, x := range xs {
		if !drop[x] {
			out = append(out, x)
		}
	}
	return out
}
