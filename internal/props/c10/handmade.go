package c10

import (
	"fmt"
	"strconv"
	"strings"

	"github.com/graphql-go/graphql"
	"github.com/graphql-go/graphql/language/ast"

	"verif/internal/core"
	"verif/internal/nast"
	"verif/internal/ref/syntax"
)

// handmade: the default of a custom scalar that HAS a round trip. The
// generated schemas' custom scalar (Tag) has none, so its defaults are
// don't-care there; here the scalar Hex keeps an int internally and is
// written "0x1f" in documents (Serialize is the inverse of ParseLiteral /
// ParseValue), so the literal that gives back the configured default 31 is
// known without asking the library: a string literal whose hexadecimal value
// is 31.
func handmade(c *core.Child) {
	if !c.Begin("hand/custom-scalar") {
		return
	}
	unhex := func(s string) interface{} {
		if !strings.HasPrefix(s, "0x") {
			return nil
		}
		n, err := strconv.ParseInt(s[2:], 16, 64)
		if err != nil {
			return nil
		}
		return int(n)
	}
	hex := graphql.NewScalar(graphql.ScalarConfig{Name: "Hex",
		Serialize: func(v interface{}) interface{} {
			if n, ok := v.(int); ok {
				return "0x" + strconv.FormatInt(int64(n), 16)
			}
			return nil
		},
		ParseValue: func(v interface{}) interface{} {
			if s, ok := v.(string); ok {
				return unhex(s)
			}
			return nil
		},
		ParseLiteral: func(v ast.Value) interface{} {
			if s, ok := v.(*ast.StringValue); ok {
				return unhex(s.Value)
			}
			return nil
		}})
	in := graphql.NewInputObject(graphql.InputObjectConfig{Name: "HIn", Fields: graphql.InputObjectConfigFieldMap{
		"h": &graphql.InputObjectFieldConfig{Type: hex, DefaultValue: 16},
	}})
	q := graphql.NewObject(graphql.ObjectConfig{Name: "Q", Fields: graphql.Fields{
		"f": &graphql.Field{Type: graphql.String, Args: graphql.FieldConfigArgument{
			"h": &graphql.ArgumentConfig{Type: hex, DefaultValue: 31},
			"i": &graphql.ArgumentConfig{Type: in},
		}}}})
	schema, err := graphql.NewSchema(graphql.SchemaConfig{Query: q})
	if err != nil {
		c.Violation("harness:schema-build", "handmade schema rejected: "+err.Error(), nil)
		return
	}
	const text = `{ q: __type(name: "Q") { fields { args { name defaultValue } } } i: __type(name: "HIn") { inputFields { name defaultValue } } }`
	var res *graphql.Result
	if c.Guard("panic:Do", text, func() { res = graphql.Do(graphql.Params{Schema: schema, RequestString: text}) }) {
		return
	}
	c.Eval(1)
	c.Feature("query:handmade-custom-scalar")
	want := map[string]int{"q/h": 31, "i/h": 16}
	seen := 0
	check := func(key string, v interface{}) {
		m, _ := v.(map[string]interface{})
		name, _ := m["name"].(string)
		n, ok := want[key+"/"+name]
		if !ok {
			return
		}
		seen++
		text, isStr := m["defaultValue"].(string)
		detail := map[string]interface{}{"scalar": "Hex: internal int n <-> literal \"0x<hex n>\"", "configured_default": n, "reported": m["defaultValue"], "where": key + "." + name}
		if !isStr {
			c.Violation("default-value:missing", fmt.Sprintf("custom scalar default %d reported as %v", n, m["defaultValue"]), detail)
			return
		}
		node, perr := syntax.ParseValue([]byte(text))
		if perr != nil {
			c.Violation("default-value:custom-scalar", fmt.Sprintf("reported %q is not a literal", text), detail)
			return
		}
		if sv, ok := node.(*nast.StringValue); ok && unhex(sv.Value) == interface{}(n) {
			return // gives back the configured default
		}
		sig := "default-value:custom-scalar"
		if iv, ok := node.(*nast.IntValue); ok && iv.Raw == strconv.Itoa(n) {
			sig = "defect:default-value:custom-scalar" // the internal value printed, not its literal (serialized) form
		}
		c.Violation(sig, fmt.Sprintf("custom scalar Hex default %d reported as %s; Hex literals are strings \"0x..\" (this one is invalid for the type)", n, text), detail)
	}
	data, _ := res.Data.(map[string]interface{})
	if qt, ok := data["q"].(map[string]interface{}); ok {
		for _, f := range asList(qt["fields"]) {
			fm, _ := f.(map[string]interface{})
			for _, a := range asList(fm["args"]) {
				check("q", a)
			}
		}
	}
	if it, ok := data["i"].(map[string]interface{}); ok {
		for _, f := range asList(it["inputFields"]) {
			check("i", f)
		}
	}
	if seen != 2 || len(res.Errors) > 0 {
		c.Violation("response:shape", "handmade introspection answer incomplete", map[string]interface{}{"query": text, "data": res.Data, "errors": fmt.Sprint(res.Errors)})
	}
}

func asList(v interface{}) []interface{} {
	switch x := v.(type) {
	case []interface{}:
		return x
	case []map[string]interface{}:
		out := make([]interface{}, len(x))
		for i := range x {
			out[i] = x[i]
		}
		return out
	}
	return nil
}
