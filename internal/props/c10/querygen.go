package c10

import (
	"fmt"
	"sort"
	"strings"

	"verif/internal/core"
	"verif/internal/model"
	"verif/internal/ref/introspect"
)

// deepQuery is a full introspection query whose ofType chains are deep
// enough for wrapping depth 4 with non-null at every level (10 levels;
// testutil.IntrospectionQuery shows 8), with a chosen includeDeprecated form.
func deepQuery(incl string, levels int) string {
	ref := "kind name"
	for i := 0; i < levels; i++ {
		ref = "kind name ofType { " + ref + " }"
	}
	return `query Deep { __schema { queryType { name kind } mutationType { name kind } subscriptionType { name }
  types { ...FullType }
  directives { name description locations args { ...InputValue } onOperation onFragment onField } } }
fragment FullType on __Type { kind name description
  fields` + incl + ` { name description args { ...InputValue } type { ...TypeRef } isDeprecated deprecationReason }
  inputFields { ...InputValue }
  interfaces { ...TypeRef }
  enumValues` + incl + ` { name description isDeprecated deprecationReason }
  possibleTypes { ...TypeRef }
  ofType { name } }
fragment InputValue on __InputValue { name description type { ...TypeRef } defaultValue }
fragment TypeRef on __Type { ` + ref + ` }`
}

// typeQuery describes one type by name.
func typeQuery(name string, viaVar bool, incl string) (string, map[string]interface{}) {
	body := ` { kind name description
  fields` + incl + ` { name description isDeprecated deprecationReason args { name description defaultValue type { ...R } } type { ...R } }
  inputFields { name description defaultValue type { ...R } }
  interfaces { name kind } possibleTypes { name kind }
  enumValues` + incl + ` { name description isDeprecated deprecationReason } ofType { name } }`
	frag := "\nfragment R on __Type { kind name ofType { kind name ofType { kind name ofType { kind name ofType { kind name ofType { kind name ofType { kind name ofType { kind name ofType { kind name ofType { kind name ofType { kind name } } } } } } } } } } }"
	if viaVar {
		return "query T($n: String!) { __type(name: $n)" + body + " }" + frag, map[string]interface{}{"n": name}
	}
	return "{ __type(name: " + quote(name) + ")" + body + " }" + frag, nil
}

func quote(s string) string {
	return `"` + strings.NewReplacer(`\`, `\\`, `"`, `\"`).Replace(s) + `"`
}

// ---- partial selections

type scope struct {
	args map[string]string // field -> argument text of its un-aliased occurrences
	kids map[string]*scope // response key -> scope of the merged sub-selections
}

func newScope() *scope { return &scope{args: map[string]string{}, kids: map[string]*scope{}} }
func (s *scope) kid(key string) *scope {
	if s.kids[key] == nil {
		s.kids[key] = newScope()
	}
	return s.kids[key]
}

type qgen struct {
	r        *core.RNG
	tbl      map[string]*model.TypeDef
	root     string
	names    []string // type names for __type
	frags    []string
	fragScop map[string]bool
	alias    int
	usedVars map[string]bool
}

type item struct {
	text string
	key  string
	fld  *model.FieldDef
	head string // alias + name + args, without directives / selection
}

func (g *qgen) inclArg() string {
	switch g.r.Intn(6) {
	case 0:
		return "(includeDeprecated: true)"
	case 1:
		return "(includeDeprecated: false)"
	case 2:
		g.usedVars["yes"] = true
		return "(includeDeprecated: $yes)"
	case 3:
		g.usedVars["no"] = true
		return "(includeDeprecated: $no)"
	}
	return ""
}

func (g *qgen) directive() string {
	if !g.r.Chance(10) {
		return ""
	}
	switch g.r.Intn(5) {
	case 0:
		return " @include(if: true)"
	case 1:
		return " @skip(if: false)"
	case 2:
		return " @skip(if: true)"
	case 3:
		g.usedVars["yes"] = true
		return " @include(if: $yes)"
	}
	g.usedVars["yes"] = true
	return " @skip(if: $yes)"
}

func (g *qgen) isObject(t *model.TypeRef) bool {
	td := g.tbl[t.Base()]
	return td != nil && td.Kind == model.Object
}

// selection renders `{ ... }` for an introspection object type.
func (g *qgen) selection(typeName string, sc *scope, depth int) string {
	return "{ " + g.items(typeName, sc, depth) + " }"
}

func (g *qgen) items(typeName string, sc *scope, depth int) string {
	td := g.tbl[typeName]
	var cands []*model.FieldDef
	for _, f := range td.Fields {
		if depth <= 0 && g.isObject(f.Type) {
			continue
		}
		cands = append(cands, f)
	}
	n := g.r.Range(1, 4)
	var items []item
	var parts []string
	for i := 0; i < n; i++ {
		if g.r.Chance(6) {
			parts = append(parts, "__typename"+g.directive())
			continue
		}
		f := cands[g.r.Intn(len(cands))]
		it := g.field(f, sc, depth)
		items = append(items, it)
		parts = append(parts, g.wrap(typeName, it.text, sc, depth))
	}
	// duplicate response key: the same field again with a fresh sub-selection (merged)
	if len(items) > 0 && g.r.Chance(20) {
		src := items[g.r.Intn(len(items))]
		txt := src.head + g.directive()
		if g.isObject(src.fld.Type) {
			txt += " " + g.selection(src.fld.Type.Base(), sc.kid(src.key), depth-1)
		}
		parts = append(parts, g.wrap(typeName, txt, sc, depth))
	}
	return strings.Join(parts, " ")
}

func (g *qgen) field(f *model.FieldDef, sc *scope, depth int) item {
	hasArgs := len(f.Args) > 0 // only includeDeprecated in the table
	it := item{fld: f}
	if g.r.Chance(30) {
		g.alias++
		it.key = fmt.Sprintf("a%d", g.alias)
		it.head = it.key + ": " + f.Name
		if hasArgs {
			it.head += g.inclArg()
		}
	} else {
		it.key = f.Name
		args, ok := sc.args[f.Name]
		if !ok {
			if hasArgs {
				args = g.inclArg()
			}
			sc.args[f.Name] = args
		}
		it.head = f.Name + args
	}
	it.text = it.head + g.directive()
	if g.isObject(f.Type) {
		it.text += " " + g.selection(f.Type.Base(), sc.kid(it.key), depth-1)
	}
	return it
}

// wrap sometimes moves a selection into an inline or named fragment.
func (g *qgen) wrap(typeName, text string, sc *scope, depth int) string {
	switch x := g.r.Intn(20); {
	case x == 0:
		return "... on " + typeName + g.directive() + " { " + text + " }"
	case x == 1:
		return "..." + g.directive() + " { " + text + " }"
	case x == 2:
		name := fmt.Sprintf("F%d", len(g.frags))
		g.frags = append(g.frags, "fragment "+name+" on "+typeName+" { "+text+" }")
		return "..." + name
	}
	return text
}

// partial generates a random partial introspection document.
func (g *qgen) partial() (string, map[string]interface{}) {
	g.usedVars = map[string]bool{}
	g.frags = nil
	sc := newScope()
	var parts []string
	n := g.r.Range(1, 3)
	for i := 0; i < n; i++ {
		switch x := g.r.Intn(10); {
		case x < 4:
			key := "__schema"
			head := key
			if g.r.Chance(25) {
				g.alias++
				key = fmt.Sprintf("a%d", g.alias)
				head = key + ": __schema"
			}
			parts = append(parts, head+" "+g.selection("__Schema", sc.kid(key), g.r.Range(1, 5)))
		case x < 9:
			g.alias++
			key := fmt.Sprintf("t%d", g.alias)
			name := g.names[g.r.Intn(len(g.names))]
			if g.r.Chance(8) {
				name = unknownNames[g.r.Intn(len(unknownNames))]
			}
			parts = append(parts, key+": __type(name: "+quote(name)+") "+g.selection("__Type", sc.kid(key), g.r.Range(1, 5)))
		default:
			parts = append(parts, "__typename")
		}
	}
	body := strings.Join(parts, " ")
	if g.r.Chance(10) {
		body = "... on " + g.root + " { " + body + " }"
	}
	head := ""
	var vs []string
	vars := map[string]interface{}{}
	var used []string
	for v := range g.usedVars {
		used = append(used, v)
	}
	sort.Strings(used)
	for _, v := range used {
		switch v {
		case "yes":
			if g.r.Bool() {
				vs = append(vs, "$yes: Boolean = true")
			} else {
				vs = append(vs, "$yes: Boolean!")
				vars["yes"] = true
			}
		case "no":
			vs = append(vs, "$no: Boolean")
			if g.r.Bool() {
				vars["no"] = false
			}
		}
	}
	if len(vs) > 0 {
		head = "query P(" + strings.Join(vs, ", ") + ") "
	} else if g.r.Bool() {
		head = "query P "
	}
	text := head + "{ " + body + " }"
	for _, f := range g.frags {
		text += "\n" + f
	}
	if len(vars) == 0 {
		vars = nil
	}
	return text, vars
}

var unknownNames = []string{"Nope", "", "__Nope", "q0", "[Int]", "String!", "int", "Q ", "__type", "Tag2"}

func newQGen(r *core.RNG, u *introspect.Universe) *qgen {
	g := &qgen{r: r, tbl: map[string]*model.TypeDef{}, root: u.Model.Query, names: u.Names}
	for _, td := range introspect.IntrospectionTypes() {
		g.tbl[td.Name] = td
	}
	return g
}
