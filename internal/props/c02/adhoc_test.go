package c02

import (
	"fmt"
	"os"
	"strings"
	"testing"

	"github.com/graphql-go/graphql"

	"verif/internal/build"
	"verif/internal/harness"
	"verif/internal/ref/syntax"
	"verif/internal/ref/validate"
)

// VERIF_C02_ADHOC="text1 ;; text2" go test -tags verif -run TestAdhoc -v ./internal/props/c02/
// probes documents against the witness model: library verdict per rule next to the reference's.
func TestAdhoc(t *testing.T) {
	in := os.Getenv("VERIF_C02_ADHOC")
	if in == "" {
		t.Skip("set VERIF_C02_ADHOC")
	}
	m := WitnessModel()
	env, err := build.Build(m, 7)
	if err != nil {
		t.Fatal(err)
	}
	for _, text := range strings.Split(in, ";;") {
		text = strings.TrimSpace(text)
		fmt.Printf("---- %q\n", text)
		doc, perr := syntax.Parse([]byte(text))
		if perr != nil {
			fmt.Println("reference parser:", perr.Msg)
			continue
		}
		astDoc, err := harness.Parse(text)
		if err != nil {
			fmt.Println("library parser:", err)
			continue
		}
		res := validate.Decide(m, doc)
		for _, r := range validate.Rules {
			vr := graphql.ValidateDocument(&env.Schema, astDoc, []graphql.ValidationRuleFn{RuleFns[r]})
			if len(vr.Errors) == 0 && !res[r].May {
				continue
			}
			fmt.Printf("%-30s lib=%v ref must=%v may=%v open=%v\n   lib: %v\n   ref: %v\n", r, len(vr.Errors), res[r].Must, res[r].May, res[r].Open, libErrors(nil, vr), refOffences([]byte(text), res[r].Offences))
		}
		all := graphql.ValidateDocument(&env.Schema, astDoc, nil)
		fmt.Println("all rules: IsValid =", all.IsValid)
	}
}
