// Package c02 is the runtime monitor of property C02: validation accepts
// exactly the documents that satisfy every validation rule, and each rule
// reports (at the offending node) exactly when it is violated. Differential
// against the independent brute-force reference verif/internal/ref/validate.
// See README.md and DESIGN.md section 4 (C02).
package c02

import (
	"fmt"
	"os"
	"runtime/debug"
	"runtime/pprof"
	"sort"
	"strings"
	"time"

	"github.com/graphql-go/graphql"
	"github.com/graphql-go/graphql/language/ast"

	"verif/internal/build"
	"verif/internal/core"
	"verif/internal/gen/gramdoc"
	"verif/internal/gen/invaliddoc"
	"verif/internal/gen/schemagen"
	"verif/internal/gen/typedoc"
	"verif/internal/harness"
	"verif/internal/model"
	"verif/internal/nast"
	"verif/internal/ref/exec"
	"verif/internal/ref/syntax"
	"verif/internal/ref/validate"
)

func init() {
	core.Register(&core.Check{
		ID: "C02", Level: "exploration",
		Technique: "differential runtime monitor: graphql.ValidateDocument run with each of the 24 exported rules alone and with all rules, plus graphql.Do, on generated (schema, document) pairs; verdicts and error locations compared with an independent brute-force validator over the schema model (internal/ref/validate)",
		Rule: "cases = (generated schema model, document) from four workloads: (a) type-directed mostly-valid documents, (b) one rule-targeted mutation of a valid document (52 operators covering all 24 rules), (c) two mutations combined, (d) the exhaustive small-scope family over {x:a, x:b, a, a(i:1), a(i:2), ...F, ...G, ...H, ...I} with <= 2 selections per set and all spread graphs (n<=1 exhaustive, seed-dependent index samples for larger n in quick; n<=2 exhaustive in thorough), plus a fixed witness list; " +
			"a case is non-trivial when the document violates >= 1 rule or has >= 1 fragment and >= 1 variable; distinct by hash(schema SDL + document text)",
		Assumptions: []string{
			"the reference validator (internal/ref/validate) implements the October-2016 meaning of the 24 rules (DESIGN.md Appendix A.2); it was calibrated against the library over seeds 1..5 and every disagreement triaged (README.md)",
			"documents with duplicate definitions (fragment / variable / argument / input-field names) are decided under both readings (first / last definition wins); a rule whose verdict depends on the reading is don't-care for that document",
			"suggestion texts and message wording are not compared",
		},
		Batches:      func(tier string) int { return map[string]int{"quick": 8, "thorough": 16}[tier] },
		Run:          run,
		ChildTimeout: func(tier string) time.Duration { return 90 * time.Minute }, // generous: ~8 min per child on an idle machine
		MinEvals:     func(tier string) int { return map[string]int{"quick": 100000, "thorough": 5000000}[tier] },
	})
}

// RuleFns maps the reference's rule names to the library's rule functions.
var RuleFns = map[string]graphql.ValidationRuleFn{
	validate.ArgumentsOfCorrectType:       graphql.ArgumentsOfCorrectTypeRule,
	validate.DefaultValuesOfCorrectType:   graphql.DefaultValuesOfCorrectTypeRule,
	validate.FieldsOnCorrectType:          graphql.FieldsOnCorrectTypeRule,
	validate.FragmentsOnCompositeTypes:    graphql.FragmentsOnCompositeTypesRule,
	validate.KnownArgumentNames:           graphql.KnownArgumentNamesRule,
	validate.KnownDirectives:              graphql.KnownDirectivesRule,
	validate.KnownFragmentNames:           graphql.KnownFragmentNamesRule,
	validate.KnownTypeNames:               graphql.KnownTypeNamesRule,
	validate.LoneAnonymousOperation:       graphql.LoneAnonymousOperationRule,
	validate.NoFragmentCycles:             graphql.NoFragmentCyclesRule,
	validate.NoUndefinedVariables:         graphql.NoUndefinedVariablesRule,
	validate.NoUnusedFragments:            graphql.NoUnusedFragmentsRule,
	validate.NoUnusedVariables:            graphql.NoUnusedVariablesRule,
	validate.OverlappingFieldsCanBeMerged: graphql.OverlappingFieldsCanBeMergedRule,
	validate.PossibleFragmentSpreads:      graphql.PossibleFragmentSpreadsRule,
	validate.ProvidedNonNullArguments:     graphql.ProvidedNonNullArgumentsRule,
	validate.ScalarLeafs:                  graphql.ScalarLeafsRule,
	validate.UniqueArgumentNames:          graphql.UniqueArgumentNamesRule,
	validate.UniqueFragmentNames:          graphql.UniqueFragmentNamesRule,
	validate.UniqueInputFieldNames:        graphql.UniqueInputFieldNamesRule,
	validate.UniqueOperationNames:         graphql.UniqueOperationNamesRule,
	validate.UniqueVariableNames:          graphql.UniqueVariableNamesRule,
	validate.VariablesAreInputTypes:       graphql.VariablesAreInputTypesRule,
	validate.VariablesInAllowedPosition:   graphql.VariablesInAllowedPositionRule,
}

// Case is one (schema, document) pair.
type Case struct {
	Env    *build.Env
	Doc    *nast.Document // spans refer to Text
	Text   string
	Origin string // workload / operator
	Note   string
	// ExpectValid: the generator claims the document is valid (workload a
	// near misses); ExpectRule: the rule the mutation is meant to break.
	ExpectRule string
}

type detail struct {
	Schema   string   `json:"schema"`
	Document string   `json:"document"`
	Origin   string   `json:"origin"`
	Note     string   `json:"note,omitempty"`
	Rule     string   `json:"rule,omitempty"`
	Library  []string `json:"library_errors,omitempty"`
	Ref      []string `json:"reference_offences,omitempty"`
	Shrunk   string   `json:"shrunk_document,omitempty"`
}

type ck struct {
	c        *core.Child
	reported map[string]int
}

const perClassCap = 3

// violation reports with a per-signature cap per child so that one frequent
// class cannot exhaust the driver's record limit; every hit is counted.
func (k *ck) violation(sig, msg string, d interface{}) {
	k.c.Feature("hit:" + sig)
	k.reported[sig]++
	if k.reported[sig] > perClassCap {
		return
	}
	k.c.Violation(sig, msg, d)
}

func libErrors(errs []string, vr graphql.ValidationResult) []string {
	for _, e := range vr.Errors {
		loc := ""
		for _, l := range e.Locations {
			loc += fmt.Sprintf(" (%d:%d)", l.Line, l.Column)
		}
		errs = append(errs, firstLine(e.Message)+loc)
	}
	return errs
}

func firstLine(s string) string {
	if i := strings.IndexByte(s, '\n'); i >= 0 {
		return s[:i]
	}
	return s
}

func refOffences(src []byte, offs []validate.Offence) []string {
	var out []string
	for _, o := range offs {
		s := o.Msg
		if o.Optional {
			s = "(optional) " + s
		}
		for _, n := range o.Nodes {
			l, cb, _ := syntax.LineCol(src, n.Pos().Start)
			s += fmt.Sprintf(" (%d:%d)", l, cb)
		}
		out = append(out, s)
	}
	return out
}

// Starts lists the acceptable (line, column) pairs of node starts: byte
// column always, code-point column too when they differ (non-ASCII text
// earlier on the line).
func Starts(src []byte, nodes []nast.Node) map[[2]int]bool {
	out := map[[2]int]bool{}
	for _, n := range nodes {
		if n == nil || n.Pos() == nil {
			continue
		}
		l, cb, cr := syntax.LineCol(src, n.Pos().Start)
		out[[2]int{l, cb}] = true
		out[[2]int{l, cr}] = true
	}
	return out
}

func firstNodes(offs []validate.Offence) []nast.Node {
	var ns []nast.Node
	for _, o := range offs {
		ns = append(ns, o.Nodes...)
	}
	return ns
}

// AllNodes lists first and related nodes of a list of offences.
func AllNodes(offs []validate.Offence) []nast.Node {
	var ns []nast.Node
	for _, o := range offs {
		ns = append(ns, o.Nodes...)
		ns = append(ns, o.Related...)
	}
	return ns
}

// Evaluate runs one case through the library and the reference.
func (k *ck) evaluate(cs *Case) map[string]validate.Result {
	c := k.c
	m := cs.Env.Model
	src := []byte(cs.Text)
	mk := func(rule string, lib []string, offs []validate.Offence) detail {
		return detail{Schema: m.SDL(), Document: cs.Text, Origin: cs.Origin, Note: cs.Note, Rule: rule, Library: lib, Ref: refOffences(src, offs)}
	}
	var astDoc *ast.Document
	var perr error
	if c.Guard("panic", guardDetail("parse", cs.Text), func() { astDoc, perr = harness.Parse(cs.Text) }) {
		return nil
	}
	if perr != nil {
		k.violation("gen:noparse", "generated document does not parse: "+firstLine(perr.Error()), mk("", nil, nil))
		return nil
	}
	res := validate.Decide(m, cs.Doc)
	valid, invalid := validate.Valid(res)

	for _, rule := range validate.Rules {
		var vr graphql.ValidationResult
		if c.Guard("panic", guardDetail(rule, cs.Text), func() {
			vr = graphql.ValidateDocument(&cs.Env.Schema, astDoc, []graphql.ValidationRuleFn{RuleFns[rule]})
		}) {
			continue
		}
		c.Eval(1)
		rr := res[rule]
		reports := len(vr.Errors) > 0
		if vr.IsValid == reports {
			k.violation("isvalid-inconsistent:"+rule, "IsValid does not match the presence of errors", mk(rule, libErrors(nil, vr), rr.Offences))
		}
		if rr.Must {
			c.Feature("ref-violated:" + rule)
		}
		switch {
		case reports && !rr.May:
			sig := "reject:" + rule
			if s := k.classify(cs, rule, sig, res); s != "" {
				sig = s
			}
			k.violation(sig, "library reports an error, the reference finds the rule satisfied", k.withShrunk(cs, rule, "reject:"+rule, sig, mk(rule, libErrors(nil, vr), rr.Offences)))
		case !reports && rr.Must:
			sig := "accept:" + rule
			if s := k.classify(cs, rule, sig, res); s != "" {
				sig = s
			}
			k.violation(sig, "library reports nothing, the reference finds the rule violated", k.withShrunk(cs, rule, "accept:"+rule, sig, mk(rule, nil, rr.Offences)))
		default:
			if rr.May && !rr.Must {
				c.DontCare("open:" + rule)
			} else {
				c.Feature("agreed:" + rule)
			}
		}
		if reports && rr.May && !rr.Open {
			ok := Starts(src, firstNodes(rr.Offences))
			for _, e := range vr.Errors {
				if len(e.Locations) == 0 {
					k.violation("location:"+rule, "error without location", mk(rule, libErrors(nil, vr), rr.Offences))
					break
				}
				l := e.Locations[0]
				if !ok[[2]int{l.Line, l.Column}] {
					k.violation("location:"+rule, fmt.Sprintf("first location %d:%d of %q is not the start of an offending node", l.Line, l.Column, firstLine(e.Message)), k.withShrunk(cs, rule, "location:"+rule, "location:"+rule, mk(rule, libErrors(nil, vr), rr.Offences)))
					break
				}
			}
		}
	}

	// all rules together
	var all graphql.ValidationResult
	if !c.Guard("panic", guardDetail("all-rules", cs.Text), func() { all = graphql.ValidateDocument(&cs.Env.Schema, astDoc, nil) }) {
		c.Eval(1)
		switch {
		case valid && !all.IsValid, invalid && all.IsValid:
			sig := "all-rules:isvalid"
			// an all-rules disagreement explained by a known per-rule defect class keeps that class's signature
			if s := k.classifyAll(cs, res, all.IsValid); s != "" {
				sig = s
			}
			var offs []validate.Offence
			for _, r := range validate.Rules {
				offs = append(offs, res[r].Offences...)
			}
			k.violation(sig, fmt.Sprintf("all rules: IsValid=%v, reference valid=%v invalid=%v", all.IsValid, valid, invalid), mk("", libErrors(nil, all), offs))
		case !valid && !invalid:
			c.DontCare("open:all-rules")
		default:
			c.Feature("agreed:all-rules")
		}
		if all.IsValid == (len(all.Errors) > 0) {
			k.violation("isvalid-inconsistent:all", "IsValid does not match the presence of errors", mk("", libErrors(nil, all), nil))
		}
	}

	// Do on the same text
	opName := ""
	for _, d := range cs.Doc.Defs {
		if op, ok := d.(*nast.Operation); ok {
			if op.Name != nil {
				opName = op.Name.Value
			}
			break
		}
	}
	var run *harness.Run
	if !c.Guard("panic", guardDetail("Do", cs.Text), func() { run = harness.Do(cs.Env, cs.Text, opName, nil, nil, nil) }) {
		c.Eval(1)
		r := run.Result
		noData := r == nil || r.Data == nil
		if r != nil {
			if mm, ok := r.Data.(map[string]interface{}); ok && mm == nil {
				noData = true
			}
		}
		switch {
		case invalid:
			if !noData || r == nil || len(r.Errors) == 0 || len(harness.Resolves(run.Events)) > 0 {
				sig := "do:data-on-invalid"
				if s := k.classifyAll(cs, res, true); s != "" {
					sig = s
				}
				k.violation(sig, fmt.Sprintf("Do on an invalid document: data present=%v, errors=%d, resolver invocations=%d", !noData, lenErrs(r), len(harness.Resolves(run.Events))), mk("", nil, nil))
			} else {
				c.Feature("agreed:do-invalid")
			}
		case valid:
			exp := exec.Execute(m, cs.Doc, opName, nil, nil, cs.Env.Seed)
			if exp.VarStatus == 2 {
				c.DontCare("do:lenient-variable-coercion")
			} else if noData != (exp.RequestError || exp.Data == nil) {
				k.violation("do:no-data-on-valid", fmt.Sprintf("Do on a valid document: data absent=%v, the reference executor expects request error=%v (%s)", noData, exp.RequestError, exp.Reason), mk("", resultErrors(r), nil))
			} else {
				c.Feature("agreed:do-valid")
			}
		}
	}

	// bookkeeping
	nfrag, nvar := 0, 0
	for _, d := range cs.Doc.Defs {
		switch v := d.(type) {
		case *nast.Fragment:
			nfrag++
		case *nast.Operation:
			nvar += len(v.Vars)
		}
	}
	if invalid || (nfrag > 0 && nvar > 0) {
		c.Nontrivial(core.HashString(m.SDL() + "\x00" + cs.Text))
	}
	switch {
	case valid:
		c.Feature("docs:valid")
	case invalid:
		c.Feature("docs:invalid")
	default:
		c.Feature("docs:open")
	}
	return res
}

// withShrunk adds a greedily shrunk document with the same per-rule
// disagreement to the first records of a signature.
func (k *ck) withShrunk(cs *Case, rule, generic, sig string, d detail) detail {
	if k.reported[sig] >= perClassCap || len(cs.Text) < 80 {
		return d
	}
	d.Shrunk = k.shrink(cs, rule, generic)
	return d
}

func lenErrs(r *graphql.Result) int {
	if r == nil {
		return 0
	}
	return len(r.Errors)
}

func resultErrors(r *graphql.Result) []string {
	var out []string
	if r == nil {
		return nil
	}
	for _, e := range r.Errors {
		out = append(out, firstLine(e.Message))
	}
	return out
}

// ---- workloads

func run(c *core.Child) {
	k := &ck{c: c, reported: map[string]int{}}
	debug.SetGCPercent(400)                              // many short-lived allocations per document, small live heap
	if p := os.Getenv("VERIF_C02_CPUPROFILE"); p != "" { // development aid
		if f, err := os.Create(fmt.Sprintf("%s.%d", p, c.Batch)); err == nil {
			pprof.StartCPUProfile(f)
			defer pprof.StopCPUProfile()
		}
	}
	only := os.Getenv("VERIF_C02_ONLY") // development aid: "witness" | "typed" | "family"
	if only == "" || only == "witness" {
		k.witnesses()
	}
	if only == "" || only == "typed" {
		k.typed()
	}
	if only == "" || only == "family" {
		k.family()
		k.exclusiveFamily()
		k.shapeLattice()
	}
}

// shapeLattice: one response key, two mutually exclusive parents (Dog / Cat)
// and every ordered pair of result types out of a lattice of wrappers around
// a scalar, another scalar, an enum and an object: the response shapes agree
// only for identical wrappers around identical leaves (or around composite
// types whose sub-selections agree). Also the same pairs under ONE parent,
// where different field names conflict whatever their types.
func (k *ck) shapeLattice() {
	c := k.c
	N, NN, L := model.Named, model.NonNull, model.ListOf
	leafs := []*model.TypeRef{N("Int"), N("String"), N("Color"), N("Person")}
	var types []*model.TypeRef
	for _, l := range leafs {
		types = append(types, l, NN(l), L(l), L(NN(l)), NN(L(l)), L(L(l)))
	}
	var fields []*model.FieldDef
	for i, t := range types {
		fields = append(fields, &model.FieldDef{Name: fmt.Sprintf("v%d", i), Type: t})
	}
	person := &model.TypeDef{Kind: model.Object, Name: "Person", Fields: []*model.FieldDef{{Name: "name", Type: N("String")}, {Name: "age", Type: N("Int")}}}
	m := &model.Schema{Query: "Q", Types: []*model.TypeDef{person,
		{Kind: model.Enum, Name: "Color", Values: []*model.EnumVal{{Name: "RED", Internal: "RED"}, {Name: "BLUE", Internal: "BLUE"}}},
		{Kind: model.Interface, Name: "Pet", Fields: []*model.FieldDef{{Name: "v0", Type: N("Int")}}},
		{Kind: model.Object, Name: "Dog", Interfaces: []string{"Pet"}, Fields: fields},
		{Kind: model.Object, Name: "Cat", Interfaces: []string{"Pet"}, Fields: fields},
		{Kind: model.Object, Name: "Q", Fields: []*model.FieldDef{{Name: "pet", Type: N("Pet")}}},
	}, Extra: []string{"Dog", "Cat"}}
	m.Reindex()
	env, err := build.Build(m, 97)
	if err != nil {
		if c.Begin("lattice/build") {
			c.Violation("harness:schema-build", err.Error(), nil)
		}
		return
	}
	sel := func(i int, sub string) string {
		if types[i].Base() == "Person" {
			return fmt.Sprintf("k: v%d { %s }", i, sub)
		}
		return fmt.Sprintf("k: v%d", i)
	}
	idx := 0
	for i := range types {
		for j := range types {
			for variant := 0; variant < 4; variant++ {
				idx++
				if idx%c.NBatches != c.Batch {
					continue
				}
				id := fmt.Sprintf("lattice/%d/%d/%d", i, j, variant)
				if !c.Begin(id) {
					continue
				}
				var text string
				switch variant {
				case 0: // exclusive parents
					text = fmt.Sprintf("{ pet { ... on Dog { %s } ... on Cat { %s } } }", sel(i, "name"), sel(j, "name"))
				case 1: // exclusive parents, the second side inside a named fragment, differing sub-selections
					text = fmt.Sprintf("{ pet { ... on Dog { %s } ...F } } fragment F on Cat { %s }", sel(i, "name"), sel(j, "n: name"))
				case 2: // same parent
					text = fmt.Sprintf("{ pet { ... on Dog { %s } ... on Dog { %s } } }", sel(i, "name"), sel(j, "name"))
				default: // exclusive parents, sub-selections that conflict in shape (String vs Int under one key)
					text = fmt.Sprintf("{ pet { ... on Dog { %s } ... on Cat { %s } } }", sel(i, "x: name"), sel(j, "x: age"))
				}
				doc, perr := syntax.Parse([]byte(text))
				if perr != nil {
					c.Violation("harness:family-text", "shape-lattice text rejected by the reference parser: "+perr.Msg, text)
					continue
				}
				res := k.evaluate(&Case{Env: env, Doc: doc, Text: text, Origin: "shape-lattice"})
				c.Feature("shape-lattice")
				if res != nil && res[validate.OverlappingFieldsCanBeMerged].Must {
					c.Feature("shape-lattice:overlap-conflict")
				}
			}
		}
	}
}

// exclusiveFamily (added by the lead after a seeded change made the overlap
// rule's (fields, fragment) memo ignore the "mutually exclusive" flag): all
// sequences of up to three inline fragments on Dog / Cat below an interface-
// typed field, each selecting `owner { body }` with body drawn from plain
// fields, an aliased field, and spreads of fragments that hide an alias. The
// same (field set, fragment) pair is then compared under exclusive parents
// (Dog vs Cat: only shapes must agree) and under the same parent (Dog vs Dog:
// names and arguments must agree too), in every order.
func (k *ck) exclusiveFamily() {
	c := k.c
	N := model.Named
	str := N("String")
	person := &model.TypeDef{Kind: model.Object, Name: "Person", Fields: []*model.FieldDef{{Name: "name", Type: str}, {Name: "nick", Type: str},
		{Name: "age", Type: N("Int")}, {Name: "tag", Type: str, Args: []*model.InputDef{{Name: "n", Type: N("Int")}}}}}
	petFields := []*model.FieldDef{{Name: "owner", Type: N("Person")}}
	m := &model.Schema{Query: "Q", Types: []*model.TypeDef{person,
		{Kind: model.Interface, Name: "Pet", Fields: petFields},
		{Kind: model.Object, Name: "Dog", Interfaces: []string{"Pet"}, Fields: petFields},
		{Kind: model.Object, Name: "Cat", Interfaces: []string{"Pet"}, Fields: petFields},
		{Kind: model.Object, Name: "Q", Fields: []*model.FieldDef{{Name: "pet", Type: N("Pet")}}},
	}, Extra: []string{"Dog", "Cat"}}
	m.Reindex()
	env, err := build.Build(m, 98)
	if err != nil {
		c.Violation("harness:schema-build", err.Error(), nil)
		return
	}
	bodies := []string{"name", "name: nick", "name: age", "...X", "...Y", "...Z", "t: tag(n: 1)", "...T2"}
	frags := map[string]string{
		"...X":  " fragment X on Person { name: nick }",
		"...Y":  " fragment Y on Person { name }",
		"...Z":  " fragment Z on Person { ...X }",
		"...T2": " fragment T2 on Person { t: tag(n: 2) }",
	}
	types := []string{"Dog", "Cat"}
	nb := len(bodies) * len(types)
	idx := 0
	for L := 2; L <= 3; L++ {
		total := 1
		for i := 0; i < L; i++ {
			total *= nb
		}
		for code := 0; code < total; code++ {
			idx++
			if idx%c.NBatches != c.Batch {
				continue
			}
			if c.Quick() && L == 3 && code%3 != int(c.Seed%3) {
				continue // quick: a seed-dependent third of the length-3 sequences
			}
			id := fmt.Sprintf("xfam/%d/%d", L, code)
			if !c.Begin(id) {
				continue
			}
			var b strings.Builder
			b.WriteString("{ pet {")
			used := map[string]bool{}
			x := code
			for i := 0; i < L; i++ {
				sel := x % nb
				x /= nb
				body := bodies[sel%len(bodies)]
				fmt.Fprintf(&b, " ... on %s { owner { %s } }", types[sel/len(bodies)], body)
				if _, ok := frags[body]; ok {
					used[body] = true
					if body == "...Z" {
						used["...X"] = true
					}
				}
			}
			b.WriteString(" } }")
			for _, f := range []string{"...X", "...Y", "...Z", "...T2"} {
				if used[f] {
					b.WriteString(frags[f])
				}
			}
			text := b.String()
			doc, perr := syntax.Parse([]byte(text))
			if perr != nil {
				c.Violation("harness:family-text", "exclusive-family text rejected by the reference parser: "+perr.Msg, text)
				continue
			}
			res := k.evaluate(&Case{Env: env, Doc: doc, Text: text, Origin: "exclusive-family"})
			c.Feature("exclusive-family")
			if res != nil && res[validate.OverlappingFieldsCanBeMerged].Must {
				c.Feature("exclusive-family:overlap-conflict")
				if code%41 == 0 {
					c.Sample("exclusive-family", text)
				}
			}
		}
	}
}

// typed: workloads (a) valid typed documents, (b) one mutation, (c) two mutations.
func (k *ck) typed() {
	c := k.c
	nSchemas := c.Scale(6, 30)
	nDocs := c.Scale(30, 110)
	nops := len(invaliddoc.Operators)
	for si := 0; si < nSchemas; si++ {
		sr := c.RNG(1, uint64(si))
		opts := schemagen.DefaultOptions(sr)
		opts.Descs = true // custom directive available more often
		m := schemagen.Gen(sr, opts)
		env, err := build.Build(m, sr.U64())
		if err != nil {
			if c.Begin(fmt.Sprintf("s%d/build", si)) {
				c.Violation("harness:schema-build", "generated schema model rejected by NewSchema: "+err.Error(), m.SDL())
			}
			continue
		}
		env.Quiet = false
		k.checkTypeMap(env, fmt.Sprintf("s%d/typemap", si))
		for di := 0; di < nDocs; di++ {
			dr := c.RNG(2, uint64(si), uint64(di))
			topts := typedoc.DefaultOptions(dr)
			// the library's visitor dominates the cost (25 passes per document):
			// most documents are kept moderate, a share stays large
			if !dr.Chance(25) {
				if topts.MaxDepth > 3 {
					topts.MaxDepth = 3
				}
				if topts.MaxWidth > 3 {
					topts.MaxWidth = 3
				}
			}
			d := typedoc.Gen(dr, m, topts)
			id := fmt.Sprintf("s%d/d%d", si, di)
			var base map[string]validate.Result
			if c.Begin(id) {
				text := nast.Print(d.AST)
				base = k.evaluate(&Case{Env: env, Doc: d.AST, Text: text, Origin: "typed"})
				if base != nil {
					if v, _ := validate.Valid(base); v {
						c.Feature("typed:valid")
					} else {
						c.Feature("typed:not-valid")
						for _, r := range validate.ViolatedRules(base) {
							c.Feature("typed:violates:" + r)
						}
					}
				}
			}
			// mutations start from documents the REFERENCE finds valid, so that a
			// mutation's effect is attributable (the library's opinion is not consulted)
			if v, _ := validate.Valid(validate.Decide(m, d.AST)); !v {
				continue
			}
			// (b) one mutation: each document gets a window of operators; all
			// operators are covered round-robin over the documents
			nb := c.Scale(5, 8)
			for j := 0; j < nb; j++ {
				op := (di*nb + j + si*7 + c.Batch*13) % nops
				mid := fmt.Sprintf("%s/m%d", id, op)
				if !c.Begin(mid) {
					continue
				}
				mr := c.RNG(3, uint64(si), uint64(di), uint64(op))
				res, ok := invaliddoc.Apply(mr, m, d.AST, op)
				if !ok {
					c.Feature("mutation-no-site:" + invaliddoc.Operators[op].Name)
					continue
				}
				k.mutated(env, res, "mutation:"+res.Operator, mr)
			}
			// (c) two-rule combinations
			nc := c.Scale(2, 3)
			for j := 0; j < nc; j++ {
				cr := c.RNG(4, uint64(si), uint64(di), uint64(j))
				o1, o2 := cr.Intn(nops), cr.Intn(nops)
				cid := fmt.Sprintf("%s/c%d-%d", id, o1, o2)
				if !c.Begin(cid) {
					continue
				}
				res, ok := invaliddoc.ApplyTwo(cr, m, d.AST, o1, o2)
				if !ok {
					c.Feature("combination-no-site")
					continue
				}
				k.mutated(env, res, "combination:"+res.Operator, cr)
			}
		}
	}
}

func (k *ck) mutated(env *build.Env, res *invaliddoc.Result, origin string, r *core.RNG) {
	c := k.c
	var text string
	// mostly the compact printer (ASCII columns are exact); sometimes a layout
	if r.Chance(15) {
		lay := gramdoc.RandomLayout(r.Derive(0x1a))
		lay.MultiByte, lay.BOM = false, false
		text = gramdoc.Render(res.Doc, lay)
	} else {
		text = nast.Print(res.Doc)
	}
	out := k.evaluate(&Case{Env: env, Doc: res.Doc, Text: text, Origin: origin, Note: res.Note, ExpectRule: res.Rule})
	if out == nil {
		return
	}
	c.Feature("operator:" + res.Operator)
	// generator self-check (evidence only): did the mutation break the rule it targets?
	if !strings.Contains(res.Operator, "+") {
		op := invaliddoc.Operators[invaliddoc.OperatorIndex(res.Operator)]
		valid, _ := validate.Valid(out)
		switch {
		case op.KeepsValid && valid:
			c.Feature("near-miss-stays-valid:" + op.Name)
		case op.KeepsValid:
			c.Feature("near-miss-became-invalid:" + op.Name)
			c.Sample("near-miss-became-invalid", map[string]interface{}{"document": text, "note": res.Note, "violated": validate.ViolatedRules(out)})
		case out[op.Rule].Must:
			vs := validate.ViolatedRules(out)
			if len(vs) == 1 {
				c.Feature("mutation-exact:" + op.Name)
			} else {
				c.Feature("mutation-hit-plus-others:" + op.Name)
			}
		default:
			c.Feature("mutation-missed-target:" + op.Name)
			c.Sample("mutation-missed-target", map[string]interface{}{"operator": op.Name, "document": text, "note": res.Note, "violated": validate.ViolatedRules(out)})
		}
		if out[op.Rule].Must {
			c.Sample("invalid:"+op.Rule, map[string]interface{}{"document": text, "note": res.Note})
		}
	}
}

// checkTypeMap is a harness self-check: the set of types the reference
// considers part of the schema (validate.Reachable over the model) must be
// the set of names in the built schema's type map (introspection types aside).
func (k *ck) checkTypeMap(env *build.Env, id string) {
	c := k.c
	if !c.Begin(id) {
		return
	}
	reach := validate.Reachable(env.Model)
	lib := map[string]bool{}
	for name := range env.Schema.TypeMap() {
		if !strings.HasPrefix(name, "__") {
			lib[name] = true
		}
	}
	var diff []string
	for _, n := range sortedKeys(reach) {
		if !lib[n] {
			diff = append(diff, "reference-only:"+n)
		}
	}
	for _, n := range sortedKeys(lib) {
		if !reach[n] {
			diff = append(diff, "library-only:"+n)
		}
	}
	if len(diff) > 0 {
		c.Violation("harness:typemap", "the reference's notion of the schema's types differs from the built schema: "+strings.Join(diff, " "), env.Model.SDL())
	}
}

// family: workload (d).
func (k *ck) family() {
	c := k.c
	m := invaliddoc.FamilyModel()
	env, err := build.Build(m, 99)
	if err != nil {
		c.Violation("harness:schema-build", err.Error(), nil)
		return
	}
	one := func(n int, idx uint64) {
		id := fmt.Sprintf("fam/%d/%d", n, idx)
		if !c.Begin(id) {
			return
		}
		text := invaliddoc.FamilyDoc(n, idx)
		doc, perr := syntax.Parse([]byte(text))
		if perr != nil {
			c.Violation("harness:family-text", "family text rejected by the reference parser: "+perr.Msg, text)
			return
		}
		res := k.evaluate(&Case{Env: env, Doc: doc, Text: text, Origin: fmt.Sprintf("family/%d", n)})
		c.Feature(fmt.Sprintf("family:n=%d", n))
		if res != nil && res[validate.NoFragmentCycles].Must {
			c.Feature("family:cyclic")
		}
		if res != nil && res[validate.OverlappingFieldsCanBeMerged].Must {
			c.Feature("family:overlap-conflict")
			if idx%37 == 0 {
				c.Sample("family-overlap", text)
			}
		}
	}
	exhaustive := func(n int) {
		size := invaliddoc.FamilySize(n)
		for idx := uint64(c.Batch); idx < size; idx += uint64(c.NBatches) {
			one(n, idx)
		}
	}
	sample := func(n, count int) {
		size := invaliddoc.FamilySize(n)
		for i := 0; i < count; i++ {
			r := c.RNG(5, uint64(n), uint64(i))
			one(n, r.U64()%size)
		}
	}
	exhaustive(0)
	exhaustive(1)
	if c.Quick() {
		sample(2, 300)
		sample(3, 350)
	} else {
		exhaustive(2)
		sample(3, 6000)
		sample(4, 3000)
	}
}

// sortedKeys is used wherever a map reaches output.
func sortedKeys(m map[string]bool) []string {
	out := make([]string, 0, len(m))
	for k := range m {
		out = append(out, k)
	}
	sort.Strings(out)
	return out
}

var _ = model.Named

// guardDetail labels the detail of an escaped panic with the call that was
// running (the signature is panic:<first library frame>).
func guardDetail(call string, text interface{}) map[string]interface{} {
	return map[string]interface{}{"call": call, "text": text}
}
