package c02

import (
	"github.com/graphql-go/graphql"

	"verif/internal/gen/invaliddoc"
	"verif/internal/harness"
	"verif/internal/nast"
	"verif/internal/ref/validate"
)

// Greedy shrinker (DESIGN.md section 3.4): delete definitions, selections,
// directives, arguments, variable definitions, input fields and list items
// one at a time while the SAME per-rule disagreement persists. Only used for
// per-rule signatures (accept: / reject: / location:); the shrunk document is
// added to the violation detail, the original stays the replayable case.

// deleter walks a document and performs the k-th possible deletion.
type deleter struct {
	k, n int
	done bool
}

func (d *deleter) hit() bool {
	if d.done {
		return false
	}
	d.n++
	if d.n-1 == d.k {
		d.done = true
		return true
	}
	return false
}

func (d *deleter) args(as []*nast.Argument) []*nast.Argument {
	for i := range as {
		if d.hit() {
			return append(append([]*nast.Argument{}, as[:i]...), as[i+1:]...)
		}
	}
	for _, a := range as {
		a.Value = d.value(a.Value)
	}
	return as
}

func (d *deleter) value(v nast.Node) nast.Node {
	switch x := v.(type) {
	case *nast.ListValue:
		for i := range x.Items {
			if d.hit() {
				x.Items = append(append([]nast.Node{}, x.Items[:i]...), x.Items[i+1:]...)
				return x
			}
		}
		for i := range x.Items {
			x.Items[i] = d.value(x.Items[i])
		}
	case *nast.ObjectValue:
		for i := range x.Fields {
			if d.hit() {
				x.Fields = append(append([]*nast.ObjectField{}, x.Fields[:i]...), x.Fields[i+1:]...)
				return x
			}
		}
		for _, f := range x.Fields {
			f.Value = d.value(f.Value)
		}
	}
	return v
}

func (d *deleter) dirs(ds []*nast.Directive) []*nast.Directive {
	for i := range ds {
		if d.hit() {
			return append(append([]*nast.Directive{}, ds[:i]...), ds[i+1:]...)
		}
	}
	for _, x := range ds {
		x.Args = d.args(x.Args)
	}
	return ds
}

func (d *deleter) sel(ss *nast.SelectionSet) {
	if ss == nil {
		return
	}
	if len(ss.Items) > 1 {
		for i := range ss.Items {
			if d.hit() {
				ss.Items = append(append([]nast.Node{}, ss.Items[:i]...), ss.Items[i+1:]...)
				return
			}
		}
	}
	for i, it := range ss.Items {
		switch v := it.(type) {
		case *nast.Field:
			v.Args = d.args(v.Args)
			v.Directives = d.dirs(v.Directives)
			if v.Alias != nil && d.hit() {
				v.Alias = nil
			}
			d.sel(v.Sel)
		case *nast.FragmentSpread:
			v.Directives = d.dirs(v.Directives)
		case *nast.InlineFragment:
			v.Directives = d.dirs(v.Directives)
			// hoist the contents of an inline fragment without condition
			if v.TypeCond == nil && len(v.Directives) == 0 && d.hit() {
				items := append(append([]nast.Node{}, ss.Items[:i]...), v.Sel.Items...)
				ss.Items = append(items, ss.Items[i+1:]...)
				return
			}
			d.sel(v.Sel)
		}
	}
}

func (d *deleter) doc(doc *nast.Document) {
	if len(doc.Defs) > 1 {
		for i := range doc.Defs {
			if d.hit() {
				doc.Defs = append(append([]nast.Node{}, doc.Defs[:i]...), doc.Defs[i+1:]...)
				return
			}
		}
	}
	for _, def := range doc.Defs {
		switch v := def.(type) {
		case *nast.Operation:
			for i := range v.Vars {
				if d.hit() {
					v.Vars = append(append([]*nast.VarDef{}, v.Vars[:i]...), v.Vars[i+1:]...)
					return
				}
			}
			for _, vd := range v.Vars {
				if vd.Default != nil && d.hit() {
					vd.Default = nil
					return
				}
				vd.Default = d.value(vd.Default)
			}
			v.Directives = d.dirs(v.Directives)
			d.sel(v.Sel)
		case *nast.Fragment:
			v.Directives = d.dirs(v.Directives)
			d.sel(v.Sel)
		}
	}
}

// ruleSignature recomputes the per-rule verdict of one document ("" = agree).
func (k *ck) ruleSignature(cs *Case, rule string) string {
	astDoc, err := harness.Parse(cs.Text)
	if err != nil {
		return ""
	}
	rr := validate.Decide(cs.Env.Model, cs.Doc)[rule]
	sig := ""
	k.c.Guard("panic", guardDetail("shrink", cs.Text), func() {
		vr := graphql.ValidateDocument(&cs.Env.Schema, astDoc, []graphql.ValidationRuleFn{RuleFns[rule]})
		reports := len(vr.Errors) > 0
		switch {
		case reports && !rr.May:
			sig = "reject:" + rule
		case !reports && rr.Must:
			sig = "accept:" + rule
		case reports && rr.May && !rr.Open:
			ok := Starts([]byte(cs.Text), firstNodes(rr.Offences))
			for _, e := range vr.Errors {
				if len(e.Locations) == 0 || !ok[[2]int{e.Locations[0].Line, e.Locations[0].Column}] {
					sig = "location:" + rule
				}
			}
		}
	})
	return sig
}

// shrink returns the text of a smaller document with the same per-rule signature.
func (k *ck) shrink(cs *Case, rule, sig string) string {
	cur := invaliddoc.Clone(cs.Doc)
	best := ""
	for round := 0; round < 400; round++ {
		progressed := false
		for kk := 0; ; kk++ {
			cand := invaliddoc.Clone(cur)
			d := &deleter{k: kk}
			d.doc(cand)
			if !d.done {
				break
			}
			text := nast.Print(cand)
			if k.ruleSignature(&Case{Env: cs.Env, Doc: cand, Text: text}, rule) == sig {
				cur, best, progressed = cand, text, true
				break
			}
		}
		if !progressed {
			break
		}
	}
	return best
}
