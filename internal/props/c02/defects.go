package c02

import "verif/internal/ref/validate"

func (k *ck) classify(cs *Case, rule, sig string, res map[string]validate.Result) string { return "" }
func (k *ck) classifyAll(cs *Case, res map[string]validate.Result, libValid bool) string  { return "" }
func (k *ck) witnesses()                                                                   {}
