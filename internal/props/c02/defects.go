package c02

import (
	"fmt"

	"verif/internal/build"
	"verif/internal/model"
	"verif/internal/nast"
	"verif/internal/ref/syntax"
	"verif/internal/ref/validate"
)

// WitnessModel is the small fixed schema the witness list (and ad-hoc
// probes) run against:
//
//	type Q { a(i: Int): String  b: String  n(x: Int!): String  f(in: In): String  g(e: E, l: [Int]): Int
//	         o: O  os: [O]  i: I  u: U }
//	type O implements I { x: String  y: Int  o: O }
//	type P implements I { x: String  y: String  z: Float }
//	interface I { x: String }     union U = O | P
//	input In { a: Int  b: In2  l: [In2] }   input In2 { c: Int  d: Int }
//	enum E { A B }
func WitnessModel() *model.Schema {
	N := model.Named
	str, in := N("String"), N("Int")
	m := &model.Schema{Query: "Q", Types: []*model.TypeDef{
		{Kind: model.Enum, Name: "E", Values: []*model.EnumVal{{Name: "A", Internal: "A"}, {Name: "B", Internal: "B"}}},
		{Kind: model.InputObject, Name: "In2", InputFields: []*model.InputDef{{Name: "c", Type: in}, {Name: "d", Type: in}}},
		{Kind: model.InputObject, Name: "In", InputFields: []*model.InputDef{{Name: "a", Type: in}, {Name: "b", Type: N("In2")}, {Name: "l", Type: model.ListOf(N("In2"))}}},
		{Kind: model.Interface, Name: "I", Fields: []*model.FieldDef{{Name: "x", Type: str}}},
		{Kind: model.Object, Name: "O", Interfaces: []string{"I"}, Fields: []*model.FieldDef{{Name: "x", Type: str}, {Name: "y", Type: in}, {Name: "o", Type: N("O")}}},
		{Kind: model.Object, Name: "P", Interfaces: []string{"I"}, Fields: []*model.FieldDef{{Name: "x", Type: str}, {Name: "y", Type: str}, {Name: "z", Type: N("Float")}}},
		{Kind: model.Union, Name: "U", Members: []string{"O", "P"}},
		{Kind: model.Object, Name: "Q", Fields: []*model.FieldDef{
			{Name: "a", Type: str, Args: []*model.InputDef{{Name: "i", Type: in}}},
			{Name: "b", Type: str},
			{Name: "n", Type: str, Args: []*model.InputDef{{Name: "x", Type: model.NonNull(in)}}},
			{Name: "f", Type: str, Args: []*model.InputDef{{Name: "in", Type: N("In")}}},
			{Name: "g", Type: in, Args: []*model.InputDef{{Name: "e", Type: N("E")}, {Name: "l", Type: model.ListOf(in)}}},
			{Name: "o", Type: N("O")},
			{Name: "os", Type: model.ListOf(N("O"))},
			{Name: "i", Type: N("I")},
			{Name: "u", Type: N("U")},
		}},
	}, Extra: []string{"O", "P"}}
	m.Reindex()
	return m
}

// witnessTexts are minimal documents for every defect class found so far and
// for the repaired defects the property names; they run through the same
// differential as every generated case (no hand-written expectations).
var witnessTexts = []string{
	// overlap through fragment chains (D4, repaired)
	"{ x: a ...F } fragment F on Q { ...G } fragment G on Q { x: b }",
	"{ x: a ...F } fragment F on Q { ...G } fragment G on Q { ...H } fragment H on Q { x: b }",
	"{ ...F ...G } fragment F on Q { x: a } fragment G on Q { ...H } fragment H on Q { x: b }",
	"{ o { x: x } ...F } fragment F on Q { o { ...G } } fragment G on O { x: y }",
	"{ a(i: 1) ...F } fragment F on Q { ...G } fragment G on Q { a(i: 2) }",
	"{ ...F } fragment F on Q { x: a ...G } fragment G on Q { x: b ...F }",
	// inline fragment without type condition inside a list field (D20, repaired)
	"{ os { ... { x } } }",
	// nested input objects
	"{ f(in: {b: {c: 1, c: 2}}) }",
	"{ f(in: {a: 1, a: 2}) }",
	"{ f(in: {l: [{c: 1, c: 1}]}) }",
	"{ f(in: {l: [{c: 1}, {d: 2, d: 2}]}) }",
	"query($v: In = {b: {c: 1, c: 2}}) { f(in: $v) }",
	// anonymous operations
	"{ a } { b }",
	"query { a } { b } query A { a }",
	// Int range
	"{ a(i: 2147483648) }", "{ a(i: -2147483649) }", "{ a(i: 2147483647) }", "{ a(i: -2147483648) }",
	"query($v: Int = -2147483649) { a(i: $v) }",
	// response shape under exclusive parents, __typename included
	"{ u { ... on O { k: y } ... on P { k: y } } }",
	"{ u { ... on O { k: y } ... on P { k: __typename } } }",
	"{ u { ... on O { k: x } ... on P { k: __typename } } }",
	"{ i { ... on O { k: x } ... on P { k: z } } }",
	// unknown directive arguments are not typed by the field (repaired)
	"{ a(i: 1) @nosuch(i: \"x\") }",
	// variables: default widening, list-ness
	"query($v: Int = 1) { n(x: $v) }", "query($v: Int) { n(x: $v) }", "query($v: Int! = 1) { n(x: $v) }",
	"query($v: Int) { g(l: $v) }", "query($v: [Int]) { g(l: [$v]) }", "query($v: Int) { g(l: [$v]) }",
	// unknown types, wrapped and bare
	"query($v: Nope) { a(i: $v) }", "query($v: Nope!) { a(i: $v) }", "query($v: [Nope]) { a(i: $v) }",
	"query($v: ID) { a }", "query($v: Float) { a }",
	// cycles
	"{ ...F } fragment F on Q { ...F }",
	"{ ...F } fragment F on Q { o { ...G } } fragment G on O { o { ...G } }",
	"{ a } fragment F on Q { ...G } fragment G on Q { ...F }",
	"{ o { ...R } o { ...R } } fragment R on O { o { ...R } }",
	"{ o { ...R } o { ...S } } fragment R on O { k: x o { ...R } } fragment S on O { o { ...S k: y } }",
}

func (k *ck) witnesses() {
	c := k.c
	if c.Batch != 0 {
		return
	}
	m := WitnessModel()
	env, err := build.Build(m, 7)
	if err != nil {
		c.Violation("harness:schema-build", err.Error(), nil)
		return
	}
	for i, text := range witnessTexts {
		if !c.Begin(fmt.Sprintf("witness/%d", i)) {
			continue
		}
		doc, perr := syntax.Parse([]byte(text))
		if perr != nil {
			c.Violation("harness:witness-text", "witness text rejected by the reference parser: "+perr.Msg, text)
			continue
		}
		k.evaluate(&Case{Env: env, Doc: doc, Text: text, Origin: "witness"})
		c.Feature("witness")
	}
}

// ---- defect classes: each is decided by an INPUT predicate (on the
// document and the reference's findings), never by the library's output.

// nestedOnly: every sure offence of UniqueInputFieldNames sits in an object
// value that is (directly or indirectly) the value of an input-object field.
func nestedInputDuplicatesOnly(doc *nast.Document, offs []validate.Offence) bool {
	nested := map[nast.Node]bool{}
	var visit func(n nast.Node, inField bool)
	visit = func(n nast.Node, inField bool) {
		switch v := n.(type) {
		case *nast.ObjectValue:
			if inField {
				for _, f := range v.Fields {
					nested[f.Name] = true
				}
			}
		case *nast.ObjectField:
			inField = true
		}
		for _, ch := range nast.Children(n) {
			visit(ch, inField)
		}
	}
	visit(doc, false)
	any := false
	for _, o := range offs {
		if o.Optional || len(o.Nodes) == 0 {
			continue
		}
		any = true
		if !nested[o.Nodes[0]] {
			return false
		}
	}
	return any
}

func anonymousOps(doc *nast.Document) int {
	n := 0
	for _, d := range doc.Defs {
		if op, ok := d.(*nast.Operation); ok && op.Name == nil {
			n++
		}
	}
	return n
}

const (
	sigNestedInputDup = "defect:unique-input-field-names-nested"
	sigAnonUnique     = "defect:unique-operation-names-anonymous"
	sigTypenameShape  = "defect:overlap-typename-untyped"
)

// typenameShapeOnly: the overlap rule is violated, but would not be if the
// meta field __typename had no known type (input predicate: the reference
// re-run under that relaxation finds no sure offence).
func typenameShapeOnly(cs *Case) bool {
	for _, last := range []bool{false, true} {
		if validate.Violated(validate.CheckRuleWith(validate.OverlappingFieldsCanBeMerged, cs.Env.Model, cs.Doc, validate.Options{TypenameUntyped: true, PickLast: last})) {
			return false
		}
	}
	return true
}

// classify maps a per-rule disagreement to a known defect class ("" = none).
func (k *ck) classify(cs *Case, rule, sig string, res map[string]validate.Result) string {
	switch {
	case sig == "accept:"+validate.UniqueInputFieldNames && nestedInputDuplicatesOnly(cs.Doc, res[rule].Offences):
		return sigNestedInputDup
	case sig == "reject:"+validate.UniqueOperationNames && anonymousOps(cs.Doc) >= 2:
		return sigAnonUnique
	case sig == "accept:"+validate.OverlappingFieldsCanBeMerged && typenameShapeOnly(cs):
		return sigTypenameShape
	}
	return ""
}

// classifyAll: the document's ONLY sure violation belongs to a defect class
// in which the library stays silent, so all-rules / Do agree with that class.
func (k *ck) classifyAll(cs *Case, res map[string]validate.Result, libValid bool) string {
	if !libValid {
		return ""
	}
	vs := validate.ViolatedRules(res)
	if len(vs) == 1 && vs[0] == validate.UniqueInputFieldNames && nestedInputDuplicatesOnly(cs.Doc, res[vs[0]].Offences) {
		return sigNestedInputDup
	}
	if len(vs) == 1 && vs[0] == validate.OverlappingFieldsCanBeMerged && typenameShapeOnly(cs) {
		return sigTypenameShape
	}
	return ""
}
