// Package c11 is the runtime monitor for property C11: "Schema construction
// never yields an inconsistent type system" (see README.md in this directory).
package c11

import (
	"fmt"
	"os"
	"regexp"
	"runtime/debug"
	"sort"
	"strings"
	"time"

	"github.com/graphql-go/graphql"

	"verif/internal/core"
	"verif/internal/ref/schemacheck"
)

func init() {
	core.Register(&core.Check{
		ID: "C11", Level: "exploration",
		Technique: "runtime monitor with an independent consistency oracle: generated schema configurations (valid, and valid with 1-2 corruptions) are built with the real constructors, NewSchema and AppendType under a panic guard; every schema returned without an error is examined through the public read API by ref/schemacheck (names, closure of the type map, input/output positions, wrappers, interface implementation, possible types, parked errors); for each split into up-front and appended types every order of AppendType calls is compared, by a normalised description, with the schema built with everything up front",
		Rule:      "one case = one configuration model (named types of all kinds, wrappers, roots, extra types, directives, thunk-or-literal choices, 0-2 corruptions, the list of appended types); distinct by FNV-1a of the canonical model text; non-trivial when it has >= 3 named types and (>= 1 corruption, or an interface with >= 1 implementer, or >= 1 appended type)",
		Assumptions: []string{
			"configurations are made with the library's constructors (NewObject ... NewList, NewNonNull); wrapper struct literals are not generated",
			"the oracle sees the schema only through its public read API",
			"nothing is demanded of a schema after NewSchema/AppendType returned an error",
			"acceptance of valid configurations is not demanded (counted as valid-rejected)",
		},
		Batches: func(tier string) int {
			if tier == "thorough" {
				return 16
			}
			return 8
		},
		Run:          run,
		ChildTimeout: func(tier string) time.Duration { return 20 * time.Minute },
		MinEvals: func(tier string) int {
			if tier == "thorough" {
				return 400000
			}
			return 4000
		},
	})
}

type state struct {
	c        *core.Child
	reported map[string]bool // signatures already sent as violation records by this child
	m        *Model          // current case
	caseID   string
	exec     string // current execution label
	// per-case
	sawPanic, sawInconsistent bool
	// per-execution: does the SchemaConfig hold an untyped nil entry
	cfgNilType, cfgNilDirective bool
}

func run(c *core.Child) {
	total := c.Scale(5000, 500000)
	per := (total + c.NBatches - 1) / c.NBatches
	st := &state{c: c, reported: map[string]bool{}}
	for i := 0; i < per; i++ {
		id := fmt.Sprintf("cfg/%d", i)
		if !c.Begin(id) {
			continue
		}
		st.caseID = id
		st.runCase(i)
	}
}

// report counts every occurrence of a signature and sends one violation
// record per signature and child (the driver keeps at most 40 records per
// child; without this the frequent signatures would crowd out the rare ones).
func (st *state) report(sig, msg string, extra map[string]interface{}) {
	st.c.Feature("sig:" + sig)
	if trace := os.Getenv("C11_TRACE"); trace != "" {
		if f, err := os.OpenFile(trace, os.O_APPEND|os.O_CREATE|os.O_WRONLY, 0o644); err == nil {
			fmt.Fprintf(f, "b%d %s %s | %s | %v\n", st.c.Batch, st.caseID, sig, st.exec, st.m.Corruptions)
			f.Close()
		}
	}
	if st.reported[sig] {
		return
	}
	st.reported[sig] = true
	d := map[string]interface{}{"model": st.m.Canon(), "model_json": st.m, "execution": st.exec}
	for k, v := range extra {
		d[k] = v
	}
	st.c.Violation(sig, msg, d)
}

var accessorFrame = regexp.MustCompile(`\.\(\*\w+\)\.(Name|Error|String|Description)$`)

// panicSite names the defective mechanism behind a panic: the first library
// frame below the panic. Two refinements keep one signature per mechanism:
//
//   - when that frame is a trivial accessor (Name, Error, String,
//     Description) the receiver was a typed nil pointer; the mechanism is the
//     calling library function that did not expect one, whatever the kind of
//     the pointer: "<caller>:typed-nil";
//   - NewSchema itself dereferences the entries of SchemaConfig.Types and of
//     SchemaConfig.Directives; which of the two lists held the nil entry is
//     read from the configuration that was passed: ":nil-in-Types" /
//     ":nil-in-Directives" (the generator never puts a nil into both).
func (st *state) panicSite(stack string) string {
	var frames []string
	seen := false
	for _, l := range strings.Split(stack, "\n") {
		if strings.HasPrefix(l, "panic(") {
			seen = true
			frames = frames[:0]
			continue
		}
		if !seen || !strings.HasPrefix(l, "github.com/graphql-go/graphql") {
			continue
		}
		fn := l
		if i := strings.LastIndex(fn, "("); i > 0 {
			fn = fn[:i]
		}
		frames = append(frames, strings.TrimPrefix(fn, "github.com/graphql-go/graphql"))
	}
	if len(frames) == 0 {
		return core.PanicSite(stack)
	}
	if accessorFrame.MatchString(frames[0]) && len(frames) > 1 {
		return frames[1] + ":typed-nil"
	}
	if frames[0] == ".NewSchema" {
		switch {
		case st.cfgNilType:
			return frames[0] + ":nil-in-Types"
		case st.cfgNilDirective:
			return frames[0] + ":nil-in-Directives"
		}
	}
	return frames[0]
}

func (st *state) guard(what string, f func()) (panicked bool) {
	defer func() {
		if r := recover(); r != nil {
			panicked = true
			st.sawPanic = true
			stack := string(debug.Stack())
			if len(stack) > 5000 {
				stack = stack[:5000]
			}
			st.report("panic:"+st.panicSite(stack), fmt.Sprintf("panic during %s: %v", what, r), map[string]interface{}{"during": what, "panic": fmt.Sprint(r), "stack": stack})
		}
	}()
	f()
	return false
}

// execResult is what one execution (constructors, NewSchema, AppendType
// calls) gave.
type execResult struct {
	panicked     bool
	rejected     bool   // NewSchema returned an error
	rejectedAt   string // "newschema" or "append:<id>"
	err          string
	inconsistent bool
	desc         string // normalised description of the final schema ("" unless fully accepted)
}

// check runs the oracle on an accepted schema and reports what it finds.
func (st *state) check(stage string, s graphql.Schema, handed []graphql.Type) (inconsistent bool) {
	probs := schemacheck.Check(s, handed...)
	classes := map[string]schemacheck.Problem{}
	var order []string
	for _, p := range probs {
		if _, ok := classes[p.Class]; !ok {
			classes[p.Class] = p
			order = append(order, p.Class)
		}
	}
	sort.Strings(order)
	for _, cl := range order {
		p := classes[cl]
		switch {
		case p.DontCare:
			st.c.DontCare(cl)
		case cl == "panic":
			st.sawPanic = true
			inconsistent = true
			st.report("panic:"+st.panicSite(p.Stack), "panic in the read API of an accepted schema at "+p.Where+": "+p.Msg, map[string]interface{}{"stage": stage, "stack": trim(p.Stack)})
		default:
			inconsistent = true
			st.report("accepted:"+cl, fmt.Sprintf("%s returned no error but the schema is inconsistent: %s", stage, p.String()), map[string]interface{}{"stage": stage, "problems": probs})
		}
	}
	if inconsistent {
		st.sawInconsistent = true
	}
	return inconsistent
}

func trim(s string) string {
	if len(s) > 5000 {
		return s[:5000]
	}
	return s
}

// execute builds the model afresh and runs NewSchema (+ AppendType for the
// types listed in order; nil order with upFront = everything in
// SchemaConfig.Types).
func (st *state) execute(label string, upFront bool, order []string) (res execResult) {
	c := st.c
	st.exec = label
	c.Eval(1)
	b := build(st.m, st.guard)
	c.AddExtra("constructor_calls", float64(b.ncalls))
	if b.panicked {
		res.panicked = true
		return
	}
	var cfg graphql.SchemaConfig
	var s graphql.Schema
	var err error
	if st.guard("assembling SchemaConfig", func() { cfg = b.config(upFront) }) {
		res.panicked = true
		return
	}
	st.cfgNilType, st.cfgNilDirective = false, false
	for _, t := range cfg.Types {
		if t == nil {
			st.cfgNilType = true
		}
	}
	for _, d := range cfg.Directives {
		if d == nil {
			st.cfgNilDirective = true
		}
	}
	c.AddExtra("newschema_calls", 1)
	if st.guard("NewSchema", func() { s, err = graphql.NewSchema(cfg) }) {
		res.panicked = true
		return
	}
	if err != nil {
		res.rejected, res.rejectedAt, res.err = true, "newschema", err.Error()
		return
	}
	handed := append([]graphql.Type{}, cfg.Types...)
	if st.check("NewSchema", s, handed) {
		res.inconsistent = true
	}
	for _, id := range order {
		var t graphql.Type
		switch id {
		case "<nil>":
		case "<typednil>":
			t = (*graphql.Object)(nil)
		default:
			t = b.reg[id]
		}
		c.AddExtra("appendtype_calls", 1)
		var aerr error
		if st.guard("AppendType("+id+")", func() { aerr = s.AppendType(t) }) {
			res.panicked = true
			return
		}
		if aerr != nil {
			res.rejected, res.rejectedAt, res.err = true, "append:"+id, aerr.Error()
			// nothing is demanded of a schema whose AppendType failed. The
			// state it is left in is not examined: how far the type map was
			// extended before the error depends on map iteration inside the
			// library, so any count of it would not be a function of the seed.
			c.DontCare("append-rejected:schema-state-not-examined")
			return
		}
		if !schemacheck.IsNil(t) {
			handed = append(handed, t)
		}
		if st.check("AppendType("+id+")", s, handed) {
			res.inconsistent = true
		}
	}
	desc, pp := schemacheck.Describe(s)
	if pp != nil {
		res.panicked = true
		st.sawPanic = true
		st.report("panic:"+st.panicSite(pp.Stack), "panic while reading an accepted schema: "+pp.Msg, map[string]interface{}{"stack": trim(pp.Stack)})
		return
	}
	res.desc = desc
	st.droppedEntries(s, b)
	return
}

// droppedEntries counts (never judges) configuration entries that the
// accepted schema silently lacks: a field, input field or enum value the
// model configured under a type that is in the schema. The property states
// no clause about it (the schema that results is judged on its own).
func (st *state) droppedEntries(s graphql.Schema, b *built) {
	names := map[string]int{}
	for _, t := range st.m.Types {
		names[t.Name]++
	}
	for _, t := range st.m.Types {
		if names[t.Name] != 1 {
			continue
		}
		var have map[string]bool
		ok := true
		func() {
			defer func() {
				if recover() != nil {
					ok = false
				}
			}()
			have = map[string]bool{}
			if s.Type(t.Name) != b.reg[t.ID] {
				ok = false // another object holds that name (or the type is not in the schema)
				return
			}
			switch tt := s.Type(t.Name).(type) {
			case *graphql.Object:
				for k := range tt.Fields() {
					have[k] = true
				}
			case *graphql.Interface:
				for k := range tt.Fields() {
					have[k] = true
				}
			case *graphql.InputObject:
				for k := range tt.Fields() {
					have[k] = true
				}
			default:
				ok = false
			}
		}()
		if !ok || s.Type(t.Name).Error() != nil {
			continue // a broken type's accessors return partial maps
		}
		for _, f := range t.Fields {
			if have[f.Name] {
				continue
			}
			fname := f.Name
			what := "field"
			if t.Kind == KInput {
				what = "inputfield"
			}
			switch {
			case f.NilConfig:
				st.c.DontCare("config-entry-dropped:nil-" + what + "-config")
			case !schemacheck.LegalName(f.Name):
				st.c.DontCare("config-entry-dropped:illegally-named-" + what)
			default:
				st.c.DontCare("config-entry-dropped:" + what)
				if dump := os.Getenv("C11_DUMP"); dump != "" {
					if f, err := os.OpenFile(dump, os.O_APPEND|os.O_CREATE|os.O_WRONLY, 0o644); err == nil {
						fmt.Fprintf(f, "=== dropped %s.%s (%s) batch %d %s\n%s\n", t.Name, fname, st.exec, st.c.Batch, st.caseID, st.m.Canon())
						f.Close()
					}
				}
			}
		}
	}
}

func permutations(n int) [][]int {
	var out [][]int
	p := make([]int, n)
	for i := range p {
		p[i] = i
	}
	var rec func(k int)
	rec = func(k int) {
		if k == n {
			out = append(out, append([]int{}, p...))
			return
		}
		for i := k; i < n; i++ {
			p[k], p[i] = p[i], p[k]
			rec(k + 1)
			p[k], p[i] = p[i], p[k]
		}
	}
	rec(0)
	return out
}

func (st *state) runCase(i int) {
	c := st.c
	r := c.RNG(uint64(i))
	m := genValid(r)
	ncorr := 1
	switch i % 10 {
	case 0, 1:
		ncorr = 0
	case 8, 9:
		ncorr = 2
	}
	for k := 0; k < ncorr; k++ {
		corrupt(m, r, ncorr == 1)
	}
	st.m = m
	st.sawPanic, st.sawInconsistent = false, false
	canon := m.Canon()

	// strict = the configuration is valid: no corruption, or only legal ones
	strict := true
	for _, k := range m.Corruptions {
		if corruptionClass[k] != "legal" {
			strict = false
		}
	}

	// features of the case
	c.Feature(fmt.Sprintf("corruptions=%d", len(m.Corruptions)))
	hasImpl := false
	for _, t := range m.Types {
		if t.Kind == KObject && len(t.Interfaces) > 0 {
			hasImpl = true
		}
	}
	if len(m.Types) >= 3 && (len(m.Corruptions) > 0 || hasImpl || len(m.Appended) > 0) {
		c.Nontrivial(core.HashString(canon))
	}
	st.caseFeatures(m)

	// A: everything up front
	a := st.execute("up-front (appended types in SchemaConfig.Types)", true, nil)

	// B: the history — NewSchema without the appended types, then AppendType
	var orders [][]string
	if n := len(m.Appended); n > 0 {
		switch {
		case !strict:
			orders = append(orders, m.Appended)
			if n > 1 && r.Bool() {
				rev := make([]string, n)
				for j := range rev {
					rev[j] = m.Appended[n-1-j]
				}
				orders = append(orders, rev)
			}
		case n <= 4:
			for _, p := range permutations(n) {
				o := make([]string, n)
				for j, k := range p {
					o[j] = m.Appended[k]
				}
				orders = append(orders, o)
			}
		default:
			orders = append(orders, m.Appended)
			for k := 0; k < 11; k++ {
				p := r.Perm(n)
				o := make([]string, n)
				for j, q := range p {
					o[j] = m.Appended[q]
				}
				orders = append(orders, o)
			}
		}
	}
	anyAppendAccepted := false
	for _, o := range orders {
		c.Feature(fmt.Sprintf("history:appended=%d", min(len(o), 5)))
		b := st.execute("NewSchema, then AppendType in order "+strings.Join(o, ","), false, o)
		if b.panicked || a.panicked {
			continue
		}
		if !b.rejected {
			anyAppendAccepted = true
		}
		switch {
		case a.rejected != b.rejected:
			if strict {
				st.report("history:accept-differs", fmt.Sprintf("up front: rejected=%v (%s); appended afterwards: rejected=%v at %s (%s)", a.rejected, a.err, b.rejected, b.rejectedAt, b.err), map[string]interface{}{"order": o})
			} else {
				c.DontCare("history-accept-differs-under-corruption")
			}
		case !a.rejected && a.desc != b.desc:
			cls, la, lb := schemacheck.DiffClass(a.desc, b.desc)
			if strict {
				st.report("history:"+cls, fmt.Sprintf("appending in order %v gives a different schema than supplying the types up front: %q vs %q", o, lb, la), map[string]interface{}{"order": o, "up_front": a.desc, "appended": b.desc})
			} else {
				c.DontCare("history-differs-under-corruption")
			}
		case !a.rejected:
			c.Feature("history:same")
		}
	}
	_ = anyAppendAccepted

	// outcome of the case, per corruption kind
	outcome := "rejected-with-error"
	switch {
	case st.sawPanic:
		outcome = "panicked"
	case st.sawInconsistent:
		outcome = "accepted-and-inconsistent"
	case !a.rejected:
		outcome = "accepted-and-consistent"
	}
	if len(m.Corruptions) == 0 {
		c.Feature("valid:" + outcome)
		if a.rejected {
			c.Feature("valid-rejected")
			c.Sample("valid-rejected", map[string]interface{}{"model": canon, "error": a.err})
		}
	}
	if len(m.Corruptions) == 1 {
		// the single-corruption cases attribute the outcome unambiguously
		c.Feature("solo:" + m.Corruptions[0] + ":" + outcome)
		if dump := os.Getenv("C11_DUMP"); dump != "" && outcome == "accepted-and-consistent" && corruptionClass[m.Corruptions[0]] == "illegal" {
			if f, err := os.OpenFile(dump, os.O_APPEND|os.O_CREATE|os.O_WRONLY, 0o644); err == nil {
				fmt.Fprintf(f, "=== batch %d case %d %s\n%s\n", c.Batch, i, m.Corruptions[0], canon)
				f.Close()
			}
		}
	}
	for _, k := range m.Corruptions {
		c.Feature("corr:" + k + ":generated")
		c.Feature("corr:" + k + ":" + outcome)
		switch corruptionClass[k] {
		case "legal":
			if a.rejected && len(m.Corruptions) == 1 {
				c.Feature("legal-rejected:" + k)
				c.Sample("legal-rejected", map[string]interface{}{"model": canon, "error": a.err})
			}
		case "dontcare":
			c.DontCare("corruption:" + k + ":" + outcome)
		}
	}
	if i < 2 {
		c.Sample("case", map[string]interface{}{"model": canon, "outcome": outcome, "error": a.err})
	}
}

func (st *state) caseFeatures(m *Model) {
	c := st.c
	kinds := map[string]int{}
	thunks := 0
	selfRef, cycle := false, false
	for _, t := range m.Types {
		kinds[t.Kind]++
		if t.FieldsThunk || t.InterfacesThunk || t.MembersThunk {
			thunks++
		}
		for _, id := range refsOf(t) {
			if id == t.ID {
				selfRef = true
			} else if m.Reachable([]string{id})[t.ID] {
				cycle = true
			}
		}
	}
	for _, k := range []string{KScalar, KObject, KIface, KUnion, KEnum, KInput} {
		if kinds[k] > 0 {
			c.Feature("has:" + k)
		}
	}
	if thunks > 0 {
		c.Feature("has:thunk")
	}
	if selfRef {
		c.Feature("has:self-reference")
	}
	if cycle {
		c.Feature("has:cycle")
	}
	if len(m.Extra) > 0 {
		c.Feature("has:extra-types")
	}
	if len(m.Appended) > 0 {
		c.Feature("has:appended-types")
	}
	if len(m.Directives) > 0 {
		c.Feature("has:custom-directive")
	}
	if m.Mutation != "" {
		c.Feature("has:mutation")
	}
	if m.Subscription != "" {
		c.Feature("has:subscription")
	}
	for _, t := range m.Types {
		if t.Kind == KIface {
			n := 0
			for _, o := range m.Types {
				for _, id := range o.Interfaces {
					if id == t.ID {
						n++
					}
				}
			}
			if n >= 2 {
				c.Feature("has:interface-with-2+-implementers")
				break
			}
		}
	}
}
