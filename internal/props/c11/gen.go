package c11

import (
	"fmt"
	"strings"

	"verif/internal/core"
)

// genValid makes a random VALID configuration: every rule of the edition's
// type system holds, so the library is expected to accept it (if it does
// not, the case is counted as valid-rejected and sampled: most likely a
// generator bug).
func genValid(r *core.RNG) *Model {
	g := &generator{r: r, m: &Model{}}
	g.run()
	return g.m
}

type generator struct {
	r *core.RNG
	m *Model

	scalars, enums, inputs, ifaces, objects, unions []*TypeDef
	implementers                                    map[string][]string // iface ID -> object IDs
}

var builtinIDs = []string{"$String", "$Int", "$Float", "$Boolean", "$ID"}

var oddNames = []string{"_", "_9", "__dunder", "A_b_9", "x"}

func (g *generator) name(prefix string, i int) string {
	return fmt.Sprintf("%s%d", prefix, i)
}

func (g *generator) add(t *TypeDef) *TypeDef {
	t.ID = t.Name
	g.m.Types = append(g.m.Types, t)
	return t
}

// inputRef picks a valid input type expression.
func (g *generator) inputRef(allowInputObjects bool) Ref {
	r := g.r
	var pool []string
	pool = append(pool, builtinIDs...)
	for _, t := range g.scalars {
		pool = append(pool, t.ID)
	}
	for _, t := range g.enums {
		pool = append(pool, t.ID, t.ID)
	}
	nLeaf := len(pool)
	if allowInputObjects {
		for _, t := range g.inputs {
			pool = append(pool, t.ID, t.ID, t.ID)
		}
	}
	i := r.Intn(len(pool))
	ref := Ref{To: pool[i]}
	if i >= nLeaf {
		// no chain of only non-null wrappers around an input object (an
		// input object that requires itself can never be given a value)
		ref.Wrap = core.PickStr(r, []string{"", "", "L", "LN", "NL", "NLN"})
	} else {
		ref.Wrap = core.PickStr(r, []string{"", "", "", "N", "L", "LN", "NL", "NLN", "LL"})
	}
	return ref
}

func (g *generator) outputRef() Ref {
	r := g.r
	var pool []string
	pool = append(pool, builtinIDs...)
	for _, t := range g.scalars {
		pool = append(pool, t.ID)
	}
	for _, t := range g.enums {
		pool = append(pool, t.ID)
	}
	for _, t := range g.objects {
		pool = append(pool, t.ID, t.ID, t.ID)
	}
	for _, t := range g.ifaces {
		pool = append(pool, t.ID, t.ID, t.ID)
	}
	for _, t := range g.unions {
		pool = append(pool, t.ID, t.ID)
	}
	return Ref{To: pool[r.Intn(len(pool))], Wrap: core.PickStr(r, []string{"", "", "", "N", "L", "LN", "NL", "NLN", "LL"})}
}

func (g *generator) args(max int) []*ArgDef {
	r := g.r
	n := r.Intn(max + 1)
	names := []string{"x", "y", "z_1"}
	var out []*ArgDef
	for i := 0; i < n; i++ {
		a := &ArgDef{Name: names[i], Type: g.inputRef(true)}
		if a.Type.Wrap == "" && r.Chance(40) {
			switch a.Type.To {
			case "$Int":
				a.Default = "int"
			case "$String", "$ID":
				a.Default = "string"
			case "$Boolean":
				a.Default = "bool"
			}
		}
		out = append(out, a)
	}
	return out
}

// covariant derives a legal implementer type from an interface field type:
// non-null may be added at any level, an interface / union may be narrowed
// to one of its object types.
func (g *generator) covariant(super Ref) Ref {
	r := g.r
	if r.Chance(45) {
		return super
	}
	sub := Ref{To: super.To}
	var w strings.Builder
	for i := 0; i < len(super.Wrap); i++ {
		ch := super.Wrap[i]
		if ch != 'N' && (i == 0 || super.Wrap[i-1] != 'N') && r.Chance(30) {
			w.WriteByte('N')
		}
		w.WriteByte(ch)
	}
	if (len(super.Wrap) == 0 || super.Wrap[len(super.Wrap)-1] != 'N') && r.Chance(30) {
		w.WriteByte('N')
	}
	sub.Wrap = w.String()
	if d := g.m.Def(super.To); d != nil && r.Chance(60) {
		switch d.Kind {
		case KIface:
			if impl := g.implementers[d.ID]; len(impl) > 0 {
				sub.To = impl[r.Intn(len(impl))]
			}
		case KUnion:
			if len(d.Members) > 0 {
				sub.To = d.Members[r.Intn(len(d.Members))]
			}
		}
	}
	return sub
}

func copyArgs(args []*ArgDef) []*ArgDef {
	var out []*ArgDef
	for _, a := range args {
		aa := *a
		out = append(out, &aa)
	}
	return out
}

func (g *generator) run() {
	r, m := g.r, g.m
	g.implementers = map[string][]string{}
	odd := func(dflt string) string {
		if r.Chance(4) {
			return core.PickStr(r, oddNames) + dflt // still unique, still legal
		}
		return dflt
	}

	// leaves
	for i, n := 0, r.Intn(2); i < n; i++ {
		both := r.Bool()
		g.scalars = append(g.scalars, g.add(&TypeDef{Kind: KScalar, Name: odd(g.name("Sc", i)), ParseValue: both, ParseLiteral: both}))
	}
	valuePool := []string{"A", "B", "C_1", "_d", "E9"}
	for i, n := 0, r.Range(1, 2); i < n; i++ {
		k := r.Range(1, 3)
		p := r.Perm(len(valuePool))
		var vs []string
		for j := 0; j < k; j++ {
			vs = append(vs, valuePool[p[j]])
		}
		g.enums = append(g.enums, g.add(&TypeDef{Kind: KEnum, Name: odd(g.name("En", i)), Values: vs}))
	}
	// input objects (declared first so that they can refer to each other)
	for i, n := 0, r.Range(1, 2); i < n; i++ {
		g.inputs = append(g.inputs, g.add(&TypeDef{Kind: KInput, Name: odd(g.name("In", i))}))
	}
	for _, t := range g.inputs {
		names := []string{"a", "b", "c"}
		for j, k := 0, r.Range(1, 3); j < k; j++ {
			f := &FieldDef{Name: names[j], Type: g.inputRef(true)}
			if f.Type.Wrap == "" && f.Type.To == "$Int" && r.Chance(40) {
				f.Default = "int"
			}
			t.Fields = append(t.Fields, f)
		}
	}
	// interfaces, objects, unions: declare, decide membership, then fields
	nI := r.Range(1, 2)
	if r.Chance(10) {
		nI = 0
	}
	for i := 0; i < nI; i++ {
		g.ifaces = append(g.ifaces, g.add(&TypeDef{Kind: KIface, Name: odd(g.name("If", i)), ResolveType: r.Chance(80)}))
	}
	for i, n := 0, r.Range(2, 4); i < n; i++ {
		g.objects = append(g.objects, g.add(&TypeDef{Kind: KObject, Name: odd(g.name("Ob", i)), IsTypeOf: r.Chance(30)}))
	}
	for _, it := range g.ifaces {
		for _, o := range g.objects {
			if r.Chance(45) {
				o.Interfaces = append(o.Interfaces, it.ID)
				g.implementers[it.ID] = append(g.implementers[it.ID], o.ID)
			}
		}
		if len(g.implementers[it.ID]) == 0 && r.Chance(90) {
			o := g.objects[r.Intn(len(g.objects))]
			o.Interfaces = append(o.Interfaces, it.ID)
			g.implementers[it.ID] = append(g.implementers[it.ID], o.ID)
		}
		if !it.ResolveType {
			for _, id := range g.implementers[it.ID] {
				m.Def(id).IsTypeOf = true
			}
		}
	}
	if r.Chance(60) {
		u := g.add(&TypeDef{Kind: KUnion, Name: odd("Un0"), ResolveType: r.Chance(70)})
		p := r.Perm(len(g.objects))
		for j, k := 0, r.Range(1, min(3, len(g.objects))); j < k; j++ {
			o := g.objects[p[j]]
			u.Members = append(u.Members, o.ID)
			if !u.ResolveType {
				o.IsTypeOf = true
			}
		}
		g.unions = append(g.unions, u)
	}
	// interface fields
	for i, it := range g.ifaces {
		for j, k := 0, r.Range(1, 2); j < k; j++ {
			it.Fields = append(it.Fields, &FieldDef{Name: fmt.Sprintf("i%d_%c", i, 'a'+j), Type: g.outputRef(), Args: g.args(2)})
		}
	}
	// object fields
	for _, o := range g.objects {
		for _, iid := range o.Interfaces {
			it := m.Def(iid)
			for _, f := range it.Fields {
				of := &FieldDef{Name: f.Name, Type: g.covariant(f.Type), Args: copyArgs(f.Args)}
				if r.Chance(20) {
					of.Args = append(of.Args, &ArgDef{Name: "opt", Type: Ref{To: "$Int", Wrap: core.PickStr(r, []string{"", "L", "LN"})}})
				}
				o.Fields = append(o.Fields, of)
			}
		}
		own := r.Range(0, 2)
		if len(o.Fields) == 0 && own == 0 {
			own = 1
		}
		for j := 0; j < own; j++ {
			o.Fields = append(o.Fields, &FieldDef{Name: fmt.Sprintf("f%c", 'a'+j), Type: g.outputRef(), Args: g.args(2)})
		}
	}
	// roots
	root := func(name string, nf int) *TypeDef {
		t := &TypeDef{Kind: KObject, Name: name}
		for j := 0; j < nf; j++ {
			t.Fields = append(t.Fields, &FieldDef{Name: fmt.Sprintf("r%c", 'a'+j), Type: g.outputRef(), Args: g.args(2)})
		}
		return g.add(t)
	}
	m.Query = root("Query", r.Range(1, 3)).ID
	if r.Chance(35) {
		m.Mutation = root("Mutation", r.Range(1, 2)).ID
	}
	if r.Chance(15) {
		m.Subscription = root("Subscription", 1).ID
	}

	// custom directive
	if r.Chance(40) {
		d := &DirDef{Name: "dir0", Locations: [][]string{{"FIELD"}, {"FIELD_DEFINITION", "QUERY"}, {"OBJECT"}}[r.Intn(3)]}
		for _, a := range g.args(2) {
			d.Args = append(d.Args, a)
		}
		m.Directives = append(m.Directives, d)
		m.WithDefaults = r.Chance(70)
	}

	// construction order and thunk-or-literal
	p := r.Perm(len(m.Types))
	shuffled := make([]*TypeDef, len(m.Types))
	for i, j := range p {
		shuffled[i] = m.Types[j]
	}
	m.Types = shuffled
	fixThunks(m, r)

	// history: types not reachable from the roots are handed over explicitly,
	// either up front (SchemaConfig.Types) or afterwards (AppendType)
	assignUnreached(m, r)
}

// fixThunks chooses thunk or literal for every lazily evaluated part and
// forces a thunk wherever a literal would refer to a type that is not yet
// constructed (self and forward references).
func fixThunks(m *Model, r *core.RNG) {
	for i, t := range m.Types {
		needs := func(ids []string) bool {
			for _, id := range ids {
				if j := m.index(id); j >= i {
					return true
				}
			}
			return false
		}
		var fieldRefs []string
		for _, f := range t.Fields {
			fieldRefs = append(fieldRefs, f.Type.To)
			for _, a := range f.Args {
				fieldRefs = append(fieldRefs, a.Type.To)
			}
		}
		switch t.Kind {
		case KObject, KIface, KInput:
			t.FieldsThunk = r.Chance(40) || needs(fieldRefs)
		}
		if t.Kind == KObject {
			t.InterfacesThunk = (len(t.Interfaces) > 0 && r.Chance(40)) || needs(t.Interfaces)
		}
		if t.Kind == KUnion {
			t.MembersThunk = r.Chance(40) || needs(t.Members)
		}
	}
}

// assignUnreached puts every type that the roots do not reach into Extra or
// Appended (unless an earlier extra / appended type already brings it in).
func assignUnreached(m *Model, r *core.RNG) {
	m.Extra, m.Appended = nil, nil
	have := m.Reachable(m.roots())
	for _, t := range m.Types {
		if have[t.ID] {
			continue
		}
		if r.Chance(55) {
			m.Appended = append(m.Appended, t.ID)
		} else {
			m.Extra = append(m.Extra, t.ID)
		}
		for id := range m.Reachable([]string{t.ID}) {
			have[id] = true
		}
	}
}

func min(a, b int) int {
	if a < b {
		return a
	}
	return b
}
