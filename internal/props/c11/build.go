package c11

import (
	"github.com/graphql-go/graphql"
	"github.com/graphql-go/graphql/language/ast"
)

// guardFn runs f; it reports true when f panicked (the panic has then been
// recorded by the caller's bookkeeping).
type guardFn func(what string, f func()) (panicked bool)

// built holds the library objects made from one Model. Every build makes
// fresh objects: lazily initialised state (fields, interfaces, union members,
// parked errors) never leaks from one execution into the next.
type built struct {
	m        *Model
	reg      map[string]graphql.Type // by model ID, filled in construction order
	dirs     []*graphql.Directive
	panicked bool
	ncalls   int // constructor calls made
}

var builtinScalar = map[string]graphql.Type{
	"$String": graphql.String, "$Int": graphql.Int, "$Float": graphql.Float,
	"$Boolean": graphql.Boolean, "$ID": graphql.ID,
}

func typedNil(kind string) graphql.Type {
	switch kind {
	case KScalar:
		return (*graphql.Scalar)(nil)
	case KObject:
		return (*graphql.Object)(nil)
	case KIface:
		return (*graphql.Interface)(nil)
	case KUnion:
		return (*graphql.Union)(nil)
	case KEnum:
		return (*graphql.Enum)(nil)
	case KInput:
		return (*graphql.InputObject)(nil)
	case "list":
		return (*graphql.List)(nil)
	case "nonnull":
		return (*graphql.NonNull)(nil)
	}
	return nil
}

// lookup resolves a model ID at the moment of the call: built-in scalar,
// constructed type, a typed nil pointer for a type that is defined in the
// model but not constructed yet (a forward reference outside a thunk — in Go
// that is a declared, still unassigned variable), or nil.
func (b *built) lookup(id string) graphql.Type {
	if t, ok := builtinScalar[id]; ok {
		return t
	}
	if t, ok := b.reg[id]; ok {
		return t
	}
	if d := b.m.Def(id); d != nil {
		return typedNil(d.Kind)
	}
	return nil
}

// resolve builds the type expression, calling NewList / NewNonNull.
func (b *built) resolve(r Ref) graphql.Type {
	var t graphql.Type
	switch r.Nil {
	case "untyped":
		t = nil
	case "typed":
		t = typedNil(r.NilKind)
	default:
		t = b.lookup(r.To)
	}
	for i := len(r.Wrap) - 1; i >= 0; i-- {
		b.ncalls++
		if r.Wrap[i] == 'L' {
			t = graphql.NewList(t)
		} else {
			t = graphql.NewNonNull(t)
		}
	}
	return t
}

func defaultValue(kind string) interface{} {
	switch kind {
	case "int":
		return 7
	case "string":
		return "dflt"
	case "bool":
		return true
	}
	return nil
}

func (b *built) argMap(args []*ArgDef) graphql.FieldConfigArgument {
	if len(args) == 0 {
		return nil
	}
	am := graphql.FieldConfigArgument{}
	for _, a := range args {
		if a.NilConfig {
			am[a.Name] = nil
			continue
		}
		am[a.Name] = &graphql.ArgumentConfig{Type: b.resolve(a.Type), DefaultValue: defaultValue(a.Default)}
	}
	return am
}

func (b *built) fieldMap(t *TypeDef) graphql.Fields {
	if t.FieldsMode == "nilmap" {
		return nil
	}
	fm := graphql.Fields{}
	for _, f := range t.Fields {
		if f.NilConfig {
			fm[f.Name] = nil
			continue
		}
		fm[f.Name] = &graphql.Field{Type: b.resolve(f.Type), Args: b.argMap(f.Args)}
	}
	return fm
}

func (b *built) inputFieldMap(t *TypeDef) graphql.InputObjectConfigFieldMap {
	if t.FieldsMode == "nilmap" {
		return nil
	}
	fm := graphql.InputObjectConfigFieldMap{}
	for _, f := range t.Fields {
		if f.NilConfig {
			fm[f.Name] = nil
			continue
		}
		fm[f.Name] = &graphql.InputObjectFieldConfig{Type: b.resolve(f.Type), DefaultValue: defaultValue(f.Default)}
	}
	return fm
}

func (b *built) ifaceList(ids []string) []*graphql.Interface {
	out := []*graphql.Interface{}
	for _, id := range ids {
		if id == "<nil>" {
			out = append(out, nil)
			continue
		}
		it, _ := b.lookup(id).(*graphql.Interface) // typed nil stays a nil pointer
		out = append(out, it)
	}
	return out
}

func (b *built) objectList(ids []string) []*graphql.Object {
	out := []*graphql.Object{}
	for _, id := range ids {
		if id == "<nil>" {
			out = append(out, nil)
			continue
		}
		o, _ := b.lookup(id).(*graphql.Object)
		out = append(out, o)
	}
	return out
}

func (b *built) construct(t *TypeDef) graphql.Type {
	b.ncalls++
	switch t.Kind {
	case KScalar:
		cfg := graphql.ScalarConfig{Name: t.Name}
		if !t.NoSerialize {
			cfg.Serialize = func(v interface{}) interface{} { return v }
		}
		if t.ParseValue {
			cfg.ParseValue = func(v interface{}) interface{} { return v }
		}
		if t.ParseLiteral {
			cfg.ParseLiteral = func(v ast.Value) interface{} { return nil }
		}
		return graphql.NewScalar(cfg)
	case KEnum:
		cfg := graphql.EnumConfig{Name: t.Name}
		if t.ValuesMode != "nilmap" {
			cfg.Values = graphql.EnumValueConfigMap{}
			for i, v := range t.Values {
				if v == t.NilValue && t.NilValue != "" {
					cfg.Values[v] = nil
					continue
				}
				cfg.Values[v] = &graphql.EnumValueConfig{Value: i}
			}
		}
		return graphql.NewEnum(cfg)
	case KInput:
		cfg := graphql.InputObjectConfig{Name: t.Name}
		switch {
		case t.FieldsMode == "absent":
		case t.FieldsMode == "wrongtype":
			cfg.Fields = 42
		case t.FieldsThunk:
			cfg.Fields = graphql.InputObjectConfigFieldMapThunk(func() graphql.InputObjectConfigFieldMap { return b.inputFieldMap(t) })
		default:
			cfg.Fields = b.inputFieldMap(t)
		}
		return graphql.NewInputObject(cfg)
	case KIface:
		cfg := graphql.InterfaceConfig{Name: t.Name}
		if t.ResolveType {
			cfg.ResolveType = func(p graphql.ResolveTypeParams) *graphql.Object { return nil }
		}
		switch {
		case t.FieldsMode == "absent":
		case t.FieldsMode == "wrongtype":
			cfg.Fields = 42
		case t.FieldsThunk:
			cfg.Fields = graphql.FieldsThunk(func() graphql.Fields { return b.fieldMap(t) })
		default:
			cfg.Fields = b.fieldMap(t)
		}
		return graphql.NewInterface(cfg)
	case KObject:
		cfg := graphql.ObjectConfig{Name: t.Name}
		if t.IsTypeOf {
			cfg.IsTypeOf = func(p graphql.IsTypeOfParams) bool { return true }
		}
		switch {
		case t.FieldsMode == "absent":
		case t.FieldsMode == "wrongtype":
			cfg.Fields = 42
		case t.FieldsThunk:
			cfg.Fields = graphql.FieldsThunk(func() graphql.Fields { return b.fieldMap(t) })
		default:
			cfg.Fields = b.fieldMap(t)
		}
		switch {
		case t.InterfacesMode == "wrongtype":
			cfg.Interfaces = []string{"not interfaces"}
		case len(t.Interfaces) == 0 && !t.InterfacesThunk:
		case t.InterfacesThunk:
			cfg.Interfaces = graphql.InterfacesThunk(func() []*graphql.Interface { return b.ifaceList(t.Interfaces) })
		default:
			cfg.Interfaces = b.ifaceList(t.Interfaces)
		}
		return graphql.NewObject(cfg)
	case KUnion:
		cfg := graphql.UnionConfig{Name: t.Name}
		if t.ResolveType {
			cfg.ResolveType = func(p graphql.ResolveTypeParams) *graphql.Object { return nil }
		}
		switch {
		case t.MembersMode == "absent":
		case t.MembersMode == "wrongtype":
			cfg.Types = []*graphql.Interface{}
		case t.MembersThunk:
			cfg.Types = graphql.UnionTypesThunk(func() []*graphql.Object { return b.objectList(t.Members) })
		default:
			cfg.Types = b.objectList(t.Members)
		}
		return graphql.NewUnion(cfg)
	}
	return nil
}

// build constructs every type of the model, in model order, then the custom
// directives. Each constructor call runs under the guard.
func build(m *Model, guard guardFn) *built {
	b := &built{m: m, reg: map[string]graphql.Type{}}
	for _, t := range m.Types {
		t := t
		var made graphql.Type
		if guard("construct:"+t.Kind, func() { made = b.construct(t) }) {
			b.panicked = true
			return b
		}
		b.reg[t.ID] = made
	}
	for _, d := range m.Directives {
		d := d
		if d.Nil {
			b.dirs = append(b.dirs, nil)
			continue
		}
		var made *graphql.Directive
		if guard("construct:directive", func() {
			b.ncalls++
			made = graphql.NewDirective(graphql.DirectiveConfig{Name: d.Name, Locations: d.Locations, Args: b.argMap(d.Args)})
		}) {
			b.panicked = true
			return b
		}
		b.dirs = append(b.dirs, made)
	}
	return b
}

func (b *built) object(id string) *graphql.Object {
	if id == "" {
		return nil
	}
	o, _ := b.reg[id].(*graphql.Object)
	return o
}

func (b *built) extraTypes(ids []string) []graphql.Type {
	var out []graphql.Type
	for _, id := range ids {
		switch id {
		case "<nil>":
			out = append(out, nil)
		case "<typednil>":
			out = append(out, (*graphql.Object)(nil))
		default:
			out = append(out, b.reg[id])
		}
	}
	return out
}

// config assembles the SchemaConfig. With upFront the appended types are
// supplied in SchemaConfig.Types after the extra ones.
func (b *built) config(upFront bool) graphql.SchemaConfig {
	m := b.m
	cfg := graphql.SchemaConfig{Query: b.object(m.Query), Mutation: b.object(m.Mutation), Subscription: b.object(m.Subscription)}
	ids := append([]string{}, m.Extra...)
	if upFront {
		ids = append(ids, m.Appended...)
	}
	cfg.Types = b.extraTypes(ids)
	if len(b.dirs) > 0 {
		if m.WithDefaults {
			cfg.Directives = append(cfg.Directives, graphql.SpecifiedDirectives...)
		}
		cfg.Directives = append(cfg.Directives, b.dirs...)
	}
	return cfg
}
