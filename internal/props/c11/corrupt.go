package c11

import (
	"strings"

	"verif/internal/core"
)

// A corruption is one deliberate departure from a valid configuration.
// Class says what the property lets the library do with it:
//
//	illegal   the configuration breaks a rule the property names: the library
//	          must return an error (or, at the very least, not hand out an
//	          inconsistent schema — that is what the oracle decides)
//	legal     the configuration is still valid (a rejection is counted as
//	          legal-rejected, a feature, never a violation)
//	dontcare  the property does not squarely say (must not panic; the result
//	          is only checked by the oracle like any other accepted schema)
type corruption struct {
	kind  string
	class string
	apply func(m *Model, r *core.RNG) bool
}

// nilPointerKinds are the corruptions that plant a nil pointer (or nil
// interface) where the library dereferences without looking. They are only
// generated as the single corruption of a case: combined with a second fault,
// whether the library meets the nil pointer (panic) or the other fault
// (error, or a different panic site) first depends on Go map iteration inside
// the library, and the recorded outcome of the case would no longer be a
// function of the seed.
func nilPointerKind(kind string) bool {
	return strings.HasPrefix(kind, "typednil:") || kind == "nil:extra-type" || kind == "nil:appended-type" || kind == "nil:directive" ||
		kind == "nil:directive-arg-config" || kind == "forward-literal"
}

var badNames = []string{"", "bad-name", "1x", "a b", "é", "x!"}

func badName(r *core.RNG) string { return core.PickStr(r, badNames) }

// ---- helpers -----------------------------------------------------------

type site struct {
	pos   string // field | arg | inputfield | dirarg
	ref   *Ref
	owner *TypeDef
	field *FieldDef
	arg   *ArgDef
}

func sites(m *Model, pos string) []site {
	var out []site
	for _, t := range m.Types {
		for _, f := range t.Fields {
			if f.NilConfig {
				continue
			}
			switch {
			case (t.Kind == KObject || t.Kind == KIface) && pos == "field":
				out = append(out, site{pos: pos, ref: &f.Type, owner: t, field: f})
			case t.Kind == KInput && pos == "inputfield":
				out = append(out, site{pos: pos, ref: &f.Type, owner: t, field: f})
			case (t.Kind == KObject || t.Kind == KIface) && pos == "arg":
				for _, a := range f.Args {
					if !a.NilConfig {
						out = append(out, site{pos: pos, ref: &a.Type, owner: t, field: f, arg: a})
					}
				}
			}
		}
	}
	if pos == "dirarg" {
		for _, d := range m.Directives {
			for _, a := range d.Args {
				if !a.NilConfig {
					out = append(out, site{pos: pos, ref: &a.Type, arg: a})
				}
			}
		}
	}
	return out
}

func ensureArgSite(m *Model, r *core.RNG) {
	if len(sites(m, "arg")) > 0 {
		return
	}
	fs := sites(m, "field")
	if len(fs) == 0 {
		return
	}
	s := fs[r.Intn(len(fs))]
	s.field.Args = append(s.field.Args, &ArgDef{Name: "x", Type: Ref{To: "$Int"}})
}

func ensureDirective(m *Model, r *core.RNG, withArg bool) *DirDef {
	for _, d := range m.Directives {
		if !d.Nil && (!withArg || len(d.Args) > 0) {
			return d
		}
	}
	d := &DirDef{Name: "dirX", Locations: []string{"FIELD"}}
	if withArg {
		d.Args = []*ArgDef{{Name: "x", Type: Ref{To: "$Int"}}}
	}
	m.Directives = append(m.Directives, d)
	m.WithDefaults = r.Chance(70)
	return d
}

func pickSite(m *Model, r *core.RNG, pos string) (site, bool) {
	switch pos {
	case "arg":
		ensureArgSite(m, r)
	case "dirarg":
		ensureDirective(m, r, true)
	}
	ss := sites(m, pos)
	if len(ss) == 0 {
		return site{}, false
	}
	return ss[r.Intn(len(ss))], true
}

func pickKind(m *Model, r *core.RNG, kind string, pred func(*TypeDef) bool) *TypeDef {
	var c []*TypeDef
	for _, t := range m.Types {
		if t.Kind == kind && (pred == nil || pred(t)) {
			c = append(c, t)
		}
	}
	if len(c) == 0 {
		return nil
	}
	return c[r.Intn(len(c))]
}

func isRoot(m *Model, t *TypeDef) bool {
	return t.ID == m.Query || t.ID == m.Mutation || t.ID == m.Subscription
}

// uniqueID returns a model ID not in use.
func uniqueID(m *Model, base string) string {
	id := base
	for i := 2; m.Def(id) != nil; i++ {
		id = base + "_" + string(rune('0'+i))
	}
	return id
}

// implPair finds (or makes) an object implementing an interface, with the
// interface field and the implementer's field of the same name.
type pair struct {
	obj, iface *TypeDef
	ifield     *FieldDef
	ofield     *FieldDef
}

func implPairs(m *Model) []pair {
	var out []pair
	for _, o := range m.Types {
		if o.Kind != KObject {
			continue
		}
		for _, iid := range o.Interfaces {
			it := m.Def(iid)
			if it == nil || it.Kind != KIface {
				continue
			}
			for _, f := range it.Fields {
				for _, of := range o.Fields {
					if of.Name == f.Name && !of.NilConfig && !f.NilConfig {
						out = append(out, pair{o, it, f, of})
					}
				}
			}
		}
	}
	return out
}

func pickPair(m *Model, r *core.RNG, pred func(pair) bool) (pair, bool) {
	var c []pair
	for _, p := range implPairs(m) {
		if pred == nil || pred(p) {
			c = append(c, p)
		}
	}
	if len(c) == 0 {
		return pair{}, false
	}
	return c[r.Intn(len(c))], true
}

func wrapRandom(r *core.RNG) string {
	return core.PickStr(r, []string{"", "", "N", "L", "LN", "NL"})
}

// ---- the catalogue -----------------------------------------------------

func nameCorruption(kind string) corruption {
	return corruption{"name:" + kind, "illegal", func(m *Model, r *core.RNG) bool {
		t := pickKind(m, r, kind, nil)
		if t == nil {
			return false
		}
		t.Name = badName(r)
		return true
	}}
}

func wrapCorruption(what, pos string) corruption {
	return corruption{"wrap:" + what + "@" + pos, "illegal", func(m *Model, r *core.RNG) bool {
		s, ok := pickSite(m, r, pos)
		if !ok {
			return false
		}
		outer := core.PickStr(r, []string{"", "", "L", "LN"})
		// never put N directly above our own leading N by accident: that
		// would be a second, different corruption
		switch what {
		case "nonnull-nonnull":
			inner := strings.TrimPrefix(s.ref.Wrap, "N")
			s.ref.Wrap = strings.TrimSuffix(outer, "N") + "NN" + inner
		case "list-nil":
			*s.ref = Ref{Wrap: outer + "L", Nil: "untyped"}
		case "nonnull-nil":
			*s.ref = Ref{Wrap: strings.TrimSuffix(outer, "N") + "N", Nil: "untyped"}
		}
		return true
	}}
}

func nilTypeCorruption(pos string, typed bool) corruption {
	kind := "nil:" + pos + "-type"
	if typed {
		kind = "typednil:" + pos + "-type"
	}
	return corruption{kind, "illegal", func(m *Model, r *core.RNG) bool {
		s, ok := pickSite(m, r, pos)
		if !ok {
			return false
		}
		if typed {
			kinds := []string{KScalar, KEnum, KInput}
			if pos == "field" {
				kinds = []string{KObject, KIface, KUnion, KScalar, KEnum}
			}
			*s.ref = Ref{Nil: "typed", NilKind: core.PickStr(r, kinds)}
		} else {
			*s.ref = Ref{Nil: "untyped"}
		}
		return true
	}}
}

func positionCorruption(kind, pos, targetKind string) corruption {
	return corruption{kind, "illegal", func(m *Model, r *core.RNG) bool {
		t := pickKind(m, r, targetKind, nil)
		if t == nil {
			return false
		}
		s, ok := pickSite(m, r, pos)
		if !ok {
			return false
		}
		*s.ref = Ref{To: t.ID, Wrap: wrapRandom(r)}
		return true
	}}
}

func emptyCorruption(kind, typeKind string) corruption {
	return corruption{kind, "illegal", func(m *Model, r *core.RNG) bool {
		t := pickKind(m, r, typeKind, nil)
		if t == nil {
			return false
		}
		mode := core.PickStr(r, []string{"", "nilmap", "absent"})
		switch typeKind {
		case KObject, KIface, KInput:
			t.Fields = nil
			t.FieldsMode = mode
		case KUnion:
			t.Members = nil
			if mode == "nilmap" {
				mode = ""
			}
			t.MembersMode = mode
		case KEnum:
			t.Values = nil
			if mode == "absent" {
				mode = "nilmap"
			}
			t.ValuesMode = mode
		}
		return true
	}}
}

var catalogue []corruption

func init() {
	c := &catalogue
	add := func(x corruption) { *c = append(*c, x) }

	// --- illegal names, every kind of named thing
	for _, k := range []string{KScalar, KObject, KIface, KUnion, KEnum, KInput} {
		add(nameCorruption(k))
	}
	add(corruption{"name:field", "illegal", func(m *Model, r *core.RNG) bool {
		s, ok := pickSite(m, r, "field")
		if !ok {
			return false
		}
		s.field.Name = badName(r)
		return true
	}})
	add(corruption{"name:arg", "illegal", func(m *Model, r *core.RNG) bool {
		s, ok := pickSite(m, r, "arg")
		if !ok {
			return false
		}
		s.arg.Name = badName(r)
		return true
	}})
	add(corruption{"name:inputfield", "illegal", func(m *Model, r *core.RNG) bool {
		s, ok := pickSite(m, r, "inputfield")
		if !ok {
			return false
		}
		s.field.Name = badName(r)
		return true
	}})
	add(corruption{"name:only-inputfield", "illegal", func(m *Model, r *core.RNG) bool {
		t := pickKind(m, r, KInput, func(t *TypeDef) bool { return len(t.Fields) > 0 })
		if t == nil {
			return false
		}
		t.Fields = t.Fields[:1]
		t.Fields[0].Name = badName(r)
		return true
	}})
	add(corruption{"name:enumvalue", "illegal", func(m *Model, r *core.RNG) bool {
		t := pickKind(m, r, KEnum, func(t *TypeDef) bool { return len(t.Values) > 0 })
		if t == nil {
			return false
		}
		t.Values[r.Intn(len(t.Values))] = badName(r)
		return true
	}})
	add(corruption{"name:directive", "illegal", func(m *Model, r *core.RNG) bool {
		ensureDirective(m, r, false).Name = badName(r)
		return true
	}})
	add(corruption{"name:directive-arg", "illegal", func(m *Model, r *core.RNG) bool {
		d := ensureDirective(m, r, true)
		d.Args[r.Intn(len(d.Args))].Name = badName(r)
		return true
	}})

	// --- duplicate names across kinds
	add(corruption{"dup:same-kind", "illegal", func(m *Model, r *core.RNG) bool {
		kinds := []string{KObject, KEnum, KInput, KIface, KScalar, KUnion}
		for _, i := range r.Perm(len(kinds)) {
			ts := m.OfKind(kinds[i])
			if len(ts) >= 2 {
				p := r.Perm(len(ts))
				ts[p[1]].Name = ts[p[0]].Name
				return true
			}
		}
		return false
	}})
	add(corruption{"dup:cross-kind", "illegal", func(m *Model, r *core.RNG) bool {
		for try := 0; try < 20; try++ {
			a := m.Types[r.Intn(len(m.Types))]
			b := m.Types[r.Intn(len(m.Types))]
			if a.Kind != b.Kind {
				b.Name = a.Name
				return true
			}
		}
		return false
	}})
	add(corruption{"dup:builtin-scalar", "illegal", func(m *Model, r *core.RNG) bool {
		t := m.Types[r.Intn(len(m.Types))]
		t.Name = core.PickStr(r, []string{"String", "Boolean", "Int", "Float", "ID"})
		return true
	}})
	add(corruption{"dup:introspection", "illegal", func(m *Model, r *core.RNG) bool {
		t := m.Types[r.Intn(len(m.Types))]
		t.Name = core.PickStr(r, []string{"__Type", "__Schema", "__TypeKind", "__Field", "__InputValue", "__EnumValue", "__Directive", "__DirectiveLocation"})
		return true
	}})
	add(corruption{"dup:clone", "illegal", func(m *Model, r *core.RNG) bool {
		// a second, different type object carrying the name of an existing
		// one, reachable from a different place
		src := m.Types[r.Intn(len(m.Types))]
		if isRoot(m, src) {
			return false
		}
		cl := m.Clone().Def(src.ID)
		cl.ID = uniqueID(m, src.ID+"_clone")
		m.Types = append(m.Types, cl)
		switch {
		case cl.Kind == KInput:
			if s, ok := pickSite(m, r, "arg"); ok {
				*s.ref = Ref{To: cl.ID}
				return true
			}
		case cl.Kind == KUnion || cl.Kind == KObject || cl.Kind == KIface:
			if q := m.Def(m.Query); q != nil {
				q.Fields = append(q.Fields, &FieldDef{Name: "cloned", Type: Ref{To: cl.ID}})
				return true
			}
		}
		if r.Bool() {
			m.Extra = append(m.Extra, cl.ID)
		} else {
			m.Appended = append(m.Appended, cl.ID)
		}
		return true
	}})

	// --- empty sets
	add(emptyCorruption("empty:object-fields", KObject))
	add(emptyCorruption("empty:iface-fields", KIface))
	add(emptyCorruption("empty:input-fields", KInput))
	add(emptyCorruption("empty:union-members", KUnion))
	add(emptyCorruption("empty:enum-values", KEnum))
	add(corruption{"wrongtype:fields", "illegal", func(m *Model, r *core.RNG) bool {
		t := pickKind(m, r, core.PickStr(r, []string{KObject, KIface, KInput}), nil)
		if t == nil {
			return false
		}
		t.FieldsMode = "wrongtype"
		return true
	}})
	add(corruption{"wrongtype:interfaces", "illegal", func(m *Model, r *core.RNG) bool {
		t := pickKind(m, r, KObject, nil)
		if t == nil {
			return false
		}
		t.InterfacesMode = "wrongtype"
		return true
	}})
	add(corruption{"wrongtype:union-types", "illegal", func(m *Model, r *core.RNG) bool {
		t := pickKind(m, r, KUnion, nil)
		if t == nil {
			return false
		}
		t.MembersMode = "wrongtype"
		return true
	}})

	// --- nil members
	add(corruption{"nil:field-config", "dontcare", func(m *Model, r *core.RNG) bool {
		s, ok := pickSite(m, r, "field")
		if !ok {
			return false
		}
		s.field.NilConfig = true
		return true
	}})
	add(corruption{"nil:only-field-config", "illegal", func(m *Model, r *core.RNG) bool {
		t := pickKind(m, r, core.PickStr(r, []string{KObject, KIface}), func(t *TypeDef) bool { return len(t.Fields) > 0 })
		if t == nil {
			return false
		}
		t.Fields = t.Fields[:1]
		t.Fields[0].NilConfig = true
		return true
	}})
	add(corruption{"nil:arg-config", "illegal", func(m *Model, r *core.RNG) bool {
		s, ok := pickSite(m, r, "arg")
		if !ok {
			return false
		}
		s.arg.NilConfig = true
		return true
	}})
	add(corruption{"nil:inputfield-config", "dontcare", func(m *Model, r *core.RNG) bool {
		s, ok := pickSite(m, r, "inputfield")
		if !ok {
			return false
		}
		s.field.NilConfig = true
		return true
	}})
	add(corruption{"nil:enum-value-config", "illegal", func(m *Model, r *core.RNG) bool {
		t := pickKind(m, r, KEnum, func(t *TypeDef) bool { return len(t.Values) > 0 })
		if t == nil {
			return false
		}
		t.NilValue = t.Values[r.Intn(len(t.Values))]
		return true
	}})
	for _, pos := range []string{"field", "arg", "inputfield", "dirarg"} {
		add(nilTypeCorruption(pos, false))
		add(nilTypeCorruption(pos, true))
	}
	add(corruption{"nil:interface-entry", "illegal", func(m *Model, r *core.RNG) bool {
		t := pickKind(m, r, KObject, nil)
		if t == nil {
			return false
		}
		i := r.Intn(len(t.Interfaces) + 1)
		t.Interfaces = append(t.Interfaces[:i:i], append([]string{"<nil>"}, t.Interfaces[i:]...)...)
		return true
	}})
	add(corruption{"nil:union-member", "illegal", func(m *Model, r *core.RNG) bool {
		t := pickKind(m, r, KUnion, nil)
		if t == nil {
			return false
		}
		i := r.Intn(len(t.Members) + 1)
		t.Members = append(t.Members[:i:i], append([]string{"<nil>"}, t.Members[i:]...)...)
		return true
	}})
	add(corruption{"nil:extra-type", "illegal", func(m *Model, r *core.RNG) bool {
		for _, d := range m.Directives {
			if d.Nil { // keep the two NewSchema nil-entry mechanisms apart
				return false
			}
		}
		i := r.Intn(len(m.Extra) + 1)
		m.Extra = append(m.Extra[:i:i], append([]string{"<nil>"}, m.Extra[i:]...)...)
		return true
	}})
	add(corruption{"typednil:extra-type", "illegal", func(m *Model, r *core.RNG) bool {
		i := r.Intn(len(m.Extra) + 1)
		m.Extra = append(m.Extra[:i:i], append([]string{"<typednil>"}, m.Extra[i:]...)...)
		return true
	}})
	add(corruption{"nil:appended-type", "illegal", func(m *Model, r *core.RNG) bool {
		i := r.Intn(len(m.Appended) + 1)
		m.Appended = append(m.Appended[:i:i], append([]string{"<nil>"}, m.Appended[i:]...)...)
		return true
	}})
	add(corruption{"typednil:appended-type", "illegal", func(m *Model, r *core.RNG) bool {
		i := r.Intn(len(m.Appended) + 1)
		m.Appended = append(m.Appended[:i:i], append([]string{"<typednil>"}, m.Appended[i:]...)...)
		return true
	}})
	add(corruption{"nil:directive", "illegal", func(m *Model, r *core.RNG) bool {
		for _, id := range m.Extra {
			if id == "<nil>" { // keep the two NewSchema nil-entry mechanisms apart
				return false
			}
		}
		i := r.Intn(len(m.Directives) + 1)
		m.Directives = append(m.Directives[:i:i], append([]*DirDef{{Nil: true}}, m.Directives[i:]...)...)
		if len(m.Directives) == 1 {
			m.WithDefaults = r.Bool()
		}
		return true
	}})
	add(corruption{"nil:directive-arg-config", "illegal", func(m *Model, r *core.RNG) bool {
		d := ensureDirective(m, r, true)
		d.Args[r.Intn(len(d.Args))].NilConfig = true
		return true
	}})
	add(corruption{"forward-literal", "illegal", func(m *Model, r *core.RNG) bool {
		// a literal (non-thunk) field map / interface list / member list that
		// refers to a type constructed later: in Go, a declared variable that
		// is still nil when the literal is evaluated
		var c []*TypeDef
		for i, t := range m.Types {
			if t.Kind == KScalar || t.Kind == KEnum {
				continue
			}
			for _, id := range refsOf(t) {
				if m.index(id) >= i {
					c = append(c, t)
					break
				}
			}
		}
		if len(c) == 0 {
			return false
		}
		t := c[r.Intn(len(c))]
		m.LiteralForward = append(m.LiteralForward, t.ID)
		return true
	}})

	// --- input type in output position and vice versa
	add(positionCorruption("pos:object-as-arg", "arg", KObject))
	add(positionCorruption("pos:iface-as-arg", "arg", KIface))
	add(positionCorruption("pos:union-as-arg", "arg", KUnion))
	add(positionCorruption("pos:object-as-inputfield", "inputfield", KObject))
	add(positionCorruption("pos:iface-as-inputfield", "inputfield", KIface))
	add(positionCorruption("pos:input-as-field", "field", KInput))
	add(positionCorruption("pos:object-as-dirarg", "dirarg", KObject))

	// --- interface implementation
	add(corruption{"impl:field-missing", "illegal", func(m *Model, r *core.RNG) bool {
		p, ok := pickPair(m, r, func(p pair) bool { return len(p.obj.Fields) >= 2 })
		if !ok {
			return false
		}
		var keep []*FieldDef
		for _, f := range p.obj.Fields {
			if f != p.ofield {
				keep = append(keep, f)
			}
		}
		p.obj.Fields = keep
		return true
	}})
	add(corruption{"impl:field-type-unrelated", "illegal", func(m *Model, r *core.RNG) bool {
		p, ok := pickPair(m, r, nil)
		if !ok {
			return false
		}
		to := "$Float"
		if p.ifield.Type.To == "$Float" {
			to = "$Boolean"
		}
		p.ofield.Type = Ref{To: to, Wrap: p.ifield.Type.Wrap}
		return true
	}})
	add(corruption{"impl:field-type-drops-nonnull", "illegal", func(m *Model, r *core.RNG) bool {
		// the interface demands non-null somewhere, the implementer drops it
		if p, ok := pickPair(m, r, func(p pair) bool { return strings.Contains(p.ifield.Type.Wrap, "N") }); ok {
			w := p.ifield.Type.Wrap
			i := strings.Index(w, "N")
			p.ofield.Type = Ref{To: p.ifield.Type.To, Wrap: w[:i] + w[i+1:]}
			return true
		}
		p, ok := pickPair(m, r, nil)
		if !ok {
			return false
		}
		// make the interface stricter instead; every other implementer of
		// this field then breaks the same rule
		if !strings.HasPrefix(p.ifield.Type.Wrap, "N") {
			p.ofield.Type = p.ifield.Type
			p.ifield.Type.Wrap = "N" + p.ifield.Type.Wrap
		}
		return true
	}})
	add(corruption{"impl:field-type-list-mismatch", "illegal", func(m *Model, r *core.RNG) bool {
		p, ok := pickPair(m, r, nil)
		if !ok {
			return false
		}
		w := p.ifield.Type.Wrap
		if i := strings.Index(w, "L"); i >= 0 {
			p.ofield.Type = Ref{To: p.ifield.Type.To, Wrap: strings.Replace(w[:i]+w[i+1:], "NN", "N", -1)}
		} else {
			p.ofield.Type = Ref{To: p.ifield.Type.To, Wrap: "L" + w}
		}
		return true
	}})
	add(corruption{"impl:field-type-non-member", "illegal", func(m *Model, r *core.RNG) bool {
		// narrowed to an object that does NOT belong to the abstract type
		var c []pair
		var pick []string
		for _, p := range implPairs(m) {
			d := m.Def(p.ifield.Type.To)
			if d == nil || (d.Kind != KIface && d.Kind != KUnion) {
				continue
			}
			for _, o := range m.OfKind(KObject) {
				if isRoot(m, o) {
					continue
				}
				belongs := false
				for _, id := range o.Interfaces {
					belongs = belongs || id == d.ID
				}
				for _, id := range d.Members {
					belongs = belongs || id == o.ID
				}
				if !belongs {
					c = append(c, p)
					pick = append(pick, o.ID)
				}
			}
		}
		if len(c) == 0 {
			return false
		}
		i := r.Intn(len(c))
		c[i].ofield.Type = Ref{To: pick[i], Wrap: c[i].ifield.Type.Wrap}
		return true
	}})
	add(corruption{"impl:arg-missing", "illegal", func(m *Model, r *core.RNG) bool {
		p, ok := pickPair(m, r, nil)
		if !ok {
			return false
		}
		if len(p.ifield.Args) == 0 {
			// give the interface field an argument the implementer lacks
			p.ifield.Args = append(p.ifield.Args, &ArgDef{Name: "needed", Type: Ref{To: "$Int"}})
			return true
		}
		name := p.ifield.Args[r.Intn(len(p.ifield.Args))].Name
		var keep []*ArgDef
		for _, a := range p.ofield.Args {
			if a.Name != name {
				keep = append(keep, a)
			}
		}
		p.ofield.Args = keep
		return true
	}})
	// (added by the lead after a seeded change reused the previously found
	// argument when the next one was missing) the implementer lacks an
	// argument that FOLLOWS, in name order, an argument of the same type
	add(corruption{"impl:arg-missing-after-same-typed-arg", "illegal", func(m *Model, r *core.RNG) bool {
		p, ok := pickPair(m, r, nil)
		if !ok {
			return false
		}
		t := Ref{To: core.PickStr(r, []string{"$Int", "$String", "$Boolean"}), Wrap: core.PickStr(r, []string{"", "N", "L"})}
		n := r.Range(2, 4)
		p.ifield.Args = nil
		p.ofield.Args = nil
		drop := r.Range(1, n-1)
		for i := 0; i < n; i++ {
			name := "same" + string(rune('a'+i))
			p.ifield.Args = append(p.ifield.Args, &ArgDef{Name: name, Type: t})
			if i != drop {
				p.ofield.Args = append(p.ofield.Args, &ArgDef{Name: name, Type: t})
			}
		}
		return true
	}})
	add(corruption{"impl:arg-type-changed", "illegal", func(m *Model, r *core.RNG) bool {
		p, ok := pickPair(m, r, nil)
		if !ok {
			return false
		}
		if len(p.ifield.Args) == 0 {
			p.ifield.Args = append(p.ifield.Args, &ArgDef{Name: "x", Type: Ref{To: "$Int"}})
			p.ofield.Args = append(p.ofield.Args, &ArgDef{Name: "x", Type: Ref{To: "$Int"}})
		}
		ia := p.ifield.Args[r.Intn(len(p.ifield.Args))]
		for _, oa := range p.ofield.Args {
			if oa.Name != ia.Name {
				continue
			}
			switch r.Intn(3) {
			case 0: // other named type
				to := "$Float"
				if ia.Type.To == "$Float" {
					to = "$String"
				}
				oa.Type = Ref{To: to, Wrap: ia.Type.Wrap}
			case 1: // nullability differs (argument types are invariant)
				if strings.HasPrefix(ia.Type.Wrap, "N") {
					oa.Type = Ref{To: ia.Type.To, Wrap: ia.Type.Wrap[1:]}
				} else {
					oa.Type = Ref{To: ia.Type.To, Wrap: "N" + ia.Type.Wrap}
				}
			case 2: // list-ness differs
				if strings.HasPrefix(ia.Type.Wrap, "L") {
					oa.Type = Ref{To: ia.Type.To, Wrap: ia.Type.Wrap[1:]}
				} else {
					oa.Type = Ref{To: ia.Type.To, Wrap: "L" + ia.Type.Wrap}
				}
			}
			return true
		}
		return false
	}})
	add(corruption{"impl:extra-required-arg", "illegal", func(m *Model, r *core.RNG) bool {
		p, ok := pickPair(m, r, nil)
		if !ok {
			return false
		}
		p.ofield.Args = append(p.ofield.Args, &ArgDef{Name: "must", Type: Ref{To: "$Int", Wrap: core.PickStr(r, []string{"N", "NL", "NLN"})}})
		return true
	}})
	add(corruption{"impl:extra-optional-arg", "legal", func(m *Model, r *core.RNG) bool {
		p, ok := pickPair(m, r, nil)
		if !ok {
			return false
		}
		p.ofield.Args = append(p.ofield.Args, &ArgDef{Name: "may", Type: Ref{To: "$Int", Wrap: core.PickStr(r, []string{"", "L", "LN"})}})
		return true
	}})

	// --- malformed wrappers
	for _, pos := range []string{"field", "arg", "inputfield", "dirarg"} {
		add(wrapCorruption("nonnull-nonnull", pos))
		add(wrapCorruption("list-nil", pos))
		add(wrapCorruption("nonnull-nil", pos))
	}

	// --- roots
	add(corruption{"root:missing-query", "illegal", func(m *Model, r *core.RNG) bool {
		if m.Query == "" {
			return false
		}
		if r.Bool() {
			m.Extra = append(m.Extra, m.Query) // still around, just not the root
		}
		m.Query = ""
		return true
	}})
	add(corruption{"root:mutation-is-query", "legal", func(m *Model, r *core.RNG) bool {
		if m.Query == "" {
			return false
		}
		m.Mutation = m.Query
		return true
	}})
	add(corruption{"root:subscription-is-query", "legal", func(m *Model, r *core.RNG) bool {
		if m.Query == "" {
			return false
		}
		m.Subscription = m.Query
		return true
	}})

	// --- resolvability
	add(corruption{"resolve:iface-unresolvable", "dontcare", func(m *Model, r *core.RNG) bool {
		p, ok := pickPair(m, r, nil)
		if !ok {
			return false
		}
		p.iface.ResolveType = false
		p.obj.IsTypeOf = false
		for _, u := range m.OfKind(KUnion) { // keep unions resolvable
			u.ResolveType = true
		}
		return true
	}})
	add(corruption{"resolve:union-unresolvable", "dontcare", func(m *Model, r *core.RNG) bool {
		u := pickKind(m, r, KUnion, func(t *TypeDef) bool { return len(t.Members) > 0 })
		if u == nil {
			return false
		}
		u.ResolveType = false
		if o := m.Def(u.Members[r.Intn(len(u.Members))]); o != nil {
			o.IsTypeOf = false
			for _, iid := range o.Interfaces { // keep interfaces resolvable
				if it := m.Def(iid); it != nil {
					it.ResolveType = true
				}
			}
		}
		return true
	}})

	// --- listed twice
	add(corruption{"twice:union-member", "dontcare", func(m *Model, r *core.RNG) bool {
		u := pickKind(m, r, KUnion, func(t *TypeDef) bool { return len(t.Members) > 0 })
		if u == nil {
			return false
		}
		u.Members = append(u.Members, u.Members[r.Intn(len(u.Members))])
		return true
	}})
	add(corruption{"twice:interface", "dontcare", func(m *Model, r *core.RNG) bool {
		o := pickKind(m, r, KObject, func(t *TypeDef) bool { return len(t.Interfaces) > 0 })
		if o == nil {
			return false
		}
		o.Interfaces = append(o.Interfaces, o.Interfaces[r.Intn(len(o.Interfaces))])
		return true
	}})

	// --- scalars
	add(corruption{"scalar:no-serialize", "dontcare", func(m *Model, r *core.RNG) bool {
		t := pickKind(m, r, KScalar, nil)
		if t == nil {
			return false
		}
		t.NoSerialize = true
		return true
	}})
	add(corruption{"scalar:half-parse", "dontcare", func(m *Model, r *core.RNG) bool {
		t := pickKind(m, r, KScalar, nil)
		if t == nil {
			return false
		}
		t.ParseValue, t.ParseLiteral = true, false
		if r.Bool() {
			t.ParseValue, t.ParseLiteral = false, true
		}
		return true
	}})
}

// Unrepresentable in this library's configuration types (noted in README):
// duplicate field / argument / enum-value / input-field names (the
// configuration is a Go map), a union member that is not an object and an
// interface-list entry that is not an interface ([]*Object / []*Interface
// are typed; only the wrong Go type for the whole list can be given, see
// wrongtype:*), a non-object root (SchemaConfig.Query is *Object).

var corruptionClass = map[string]string{}

func init() {
	for _, c := range catalogue {
		corruptionClass[c.kind] = c.class
	}
}

// corrupt applies one applicable corruption chosen at random and repairs the
// thunk flags and the hand-over lists so that the corrupted part stays
// reachable and no second, accidental corruption (an unintended forward
// reference in a literal) is introduced.
func corrupt(m *Model, r *core.RNG, allowNilPointer bool) (kind string, ok bool) {
	for try := 0; try < 20; try++ {
		c := catalogue[r.Intn(len(catalogue))]
		if !allowNilPointer && nilPointerKind(c.kind) {
			continue
		}
		if c.apply(m, r) {
			m.Corruptions = append(m.Corruptions, c.kind)
			forceThunks(m)
			topUpUnreached(m, r)
			return c.kind, true
		}
	}
	return "", false
}

// forceThunks turns a literal into a thunk wherever it would otherwise
// evaluate a reference to a type that is not constructed yet — except for the
// types deliberately listed in LiteralForward.
func forceThunks(m *Model) {
	exempt := map[string]bool{}
	for _, id := range m.LiteralForward {
		exempt[id] = true
	}
	for i, t := range m.Types {
		needs := func(ids []string) bool {
			for _, id := range ids {
				if m.Def(id) != nil && m.index(id) >= i {
					return true
				}
			}
			return false
		}
		if exempt[t.ID] {
			t.FieldsThunk, t.InterfacesThunk, t.MembersThunk = false, false, false
			continue
		}
		var fieldRefs []string
		for _, f := range t.Fields {
			fieldRefs = append(fieldRefs, f.Type.To)
			for _, a := range f.Args {
				fieldRefs = append(fieldRefs, a.Type.To)
			}
		}
		if needs(fieldRefs) {
			t.FieldsThunk = true
		}
		if needs(t.Interfaces) {
			t.InterfacesThunk = true
		}
		if needs(t.Members) {
			t.MembersThunk = true
		}
	}
}

// topUpUnreached hands every type that nothing reaches any more to the
// schema explicitly.
func topUpUnreached(m *Model, r *core.RNG) {
	start := m.roots()
	for _, id := range append(append([]string{}, m.Extra...), m.Appended...) {
		start = append(start, id)
	}
	have := m.Reachable(start)
	for _, t := range m.Types {
		if have[t.ID] {
			continue
		}
		if r.Bool() {
			m.Appended = append(m.Appended, t.ID)
		} else {
			m.Extra = append(m.Extra, t.ID)
		}
		for _, id := range sortedKeys(m.Reachable([]string{t.ID})) {
			have[id] = true
		}
	}
}
