package c11

import (
	"fmt"
	"sort"
	"strings"
)

// The configuration model: plain data describing one schema configuration,
// valid or malformed. build.go turns it into library objects.

// Kinds of named types.
const (
	KScalar = "scalar"
	KObject = "object"
	KIface  = "interface"
	KUnion  = "union"
	KEnum   = "enum"
	KInput  = "inputobject"
)

// Ref is a type expression: wrappers (outermost first, 'L' = list,
// 'N' = non-null) around a target.
//
// To is the model ID of a TypeDef, or "$String", "$Int", "$Float",
// "$Boolean", "$ID" for the built-in scalars. Nil selects a nil instead of a
// target: "untyped" (nil interface value) or "typed" (nil pointer of NilKind
// inside the interface value — what a Go variable that was declared but not
// yet assigned gives).
type Ref struct {
	Wrap    string `json:"wrap,omitempty"`
	To      string `json:"to,omitempty"`
	Nil     string `json:"nil,omitempty"`
	NilKind string `json:"nilkind,omitempty"`
}

func (r Ref) String() string {
	s := r.To
	if r.Nil != "" {
		s = "<nil:" + r.Nil
		if r.NilKind != "" {
			s += ":" + r.NilKind
		}
		s += ">"
	}
	for i := len(r.Wrap) - 1; i >= 0; i-- {
		if r.Wrap[i] == 'L' {
			s = "[" + s + "]"
		} else {
			s = s + "!"
		}
	}
	return s
}

type ArgDef struct {
	Name      string `json:"name"`
	Type      Ref    `json:"type"`
	Default   string `json:"default,omitempty"` // "", "int", "string", "bool"
	NilConfig bool   `json:"nilconfig,omitempty"`
}

type FieldDef struct {
	Name      string    `json:"name"`
	Type      Ref       `json:"type"`
	Args      []*ArgDef `json:"args,omitempty"`
	Default   string    `json:"default,omitempty"`   // input fields only
	NilConfig bool      `json:"nilconfig,omitempty"` // Fields{"name": nil}
}

// TypeDef is one named type of the configuration. ID is the model-internal
// identity (two TypeDefs may carry the same Name).
type TypeDef struct {
	ID   string `json:"id"`
	Kind string `json:"kind"`
	Name string `json:"name"`

	// object / interface / input object
	Fields      []*FieldDef `json:"fields,omitempty"`
	FieldsThunk bool        `json:"fieldsThunk,omitempty"`
	// FieldsMode: "" normal; "nilmap" (Fields: typed nil map / thunk returning
	// nil), "absent" (Fields left unset), "wrongtype" (Fields: 42)
	FieldsMode string `json:"fieldsMode,omitempty"`

	// object
	Interfaces      []string `json:"interfaces,omitempty"` // IDs; "<nil>" = nil entry
	InterfacesThunk bool     `json:"interfacesThunk,omitempty"`
	InterfacesMode  string   `json:"interfacesMode,omitempty"` // "" | "wrongtype"
	IsTypeOf        bool     `json:"isTypeOf,omitempty"`

	// interface / union
	ResolveType bool `json:"resolveType,omitempty"`

	// union
	Members      []string `json:"members,omitempty"` // IDs; "<nil>" = nil entry
	MembersThunk bool     `json:"membersThunk,omitempty"`
	MembersMode  string   `json:"membersMode,omitempty"` // "" | "wrongtype" | "absent"

	// enum
	Values     []string `json:"values,omitempty"`
	NilValue   string   `json:"nilValue,omitempty"`   // this value's config is nil
	ValuesMode string   `json:"valuesMode,omitempty"` // "" | "nilmap"

	// scalar
	NoSerialize  bool `json:"noSerialize,omitempty"`
	ParseValue   bool `json:"parseValue,omitempty"`
	ParseLiteral bool `json:"parseLiteral,omitempty"`
}

type DirDef struct {
	Name      string    `json:"name"`
	Locations []string  `json:"locations"`
	Args      []*ArgDef `json:"args,omitempty"`
	Nil       bool      `json:"nil,omitempty"` // a nil *Directive entry
}

// Model is one configuration plus its history (which types are appended).
type Model struct {
	Types        []*TypeDef `json:"types"` // in construction order
	Query        string     `json:"query,omitempty"`
	Mutation     string     `json:"mutation,omitempty"`
	Subscription string     `json:"subscription,omitempty"`
	// Extra: IDs passed in SchemaConfig.Types; "<nil>" = nil interface,
	// "<typednil>" = (*Object)(nil)
	Extra []string `json:"extra,omitempty"`
	// Appended: IDs given to Schema.AppendType after NewSchema, in this order
	Appended []string `json:"appended,omitempty"`
	// Directives: custom directives; when empty the library's defaults apply.
	// WithDefaults prepends the specified directives (the documented way of
	// adding custom ones).
	Directives   []*DirDef `json:"directives,omitempty"`
	WithDefaults bool      `json:"withDefaults,omitempty"`

	// LiteralForward: types whose field map / interface list / member list is
	// a literal although it refers to a type constructed later (corruption
	// "forward-literal"): the reference evaluates to a typed nil pointer.
	LiteralForward []string `json:"literalForward,omitempty"`

	Corruptions []string `json:"corruptions,omitempty"`
}

func (m *Model) Def(id string) *TypeDef {
	for _, t := range m.Types {
		if t.ID == id {
			return t
		}
	}
	return nil
}

func (m *Model) index(id string) int {
	for i, t := range m.Types {
		if t.ID == id {
			return i
		}
	}
	return -1
}

func (m *Model) OfKind(kind string) []*TypeDef {
	var out []*TypeDef
	for _, t := range m.Types {
		if t.Kind == kind {
			out = append(out, t)
		}
	}
	return out
}

// Clone makes a deep copy.
func (m *Model) Clone() *Model {
	n := *m
	n.Types = nil
	for _, t := range m.Types {
		tt := *t
		tt.Fields = nil
		for _, f := range t.Fields {
			ff := *f
			ff.Args = nil
			for _, a := range f.Args {
				aa := *a
				ff.Args = append(ff.Args, &aa)
			}
			tt.Fields = append(tt.Fields, &ff)
		}
		tt.Interfaces = append([]string(nil), t.Interfaces...)
		tt.Members = append([]string(nil), t.Members...)
		tt.Values = append([]string(nil), t.Values...)
		n.Types = append(n.Types, &tt)
	}
	n.Extra = append([]string(nil), m.Extra...)
	n.Appended = append([]string(nil), m.Appended...)
	n.Directives = nil
	for _, d := range m.Directives {
		dd := *d
		dd.Locations = append([]string(nil), d.Locations...)
		dd.Args = nil
		for _, a := range d.Args {
			aa := *a
			dd.Args = append(dd.Args, &aa)
		}
		n.Directives = append(n.Directives, &dd)
	}
	n.Corruptions = append([]string(nil), m.Corruptions...)
	n.LiteralForward = append([]string(nil), m.LiteralForward...)
	return &n
}

// refsOf lists the IDs a type definition refers to, the way the library can
// follow them: object -> interfaces, field and argument types; interface ->
// field and argument types; union -> members; input object -> field types.
func refsOf(t *TypeDef) []string {
	var out []string
	add := func(id string) {
		if id != "" && !strings.HasPrefix(id, "$") && !strings.HasPrefix(id, "<") {
			out = append(out, id)
		}
	}
	for _, f := range t.Fields {
		add(f.Type.To)
		for _, a := range f.Args {
			add(a.Type.To)
		}
	}
	for _, i := range t.Interfaces {
		add(i)
	}
	for _, u := range t.Members {
		add(u)
	}
	return out
}

// Reachable computes the set of type IDs reachable from the given start IDs.
func (m *Model) Reachable(start []string) map[string]bool {
	seen := map[string]bool{}
	var visit func(id string)
	visit = func(id string) {
		if seen[id] {
			return
		}
		d := m.Def(id)
		if d == nil {
			return
		}
		seen[id] = true
		for _, r := range refsOf(d) {
			visit(r)
		}
	}
	for _, s := range start {
		visit(s)
	}
	return seen
}

func (m *Model) roots() []string {
	var out []string
	for _, r := range []string{m.Query, m.Mutation, m.Subscription} {
		if r != "" {
			out = append(out, r)
		}
	}
	return out
}

// Canon is the canonical description of the model (hash input for the
// distinct-case count, and the replayable literal of the case).
func (m *Model) Canon() string {
	var b strings.Builder
	fmt.Fprintf(&b, "query=%s mutation=%s subscription=%s\n", m.Query, m.Mutation, m.Subscription)
	fmt.Fprintf(&b, "extra=%s\nappended=%s\n", strings.Join(m.Extra, ","), strings.Join(m.Appended, ","))
	for _, t := range m.Types {
		fmt.Fprintf(&b, "%s %s %q", t.Kind, t.ID, t.Name)
		switch t.Kind {
		case KObject, KIface, KInput:
			fmt.Fprintf(&b, " thunk=%v mode=%s", t.FieldsThunk, t.FieldsMode)
		}
		switch t.Kind {
		case KObject:
			fmt.Fprintf(&b, " implements[thunk=%v mode=%s]=%s isTypeOf=%v", t.InterfacesThunk, t.InterfacesMode, strings.Join(t.Interfaces, ","), t.IsTypeOf)
		case KIface:
			fmt.Fprintf(&b, " resolveType=%v", t.ResolveType)
		case KUnion:
			fmt.Fprintf(&b, " members[thunk=%v mode=%s]=%s resolveType=%v", t.MembersThunk, t.MembersMode, strings.Join(t.Members, ","), t.ResolveType)
		case KEnum:
			fmt.Fprintf(&b, " values[mode=%s nil=%s]=%s", t.ValuesMode, t.NilValue, strings.Join(quoteAll(t.Values), ","))
		case KScalar:
			fmt.Fprintf(&b, " noSerialize=%v parseValue=%v parseLiteral=%v", t.NoSerialize, t.ParseValue, t.ParseLiteral)
		}
		b.WriteString("\n")
		for _, f := range t.Fields {
			if f.NilConfig {
				fmt.Fprintf(&b, "  %q: <nil config>\n", f.Name)
				continue
			}
			fmt.Fprintf(&b, "  %q(%s): %s", f.Name, canonArgs(f.Args), f.Type)
			if f.Default != "" {
				b.WriteString("=" + f.Default)
			}
			b.WriteString("\n")
		}
	}
	if len(m.Directives) > 0 {
		fmt.Fprintf(&b, "directives withDefaults=%v\n", m.WithDefaults)
		for _, d := range m.Directives {
			if d.Nil {
				b.WriteString("  <nil directive>\n")
				continue
			}
			fmt.Fprintf(&b, "  @%q(%s) on %s\n", d.Name, canonArgs(d.Args), strings.Join(d.Locations, "|"))
		}
	}
	fmt.Fprintf(&b, "literalForward=%s\ncorruptions=%s\n", strings.Join(m.LiteralForward, ","), strings.Join(m.Corruptions, ","))
	return b.String()
}

func quoteAll(xs []string) []string {
	out := make([]string, len(xs))
	for i, x := range xs {
		out[i] = fmt.Sprintf("%q", x)
	}
	return out
}

func canonArgs(args []*ArgDef) string {
	var parts []string
	for _, a := range args {
		if a.NilConfig {
			parts = append(parts, fmt.Sprintf("%q:<nil config>", a.Name))
			continue
		}
		s := fmt.Sprintf("%q:%s", a.Name, a.Type)
		if a.Default != "" {
			s += "=" + a.Default
		}
		parts = append(parts, s)
	}
	return strings.Join(parts, ",")
}

func sortedKeys(m map[string]bool) []string {
	out := make([]string, 0, len(m))
	for k := range m {
		out = append(out, k)
	}
	sort.Strings(out)
	return out
}
