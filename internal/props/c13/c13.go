// Package c13: top-level mutation fields execute serially in document order
// (trace-specification checker over the instrumented event log).
package c13

import (
	"fmt"
	"strings"
	"time"

	"github.com/graphql-go/graphql"

	"verif/internal/build"
	"verif/internal/core"
	"verif/internal/gen/schemagen"
	"verif/internal/gen/typedoc"
	"verif/internal/harness"
	"verif/internal/model"
	"verif/internal/nast"
	"verif/internal/ref/exec"
	"verif/internal/values"
)

func init() {
	core.Register(&core.Check{
		ID: "C13", Level: "exploration",
		Technique: "online trace-specification checker over the event log of instrumented resolvers and thunks (start/end per response path, shared side-effect counter); repeated runs across processes for map-iteration diversity",
		Rule:      "case = (schema with a mutation root, mutation document, variables, resolver behaviour table over {plain, nil, error, thunk, thunk under thunk, failing thunk}, repetition); non-trivial: >= 2 top-level mutation fields executed and at least one thunk or nested resolver ran; distinct by hash(schema, document, variables, behaviour table)",
		Assumptions: []string{
			"the event log is appended under one mutex by callbacks the harness owns, so its order is the order of the real calls",
			"top-level response keys in first-occurrence order come from the reference field collection (internal/ref/exec)",
		},
		Batches:      func(tier string) int { return map[string]int{"quick": 8, "thorough": 16}[tier] },
		Run:          run,
		ChildTimeout: func(tier string) time.Duration { return 20 * time.Minute },
		MinEvals:     func(tier string) int { return 2000 },
	})
}

// mutModel: a mutation root whose fields return objects with nested fields
// and lists, so deferred work can hide at every level.
func mutModel() *model.Schema {
	N := model.Named
	m := &model.Schema{Query: "Q", Mutation: "M", Extra: []string{"R2"}, Types: []*model.TypeDef{
		// abstract results: their sub-plans exist only per runtime type (planned lazily)
		{Kind: model.Interface, Name: "I", Fields: []*model.FieldDef{{Name: "v", Type: N("Int")}, {Name: "w", Type: N("String")}}},
		{Kind: model.Object, Name: "R2", Interfaces: []string{"I"}, Fields: []*model.FieldDef{{Name: "v", Type: N("Int")}, {Name: "w", Type: N("String")}, {Name: "only2", Type: N("Int")}, {Name: "back", Type: N("I")}}},
		{Kind: model.Union, Name: "U", Members: []string{"R", "R2"}},
		{Kind: model.Object, Name: "R", Interfaces: []string{"I"}, Fields: []*model.FieldDef{
			{Name: "v", Type: N("Int")}, {Name: "w", Type: N("String")}, {Name: "sub", Type: N("R")}, {Name: "subs", Type: model.ListOf(N("R"))},
			{Name: "req", Type: model.NonNull(N("Int"))},
		}},
		{Kind: model.Object, Name: "Q", Fields: []*model.FieldDef{{Name: "q", Type: N("Int")}}},
		{Kind: model.Object, Name: "M", Fields: []*model.FieldDef{
			{Name: "a", Type: N("R")}, {Name: "b", Type: N("R")}, {Name: "c", Type: model.ListOf(N("R"))}, {Name: "d", Type: N("Int")},
			{Name: "e", Type: N("R"), Args: []*model.InputDef{{Name: "n", Type: N("Int")}}}, {Name: "f", Type: model.NonNull(N("R"))},
			{Name: "i", Type: N("I")}, {Name: "u", Type: N("U")}, {Name: "li", Type: model.ListOf(N("I"))}, {Name: "lu", Type: model.ListOf(model.NonNull(N("U")))},
		}},
	}}
	m.Reindex()
	return m
}

var kinds = []values.Kind{values.Nil, values.Error, values.ThunkValue, values.ThunkValue, values.ThunkValue, values.ThunkError, values.ThunkNil, values.PanicError}

func topKey(path string) string {
	if i := strings.Index(path, "/"); i >= 0 {
		return path[:i]
	}
	return path
}

// checkTrace is the trace specification.
func checkTrace(exp *exec.Expect, evs []build.Event) []string {
	var out []string
	// top-level keys in first-occurrence order
	var keys []string
	idx := map[string]int{}
	for _, inv := range exp.Invocations {
		if !strings.Contains(inv.Path, "/") {
			idx[inv.Path] = len(keys)
			keys = append(keys, inv.Path)
		}
	}
	maxSeen := -1
	maxKey := ""
	counts := map[string]int{}
	for _, e := range evs {
		switch e.Kind {
		case "resolve", "resolve-end", "thunk", "thunk-end":
		default:
			continue
		}
		k := topKey(e.Path)
		i, ok := idx[k]
		if !ok {
			out = append(out, fmt.Sprintf("event %s %q belongs to no top-level field of the mutation", e.Kind, e.Path))
			continue
		}
		if i < maxSeen {
			out = append(out, fmt.Sprintf("order: %s of %q (top-level field #%d %q) ran after work of the later top-level field #%d %q had started", e.Kind, e.Path, i, k, maxSeen, maxKey))
		}
		if i > maxSeen {
			maxSeen = i
			maxKey = k
		}
		if e.Kind == "resolve" || e.Kind == "thunk" {
			counts[e.Kind+"|"+e.Path]++
		}
		if e.Kind == "resolve" && !strings.Contains(e.Path, "/") {
			if e.Counter != i {
				out = append(out, fmt.Sprintf("side effects: top-level field #%d %q observed %d completed predecessors", i, k, e.Counter))
			}
		}
	}
	for k, n := range counts {
		if n > 1 {
			out = append(out, fmt.Sprintf("exactly-once: %s ran %d times", k, n))
		}
	}
	if !exp.ThunkNonNullFailure {
		for _, inv := range exp.Invocations {
			if inv.Required && counts["resolve|"+inv.Path] != 1 {
				out = append(out, fmt.Sprintf("exactly-once: resolver for %q ran %d times", inv.Path, counts["resolve|"+inv.Path]))
			}
			if inv.Required && inv.Outcome.IsThunk() && counts["thunk|"+inv.Path] != 1 {
				out = append(out, fmt.Sprintf("exactly-once: deferred value of %q forced %d times", inv.Path, counts["thunk|"+inv.Path]))
			}
		}
	}
	if len(out) > 5 {
		out = out[:5]
	}
	return out
}

func run(c *core.Child) {
	runStaged(c)
	type src struct{ m *model.Schema }
	srcs := []src{{mutModel()}}
	for i := 0; len(srcs) < c.Scale(4, 16) && i < 200; i++ {
		sr := c.RNG(1, uint64(i))
		o := schemagen.DefaultOptions(sr)
		o.Mutation = true
		srcs = append(srcs, src{schemagen.Gen(sr, o)})
	}
	nDocs := c.Scale(30, 120)
	reps := c.Scale(8, 20)
	for si, s := range srcs {
		env, err := build.Build(s.m, c.RNG(9, uint64(si)).U64())
		if err != nil {
			continue
		}
		for di := 0; di < nDocs; di++ {
			dr := c.RNG(2, uint64(si), uint64(di))
			o := typedoc.DefaultOptions(dr)
			o.OnlyMutation = true
			o.Ops = 1
			o.MaxWidth = dr.Range(2, 6)
			o.MaxDepth = dr.Range(1, 3)
			d := typedoc.Gen(dr, s.m, o)
			op := d.Ops[0]
			if op.Op != "mutation" {
				continue
			}
			// multi-operation documents: the selected mutation next to other
			// operations (before and/or after it), chosen by operationName
			if x := dr.Intn(10); x < 5 {
				if op.Name == nil {
					op.Name = &nast.Name{Value: "M0"}
				}
				extra := func(kind, name string) *nast.Operation {
					return &nast.Operation{Op: kind, Name: &nast.Name{Value: name}, Sel: &nast.SelectionSet{Items: []nast.Node{&nast.Field{Name: &nast.Name{Value: "__typename"}}}}}
				}
				switch x {
				case 0:
					d.AST.Defs = append([]nast.Node{extra("query", "ExtraBefore")}, d.AST.Defs...)
				case 1, 2:
					d.AST.Defs = append(d.AST.Defs, extra("query", "ExtraAfter"))
				case 3:
					d.AST.Defs = append(append([]nast.Node{extra("query", "ExtraBefore")}, d.AST.Defs...), extra("query", "ExtraAfter"))
				default:
					d.AST.Defs = append(d.AST.Defs, extra("mutation", "OtherMutation"), extra("query", "ExtraAfter"))
				}
			}
			text := nast.Print(d.AST)
			astDoc, perr := harness.Parse(text)
			if perr != nil {
				continue
			}
			if vr := graphql.ValidateDocument(&env.Schema, astDoc, nil); !vr.IsValid {
				continue
			}
			opName := ""
			if op.Name != nil {
				opName = op.Name.Value
			}
			vars := typedoc.Assignment(dr, s.m, d, op, dr.U64())
			var plan *graphql.Plan
			if p, err := graphql.PlanQuery(&env.Schema, astDoc, opName); err == nil {
				plan = p
			}
			for ti := 0; ti < 3; ti++ {
				id := fmt.Sprintf("s%d/d%d/t%d", si, di, ti)
				if !c.Begin(id) {
					continue
				}
				tr := c.RNG(3, uint64(si), uint64(di), uint64(ti))
				table := &values.Outcomes{Seed: tr.U64(), Density: []int{35, 60, 90}[ti], Kinds: kinds}
				exp := exec.Execute(s.m, d.AST, opName, vars, table, env.Seed)
				if exp.RequestError || exp.VarStatus == 2 {
					continue
				}
				ntop := 0
				for _, inv := range exp.Invocations {
					if !strings.Contains(inv.Path, "/") {
						ntop++
					}
				}
				for rep := 0; rep < reps; rep++ {
					var r *harness.Run
					entry := "Do"
					if c.Guard("panic:mutation", text, func() {
						if rep%3 == 2 && plan != nil {
							entry = "ExecutePlan"
							r = harness.ExecutePlan(env, plan, vars, table, nil, nil)
						} else {
							r = harness.Do(env, text, opName, vars, table, nil)
						}
					}) {
						continue
					}
					c.Eval(1)
					if probs := checkTrace(exp, r.Events); len(probs) > 0 {
						cls := probs[0]
						if i := strings.Index(cls, ":"); i > 0 {
							cls = cls[:i]
						}
						c.Violation("trace:"+strings.ReplaceAll(cls, " ", "-"), entry+": "+strings.Join(probs, "; "),
							map[string]interface{}{"schema": s.m.SDL(), "document": text, "variables": vars, "outcomes": table.Describe(), "repetition": rep})
						break
					}
				}
				if ntop >= 2 && (exp.HasThunk || len(exp.Invocations) > ntop) {
					c.Nontrivial(core.HashString(s.m.SDL() + text + harness.CanonArgs(vars) + table.Describe()))
					c.FeatureN("top-level-fields", int64(ntop))
					if exp.HasThunk {
						c.Feature("with-thunks")
					}
					c.Sample("mutation", map[string]interface{}{"document": text, "outcomes": table.Describe(), "top_level_fields": ntop})
				}
			}
		}
	}
}
