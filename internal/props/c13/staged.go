package c13

// staged.go: multi-stage deferred work. The generated workload of c13.go
// defers values in one stage (a resolver returns one thunk). Here a
// hand-written mutation schema defers in several stages and at several
// depths: a thunk whose result is again a thunk ("reserve, then commit"), a
// thunk that yields an object whose fields are deferred, a list whose items
// are thunks yielding objects with deferred fields. Every stage logs the
// top-level response key it belongs to. Oracle (no model of values): the
// events of the i-th top-level field all precede the events of the j-th for
// i < j, and the stages a field runs next to other fields are exactly the
// stages it runs in a mutation of its own (nothing lost, nothing twice).

import (
	"fmt"
	"sort"
	"strings"
	"sync"

	"github.com/graphql-go/graphql"

	"verif/internal/core"
	"verif/internal/harness"
)

type stagedLog struct {
	mu  sync.Mutex
	evs []string // "<top key>|<label>"
}

func (l *stagedLog) add(top, label string) {
	l.mu.Lock()
	l.evs = append(l.evs, top+"|"+label)
	l.mu.Unlock()
}

func (l *stagedLog) take() []string {
	l.mu.Lock()
	defer l.mu.Unlock()
	out := l.evs
	l.evs = nil
	return out
}

type snode struct {
	top  string
	name string
}

func topOf(p graphql.ResolveParams) string {
	arr := p.Info.Path.AsArray()
	if len(arr) == 0 {
		return "?"
	}
	return fmt.Sprint(arr[0])
}

func pathOf(p graphql.ResolveParams) string {
	var parts []string
	for _, k := range p.Info.Path.AsArray() {
		parts = append(parts, fmt.Sprint(k))
	}
	return strings.Join(parts, "/")
}

type thunkFn = func() (interface{}, error)

func stagedSchema(l *stagedLog) (graphql.Schema, error) {
	// stage helpers: every stage logs when it runs
	once := func(top, label string, v interface{}) thunkFn {
		return func() (interface{}, error) { l.add(top, label+":force"); return v, nil }
	}
	twice := func(top, label string, v interface{}) thunkFn {
		return func() (interface{}, error) {
			l.add(top, label+":stage1")
			return thunkFn(func() (interface{}, error) { l.add(top, label+":stage2"); return v, nil }), nil
		}
	}
	var node *graphql.Object
	node = graphql.NewObject(graphql.ObjectConfig{Name: "Node", Fields: graphql.FieldsThunk(func() graphql.Fields {
		return graphql.Fields{
			"id": &graphql.Field{Type: graphql.Int, Resolve: func(p graphql.ResolveParams) (interface{}, error) {
				l.add(topOf(p), pathOf(p)+":resolve")
				return 1, nil
			}},
			"lazy": &graphql.Field{Type: graphql.Int, Resolve: func(p graphql.ResolveParams) (interface{}, error) {
				l.add(topOf(p), pathOf(p)+":resolve")
				return once(topOf(p), pathOf(p), 2), nil
			}},
			"twoStage": &graphql.Field{Type: graphql.Int, Resolve: func(p graphql.ResolveParams) (interface{}, error) {
				l.add(topOf(p), pathOf(p)+":resolve")
				return twice(topOf(p), pathOf(p), 3), nil
			}},
			"child": &graphql.Field{Type: node, Resolve: func(p graphql.ResolveParams) (interface{}, error) {
				l.add(topOf(p), pathOf(p)+":resolve")
				return snode{topOf(p), "child"}, nil
			}},
			"lazyChild": &graphql.Field{Type: node, Resolve: func(p graphql.ResolveParams) (interface{}, error) {
				l.add(topOf(p), pathOf(p)+":resolve")
				return once(topOf(p), pathOf(p), snode{topOf(p), "lazyChild"}), nil
			}},
			"lazyKids": &graphql.Field{Type: graphql.NewList(node), Resolve: func(p graphql.ResolveParams) (interface{}, error) {
				l.add(topOf(p), pathOf(p)+":resolve")
				return []interface{}{
					once(topOf(p), pathOf(p)+"/0", snode{topOf(p), "k0"}),
					snode{topOf(p), "k1"},
					twice(topOf(p), pathOf(p)+"/2", snode{topOf(p), "k2"}),
				}, nil
			}},
		}
	})})
	top := func(kind string) *graphql.Field {
		var t graphql.Output = graphql.Int
		switch kind {
		case "node", "lazyNode", "twoStageNode":
			t = node
		case "kids", "lazyList":
			t = graphql.NewList(node)
		}
		return &graphql.Field{Type: t, Resolve: func(p graphql.ResolveParams) (interface{}, error) {
			k := topOf(p)
			l.add(k, "top:resolve")
			switch kind {
			case "plain":
				return 7, nil
			case "thunk":
				return once(k, "top", 8), nil
			case "twoStage":
				return twice(k, "top", 9), nil
			case "node":
				return snode{k, "n"}, nil
			case "lazyNode":
				return once(k, "top", snode{k, "n"}), nil
			case "twoStageNode":
				return twice(k, "top", snode{k, "n"}), nil
			case "kids":
				return []interface{}{once(k, "top/0", snode{k, "a"}), twice(k, "top/1", snode{k, "b"})}, nil
			default: // lazyList: the list itself is deferred, and so are its items
				return once(k, "top", []interface{}{snode{k, "a"}, once(k, "top/1", snode{k, "b"})}), nil
			}
		}}
	}
	fields := graphql.Fields{}
	for _, k := range stagedKinds {
		fields[k] = top(k)
	}
	return graphql.NewSchema(graphql.SchemaConfig{
		Query:    graphql.NewObject(graphql.ObjectConfig{Name: "Q", Fields: graphql.Fields{"q": &graphql.Field{Type: graphql.Int}}}),
		Mutation: graphql.NewObject(graphql.ObjectConfig{Name: "M", Fields: fields}),
	})
}

var stagedKinds = []string{"plain", "thunk", "twoStage", "node", "lazyNode", "twoStageNode", "kids", "lazyList"}

var stagedSels = []string{
	"{ id lazy }",
	"{ twoStage lazyChild { id lazy twoStage } }",
	"{ lazyKids { lazy lazyChild { lazy } } }",
	"{ child { lazyChild { twoStage } } lazy }",
}

// stagedItems: the alphabet of top-level selections (without alias).
func stagedItems() []string {
	var out []string
	for _, k := range stagedKinds {
		switch k {
		case "plain", "thunk", "twoStage":
			out = append(out, k)
		default:
			for _, s := range stagedSels {
				out = append(out, k+" "+s)
			}
		}
	}
	return out
}

func byTop(evs []string) map[string][]string {
	m := map[string][]string{}
	for _, e := range evs {
		i := strings.Index(e, "|")
		m[e[:i]] = append(m[e[:i]], e[i+1:])
	}
	return m
}

func sortedCopy(xs []string) []string {
	out := append([]string(nil), xs...)
	sort.Strings(out)
	return out
}

func runStaged(c *core.Child) {
	l := &stagedLog{}
	schema, err := stagedSchema(l)
	if err != nil {
		if c.Begin("staged/build") {
			c.Violation("harness:schema-build", err.Error(), nil)
		}
		return
	}
	items := stagedItems()
	// aliases in reverse alphabetical order: the order of sorted response keys
	// (or of any map of them) is the reverse of the document order
	aliases := []string{"z", "m", "a"}
	exec := func(text string, viaPlan bool) (*graphql.Result, []string) {
		l.take()
		var res *graphql.Result
		if viaPlan {
			doc, perr := harness.Parse(text)
			if perr != nil {
				return nil, nil
			}
			plan, err := graphql.PlanQuery(&schema, doc, "")
			if err != nil {
				return nil, nil
			}
			res = graphql.ExecutePlan(plan, graphql.ExecuteParams{Schema: schema})
		} else {
			res = graphql.Do(graphql.Params{Schema: schema, RequestString: text})
		}
		return res, l.take()
	}
	// the stages each item runs in a mutation of its own
	alone := map[string][]string{}
	for _, it := range items {
		res, evs := exec("mutation { x: "+it+" }", false)
		if res == nil || len(res.Errors) > 0 {
			if c.Begin("staged/alone") {
				c.Violation("harness:staged-alone", fmt.Sprintf("single-field mutation %q failed: %v", it, res), nil)
			}
			return
		}
		alone[it] = sortedCopy(byTop(evs)["x"])
	}
	var seqs [][]int
	for i := range items {
		for j := range items {
			seqs = append(seqs, []int{i, j})
		}
	}
	r := c.RNG(77)
	for n := 0; n < c.Scale(400, 6000); n++ {
		seqs = append(seqs, []int{r.Intn(len(items)), r.Intn(len(items)), r.Intn(len(items))})
	}
	for si, seq := range seqs {
		if si%c.NBatches != c.Batch {
			continue
		}
		id := fmt.Sprintf("staged/%d", si)
		if !c.Begin(id) {
			continue
		}
		var parts []string
		for k, ix := range seq {
			parts = append(parts, aliases[k]+": "+items[ix])
		}
		text := "mutation { " + strings.Join(parts, " ") + " }"
		for _, viaPlan := range []bool{false, true} {
			entry := "Do"
			if viaPlan {
				entry = "PlanQuery+ExecutePlan"
			}
			var res *graphql.Result
			var evs []string
			if c.Guard("panic:staged-mutation", text, func() { res, evs = exec(text, viaPlan) }) {
				continue
			}
			c.Eval(1)
			if res == nil {
				continue
			}
			detail := map[string]interface{}{"document": text, "entry": entry, "events": evs}
			if len(res.Errors) > 0 {
				c.Violation("staged:errors", fmt.Sprintf("%s: a mutation without failing resolvers answered with errors: %v", entry, res.Errors), detail)
				break
			}
			// order: the top keys of the events, in log order, follow the document order
			rank := map[string]int{}
			for k := range seq {
				rank[aliases[k]] = k
			}
			bad := ""
			last := 0
			for _, e := range evs {
				k := rank[e[:strings.Index(e, "|")]]
				if k < last {
					bad = e
					break
				}
				last = k
			}
			if bad != "" {
				c.Violation("trace:order", fmt.Sprintf("%s: stage %q of an earlier top-level field ran after a later top-level field had started", entry, bad), detail)
				break
			}
			// exactly the stages of the field executed alone
			got := byTop(evs)
			ok := true
			for k, ix := range seq {
				// labels of nested stages start with the response path, i.e. with the alias
				var want []string
				for _, w := range alone[items[ix]] {
					if strings.HasPrefix(w, "x/") {
						w = aliases[k] + w[1:]
					}
					want = append(want, w)
				}
				sort.Strings(want)
				have := sortedCopy(got[aliases[k]])
				if strings.Join(want, "\n") != strings.Join(have, "\n") {
					ok = false
				}
				if !ok {
					c.Violation("trace:stages", fmt.Sprintf("%s: field %q ran stages %v next to other fields, %v alone (alias x)", entry, aliases[k]+": "+items[ix], have, want), detail)
					break
				}
			}
			if !ok {
				break
			}
		}
		c.Nontrivial(core.HashString("staged\x00" + text))
		c.Feature("staged-deferral")
	}
}
