package c04

// Leaf completion over the Go types a resolver may legitimately return: every
// integer, unsigned and floating kind, pointers to them (nil included),
// strings, booleans and time values, fed to Int / Float / String / Boolean /
// ID / DateTime fields (also inside lists and non-null positions). The
// oracle is intrinsic plus a small table:
//   - whatever the value, the leaf in the response is null or a legal
//     serialisation of the field's type (Int: integer within 32 bits; Float:
//     finite number; String / ID / DateTime: string; Boolean: bool);
//   - for the unambiguous inputs (a typed integer that fits, a float that is
//     finite, a string, a bool, a pointer to one of those, a time value) the
//     leaf is exactly that value; a nil pointer, an integer beyond 32 bits, a
//     NaN or infinity gives null;
//   - a null in a non-null position nulls data and reports an error.
// Lenient cross-type conversions (bool -> Int, string -> Float, number ->
// String …) are checked for legality only.

import (
	"encoding/json"
	"fmt"
	"math"
	"reflect"
	"strings"
	"time"

	"github.com/graphql-go/graphql"

	"verif/internal/core"
)

type gkCase struct {
	name  string
	value interface{}
	// want per field type: nil = "must be null"; missing = legality only
	want map[string]interface{}
}

func gkCases() []gkCase {
	i := 5
	i8, i16, i32, i64 := int8(-8), int16(1600), int32(math.MinInt32), int64(math.MaxInt32)
	u, u8, u16, u32, u64 := uint(7), uint8(255), uint16(65535), uint32(math.MaxInt32), uint64(12)
	f32, f64 := float32(1.5), float64(-2.25)
	s, b := "text", true
	bigI64, bigU32, bigU64, bigU := int64(1)<<40, uint32(3000000000), uint64(1)<<63, uint(1)<<33
	t := time.Date(2020, 2, 29, 23, 59, 58, 123456789, time.FixedZone("x", 3600))
	var nilI *int
	var nilF *float64
	var nilS *string
	big3e9 := "3000000000"
	var nilB *bool
	var nilT *time.Time
	var nilU8 *uint8
	num := func(v float64) map[string]interface{} {
		return map[string]interface{}{"Int": v, "Float": v}
	}
	out := []gkCase{
		{"int", i, num(5)}, {"int8", i8, num(-8)}, {"int16", i16, num(1600)}, {"int32-min", i32, num(math.MinInt32)}, {"int64-max32", i64, num(math.MaxInt32)},
		{"uint", u, num(7)}, {"uint8", u8, num(255)}, {"uint16", u16, num(65535)}, {"uint32-max31", u32, num(math.MaxInt32)}, {"uint64", u64, num(12)},
		{"*int", &i, num(5)}, {"*int8", &i8, num(-8)}, {"*int16", &i16, num(1600)}, {"*int32", &i32, num(math.MinInt32)}, {"*int64", &i64, num(math.MaxInt32)},
		{"*uint", &u, num(7)}, {"*uint8", &u8, num(255)}, {"*uint16", &u16, num(65535)}, {"*uint32", &u32, num(math.MaxInt32)}, {"*uint64", &u64, num(12)},
		{"int64-2^40", bigI64, map[string]interface{}{"Int": nil, "Float": float64(bigI64)}},
		{"*int64-2^40", &bigI64, map[string]interface{}{"Int": nil, "Float": float64(bigI64)}},
		{"int64-min32-1", int64(math.MinInt32) - 1, map[string]interface{}{"Int": nil, "Float": float64(math.MinInt32) - 1}},
		{"uint32-3e9", bigU32, map[string]interface{}{"Int": nil, "Float": float64(bigU32)}},
		{"*uint32-3e9", &bigU32, map[string]interface{}{"Int": nil, "Float": float64(bigU32)}},
		{"uint64-2^63", bigU64, map[string]interface{}{"Int": nil, "Float": float64(bigU64)}},
		{"*uint64-2^63", &bigU64, map[string]interface{}{"Int": nil, "Float": float64(bigU64)}},
		{"uint-2^33", bigU, map[string]interface{}{"Int": nil, "Float": float64(bigU)}},
		{"int-2^31", int(math.MaxInt32) + 1, map[string]interface{}{"Int": nil, "Float": float64(math.MaxInt32) + 1}},
		{"float32-1.5", f32, map[string]interface{}{"Float": 1.5}},
		{"*float32-1.5", &f32, map[string]interface{}{"Float": 1.5}},
		{"float64--2.25", f64, map[string]interface{}{"Float": -2.25}},
		{"*float64--2.25", &f64, map[string]interface{}{"Float": -2.25}},
		{"float64-7", float64(7), num(7)},
		{"float32-3", float32(3), num(3)},
		{"float32-2^31", float32(2147483648), map[string]interface{}{"Int": nil, "Float": float64(2147483648)}},
		{"float64-2^31", float64(2147483648), map[string]interface{}{"Int": nil, "Float": float64(2147483648)}},
		{"float64--2^31-1", float64(-2147483649), map[string]interface{}{"Int": nil, "Float": float64(-2147483649)}},
		{"float32-NaN", float32(math.NaN()), map[string]interface{}{"Int": nil, "Float": nil}},
		{"float64-NaN", math.NaN(), map[string]interface{}{"Int": nil, "Float": nil}},
		{"float32-Inf", float32(math.Inf(1)), map[string]interface{}{"Int": nil, "Float": nil}},
		{"float64--Inf", math.Inf(-1), map[string]interface{}{"Int": nil, "Float": nil}},
		{"string", s, map[string]interface{}{"String": "text", "ID": "text"}},
		{"*string", &s, map[string]interface{}{"String": "text", "ID": "text"}},
		{"string-empty", "", map[string]interface{}{"String": "", "ID": ""}},
		// numeric strings: an Int position takes the ones inside 32 bits only
		{"string-3e9", "3000000000", map[string]interface{}{"String": "3000000000", "ID": "3000000000", "Int": nil}},
		{"*string-3e9", &big3e9, map[string]interface{}{"String": "3000000000", "ID": "3000000000", "Int": nil}},
		{"string--2^32", "-4294967296", map[string]interface{}{"String": "-4294967296", "Int": nil}},
		{"string-2^31", "2147483648", map[string]interface{}{"String": "2147483648", "Int": nil}},
		{"string--2^31-1", "-2147483649", map[string]interface{}{"String": "-2147483649", "Int": nil}},
		{"string-max32", "2147483647", map[string]interface{}{"String": "2147483647", "Int": float64(2147483647)}},
		{"string-min32", "-2147483648", map[string]interface{}{"String": "-2147483648", "Int": float64(-2147483648)}},
		{"string-2^63-1", "9223372036854775807", map[string]interface{}{"String": "9223372036854775807", "Int": nil}},
		{"string-1e20", "100000000000000000000", map[string]interface{}{"String": "100000000000000000000", "Int": nil}},
		{"string-1e10", "1e10", map[string]interface{}{"String": "1e10", "Int": nil}},
		{"string-3e9.0", "3000000000.0", map[string]interface{}{"String": "3000000000.0", "Int": nil}},
		{"bool", b, map[string]interface{}{"Boolean": true}},
		{"*bool", &b, map[string]interface{}{"Boolean": true}},
		{"bool-false", false, map[string]interface{}{"Boolean": false}},
		{"id-int", 42, map[string]interface{}{"ID": "42", "Int": float64(42), "Float": float64(42)}},
		{"time", t, map[string]interface{}{"DateTime": "2020-02-29T23:59:58.123456789+01:00"}},
		{"*time", &t, map[string]interface{}{"DateTime": "2020-02-29T23:59:58.123456789+01:00"}},
		{"time-utc", time.Date(1999, 12, 31, 0, 0, 0, 0, time.UTC), map[string]interface{}{"DateTime": "1999-12-31T00:00:00Z"}},
	}
	// the enum Shade has the internal values 1, "text", true: a resolver value (or
	// a pointer to one) equal to an internal value gives that value's name,
	// any other value gives null
	for i := range out {
		v := out[i].value
		rv := reflect.ValueOf(v)
		if rv.Kind() == reflect.Ptr && !rv.IsNil() {
			v = rv.Elem().Interface()
		}
		switch v {
		case 1:
			out[i].want["Enum"] = "ONE"
		case "text":
			out[i].want["Enum"] = "TEXT"
		case true:
			out[i].want["Enum"] = "TRUE"
		default:
			out[i].want["Enum"] = nil
		}
	}
	one := 1
	out = append(out, gkCase{"int-1", 1, map[string]interface{}{"Enum": "ONE", "Int": float64(1), "Float": float64(1), "ID": "1"}},
		gkCase{"*int-1", &one, map[string]interface{}{"Enum": "ONE", "Int": float64(1), "Float": float64(1)}})
	allNil := map[string]interface{}{"Enum": nil, "Int": nil, "Float": nil, "String": nil, "Boolean": nil, "ID": nil, "DateTime": nil}
	for _, n := range []gkCase{{"nil-*int", nilI, nil}, {"nil-*float64", nilF, nil}, {"nil-*string", nilS, nil}, {"nil-*bool", nilB, nil}, {"nil-*time", nilT, nil}, {"nil-*uint8", nilU8, nil}, {"nil", nil, nil}} {
		n.want = allNil
		if n.name == "nil-*time" {
			// a nil *time.Time is only meaningful to DateTime; elsewhere: legality only
			n.want = map[string]interface{}{"DateTime": nil}
		}
		out = append(out, n)
	}
	return out
}

var gkEnum = graphql.NewEnum(graphql.EnumConfig{Name: "Shade", Values: graphql.EnumValueConfigMap{
	"ONE": &graphql.EnumValueConfig{Value: 1}, "TEXT": &graphql.EnumValueConfig{Value: "text"}, "TRUE": &graphql.EnumValueConfig{Value: true}}})

var gkTypes = []struct {
	name string
	t    graphql.Output
}{{"Int", graphql.Int}, {"Float", graphql.Float}, {"String", graphql.String}, {"Boolean", graphql.Boolean}, {"ID", graphql.ID}, {"DateTime", graphql.DateTime}, {"Enum", gkEnum}}

func gkLegal(typ string, v interface{}) bool {
	if v == nil {
		return true
	}
	switch typ {
	case "Int":
		f, ok := v.(float64)
		return ok && f == math.Trunc(f) && f >= math.MinInt32 && f <= math.MaxInt32
	case "Float":
		f, ok := v.(float64)
		return ok && !math.IsNaN(f) && !math.IsInf(f, 0)
	case "Boolean":
		_, ok := v.(bool)
		return ok
	case "Enum":
		n, ok := v.(string)
		return ok && (n == "ONE" || n == "TEXT" || n == "TRUE")
	default:
		_, ok := v.(string)
		return ok
	}
}

func goKinds(c *core.Child) {
	cases := gkCases()
	byName := map[string]*gkCase{}
	for i := range cases {
		byName[cases[i].name] = &cases[i]
	}
	pick := func(p graphql.ResolveParams) interface{} {
		m, _ := p.Info.RootValue.(map[string]interface{})
		return m["v"]
	}
	fields := graphql.Fields{}
	for _, gt := range gkTypes {
		gt := gt
		fields["x"+gt.name] = &graphql.Field{Type: gt.t, Resolve: func(p graphql.ResolveParams) (interface{}, error) { return pick(p), nil }}
		fields["nn"+gt.name] = &graphql.Field{Type: graphql.NewNonNull(gt.t), Resolve: func(p graphql.ResolveParams) (interface{}, error) { return pick(p), nil }}
		fields["l"+gt.name] = &graphql.Field{Type: graphql.NewList(gt.t), Resolve: func(p graphql.ResolveParams) (interface{}, error) {
			return []interface{}{pick(p), pick(p)}, nil
		}}
	}
	// non-null probes live under a nullable object so that the null has a nullable ancestor
	box := graphql.NewObject(graphql.ObjectConfig{Name: "Box", Fields: fields})
	q := graphql.NewObject(graphql.ObjectConfig{Name: "Query", Fields: graphql.Fields{
		"box": &graphql.Field{Type: box, Resolve: func(p graphql.ResolveParams) (interface{}, error) { return map[string]interface{}{}, nil }},
	}})
	schema, err := graphql.NewSchema(graphql.SchemaConfig{Query: q})
	if err != nil {
		if c.Begin("gokinds/build") {
			c.Violation("harness:schema-build", err.Error(), nil)
		}
		return
	}
	cache := graphql.NewPlanCache(graphql.PlanCacheOptions{MaxEntries: 64})
	for _, gc := range cases {
		for _, gt := range gkTypes {
			id := fmt.Sprintf("gokinds/%s/%s", gc.name, gt.name)
			if !c.Begin(id) {
				continue
			}
			text := fmt.Sprintf("{ box { x%s l%s } nn: box { nn%s } }", gt.name, gt.name, gt.name)
			root := map[string]interface{}{"v": gc.value}
			info := map[string]interface{}{"go_value": fmt.Sprintf("%T(%v)", gc.value, gc.value), "field_type": gt.name, "document": text}
			for _, entry := range []string{"Do", "PlanCache"} {
				var res *graphql.Result
				if c.Guard("panic:"+entry, text, func() {
					if entry == "Do" {
						res = graphql.Do(graphql.Params{Schema: schema, RequestString: text, RootObject: root})
					} else {
						pr := cache.Get(&schema, text, "")
						if pr.Plan == nil {
							res = &graphql.Result{Errors: pr.Errors}
							return
						}
						res = graphql.ExecutePlan(pr.Plan, graphql.ExecuteParams{Schema: schema, Root: root})
					}
				}) {
					continue
				}
				c.Eval(1)
				c.Feature("go-kinds:" + gt.name)
				raw, err := json.Marshal(res)
				if err != nil {
					c.Violation("go-kinds:unserialisable", fmt.Sprintf("%s: response cannot be marshalled: %v", entry, err), info)
					continue
				}
				var dec struct {
					Data   map[string]map[string]interface{} `json:"data"`
					Errors []map[string]interface{}          `json:"errors"`
				}
				if err := json.Unmarshal(raw, &dec); err != nil {
					c.Violation("go-kinds:shape", fmt.Sprintf("%s: response %s does not have the shape of the query", entry, raw), info)
					continue
				}
				bad := func(sig, msg string) {
					c.Violation(sig, fmt.Sprintf("%s: %s; response %s", entry, msg, raw), info)
				}
				boxv := dec.Data["box"]
				if boxv == nil {
					bad("go-kinds:shape", "data.box is missing or null")
					continue
				}
				leaf, ok := boxv["x"+gt.name]
				if !ok {
					bad("go-kinds:shape", "selected key missing")
				}
				if !gkLegal(gt.name, leaf) {
					bad("go-kinds:illegal-leaf", fmt.Sprintf("leaf %v (%T) is not a legal %s", leaf, leaf, gt.name))
				}
				want, exact := gc.want[gt.name]
				if exact {
					same := fmt.Sprint(want) == fmt.Sprint(leaf) && (want == nil) == (leaf == nil)
					if wf, ok := want.(float64); ok && !same && strings.Contains(gc.name, "float32") {
						// a float32 is printed with float32 precision: equal if it reads back as the same float32
						lf, ok2 := leaf.(float64)
						same = ok2 && float32(lf) == float32(wf)
					}
					if !same {
						bad("go-kinds:value", fmt.Sprintf("a resolver returning %T(%v) for a field of type %s must give %v, got %v", gc.value, gc.value, gt.name, want, leaf))
					}
				} else {
					c.DontCare("lenient-cross-type-serialisation")
				}
				// list: both elements are the leaf again
				if lst, isList := boxv["l"+gt.name].([]interface{}); !isList || len(lst) != 2 {
					bad("go-kinds:shape", "list field is not a list of two")
				} else {
					for _, el := range lst {
						if fmt.Sprint(el) != fmt.Sprint(leaf) {
							bad("go-kinds:list-element", fmt.Sprintf("list element %v differs from the plain leaf %v", el, leaf))
						}
					}
				}
				// non-null position: the value, or the enclosing nullable object is null and an error names the field
				nn, present := dec.Data["nn"]
				if !present {
					bad("go-kinds:shape", "key nn missing")
				} else if leaf == nil {
					if nn != nil {
						bad("go-kinds:null-in-non-null", fmt.Sprintf("nn%s is null-valued but its object was not nulled", gt.name))
					}
					found := false
					for _, e := range dec.Errors {
						if p, _ := json.Marshal(e["path"]); strings.Contains(string(p), `"nn`+gt.name+`"`) {
							found = true
						}
					}
					if !found {
						bad("go-kinds:no-error-for-null-in-non-null", "no error addresses the non-null field that got null")
					}
				} else if nn == nil || fmt.Sprint(nn["nn"+gt.name]) != fmt.Sprint(leaf) {
					bad("go-kinds:non-null-value", fmt.Sprintf("non-null field gives %v, nullable twin gives %v", nn, leaf))
				}
			}
			c.Nontrivial(core.HashString(id))
		}
	}
	c.Sample("go-kinds", map[string]interface{}{"values": len(cases), "field_types": len(gkTypes), "example": "int64(1<<40) in an Int field must give null; uint8(255) must give 255"})
}
