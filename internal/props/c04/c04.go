// Package c04: responses are well-formed for schema and query whatever
// resolvers, type resolvers and isTypeOf functions return (fault enumeration).
package c04

import (
	"fmt"
	"sort"
	"strconv"
	"strings"
	"time"

	"github.com/graphql-go/graphql"

	"verif/internal/build"
	"verif/internal/core"
	"verif/internal/gen/schemagen"
	"verif/internal/gen/typedoc"
	"verif/internal/harness"
	"verif/internal/model"
	"verif/internal/mon/conform"
	"verif/internal/mon/respcmp"
	"verif/internal/nast"
	"verif/internal/ref/exec"
	"verif/internal/values"
)

func init() {
	core.Register(&core.Check{
		ID: "C04", Level: "fault_enumeration",
		Technique: "fault injection at every resolver invocation and list element (single-fault enumeration over 22 adversarial outcome kinds, then random multi-fault tables) with an intrinsic schema-conformance monitor on the response plus a differential against the reference executor for everything outside the faulted position",
		Rule: "case = (schema, valid document, variables, outcome table); single-fault enumeration places each applicable adversarial outcome kind at each of the n (<= 40) invocation / list-element positions of the fault-free execution; " +
			"non-trivial: the fault position was actually reached (the instrumented resolver logged the injected outcome, or the element exists) ; distinct by hash(schema, document, variables, outcome table)",
		Assumptions: []string{
			"leaf legality follows the edition's lenient result coercion (DESIGN.md Appendix A.3): only legality, not the exact value, is checked at a position whose injected value is outside the scalar's natural domain",
			"the reference executor is trusted for sibling values outside the nulled subtree",
		},
		Batches:      func(tier string) int { return map[string]int{"quick": 8, "thorough": 16}[tier] },
		Run:          run,
		ChildTimeout: func(tier string) time.Duration { return 25 * time.Minute },
		MinEvals:     func(tier string) int { return 3000 },
	})
}

// latticeModel realises every nullability lattice of depth <= 3 over object,
// list, list-of-non-null, abstract and leaf positions.
func latticeModel() *model.Schema {
	N := func(n string) *model.TypeRef { return model.Named(n) }
	NN := model.NonNull
	L := model.ListOf
	fields := func(prefix string) []*model.FieldDef {
		var fs []*model.FieldDef
		add := func(name string, t *model.TypeRef) { fs = append(fs, &model.FieldDef{Name: prefix + name, Type: t}) }
		add("n", N("N"))
		add("nn", NN(N("N")))
		add("ln", L(N("N")))
		add("lnn", L(NN(N("N"))))
		add("nln", NN(L(N("N"))))
		add("nlnn", NN(L(NN(N("N")))))
		add("lln", L(L(N("N"))))
		add("llnn", L(NN(L(NN(N("N"))))))
		add("s", N("String"))
		add("sn", NN(N("String")))
		add("i", N("Int"))
		add("in", NN(N("Int")))
		add("f", N("Float"))
		add("b", N("Boolean"))
		add("id", N("ID"))
		add("e", N("E"))
		add("en", NN(N("E")))
		add("t", N("Tag"))
		add("ls", L(N("Int")))
		add("lsn", L(NN(N("Int"))))
		add("nlsn", NN(L(NN(N("E")))))
		add("if", N("I"))
		add("ifn", NN(N("I")))
		add("lif", L(N("I")))
		add("u", N("U"))
		add("lun", L(NN(N("U"))))
		return fs
	}
	ifields := []*model.FieldDef{{Name: "is", Type: N("String")}, {Name: "isn", Type: NN(N("Int"))}, {Name: "inode", Type: N("N")}}
	m := &model.Schema{Query: "N", Types: []*model.TypeDef{
		{Kind: model.Scalar, Name: "Tag"},
		{Kind: model.Enum, Name: "E", Values: []*model.EnumVal{{Name: "RED", Internal: 0}, {Name: "GREEN", Internal: 1}, {Name: "BLUE", Internal: "blue!"}}},
		{Kind: model.Interface, Name: "I", Fields: ifields},
		{Kind: model.Object, Name: "A", Interfaces: []string{"I"}, UseIsTypeOf: true, Fields: append(append([]*model.FieldDef{}, ifields...), &model.FieldDef{Name: "a", Type: N("String")})},
		{Kind: model.Object, Name: "B", Interfaces: []string{"I"}, Fields: append(append([]*model.FieldDef{}, ifields...), &model.FieldDef{Name: "b", Type: NN(N("String"))})},
		{Kind: model.Object, Name: "C", Fields: []*model.FieldDef{{Name: "c", Type: N("Int")}}},
		{Kind: model.Union, Name: "U", Members: []string{"A", "C"}},
		{Kind: model.Object, Name: "N", Fields: fields("")},
	}, Extra: []string{"A", "B", "C"}}
	m.Reindex()
	return m
}

var faultKinds = []values.Kind{values.Nil, values.Error, values.ValueError, values.PanicError, values.PanicString, values.PanicStruct,
	values.ThunkValue, values.ThunkNil, values.ThunkError, values.ThunkPanic, values.TypedNil, values.WrongKind, values.NaN,
	values.OutOfRange, values.UnknownEnum, values.BadRuntimeType, values.NilRuntimeType, values.IsTypeOfFalse, values.ThunkThunk,
	values.Inf, values.NumericString, values.SerializeToNil}

var elementKinds = []values.Kind{values.Nil, values.ThunkValue, values.ThunkNil, values.ThunkError, values.BadRuntimeType, values.NilRuntimeType, values.IsTypeOfFalse}

type caseInfo struct {
	SDL      string                 `json:"schema"`
	Doc      string                 `json:"document"`
	Op       string                 `json:"operation"`
	Vars     map[string]interface{} `json:"variables"`
	Outcomes string                 `json:"outcomes"`
	Entry    string                 `json:"entry"`
	Expected string                 `json:"expected_data,omitempty"`
	Got      string                 `json:"got,omitempty"`
}

func wildKind(k values.Kind) bool {
	switch k {
	case values.WrongKind, values.OutOfRange, values.UnknownEnum, values.BadRuntimeType, values.NilRuntimeType, values.IsTypeOfFalse, values.ThunkThunk,
		values.Inf, values.NumericString, values.SerializeToNil:
		return true
	}
	return false
}

// check runs one case and reports. Returns whether the faulted outcome was logged.
func check(c *core.Child, env *build.Env, text string, doc *nast.Document, opName string, vars map[string]interface{}, o *values.Outcomes, plan *graphql.Plan) {
	exp := exec.Execute(env.Model, doc, opName, vars, o, env.Seed)
	if exp.VarStatus == 2 || exp.RequestError {
		return
	}
	runtime := func(abstract, path string) string {
		if wildKind(o.At(path)) {
			return ""
		}
		return values.RuntimeType(env.Model, env.Seed, abstract, path)
	}
	one := func(r *harness.Run) {
		c.Eval(1)
		var msgs []string
		sig := ""
		var got interface{}
		if r.Result != nil {
			got = r.Result.Data
			if m, ok := got.(map[string]interface{}); ok && m == nil {
				got = nil
			}
		}
		// (1) intrinsic conformance
		probs := conform.Check(env.Model, doc, exp.Op, exp.Vars, got, runtime)
		for _, p := range probs {
			msgs = append(msgs, "conformance "+p.String())
			if sig == "" {
				sig = "conform:" + p.Class
			}
		}
		// (2) differential
		ms := respcmp.Compare(exp, r.Result)
		for _, m := range harness.CompareInvocations(exp, r.Events, false) {
			if m.Class == "invoked-twice" || (len(exp.Wild) == 0 && (m.Class == "not-invoked" || m.Class == "unexpected-invocation")) {
				ms = append(ms, m)
			}
		}
		for _, m := range ms {
			msgs = append(msgs, m.String())
			if sig == "" {
				sig = "mismatch:" + m.Class
			}
		}
		// (3) every logged failing invocation: null at its path or a prefix
		for _, ev := range harness.Resolves(r.Events) {
			if ev.Outcome.Fails() && got != nil {
				if !nullAtOrAbove(got, ev.Path) {
					msgs = append(msgs, fmt.Sprintf("failed field %q (%s) is not null in data", ev.Path, ev.Outcome))
					if sig == "" {
						sig = "failed-field-not-null"
					}
				}
			}
		}
		if len(msgs) == 0 {
			return
		}
		if exp.ThunkNonNullFailure && r.Result != nil && r.Result.Data == nil && len(r.Result.Errors) > 0 && len(probs) == 0 {
			sig = "relax:thunk-failure-in-nonnull-position"
		}
		info := caseInfo{SDL: env.Model.SDL(), Doc: text, Op: opName, Vars: vars, Outcomes: o.Describe(), Entry: r.Entry, Expected: respcmp.Canon(exp.Data), Got: respcmp.Canon(r.Result)}
		c.Violation(sig, r.Entry+": "+strings.Join(msgs, "; "), info)
	}
	c.Guard("panic:Do", text+" | "+o.Describe(), func() { one(harness.Do(env, text, opName, vars, o, nil)) })
	if plan != nil {
		c.Guard("panic:ExecutePlan", text+" | "+o.Describe(), func() { one(harness.ExecutePlan(env, plan, vars, o, nil, nil)) })
	}
}

func nullAtOrAbove(data interface{}, path string) bool {
	cur := data
	for _, p := range strings.Split(path, "/") {
		if cur == nil {
			return true
		}
		switch x := cur.(type) {
		case map[string]interface{}:
			v, ok := x[p]
			if !ok {
				return true // key absent: the position was never produced (sibling of a propagated null)
			}
			cur = v
		case []interface{}:
			i, err := strconv.Atoi(p)
			if err != nil || i >= len(x) {
				return true
			}
			cur = x[i]
		default:
			return false
		}
	}
	return cur == nil
}

// positions of the fault-free execution: invocation paths and list element paths.
func positions(exp *exec.Expect) (fieldPaths, elemPaths []string) {
	for _, inv := range exp.Invocations {
		fieldPaths = append(fieldPaths, inv.Path)
	}
	var walk func(v interface{}, path string)
	walk = func(v interface{}, path string) {
		switch x := v.(type) {
		case map[string]interface{}:
			ks := make([]string, 0, len(x))
			for k := range x {
				ks = append(ks, k)
			}
			sort.Strings(ks)
			for _, k := range ks {
				p := k
				if path != "" {
					p = path + "/" + k
				}
				walk(x[k], p)
			}
		case []interface{}:
			for i, it := range x {
				p := path + "/" + strconv.Itoa(i)
				elemPaths = append(elemPaths, p)
				walk(it, p)
			}
		}
	}
	walk(exp.Data, "")
	return
}

func run(c *core.Child) {
	goKinds(c)
	type src struct {
		m    *model.Schema
		opts func(r *core.RNG) typedoc.Options
	}
	var sources []src
	sources = append(sources, src{latticeModel(), func(r *core.RNG) typedoc.Options {
		o := typedoc.DefaultOptions(r)
		o.MaxDepth = r.Range(2, 4)
		o.MaxWidth = r.Range(2, 5)
		o.DirPct = 10
		o.Fragments = r.Range(0, 2)
		o.Ops = 1
		return o
	}})
	nGen := c.Scale(2, 12)
	for i := 0; i < nGen; i++ {
		sr := c.RNG(1, uint64(i))
		sources = append(sources, src{schemagen.Gen(sr, schemagen.DefaultOptions(sr)), func(r *core.RNG) typedoc.Options {
			o := typedoc.DefaultOptions(r)
			o.Ops = 1
			o.Mutation = false
			return o
		}})
	}
	nDocs := c.Scale(6, 30)
	maxPos := 40
	for si, s := range sources {
		env, err := build.Build(s.m, c.RNG(9, uint64(si)).U64())
		if err != nil {
			if c.Begin(fmt.Sprintf("s%d/build", si)) {
				c.Violation("harness:schema-build", err.Error(), s.m.SDL())
			}
			continue
		}
		for di := 0; di < nDocs; di++ {
			dr := c.RNG(2, uint64(si), uint64(di))
			d := typedoc.Gen(dr, s.m, s.opts(dr))
			text := nast.Print(d.AST)
			astDoc, perr := harness.Parse(text)
			if perr != nil {
				continue
			}
			if vr := graphql.ValidateDocument(&env.Schema, astDoc, nil); !vr.IsValid {
				c.Feature("generated-invalid")
				continue
			}
			op := d.Ops[0]
			opName := ""
			if op.Name != nil {
				opName = op.Name.Value
			}
			vars := typedoc.Assignment(dr, s.m, d, op, dr.U64())
			base := exec.Execute(s.m, d.AST, opName, vars, nil, env.Seed)
			if base.RequestError || base.VarStatus == 2 {
				continue
			}
			var plan *graphql.Plan
			if p, err := graphql.PlanQuery(&env.Schema, astDoc, opName); err == nil {
				plan = p
			}
			fps, eps := positions(base)
			type pos struct {
				path string
				elem bool
			}
			var all []pos
			for _, p := range fps {
				all = append(all, pos{p, false})
			}
			for _, p := range eps {
				all = append(all, pos{p, true})
			}
			if len(all) > maxPos {
				perm := dr.Perm(len(all))
				var pick []pos
				for _, i := range perm[:maxPos] {
					pick = append(pick, all[i])
				}
				all = pick
			}
			c.FeatureN("positions", int64(len(all)))
			for pi, p := range all {
				kinds := faultKinds
				if p.elem {
					kinds = elementKinds
				}
				for _, k := range kinds {
					id := fmt.Sprintf("s%d/d%d/p%d/k%d", si, di, pi, int(k))
					if !c.Begin(id) {
						continue
					}
					o := &values.Outcomes{Explicit: map[string]values.Kind{p.path: k}, ErrorForms: true}
					check(c, env, text, d.AST, opName, vars, o, planIf(plan, (pi+int(k))%4 == 0))
					c.Feature("fault:" + k.String())
					c.Nontrivial(core.HashString(s.m.SDL() + "\x00" + text + "\x00" + harness.CanonArgs(vars) + "\x00" + o.Describe()))
					if pi == 0 {
						c.Sample("single-fault", map[string]interface{}{"document": text, "variables": vars, "fault": o.Describe()})
					}
				}
			}
			// random multi-fault tables
			nMulti := c.Scale(6, 40)
			for mi := 0; mi < nMulti; mi++ {
				id := fmt.Sprintf("s%d/d%d/m%d", si, di, mi)
				if !c.Begin(id) {
					continue
				}
				mr := c.RNG(4, uint64(si), uint64(di), uint64(mi))
				o := &values.Outcomes{Seed: mr.U64(), Density: mr.Range(10, 50), Kinds: faultKinds, ErrorForms: true}
				check(c, env, text, d.AST, opName, vars, o, planIf(plan, mi%3 == 0))
				c.Feature("multi-fault")
				c.Nontrivial(core.HashString(s.m.SDL() + "\x00" + text + "\x00" + harness.CanonArgs(vars) + "\x00" + o.Describe()))
			}
		}
	}
}

func planIf(p *graphql.Plan, cond bool) *graphql.Plan {
	if cond {
		return p
	}
	return nil
}
